(* Declarative specification of serialization without pass-through: the documented JSON image of a typed value.
   No method trees, no identity / check-only shortcuts, no field strategies.  No proofs here. *)
From Coq Require Import List String ZArith Bool Arith.
From AV Require Import Core.Json Core.Errors Core.Text Small.Ordering Deser.Model Ser.Model.
Import ListNotations.
Open Scope string_scope.

(* ------------------------------------------------------------------ well-typed values *)
Definition fields_of (u : univ) (c : nat) : list fdef := cd_fields (get_cls u c).

(* a Python dict: no two keys are equal *)
Fixpoint keys_distinct (seen : list value) (kvs : list (value * value)) : bool :=
  match kvs with
  | [] => true
  | (k, _) :: r => negb (existsb (py_eq k) seen) && keys_distinct (seen ++ [k]) r
  end.

Fixpoint has_type (u : univ) (fuel : nat) : ty -> value -> bool :=
  fix go (t : ty) (v : value) {struct t} : bool :=
    match t with
    | TNone => match v with VNone => true | _ => false end
    | TBool => match v with VBool _ => true | _ => false end
    | TInt => match v with VInt _ => true | _ => false end
    | TFloat => match v with VFloat _ => true | _ => false end
    | TStr => match v with VStr _ => true | _ => false end
    | TAny => match fuel with
              | O => false
              | S f => match ty_of_class v with Some t' => has_type u f t' v | None => false end
              end
    | TColl k t' =>
        match k, v with
        | KList, VList l | KSet, VSet l | KFrozenSet, VFrozenSet l | KVarTuple, VTuple l
        | KSeq, VList l | KSeq, VTuple l | KColl, VList l | KColl, VTuple l
        | KAbsSet, VSet l | KAbsSet, VFrozenSet l => forallb (go t') l
        | _, _ => false
        end
    | TTuple ts =>
        match v with
        | VTuple l => (fix zip (ts : list ty) (l : list value) : bool :=
                         match ts, l with
                         | [], [] => true
                         | t1 :: tr, x :: r => go t1 x && zip tr r
                         | _, _ => false
                         end) ts l
        | _ => false
        end
    | TMap kt vt =>
        match v with
        | VDict kvs => forallb (fun kv => go kt (fst kv) && go vt (snd kv)) kvs && keys_distinct [] kvs
        | _ => false
        end
    | TLit vs => match v with
                 | VNone => existsb (prim_eqb LNone) vs
                 | VBool b => existsb (prim_eqb (LBool b)) vs
                 | VInt z => existsb (prim_eqb (LInt z)) vs
                 | VStr s => existsb (prim_eqb (LStr s)) vs
                 | _ => false end
    | TEnum e => match v with VEnum e' p => Nat.eqb e e' && existsb (prim_eqb p) (get_enum u e) | _ => false end
    | TCon _ t' => go t' v
    | TUnion ts =>
        (* unambiguous typing: the value belongs to the first alternative whose runtime class matches *)
        match ts with
        | [t1] => go t1 v
        | _ =>
            forallb (fun t' => match expected_class u t' with Some _ => true | None => false end) ts
            && (fix first (ts : list ty) : bool :=
                  match ts with
                  | [] => false
                  | t1 :: tr => match expected_class u t1 with
                                | Some x => if isinst u v x then go t1 v else first tr
                                | None => false end
                  end) ts
        end
    | TObj c =>
        match fuel with
        | O => false
        | S f =>
            let cd := get_cls u c in
            match cd_kind cd, v with
            | KTypedDict, VDict kvs =>
                forallb (fun fd => match vdict_get (fd_name fd) kvs with
                                   | Some x => has_type u f (fd_ty fd) x
                                   | None => negb (fd_required fd) end) (cd_fields cd)
                && forallb (fun kv => match fst kv with VStr _ => true | _ => false end) kvs
            | KTypedDict, _ => false
            | _, VObj c' fs =>
                Nat.eqb c c'
                && forallb (fun fd => match dict_get (fd_name fd) fs with
                                      | Some VUndefined => fs_undefined (fd_ser fd)
                                      | Some VNone => fs_none_undef (fd_ser fd) || has_type u f (fd_ty fd) VNone
                                      | Some x => has_type u f (fd_ty fd) x
                                      | None => false end) (cd_fields cd)
                && (negb (cd_fields_set cd) || match dict_get fields_set_attr fs with Some (VList _) => true | _ => false end)
            | _, _ => false
            end
        end
    end.

(* ------------------------------------------------------------------ the documented image *)
Definition no_pass_through (o : sopts) : bool :=
  negb (pt_any o || pt_collections o || pt_dataclasses o || pt_enums o || pt_tuple o).

(* is the field left out of the output (C04's omission rule) *)
Definition omitted (o : sopts) (cd : cdef) (obj : value) (f : fdef) (x : option value) : bool :=
  let dflt := if fd_required f then None else Some (fd_default f) in
  match x with
  | None => true                                            (* TypedDict key absent *)
  | Some v =>
      ((so_excl_unset o && cd_fields_set cd && negb (in_fields_set obj (fd_name f)))
       || skip_if_holds (fs_skip_if (fd_ser f)) v
       || (is_vundef v && (fs_undefined (fd_ser f) || match dflt with Some VUndefined => true | _ => false end))
       || (is_vnone v && (fs_none_undef (fd_ser f) || (so_excl_none o && ty_has_none (fd_ty f))
                          || ((fs_skip_default (fd_ser f) || so_excl_defaults o) && match dflt with Some VNone => true | _ => false end)))
       || ((fs_skip_default (fd_ser f) || so_excl_defaults o)
           && match dflt with
              | Some VNone | Some VUndefined | None => false
              | Some dv => value_pyeq v dv end))%bool
  end.

Inductive elem := EField (f : fdef) | EMethod (m : smeth_def).

Definition elem_name (e : elem) : string := match e with EField f => fd_name f | EMethod m => sm_name m end.
Definition elem_order (e : elem) : option ordering := match e with EField f => fs_order (fd_ser f) | EMethod m => sm_order m end.

(* fields then serialized methods, placed by the order() specifications *)
Definition ordered_elems (cd : cdef) : option (list elem) :=
  let es := (map EField (cd_fields cd) ++ map EMethod (cd_methods cd))%list in
  match sort_by_order (cd_order cd) (map (fun e => {| ename := elem_name e; eord := elem_order e |}) es) with
  | None => None
  | Some sorted => Some (flat_map (fun x => match find (fun e => String.eqb (elem_name e) (ename x)) es with
                                            | Some e => [e] | None => [] end) sorted)
  end.

Section Image.
  Variable u : univ.
  Variable o : sopts.

  Fixpoint image (fuel : nat) : ty -> value -> sres :=
    fix go (t : ty) (v : value) {struct t} : sres :=
      let all (t' : ty) (l : list value) : list value + sres :=
        (fix loop (l : list value) : list value + sres :=
           match l with
           | [] => inl []
           | x :: r => match go t' x with
                       | SROk y => match loop r with inl ys => inl (y :: ys) | other => other end
                       | other => inr other end
           end) l in
      match t with
      | TNone | TBool | TInt | TFloat | TStr => SROk v
      | TAny =>
          match fuel with
          | O => SRFuel
          | S f => match ty_of_class v with Some t' => image f t' v | None => SRCrash "Unsupported" end
          end
      | TColl _ t' =>
          match iter_values v with
          | Some l => match all t' l with inl ys => SROk (VList ys) | inr e => e end
          | None => SRCrash "TypeError: not iterable"
          end
      | TTuple ts =>
          match v with
          | VTuple l =>
              (fix zip (ts : list ty) (l : list value) (acc : list value) : sres :=
                 match ts, l with
                 | [], _ => SROk (VList (rev acc))
                 | t1 :: tr, x :: r => match go t1 x with SROk y => zip tr r (y :: acc) | other => other end
                 | _ :: _, [] => SRCrash "IndexError"
                 end) ts l []
          | _ => SRCrash "TypeError: not a tuple"
          end
      | TMap kt vt =>
          match v with
          | VDict kvs =>
              (fix loop (kvs : list (value * value)) (acc : list (value * value)) : sres :=
                 match kvs with
                 | [] => SROk (VDict acc)
                 | (k, x) :: r =>
                     match go kt k with
                     | SROk k' => match go vt x with SROk x' => loop r (dict_set acc k' x') | other => other end
                     | other => other end
                 end) kvs []
          | _ => SRCrash "AttributeError: items"
          end
      | TLit vs =>
          if forallb (fun p => match p with LInt _ | LBool _ | LStr _ => true | LNone => false end) vs then SROk v
          else match fuel with
               | O => SRFuel
               | S f => match ty_of_class v with Some t' => image f t' v | None => SRCrash "Unsupported" end
               end
      | TEnum _ => match v with VEnum _ p => SROk (prim_value p) | _ => SRCrash "AttributeError: value" end
      | TCon _ t' => go t' v
      | TUnion ts =>
          (* the first alternative whose class matches and which serializes *)
          match ts with
          | [t1] => go t1 v
          | _ =>
              if existsb (fun t' => match expected_class u t' with None => true | Some _ => false end) ts
              then SRCrash "TypeError: not supported in union serialization" else
              (fix first (ts : list ty) : sres :=
                 match ts with
                 | [] => SRTypeError "Expected union"
                 | t1 :: tr =>
                     match expected_class u t1 with
                     | Some x =>
                         if isinst u v x then
                           match (match t1 with
                                  | TTuple ts' => match iter_values v with
                                                  | Some l => if Nat.eqb (List.length l) (List.length ts') then go t1 v
                                                              else SRCrash "TypeError: Expected n-tuple"
                                                  | None => SRCrash "TypeError: len()" end
                                  | _ => go t1 v end) with
                           | SROk y => SROk y
                           | SRFuel => SRFuel
                           | _ => first tr
                           end
                         else first tr
                     | None => first tr
                     end
                 end) ts
          end
      | TObj c =>
          match fuel with
          | O => SRFuel
          | S f =>
              let cd := get_cls u c in
              let td := is_typed_dict cd in
              match ordered_elems cd with
              | None => SRCrash "ValueError: Cyclic after/before ordering"
              | Some es =>
                  let base :=
                    (fix loop (es : list elem) (acc : list (value * value)) : list (value * value) + sres :=
                       match es with
                       | [] => inl acc
                       | EField fd :: r =>
                           let x := if td then match v with VDict kvs => vdict_get (fd_name fd) kvs | _ => None end
                                    else getattr v (fd_name fd) in
                           if (td && fd_required fd && match x with None => true | _ => false end)%bool
                           then inr (SRCrash "KeyError") else
                           if (negb td && match x with None => true | _ => false end)%bool
                           then inr (SRCrash "AttributeError") else
                           if omitted o cd v fd x then loop r acc
                           else match x with
                                | Some xv => match image f (fd_ty fd) xv with
                                             | SROk y => loop r (result_set acc (so_aliaser o (fd_alias fd)) y)
                                             | other => inr other end
                                | None => loop r acc
                                end
                       | EMethod sm :: r =>
                           let res := sm_result sm in
                           if ((sm_undefined sm && is_vundef res)
                               || (so_excl_none o && ty_has_none (sm_ty sm) && is_vnone res))%bool then loop r acc
                           else match image f (sm_ty sm) res with
                                | SROk y => loop r (result_set acc (so_aliaser o (sm_alias sm)) y)
                                | other => inr other end
                       end) es [] in
                  match base with
                  | inr e => e
                  | inl acc =>
                      if (td && so_addprops o)%bool then
                        match v with
                        | VDict kvs =>
                            (fix extra (kvs : list (value * value)) (acc : list (value * value)) : sres :=
                               match kvs with
                               | [] => SROk (VDict acc)
                               | (VStr k, x) :: rest =>
                                   if (existsb (String.eqb k) (map fd_name (cd_fields cd))
                                       || existsb (fun kv => match fst kv with VStr k' => String.eqb k k' | _ => false end) acc)%bool
                                   then extra rest acc
                                   else match image f TAny x with
                                        | SROk y => extra rest (result_set acc k y)
                                        | other => other end
                               | _ :: rest => extra rest acc
                               end) kvs acc
                        | _ => SRCrash "AttributeError: items"
                        end
                      else SROk (VDict acc)
                  end
              end
          end
      end.
End Image.

(* what JSON is: dict with string keys, list, str, int, float, bool, None *)
Fixpoint is_json (v : value) : bool :=
  match v with
  | VNone | VBool _ | VInt _ | VFloat _ | VStr _ => true
  | VList l => forallb is_json l
  | VDict kvs => (fix go (kvs : list (value * value)) : bool :=
                    match kvs with
                    | [] => true
                    | (VStr _, x) :: r => is_json x && go r
                    | _ => false
                    end) kvs
  | _ => false
  end.

Definition image_matches (r : sres) (impl : option value) : bool :=
  match r, impl with
  | SROk v, Some v' => value_eqb v v'
  | _, _ => false
  end.
