(* C05: the round trip for classes whose fields carry skip options, defaults of every kind, none_as_undefined, Undefined unions,
   under exclude_none / exclude_defaults and any order(), as long as every omission is *symmetric*: what serialization leaves
   out is exactly what deserialization restores (the default).  The conditions are executable (sym_field). *)
From Coq Require Import List String ZArith Bool Arith Lia.
From AV Require Import Core.Json Core.Errors Core.Text Small.Ordering Deser.Model Deser.Spec Deser.Unfold Deser.Loops
  Ser.Model Ser.Spec Ser.RoundTrip Ser.RoundTripInd Schema.BuildSer Schema.SerRequired Schema.ImageInvGen.
Import ListNotations.

(* defaults for which Python equality with a well-typed value is identity *)
Definition scalar_default_ok (t : ty) (dv : value) : bool :=
  match t, dv with
  | TInt, VInt _ | TStr, VStr _ | TBool, VBool _ | TFloat, VFloat (FQ _) => true
  | TColl KList _, VList [] => true
  | _, _ => false
  end.

Lemma pyeq_scalar u n t x dv : scalar_default_ok t dv = true ->
  (x = VNone \/ x = VUndefined \/ has_type u n t x = true) -> value_pyeq x dv = true -> x = dv.
Proof.
  intros Hs Hx He. destruct t; try discriminate.
  - (* bool *) destruct dv; try discriminate.
    destruct Hx as [->|[->|Hx]]; try discriminate. rewrite ht_prim in Hx by exact I. destruct x; try discriminate.
    cbn in He. destruct b, b0; try discriminate; reflexivity.
  - (* int *) destruct dv; try discriminate.
    destruct Hx as [->|[->|Hx]]; try discriminate. rewrite ht_prim in Hx by exact I. destruct x; try discriminate.
    cbn [value_pyeq num_of] in He. apply Z.eqb_eq in He. f_equal. lia.
  - (* float *) destruct dv; try discriminate. destruct f; try discriminate.
    destruct Hx as [->|[->|Hx]]; try discriminate. rewrite ht_prim in Hx by exact I.
    destruct x; try discriminate. destruct f; cbn in He; try discriminate. apply Z.eqb_eq in He. now subst.
  - (* str *) destruct dv; try discriminate.
    destruct Hx as [->|[->|Hx]]; try discriminate. rewrite ht_prim in Hx by exact I. destruct x; try discriminate.
    cbn in He. apply String.eqb_eq in He. now subst.
  - (* empty list *) destruct k; try discriminate. destruct dv; try discriminate. destruct l; try discriminate.
    destruct Hx as [->|[->|Hx]]; try discriminate. rewrite ht_TColl in Hx. destruct x; try discriminate.
    destruct l; [reflexivity|discriminate].
Qed.

Section RTG.
Variable u : univ.
Variable o : sopts.
Notation img := (image u o).
Notation ht := (has_type u).
Notation sp := (spec u (dopts_of o)).
Notation rt := (RoundTripInd.rt u o).
Notation alias_of := (RoundTripInd.alias_of o).

(* every omission of the field restores the very value that was left out *)
Definition sym_field (fd : fdef) : bool :=
  match fs_skip_if (fd_ser fd) with SkipNever => true | _ => false end
  && (negb (fs_undefined (fd_ser fd)) || (negb (fd_required fd) && is_vundef (fd_default fd)))
  && (negb (fs_none_undef (fd_ser fd) || (so_excl_none o && ty_has_none (fd_ty fd)))
      || (negb (fd_required fd) && is_vnone (fd_default fd)))
  && (negb ((fs_skip_default (fd_ser fd) || so_excl_defaults o) && negb (fd_required fd)
            && negb (is_vnone (fd_default fd)) && negb (is_vundef (fd_default fd)))
      || scalar_default_ok (fd_ty fd) (fd_default fd))
  && match fd_con fd with None => true | Some _ => false end
  && rt_ty u (fd_ty fd).

Lemma omitted_sym n cd obj fd xv :
  sym_field fd = true -> cd_fields_set cd = false ->
  match xv with
  | VUndefined => fs_undefined (fd_ser fd) = true
  | VNone => fs_none_undef (fd_ser fd) = true \/ ht n (fd_ty fd) VNone = true
  | _ => ht n (fd_ty fd) xv = true
  end ->
  omitted o cd obj fd (Some xv) = true -> fd_required fd = false /\ fd_default fd = xv.
Proof.
  unfold sym_field. intros Hs Hfs Hty Hom. repeat (apply andb_true_iff in Hs; destruct Hs as [Hs ?]).
  unfold omitted in Hom.
  destruct (fs_skip_if (fd_ser fd)); try discriminate.
  match goal with Hx : (negb (fs_undefined _) || _)%bool = true |- _ => rename Hx into S3 end.
  match goal with Hx : (negb (fs_none_undef _ || _) || _)%bool = true |- _ => rename Hx into S4 end.
  match goal with Hx : (negb (_ && negb (is_vundef (fd_default fd))) || _)%bool = true |- _ => rename Hx into S5 end.
  rewrite Hfs in Hom. cbn [skip_if_holds] in Hom. rewrite andb_false_r in Hom. cbn [orb] in Hom.
  destruct (is_vundef xv) eqn:Eu.
  { destruct xv; try discriminate. rewrite Hty in S3. cbn [negb orb] in S3. apply andb_true_iff in S3. destruct S3 as [Hr Hd].
    apply negb_true_iff in Hr. split; [exact Hr|]. destruct (fd_default fd); try discriminate. reflexivity. }
  cbn [andb orb] in Hom.
  destruct (is_vnone xv) eqn:En.
  { destruct xv; try discriminate. cbn [andb] in Hom.
    destruct (fs_none_undef (fd_ser fd) || so_excl_none o && ty_has_none (fd_ty fd))%bool eqn:E4.
    - cbn [negb orb] in S4. apply andb_true_iff in S4. destruct S4 as [Hr Hd]. apply negb_true_iff in Hr. split; [exact Hr|].
      destruct (fd_default fd); try discriminate. reflexivity.
    - cbn [orb] in Hom.
      destruct (fd_required fd) eqn:Er.
      + rewrite !andb_false_r in Hom. discriminate.
      + split; [reflexivity|]. destruct (fd_default fd); try reflexivity;
          cbn in Hom; rewrite ?andb_false_r in Hom; cbn in Hom; discriminate. }
  cbn [andb orb] in Hom.
  (* equal (for Python) to a default that is neither None nor Undefined *)
  apply andb_true_iff in Hom. destruct Hom as [Hsk Hm].
  destruct (fd_required fd) eqn:Er; [discriminate|]. split; [reflexivity|].
  destruct (fd_default fd) eqn:Ed; try discriminate;
    (rewrite Hsk in S5; cbn [negb andb orb is_vnone is_vundef] in S5;
     symmetry; apply (pyeq_scalar u n (fd_ty fd) xv _ S5); [|exact Hm];
     destruct xv; try discriminate; auto).
Qed.

(* ------------------------------------------------------------------ the field loop, with omissions *)
Definition fval (fs0 : list (string * value)) (fd : fdef) : value :=
  match dict_get (fd_name fd) fs0 with Some x => x | None => VNone end.
Definition emitted (cd : cdef) (c : nat) (fs0 : list (string * value)) (fd : fdef) : bool :=
  negb (omitted o cd (VObj c fs0) fd (Some (fval fs0 fd))).

Lemma fields_loop m cd c fs0 : forall fds acc,
  Forall (fun fd => dict_get (fd_name fd) fs0 = Some (fval fs0 fd) /\
                    (emitted cd c fs0 fd = true -> rt m (fd_ty fd) (fval fs0 fd))) fds ->
  sd (map fst acc) (map alias_of fds) = true ->
  exists ys ds,
    img_fields o (img m) cd false (VObj c fs0) (map EField fds) (map lift acc) = inl (map lift (acc ++ ys))
    /\ unembed_items (map lift ys) = Some ds /\ map fst ds = map fst ys
    /\ sd (map fst acc) (map fst ys) = true
    /\ (forall fd, In fd fds -> emitted cd c fs0 fd = true ->
          exists d, In (alias_of fd, d) ds /\ sp m None (fd_ty fd) d = SOk (fval fs0 fd))
    /\ (forall k, In k (map fst ds) -> exists fd, In fd fds /\ k = alias_of fd /\ emitted cd c fs0 fd = true).
Proof.
  induction fds as [|fd r IH]; intros acc HF Hsd.
  - exists [], []. cbn. rewrite app_nil_r. repeat split; try reflexivity; [intros fd []|intros k []].
  - inversion HF as [|? ? [Hget Hrt] Hr]; subst. cbn [map sd] in Hsd. apply andb_true_iff in Hsd. destruct Hsd as [Hk Hrest].
    apply negb_true_iff in Hk. cbn [map img_fields andb negb getattr]. rewrite Hget. cbv iota beta.
    destruct (omitted o cd (VObj c fs0) fd (Some (fval fs0 fd))) eqn:Eo.
    + destruct (IH acc Hr (sd_weaken _ _ _ Hrest)) as [ys [ds [H1 [H2 [H3 [H4 [H5 H6]]]]]]]. exists ys, ds. repeat split; auto.
      * intros fd' [<-|Hin] He; [unfold emitted in He; rewrite Eo in He; discriminate|now apply H5].
      * intros k Hin. destruct (H6 k Hin) as [fd' [Hin' Hq]]. exists fd'. split; [now right|exact Hq].
    + assert (He : emitted cd c fs0 fd = true) by (unfold emitted; now rewrite Eo).
      destruct (Hrt He) as [j [d [Hi [Hu Hs]]]]. rewrite Hi.
      unfold result_set. fold (alias_of fd). rewrite (dict_set_fresh acc (alias_of fd) j Hk).
      destruct (IH (acc ++ [(alias_of fd, j)])%list Hr) as [ys [ds [H1 [H2 [H3 [H4 [H5 H6]]]]]]].
      { rewrite map_app. exact Hrest. }
      exists ((alias_of fd, j) :: ys), ((alias_of fd, d) :: ds). rewrite <- app_assoc in H1. repeat split.
      * exact H1.
      * cbn [map unembed_items]. change (lift (alias_of fd, j)) with (VStr (alias_of fd), j). cbv iota beta. rewrite Hu, H2. reflexivity.
      * cbn [map fst]. now rewrite H3.
      * cbn [map fst sd]. rewrite Hk. cbn [negb andb]. rewrite map_app in H4. exact H4.
      * intros fd' [<-|Hin] He'; [exists d; split; [now left|exact Hs]|].
        destruct (H5 fd' Hin He') as [d' [Hd' Hs']]. exists d'. split; [now right|exact Hs'].
      * intros k [<-|Hin]; [exists fd; repeat split; auto; now left|].
        destruct (H6 k Hin) as [fd' [Hin' Hq]]. exists fd'. split; [now right|exact Hq].
Qed.

(* ------------------------------------------------------------------ helpers *)
Lemma dict_get_in' {A} k (l : list (string * A)) x : dict_get k l = Some x -> In (k, x) l.
Proof.
  induction l as [|[k' x'] r IH]; cbn [dict_get]; [discriminate|].
  destruct (String.eqb k k') eqn:E; [intros [= ->]; apply String.eqb_eq in E; subst; now left | intros H; right; now apply IH].
Qed.

Lemma sd_inj' {A} (f : A -> string) l : forall seen, sd seen (map f l) = true ->
  forall a b, In a l -> In b l -> f a = f b -> a = b.
Proof.
  induction l as [|x r IH]; intros seen H a b Ha Hb E; [contradiction|].
  cbn [map sd] in H. apply andb_true_iff in H. destruct H as [_ Hr].
  destruct Ha as [<-|Ha], Hb as [<-|Hb]; try reflexivity.
  - exfalso. pose proof (sd_fresh _ _ (f b) Hr (in_map f r b Hb)) as Hf. rewrite existsb_app in Hf. apply orb_false_iff in Hf.
    destruct Hf as [_ Hf]. cbn in Hf. rewrite <- E, String.eqb_refl in Hf. discriminate.
  - exfalso. pose proof (sd_fresh _ _ (f a) Hr (in_map f r a Ha)) as Hf. rewrite existsb_app in Hf. apply orb_false_iff in Hf.
    destruct Hf as [_ Hf]. cbn in Hf. rewrite E, String.eqb_refl in Hf. discriminate.
  - exact (IH _ Hr a b Ha Hb E).
Qed.

Lemma filter_nil_on {A} (f : A -> bool) l : (forall x, In x l -> f x = false) -> filter f l = [].
Proof. induction l as [|x r IH]; intros H; [reflexivity|]. cbn [filter]. rewrite H by now left. apply IH. intros y Hy. apply H. now right. Qed.

Definition fres (E : fdef -> bool) (V : fdef -> value) (fd : fdef) : field_res :=
  if E fd then Some (Some (Some (fd_name fd, V fd))) else Some (Some None).

Lemma fres_no_fuel E V l : existsb (fun r : field_res => match r with None => true | _ => false end) (map (fres E V) l) = false.
Proof. induction l as [|x r IH]; [reflexivity|]. cbn [map existsb]. unfold fres at 1. destruct (E x); exact IH. Qed.

Lemma fres_no_rej E V l : existsb (fun r : field_res => match r with Some None => true | _ => false end) (map (fres E V) l) = false.
Proof. induction l as [|x r IH]; [reflexivity|]. cbn [map existsb]. unfold fres at 1. destruct (E x); exact IH. Qed.

Lemma fres_get E V l : forall seen, sd seen (map fd_name l) = true -> forall fd, In fd l ->
  dict_get (fd_name fd) (flat_map (fun r : field_res => match r with Some (Some (Some nv)) => [nv] | _ => [] end) (map (fres E V) l))
  = if E fd then Some (V fd) else None.
Proof.
  induction l as [|x r IH]; intros seen Hsd fd Hin; [contradiction|].
  cbn [map sd] in Hsd. apply andb_true_iff in Hsd. destruct Hsd as [_ Hr]. cbn [map flat_map].
  destruct Hin as [->|Hin].
  - unfold fres at 1. destruct (E fd) eqn:Ee; cbn [app dict_get].
    + rewrite String.eqb_refl. reflexivity.
    + (* not among the others either *)
      assert (Hnone : forall l' seen', sd seen' (map fd_name l') = true -> existsb (String.eqb (fd_name fd)) seen' = true ->
                 dict_get (fd_name fd) (flat_map (fun r : field_res => match r with Some (Some (Some nv)) => [nv] | _ => [] end)
                                                 (map (fres E V) l')) = None).
      { induction l' as [|y l' IHl]; intros seen' Hs Hm; [reflexivity|]. cbn [map sd] in Hs. apply andb_true_iff in Hs.
        destruct Hs as [Hy Hl]. cbn [map flat_map]. unfold fres at 1. destruct (E y); cbn [app dict_get].
        - destruct (String.eqb (fd_name fd) (fd_name y)) eqn:Ey.
          + apply String.eqb_eq in Ey. rewrite <- Ey, Hm in Hy. discriminate.
          + apply (IHl (seen' ++ [fd_name y])%list Hl). rewrite existsb_app, Hm. reflexivity.
        - apply (IHl (seen' ++ [fd_name y])%list Hl). rewrite existsb_app, Hm. reflexivity. }
      apply (Hnone r _ Hr). rewrite existsb_app. cbn. rewrite String.eqb_refl. now rewrite orb_true_r.
  - unfold fres at 1. destruct (E x); cbn [app dict_get]; [|exact (IH _ Hr fd Hin)].
    destruct (String.eqb (fd_name fd) (fd_name x)) eqn:Ex; [|exact (IH _ Hr fd Hin)].
    exfalso. apply String.eqb_eq in Ex. pose proof (sd_fresh _ _ (fd_name fd) Hr (in_map fd_name r fd Hin)) as Hf.
    rewrite existsb_app in Hf. apply orb_false_iff in Hf. destruct Hf as [_ Hf]. cbn in Hf. rewrite Ex, String.eqb_refl in Hf. discriminate.
Qed.

(* ------------------------------------------------------------------ classes *)
Notation canonical := (RoundTripInd.canonical u).
Notation rt_ty := (RoundTripInd.rt_ty u).

Definition sym_cls (cd : cdef) : Prop :=
  is_typed_dict cd = false /\ cd_fields_set cd = false /\ cd_methods cd = [] /\ cd_depreq cd = []
  /\ (exists fds, ordered_elems cd = Some (map EField fds)
                  /\ (forall fd, In fd (cd_fields cd) -> In fd fds) /\ (forall fd, In fd fds -> In fd (cd_fields cd))
                  /\ sd [] (map alias_of fds) = true)
  /\ forallb sym_field (cd_fields cd) = true
  /\ sd [] (map fd_name (cd_fields cd)) = true /\ sd [] (map alias_of (cd_fields cd)) = true.

Definition sym_univ : Prop := forall c, sym_cls (get_cls u c).
Definition ctxs (t : ty) : Prop := no_obj t = true \/ sym_univ.

Lemma round_trip_gen_step n :
  (forall n', n = S n' -> forall t v, rt_ty t = true -> ctxs t -> ht n' t v = true -> canonical v = true -> rt (S n') t v) ->
  forall t v, rt_ty t = true -> ctxs t -> ht n t v = true -> canonical v = true -> rt (S n) t v.
Proof.
  intros IHn. induction t using ty_ind'; intros v Hrt Hctx Hht Hcan; try discriminate.
  - rewrite ht_prim in Hht by exact I. destruct v; try discriminate. exists VNone, PNone. repeat split; reflexivity.
  - rewrite ht_prim in Hht by exact I. destruct v; try discriminate. exists (VBool b), (PBool b). repeat split; reflexivity.
  - rewrite ht_prim in Hht by exact I. destruct v; try discriminate. exists (VInt z), (PInt z). repeat split; reflexivity.
  - rewrite ht_prim in Hht by exact I. destruct v; try discriminate. exists (VFloat f), (PFloat f). repeat split; reflexivity.
  - rewrite ht_prim in Hht by exact I. destruct v; try discriminate. exists (VStr s), (PStr s). repeat split; reflexivity.
  - (* collections *)
    rewrite ht_TColl in Hht.
    assert (Hl : exists l, (v = VList l /\ k = KList \/ v = VTuple l /\ k = KVarTuple) /\ forallb (ht n t) l = true).
    { destruct k; try discriminate; destruct v; try discriminate; eexists; split; try exact Hht; auto. }
    destruct Hl as [l [Hv Hall]].
    assert (Ht : rt_ty t = true) by (destruct k; try discriminate; exact Hrt).
    assert (Hc : ctxs t) by (destruct Hctx as [Hc|Hc]; [left; exact Hc|right; exact Hc]).
    assert (Hcl : forallb canonical l = true) by (destruct Hv as [[-> _]|[-> _]]; exact Hcan).
    assert (HF : Forall (rt (S n) t) l).
    { apply Forall_forall. intros x Hx. rewrite forallb_forall in Hall, Hcl. apply IHt; auto. }
    destruct (all_round_trip u o (S n) t l HF) as [ys [ds [Hys [Hds Hok]]]].
    exists (VList ys), (PList ds). rewrite image_TColl, unembed_VList, spec_TColl, Hds, Hok. cbn [ocons]. rewrite accept_nil.
    destruct Hv as [[-> ->]|[-> ->]]; cbn [iter_values]; rewrite Hys; repeat split; reflexivity.
  - (* fixed tuples *)
    rewrite ht_TTuple in Hht. destruct v; try discriminate. cbn [rt_ty] in Hrt.
    assert (HF : Forall (fun t => forall v, ht n t v = true -> canonical v = true -> rt (S n) t v) ts).
    { rewrite Forall_forall in *. intros t Hin v' Hv' Hc'. rewrite forallb_forall in Hrt. apply H; auto.
      destruct Hctx as [Hc|Hc]; [left|right; exact Hc]. cbn [no_obj] in Hc. rewrite forallb_forall in Hc. auto. }
    assert (HG : Forall (fun x => canonical x = true) l) by (apply Forall_forall; apply forallb_forall; exact Hcan).
    destruct (zip_round_trip u o (ht n) (fun x => canonical x = true) (S n) ts l [] HF Hht HG) as [ys [ds [Hz [Hds [Hlen Hok]]]]].
    exists (VList ys), (PList ds). rewrite image_TTuple, unembed_VList, spec_TTuple, Hz, Hds, Hlen, Nat.eqb_refl, Hok.
    cbn [negb ocons]. rewrite accept_nil. repeat split; reflexivity.
  - (* string-keyed mappings *)
    cbn [rt_ty] in Hrt. destruct t1; try discriminate. rewrite ht_TMap in Hht. destruct v; try discriminate.
    apply andb_true_iff in Hht. destruct Hht as [Hall Hd]. destruct (keys_are_str u n t2 l Hall) as [skvs [-> HFt]].
    assert (Hc2 : ctxs t2).
    { destruct Hctx as [Hc|Hc]; [left|right; exact Hc]. cbn [no_obj] in Hc. apply andb_true_iff in Hc. tauto. }
    assert (HF : Forall (fun kv => rt (S n) t2 (snd kv)) skvs).
    { apply (canonical_dict u) in Hcan. rewrite Forall_forall in *. intros kv Hin. apply IHt2; auto.
      apply (Hcan (lift kv)). apply in_map. exact Hin. }
    change (@nil value) with (map VStr []) in Hd. rewrite keys_distinct_lift in Hd.
    destruct (map_round_trip u o (S n) t2 skvs [] Hd HF) as [ys [ds [Hm [Hun [Hfst Hok]]]]].
    exists (VDict (map lift ys)), (PDict ds). rewrite image_TMap. change (@nil (value * value)) with (map lift []).
    rewrite Hm, unembed_VDict, Hun, spec_TMap, str_keys_spec, Hok. cbn [ocons app option_map]. rewrite accept_nil.
    rewrite (combine_lift ds skvs Hfst). change (@nil (value * value)) with (map lift []).
    rewrite (fold_dict_set_distinct skvs [] Hd). repeat split; reflexivity.
  - (* literals *)
    cbn [rt_ty] in Hrt. rewrite ht_TLit in Hht. unfold rt. rewrite (image_TLit_prims u o (S n) vs v Hrt).
    destruct v; try discriminate.
    + exists VNone, PNone. rewrite spec_TLit. cbn [prim_of]. rewrite Hht. repeat split; reflexivity.
    + exists (VBool b), (PBool b). rewrite spec_TLit. cbn [prim_of]. rewrite Hht. repeat split; reflexivity.
    + exists (VInt z), (PInt z). rewrite spec_TLit. cbn [prim_of]. rewrite Hht. repeat split; reflexivity.
    + exists (VStr s), (PStr s). rewrite spec_TLit. cbn [prim_of]. rewrite Hht. repeat split; reflexivity.
  - (* enums *)
    rewrite ht_TEnum in Hht. destruct v; try discriminate. apply andb_true_iff in Hht. destruct Hht as [He Hp].
    apply Nat.eqb_eq in He. subst eid. unfold rt. rewrite image_TEnum.
    destruct p as [|b|z|s].
    + exists VNone, PNone. rewrite spec_TEnum. cbn [prim_of]. rewrite Hp. repeat split; reflexivity.
    + exists (VBool b), (PBool b). rewrite spec_TEnum. cbn [prim_of]. rewrite Hp. repeat split; reflexivity.
    + exists (VInt z), (PInt z). rewrite spec_TEnum. cbn [prim_of]. rewrite Hp. repeat split; reflexivity.
    + exists (VStr s), (PStr s). rewrite spec_TEnum. cbn [prim_of]. rewrite Hp. repeat split; reflexivity.
  - (* unions *)
    cbn [rt_ty] in Hrt. apply andb_true_iff in Hrt. destruct Hrt as [Hrt Hpw]. rewrite ht_TUnion in Hht.
    assert (HF : Forall (fun t => forall v, ht n t v = true -> canonical v = true -> rt (S n) t v) ts).
    { rewrite Forall_forall in *. intros t Hin v' Hv' Hc'. rewrite forallb_forall in Hrt. apply H; auto.
      destruct Hctx as [Hc|Hc]; [left|right; exact Hc]. cbn [no_obj] in Hc. rewrite forallb_forall in Hc. auto. }
    destruct ts as [|t1 [|t2 tr]].
    + discriminate.
    + inversion HF as [|? ? Hhead _]; subst.
      destruct (Hhead v Hht Hcan) as [j [d [Hi [Hu Hs]]]]. exists j, d. rewrite image_TUnion, spec_TUnion.
      cbn [first_spec]. rewrite Hs. repeat split; assumption.
    + apply andb_true_iff in Hht. destruct Hht as [Hec Hht].
      destruct (union_round_trip u o n n (fun x => canonical x = true) v _ HF Hcan Hrt Hpw Hec Hht) as [j [d [t' [Hi [Hu [_ [_ Hs]]]]]]].
      exists j, d. rewrite image_TUnion, spec_TUnion.
      assert (Hnone : existsb (fun t' => match expected_class u t' with None => true | Some _ => false end) (t1 :: t2 :: tr) = false).
      { destruct (existsb _ (t1 :: t2 :: tr)) eqn:E; [|reflexivity]. apply existsb_exists in E. destruct E as [t0 [Hin E0]].
        rewrite forallb_forall in Hec. specialize (Hec t0 Hin). destruct (expected_class u t0); discriminate. }
      rewrite Hnone. repeat split; assumption.
  - (* classes *)
    destruct Hctx as [Hc|Hcls]; [discriminate|].
    destruct n as [|n']; [rewrite ht_TObj_O in Hht; discriminate|].
    specialize (IHn n' eq_refl). rewrite ht_TObj_S in Hht. cbv zeta in Hht.
    destruct (Hcls c) as [Htd [Hfs [Hmeth [Hdep [[fds [Hord [Hsub1 [Hsub2 Halfds]]]] [Hsym [Hnames Haliases]]]]]]].
    set (cd := get_cls u c) in *.
    assert (Hv : exists fs, v = VObj c fs /\ forallb (ht_field (ht n') fs) (cd_fields cd) = true).
    { unfold is_typed_dict in Htd. destruct (cd_kind cd); try discriminate; destruct v; try discriminate;
        apply andb_true_iff in Hht; destruct Hht as [Hht _]; apply andb_true_iff in Hht; destruct Hht as [He Hf];
        apply Nat.eqb_eq in He; subst; eexists; split; eauto. }
    destruct Hv as [fs [-> Hfields]].
    destruct (canonical_obj u c fs Hcan) as [Hfst Hcanf]. fold cd in Hfst.
    assert (Hsdfs : sd [] (map fst fs) = true) by (rewrite Hfst; exact Hnames).
    pose proof (dict_get_distinct fs [] Hsdfs) as Hgets.
    (* what typing and canonicity say of each field *)
    assert (Hper : forall fd, In fd (cd_fields cd) ->
              dict_get (fd_name fd) fs = Some (fval fs fd) /\ canonical (fval fs fd) = true /\
              match fval fs fd with
              | VUndefined => fs_undefined (fd_ser fd) = true
              | VNone => fs_none_undef (fd_ser fd) = true \/ ht n' (fd_ty fd) VNone = true
              | _ => ht n' (fd_ty fd) (fval fs fd) = true
              end).
    { intros fd Hin. rewrite forallb_forall in Hfields. pose proof (Hfields fd Hin) as Hhf. unfold ht_field in Hhf.
      unfold fval. destruct (dict_get (fd_name fd) fs) as [x|] eqn:Eg; [|discriminate]. split; [reflexivity|]. split.
      - apply dict_get_in' in Eg. rewrite Forall_forall in Hcanf. apply (Hcanf _ Eg).
      - destruct x; try exact Hhf. apply orb_true_iff in Hhf. exact Hhf. }
    assert (Hsymf : forall fd, In fd (cd_fields cd) -> sym_field fd = true) by (apply forallb_forall; exact Hsym).
    (* an emitted field is typed: it round-trips by the induction hypothesis on the nesting *)
    assert (HF : Forall (fun fd => dict_get (fd_name fd) fs = Some (fval fs fd) /\
                                   (emitted cd c fs fd = true -> rt (S n') (fd_ty fd) (fval fs fd))) fds).
    { apply Forall_forall. intros fd Hin. pose proof (Hsub2 fd Hin) as Hin'. destruct (Hper fd Hin') as [Hg [Hck Hty]].
      split; [exact Hg|]. intros He.
      assert (Hht' : ht n' (fd_ty fd) (fval fs fd) = true).
      { unfold emitted, omitted in He. rewrite Hfs in He. destruct (fval fs fd) eqn:Ev; try exact Hty.
        - destruct Hty as [Hnu|Hty]; [|exact Hty]. exfalso. rewrite Hnu in He. cbn [is_vnone is_vundef andb orb] in He.
          rewrite !orb_true_r in He. cbn [orb negb] in He. repeat rewrite orb_true_r in He. discriminate.
        - exfalso. rewrite Hty in He. cbn [is_vnone is_vundef andb orb] in He. repeat rewrite orb_true_r in He. discriminate. }
      pose proof (Hsymf fd Hin') as Hs. unfold sym_field in Hs. repeat (apply andb_true_iff in Hs; destruct Hs as [Hs ?]).
      apply IHn; auto. right. exact Hcls. }
    destruct (fields_loop (S n') cd c fs fds [] HF Halfds) as [ys [ds [Hm [Hun [Hfsts [Hsdy [Hem Hkeys]]]]]]].
    cbn [app map] in Hm.
    exists (VDict (map lift ys)), (PDict ds).
    rewrite image_TObj_S. cbv zeta. fold cd. rewrite Hord, Htd. rewrite Hm. cbn [andb app]. rewrite unembed_VDict, Hun. cbn [option_map].
    split; [reflexivity|]. split; [reflexivity|].
    rewrite spec_TObj_S. cbv zeta. fold cd.
    assert (Hsdds : sd [] (map fst ds) = true) by (rewrite Hfsts; exact Hsdy).
    pose proof (dict_get_distinct ds [] Hsdds) as Hgd.
    (* the deserialization of each field: an emitted one gives its value back, an omitted one is absent and optional *)
    assert (Hsf : forall fd, In fd (cd_fields cd) ->
              spec_field u (dopts_of o) (S n') cd ds fd = fres (emitted cd c fs) (fval fs) fd).
    { intros fd Hin. unfold spec_field, fres. cbn [dopts_of o_aliaser]. fold (alias_of fd).
      pose proof (Hsymf fd Hin) as Hs.
      destruct (emitted cd c fs fd) eqn:Ee.
      - destruct (Hem fd (Hsub1 fd Hin) Ee) as [d [Hd Hsp]]. rewrite Forall_forall in Hgd. pose proof (Hgd _ Hd) as Hg. cbn [fst snd] in Hg.
        rewrite Hg. unfold sym_field in Hs. repeat (apply andb_true_iff in Hs; destruct Hs as [Hs ?]).
        destruct (fd_con fd); [discriminate|]. rewrite Hsp. reflexivity.
      - destruct (dict_get (alias_of fd) ds) as [d|] eqn:Eg.
        + exfalso. apply dict_get_in' in Eg. apply (in_map fst) in Eg. cbn [fst] in Eg.
          destruct (Hkeys _ Eg) as [fd' [Hin' [Ea He']]].
          assert (fd = fd') by (apply (sd_inj' alias_of fds [] Halfds); auto). subst fd'. congruence.
        + destruct (Hper fd Hin) as [_ [_ Hty]].
          assert (Hom : omitted o cd (VObj c fs) fd (Some (fval fs fd)) = true) by (unfold emitted in Ee; apply negb_false_iff in Ee; exact Ee).
          destruct (omitted_sym n' cd (VObj c fs) fd (fval fs fd) Hs Hfs Hty Hom) as [Hreq _]. rewrite Hreq.
          unfold requiring. rewrite Hdep. reflexivity. }
    rewrite (map_ext_in _ _ _ Hsf). rewrite fres_no_fuel, fres_no_rej.
    assert (Hex : filter (fun kv : string * pyval =>
                            negb (existsb (String.eqb (fst kv)) (map (fun fd => o_aliaser (dopts_of o) (fd_alias fd)) (cd_fields cd)))) ds = []).
    { apply filter_nil_on. intros [k d] Hin. cbn [fst]. apply negb_false_iff. apply (in_map fst) in Hin. cbn [fst] in Hin.
      destruct (Hkeys _ Hin) as [fd [Hfd [-> _]]]. apply existsb_exists. exists (alias_of fd). split; [|apply String.eqb_refl].
      apply (in_map (fun fd0 => o_aliaser (dopts_of o) (fd_alias fd0))). now apply Hsub2. }
    rewrite Hex. cbn [negb andb ocons all_valid forallb]. rewrite andb_false_r. rewrite Htd, andb_false_r.
    (* construction: the emitted values, the defaults for the others: the very instance *)
    unfold construct. unfold is_typed_dict in Htd.
    assert (Hvals : map (fun f => (fd_name f, match dict_get (fd_name f)
                                     (flat_map (fun r : field_res => match r with Some (Some (Some nv)) => [nv] | _ => [] end)
                                               (map (fres (emitted cd c fs) (fval fs)) (cd_fields cd))) with
                                   | Some v => v | None => fd_default f end)) (cd_fields cd) = fs).
    { assert (Hc0 : map (fun f => (fd_name f, match dict_get (fd_name f) fs with Some v => v | None => fd_default f end))
                          (cd_fields cd) = fs); [|etransitivity; [|exact Hc0]].
      2:{ apply map_ext_in. intros fd Hin. f_equal. rewrite (fres_get _ _ _ [] Hnames fd Hin).
        destruct (Hper fd Hin) as [Hg [_ Hty]]. rewrite Hg.
        destruct (emitted cd c fs fd) eqn:Ee; [reflexivity|].
        assert (Hom : omitted o cd (VObj c fs) fd (Some (fval fs fd)) = true) by (unfold emitted in Ee; apply negb_false_iff in Ee; exact Ee).
        destruct (omitted_sym n' cd (VObj c fs) fd (fval fs fd) (Hsymf fd Hin) Hfs Hty Hom) as [_ Hd]. exact Hd. }
      apply construct_fields.
      pose proof (names_Forall2 _ _ Hfst) as HN.
      apply Forall2_Forall_r with (Q := fun kx => dict_get (fst kx) fs = Some (snd kx)) in HN; [|exact Hgets].
      eapply Forall2_imp; [|exact HN]. intros fd kx [Hn Hg]. split; [exact Hn|]. rewrite Hn. exact Hg. }
    destruct (cd_kind cd); try discriminate; (do 2 f_equal; exact Hvals).
Qed.

Theorem round_trip_gen : forall n t v,
  rt_ty t = true -> ctxs t -> ht n t v = true -> canonical v = true -> rt (S n) t v.
Proof.
  induction n as [|n IH]; apply round_trip_gen_step.
  - intros n' E. discriminate.
  - intros n' E. injection E as <-. exact IH.
Qed.
End RTG.

(* ------------------------------------------------------------------ executable hypotheses *)
Definition efields (es : list elem) : list fdef := flat_map (fun e => match e with EField fd => [fd] | EMethod _ => [] end) es.

Lemma efields_map es : (forall e, In e es -> exists fd, e = EField fd) -> map EField (efields es) = es.
Proof.
  induction es as [|e r IH]; intros H; [reflexivity|]. destruct (H e (or_introl eq_refl)) as [fd ->].
  cbn [efields flat_map app map]. fold (efields r). rewrite IH; [reflexivity|]. intros e' He'. apply H. now right.
Qed.

Lemma efields_in es fd : In fd (efields es) <-> In (EField fd) es.
Proof.
  induction es as [|e r IH]; [tauto|]. cbn [efields flat_map]. fold (efields r). rewrite in_app_iff, IH. destruct e; cbn [In]; split.
  - intros [[<-|[]]|H]; auto.
  - intros [[= ->]|H]; auto.
  - intros [[]|H]; auto.
  - intros [H|H]; [discriminate|auto].
Qed.

Definition sym_cls_b (u : univ) (o : sopts) (cd : cdef) : bool :=
  negb (is_typed_dict cd) && negb (cd_fields_set cd)
  && match cd_methods cd with [] => true | _ => false end && match cd_depreq cd with [] => true | _ => false end
  && match ordered_elems cd with
     | Some es => forallb (fun fd => existsb (fun fd' => String.eqb (fd_name fd') (fd_name fd)) (efields es)) (cd_fields cd)
                  && sd [] (map (RoundTripInd.alias_of o) (efields es))
     | None => false
     end
  && forallb (sym_field u o) (cd_fields cd)
  && sd [] (map fd_name (cd_fields cd)) && sd [] (map (RoundTripInd.alias_of o) (cd_fields cd)).

Lemma sym_cls_b_ok u o cd : sym_cls_b u o cd = true -> sym_cls u o cd.
Proof.
  unfold sym_cls_b, sym_cls. intros H. repeat (apply andb_true_iff in H; destruct H as [H ?]).
  apply negb_true_iff in H. match goal with Hx : negb (cd_fields_set cd) = true |- _ => apply negb_true_iff in Hx end.
  match goal with Hx : sd [] (map fd_name (cd_fields cd)) = true |- _ => rename Hx into Hnames end.
  assert (Hmeth : cd_methods cd = []) by (destruct (cd_methods cd); [reflexivity|discriminate]).
  assert (Hdep : cd_depreq cd = []) by (destruct (cd_depreq cd); [reflexivity|discriminate]).
  repeat split; try assumption.
  destruct (ordered_elems cd) as [es|] eqn:Eo; [|discriminate].
  match goal with Hx : (forallb _ (cd_fields cd) && sd [] _)%bool = true |- _ => apply andb_true_iff in Hx; destruct Hx as [Hall Hsd] end.
  assert (Hsub : forall e, In e es -> exists fd, e = EField fd /\ In fd (cd_fields cd)).
  { intros e He. pose proof (ordered_elems_sub cd es e Eo He) as Hs. rewrite Hmeth in Hs. cbn [map] in Hs. rewrite app_nil_r in Hs.
    apply in_map_iff in Hs. destruct Hs as [fd [<- Hfd]]. eauto. }
  exists (efields es). split; [|split; [|split]].
  - rewrite efields_map; [reflexivity|]. intros e He. destruct (Hsub e He) as [fd [-> _]]. eauto.
  - intros fd Hin. rewrite forallb_forall in Hall. specialize (Hall fd Hin). apply existsb_exists in Hall.
    destruct Hall as [fd' [Hin' E]]. apply String.eqb_eq in E.
    assert (Hf' : In fd' (cd_fields cd)).
    { apply efields_in in Hin'. destruct (Hsub _ Hin') as [fd'' [[= ->] Hf]]. exact Hf. }
    assert (fd' = fd) by (apply (sd_inj' fd_name (cd_fields cd) [] Hnames); auto). subst fd'. exact Hin'.
  - intros fd Hin. apply efields_in in Hin. destruct (Hsub _ Hin) as [fd' [[= ->] Hf]]. exact Hf.
  - exact Hsd.
Qed.

Definition sym_univ_b (u : univ) (o : sopts) : bool := forallb (sym_cls_b u o) (u_classes u).

Lemma sym_univ_b_ok u o : sym_univ_b u o = true -> sym_univ u o.
Proof.
  unfold sym_univ_b, sym_univ. intros Hall c. apply sym_cls_b_ok. unfold get_cls.
  destruct (nth_in_or_default c (u_classes u) empty_cls) as [Hin|Hdef].
  - rewrite forallb_forall in Hall. apply Hall. exact Hin.
  - rewrite Hdef. reflexivity.
Qed.

Definition rtg_hyps (u : univ) (o : sopts) (n : nat) (t : ty) (v : value) : bool :=
  RoundTripInd.rt_ty u t && (no_obj t || sym_univ_b u o) && has_type u n t v && RoundTripInd.canonical u v.

Theorem round_trip_gen_checked u o n t v : rtg_hyps u o n t v = true -> RoundTripInd.rt u o (S n) t v.
Proof.
  unfold rtg_hyps. intros H. repeat (apply andb_true_iff in H; destruct H as [H ?]).
  apply round_trip_gen; auto.
  match goal with Hx : (no_obj t || sym_univ_b u o)%bool = true |- _ => apply orb_true_iff in Hx; destruct Hx as [Hx|Hx] end.
  - left; assumption.
  - right; apply sym_univ_b_ok; assumption.
Qed.

(* satisfiable outside the first theorem: a skipped scalar default, none_as_undefined over a None default, an Undefined union,
   an empty-list default, a reordered field, under exclude_defaults; one line keeps two properties, the other all of them *)
Open Scope string_scope.
Definition rtg_ex_univ : univ := mkU
  [ mkCls KData [ mkF "sku" "sku" TStr true VNone false None no_fser;
                  mkF "qty" "quantity" TInt false (VInt 1) false None (mkFS true SkipNever false false None);
                  mkF "note" "note" (TUnion [TStr; TNone]) false VNone false None (mkFS false SkipNever true false None);
                  mkF "tag" "tag" TStr false VUndefined false None (mkFS false SkipNever false true None);
                  mkF "parts" "parts" (TColl KList TStr) false (VList []) false None
                      (mkFS false SkipNever false false (Some (OOrder (-1)))) ]
                [] [] [] false;
    mkCls KData [ mkF "lines" "lines" (TColl KList (TObj 0)) true VNone false None no_fser;
                  mkF "first" "first" (TUnion [TObj 0; TNone]) false VNone false None no_fser ] [] [] [] false ]
  [].
Definition rtg_ex_opts : sopts := mkSO false true false true false false false false false false (fun s => "p_" ++ s).
Definition rtg_ex_value : value :=
  VObj 1 [("lines", VList [VObj 0 [("sku", VStr "x"); ("qty", VInt 1); ("note", VNone); ("tag", VUndefined); ("parts", VList [])];
                            VObj 0 [("sku", VStr "y"); ("qty", VInt 2); ("note", VStr "n"); ("tag", VStr "t"); ("parts", VList [VStr "p"])]]);
          ("first", VNone)].

Example rtg_ex :
  rtg_hyps rtg_ex_univ rtg_ex_opts 3 (TObj 1) rtg_ex_value = true
  /\ rt_hyps rtg_ex_univ rtg_ex_opts 3 (TObj 1) rtg_ex_value = false
  /\ exists j, image rtg_ex_univ rtg_ex_opts 4 (TObj 1) rtg_ex_value = SROk j
               /\ unembed j = Some (PDict [("p_lines", PList [PDict [("p_sku", PStr "x")];
                                                               PDict [("p_parts", PList [PStr "p"]); ("p_sku", PStr "y"); ("p_quantity", PInt 2);
                                                                      ("p_note", PStr "n"); ("p_tag", PStr "t")]])]).
Proof. vm_compute. split; [reflexivity|]. split; [reflexivity|]. eexists. split; reflexivity. Qed.
