(* C04: the compiled serialization method computes the documented image of well-typed values.
   serialize u o fuel t v = sexec (scompile t) v  ~  image t v   (same value, or both fail, or both run out of fuel). *)
From Coq Require Import List String ZArith Bool Arith Lia.
From AV Require Import Core.Json Core.Errors Core.Text Small.Ordering Deser.Model Deser.Loops Ser.Model Ser.Spec Ser.Unfold Ser.Proofs
  Ser.RoundTrip Ser.RoundTripInd.
Import ListNotations.
Open Scope string_scope.

(* ------------------------------------------------------------------ the loops of sexec, named *)
Definition map_loop (gk gv : value -> sres) : list (value * value) -> list (value * value) + sres :=
  fix loop (kvs : list (value * value)) : list (value * value) + sres :=
    match kvs with
    | [] => inl []
    | (k, x) :: rest =>
        match gk k with
        | SROk k' =>
            match gv x with
            | SROk x' => match loop rest with inl acc => inl ((k', x') :: acc) | other => other end
            | other => inr other
            end
        | other => inr other
        end
    end.

Definition simple_loop (v : value) : list string -> list (value * value) -> sres :=
  fix loop (ns : list string) (acc : list (value * value)) : sres :=
    match ns with
    | [] => SROk (VDict acc)
    | n :: r => match getattr v n with
                | Some x => loop r (result_set acc n x)
                | None => SRCrash "AttributeError"
                end
    end.

Definition extra_loop (g : value -> sres) (field_names : list string) : list (value * value) -> list (value * value) -> sres :=
  fix extra (kvs : list (value * value)) (acc : list (value * value)) : sres :=
    match kvs with
    | [] => SROk (VDict acc)
    | (VStr k, x) :: rest =>
        if (existsb (String.eqb k) field_names
            || existsb (fun kv => match fst kv with VStr k' => String.eqb k k' | _ => false end) acc)%bool
        then extra rest acc
        else match g x with
             | SROk y => extra rest (result_set acc k y)
             | other => other end
    | _ :: rest => extra rest acc
    end.

Definition tuple_loop (g : smeth -> value -> sres) : list smeth -> list value -> list value + sres :=
  fix loop (ms : list smeth) (l : list value) : list value + sres :=
    match ms, l with
    | [], _ => inl []
    | em :: mr, x :: xr =>
        match g em x with
        | SROk y => match loop mr xr with inl ys => inl (y :: ys) | other => other end
        | other => inr other
        end
    | _ :: _, [] => inr (SRCrash "IndexError")
    end.

Section C.
Variable u : univ.
Variable o : sopts.
Notation sx := (sexec u o).
Notation img := (image u o).
Notation ht := (has_type u).

Definition try_loop (g : smeth -> value -> sres) (v : value) : list (expcls * smeth) -> sres :=
  fix try (alts : list (expcls * smeth)) : sres :=
    match alts with
    | [] => SRTypeError "Expected union"
    | (x, am) :: r =>
        if isinst u v x then
          match g am v with
          | SROk y => SROk y
          | SRFuel => SRFuel
          | _ => try r
          end
        else try r
    end.

Lemma sexec_SCompileError fuel w v : sx fuel (SCompileError w) v = SRCrash w.
Proof. destruct fuel; reflexivity. Qed.
Lemma sexec_SList fuel v :
  sx fuel SList v = match iter_values v with Some l => SROk (VList l) | None => SRCrash "TypeError: not iterable" end.
Proof. destruct fuel; reflexivity. Qed.
Lemma sexec_SDict fuel v : sx fuel SDict v = match v with VDict kvs => SROk (VDict kvs) | _ => SRCrash "TypeError: dict()" end.
Proof. destruct fuel; reflexivity. Qed.
Lemma sexec_SAny_O v : sx O SAny v = SRFuel.
Proof. reflexivity. Qed.
Lemma sexec_SAny_S f v :
  sx (S f) SAny v = match ty_of_class v with Some t => sx f (scompile u o t) v | None => SRCrash "Unsupported" end.
Proof. reflexivity. Qed.
Lemma sexec_SRec_O c v : sx O (SRec c) v = SRFuel.
Proof. reflexivity. Qed.
Lemma sexec_SCollCheck fuel vm v :
  sx fuel (SCollCheck vm) v =
  match iter_values v with
  | Some l => match all_loop (sx fuel vm) l with inl _ => SROk v | inr e => e end
  | None => SRCrash "TypeError: not iterable"
  end.
Proof. destruct fuel; reflexivity. Qed.
Lemma sexec_SColl fuel vm v :
  sx fuel (SColl vm) v =
  match iter_values v with
  | Some l => match all_loop (sx fuel vm) l with
              | inl (Some ys) => SROk (VList ys)
              | inl None => SRCrash "impossible"
              | inr e => e end
  | None => SRCrash "TypeError: not iterable"
  end.
Proof. destruct fuel; reflexivity. Qed.
Lemma sexec_SValue fuel v :
  sx fuel SValue v = match v with VEnum _ p => SROk (prim_value p) | _ => SRCrash "AttributeError: value" end.
Proof. destruct fuel; reflexivity. Qed.
Lemma sexec_SMapCheck fuel km vm v :
  sx fuel (SMapCheck km vm) v =
  match v with
  | VDict kvs => match map_loop (sx fuel km) (sx fuel vm) kvs with inl _ => SROk v | inr e => e end
  | _ => SRCrash "AttributeError: items"
  end.
Proof. destruct fuel; reflexivity. Qed.
Lemma sexec_SMap fuel km vm v :
  sx fuel (SMap km vm) v =
  match v with
  | VDict kvs => match map_loop (sx fuel km) (sx fuel vm) kvs with
                 | inl items => SROk (VDict (fold_left (fun a kv => dict_set a (fst kv) (snd kv)) items []))
                 | inr e => e end
  | _ => SRCrash "AttributeError: items"
  end.
Proof. destruct fuel; reflexivity. Qed.
Lemma sexec_SSimpleObj fuel names v : sx fuel (SSimpleObj names) v = simple_loop v names [].
Proof. destruct fuel; reflexivity. Qed.
Lemma sexec_SObjAdditional fuel fs names am v :
  sx fuel (SObjAdditional fs names am) v =
  match fields_loop (sx fuel) v fs [] with
  | inr e => e
  | inl acc => match v with
               | VDict kvs => extra_loop (sx fuel am) names kvs acc
               | _ => SRCrash "AttributeError: items" end
  end.
Proof. destruct fuel; reflexivity. Qed.
Lemma sexec_STuple fuel ms v :
  sx fuel (STuple ms) v =
  match v with
  | VTuple l => match tuple_loop (sx fuel) ms l with inl ys => SROk (VList ys) | inr e => e end
  | _ => SRCrash "TypeError: not a tuple"
  end.
Proof. destruct fuel; reflexivity. Qed.
Lemma sexec_SCheckedTuple fuel n vm v :
  sx fuel (SCheckedTuple n vm) v =
  match iter_values v with
  | Some l => if Nat.eqb (List.length l) n then sx fuel vm v else SRCrash "TypeError: Expected n-tuple"
  | None => SRCrash "TypeError: len()"
  end.
Proof. destruct fuel; reflexivity. Qed.
Lemma sexec_SOptional fuel vm v : sx fuel (SOptional vm) v = match v with VNone => SROk VNone | _ => sx fuel vm v end.
Proof. destruct fuel; reflexivity. Qed.
Lemma sexec_SUnion fuel alts v : sx fuel (SUnion alts) v = try_loop (sx fuel) v alts.
Proof. destruct fuel; reflexivity. Qed.

Lemma image_TAny_O v : img O TAny v = SRFuel.
Proof. reflexivity. Qed.
Lemma image_TAny_S f v :
  img (S f) TAny v = match ty_of_class v with Some t' => img f t' v | None => SRCrash "Unsupported" end.
Proof. reflexivity. Qed.
Lemma image_TCon fuel c t v : img fuel (TCon c t) v = img fuel t v.
Proof. destruct fuel; reflexivity. Qed.
Lemma image_TLit fuel vs v :
  img fuel (TLit vs) v =
  if forallb (fun p => match p with LInt _ | LBool _ | LStr _ => true | LNone => false end) vs then SROk v
  else match fuel with
       | O => SRFuel
       | S f => match ty_of_class v with Some t' => img f t' v | None => SRCrash "Unsupported" end
       end.
Proof. destruct fuel; reflexivity. Qed.
Lemma image_TObj_O c v : img O (TObj c) v = SRFuel.
Proof. reflexivity. Qed.
Lemma ht_TCon n c t v : ht n (TCon c t) v = ht n t v.
Proof. destruct n; reflexivity. Qed.
Lemma ht_TAny_S n v : ht (S n) TAny v = match ty_of_class v with Some t' => ht n t' v | None => false end.
Proof. reflexivity. Qed.
Lemma ht_TAny_O v : ht O TAny v = false.
Proof. reflexivity. Qed.

(* ------------------------------------------------------------------ same outcome up to the identity of the failure *)
Definition sim (a b : sres) : Prop :=
  match a, b with
  | SROk x, SROk y => x = y
  | SRFuel, SRFuel => True
  | (SRTypeError _ | SRCrash _), (SRTypeError _ | SRCrash _) => True
  | _, _ => False
  end.

Lemma sim_refl a : sim a a.
Proof. destruct a; cbn; auto. Qed.

Lemma sim_ok_l a y : sim (SROk y) a -> a = SROk y.
Proof. destruct a; cbn; intros H; try contradiction. subst. reflexivity. Qed.

Lemma sim_fuel_l a : sim SRFuel a -> a = SRFuel.
Proof. destruct a; cbn; intros H; try contradiction. reflexivity. Qed.

Definition is_fail (r : sres) : bool := match r with SRTypeError _ | SRCrash _ => true | _ => false end.

Lemma sim_fail_l a b : is_fail a = true -> sim a b -> is_fail b = true.
Proof. destruct a, b; cbn; intros; try discriminate; try contradiction; reflexivity. Qed.

Lemma sim_fails a b : is_fail a = true -> is_fail b = true -> sim a b.
Proof. destruct a, b; cbn; intros; try discriminate; exact I. Qed.

(* ------------------------------------------------------------------ lists *)
Lemma all_sim (g h : value -> sres) l :
  Forall (fun x => sim (g x) (h x)) l ->
  match all_loop g l, img_all h l with
  | inl (Some ys), inl ys' => ys = ys'
  | inr e, inr e' => sim e e'
  | _, _ => False
  end.
Proof.
  induction 1 as [|x r Hx _ IH]; [reflexivity|]. cbn [all_loop img_all].
  destruct (g x) eqn:Eg.
  - apply sim_ok_l in Hx. rewrite Hx.
    destruct (all_loop g r) as [[ys|]|e], (img_all h r) as [ys'|e']; try contradiction; [congruence|exact IH].
  - destruct (h x); try contradiction; exact I.
  - destruct (h x); try contradiction; exact I.
  - apply sim_fuel_l in Hx. rewrite Hx. exact I.
Qed.

Lemma all_loop_err (g : value -> sres) l e : all_loop g l = inr e -> forall y, e <> SROk y.
Proof.
  revert e. induction l as [|x r IH]; intros e H; [discriminate|]. cbn [all_loop] in H.
  destruct (g x) eqn:Eg; try (injection H as <-; intros y; discriminate).
  destruct (all_loop g r) as [[ys|]|e']; try discriminate. injection H as <-. apply IH. reflexivity.
Qed.

Lemma map_loop_err (gk gv : value -> sres) kvs e : map_loop gk gv kvs = inr e -> forall y, e <> SROk y.
Proof.
  revert e. induction kvs as [|[k x] r IH]; intros e H; [discriminate|]. cbn [map_loop] in H.
  destruct (gk k) eqn:Ek; try (injection H as <-; intros y; discriminate).
  destruct (gv x) eqn:Ev; try (injection H as <-; intros y; discriminate).
  destruct (map_loop gk gv r) as [acc|e']; try discriminate. injection H as <-. apply IH. reflexivity.
Qed.

Lemma img_all_identity (h : value -> sres) l : Forall (fun x => sim (SROk x) (h x)) l -> img_all h l = inl l.
Proof.
  induction 1 as [|x r Hx _ IH]; [reflexivity|]. cbn [img_all]. apply sim_ok_l in Hx. rewrite Hx, IH. reflexivity.
Qed.

(* a check-only method returns the value it was given *)
Lemma check_only_same fuel : forall m v y, scheck_only m = true -> sexec u o fuel m v = SROk y -> y = v.
Proof.
  fix IH 1. intros m v y Hc Hs. destruct m; try discriminate.
  - rewrite sexec_SIdentity in Hs. congruence.
  - rewrite sexec_SCollCheck in Hs. destruct (iter_values v); [|discriminate].
    destruct (all_loop _ _) eqn:E; [congruence|]. exfalso. exact (all_loop_err _ _ _ E y Hs).
  - rewrite sexec_SMapCheck in Hs. destruct v; try discriminate.
    destruct (map_loop _ _ _) eqn:E; [congruence|]. exfalso. exact (map_loop_err _ _ _ _ E y Hs).
  - rewrite sexec_SOptional in Hs. cbn [scheck_only] in Hc. destruct v; try (apply (IH m _ _ Hc Hs)). congruence.
  - rewrite sexec_SUnion in Hs. cbn [scheck_only] in Hc.
    induction alts as [|[x am] r IHr]; [discriminate|]. cbn [try_loop] in Hs. cbn [forallb snd] in Hc.
    apply andb_true_iff in Hc. destruct Hc as [Hc1 Hc2].
    destruct (isinst u v x); [|apply IHr; assumption].
    destruct (sexec u o fuel am v) eqn:E; try (apply IHr; assumption); try discriminate.
    injection Hs as <-. apply (IH am _ _ Hc1 E).
Qed.

(* ------------------------------------------------------------------ dicts *)
Lemma dict_set_new acc k x :
  existsb (py_eq k) (map fst acc) = false -> dict_set acc k x = (acc ++ [(k, x)])%list.
Proof.
  induction acc as [|[k' x'] acc IH]; intros H; [reflexivity|].
  cbn [map fst existsb] in H. apply orb_false_iff in H. destruct H as [H1 H2].
  cbn [dict_set app]. rewrite H1, (IH H2). reflexivity.
Qed.

Lemma fold_dict_set_new kvs : forall acc,
  keys_distinct (map fst acc) kvs = true ->
  fold_left (fun a kv => dict_set a (fst kv) (snd kv)) kvs acc = (acc ++ kvs)%list.
Proof.
  induction kvs as [|[k x] r IH]; intros acc H; [rewrite app_nil_r; reflexivity|].
  cbn [keys_distinct] in H. apply andb_true_iff in H. destruct H as [Hk Hr]. apply negb_true_iff in Hk.
  cbn [fold_left fst snd]. rewrite (dict_set_new acc k x Hk). rewrite IH; [rewrite <- app_assoc; reflexivity|].
  rewrite map_app. exact Hr.
Qed.

(* the accumulating loop of the image is the item loop of the compiled method followed by dict() *)
Lemma img_map_items (gk gv : value -> sres) kvs : forall acc,
  img_map gk gv kvs acc =
  match map_loop gk gv kvs with
  | inl items => SROk (VDict (fold_left (fun a kv => dict_set a (fst kv) (snd kv)) items acc))
  | inr e => e
  end.
Proof.
  induction kvs as [|[k x] r IH]; intros acc; [reflexivity|]. cbn [img_map map_loop].
  destruct (gk k) eqn:Ek; try reflexivity. destruct (gv x) eqn:Ev; try reflexivity.
  rewrite IH. destruct (map_loop gk gv r); reflexivity.
Qed.

Lemma map_sim (gk gv hk hv : value -> sres) kvs :
  Forall (fun kv => sim (gk (fst kv)) (hk (fst kv)) /\ sim (gv (snd kv)) (hv (snd kv))) kvs ->
  match map_loop gk gv kvs, map_loop hk hv kvs with
  | inl a, inl b => a = b
  | inr e, inr e' => sim e e'
  | _, _ => False
  end.
Proof.
  induction 1 as [|[k x] r [Hk Hv] _ IH]; [reflexivity|]. cbn [map_loop fst snd] in *.
  destruct (gk k) eqn:Ek.
  - apply sim_ok_l in Hk. rewrite Hk. destruct (gv x) eqn:Ev.
    + apply sim_ok_l in Hv. rewrite Hv.
      destruct (map_loop gk gv r), (map_loop hk hv r); try contradiction; [congruence|exact IH].
    + destruct (hv x); try contradiction; exact I.
    + destruct (hv x); try contradiction; exact I.
    + apply sim_fuel_l in Hv. rewrite Hv. exact I.
  - destruct (hk k); try contradiction; exact I.
  - destruct (hk k); try contradiction; exact I.
  - apply sim_fuel_l in Hk. rewrite Hk. exact I.
Qed.

(* check-only item loops return the items they were given *)
Lemma map_loop_same (gk gv : value -> sres) kvs items :
  (forall k y, gk k = SROk y -> y = k) -> (forall x y, gv x = SROk y -> y = x) ->
  map_loop gk gv kvs = inl items -> items = kvs.
Proof.
  intros Hk Hv. revert items. induction kvs as [|[k x] r IH]; intros items H; [injection H as <-; reflexivity|].
  cbn [map_loop] in H. destruct (gk k) eqn:Ek; try discriminate. destruct (gv x) eqn:Ev; try discriminate.
  destruct (map_loop gk gv r) eqn:Er; try discriminate. injection H as <-.
  rewrite (Hk _ _ Ek), (Hv _ _ Ev), (IH _ eq_refl). reflexivity.
Qed.

Lemma all_loop_same (g : value -> sres) l ys :
  (forall x y, g x = SROk y -> y = x) -> all_loop g l = inl (Some ys) -> ys = l.
Proof.
  intros Hg. revert ys. induction l as [|x r IH]; intros ys H; [injection H as <-; reflexivity|].
  cbn [all_loop] in H. destruct (g x) eqn:Eg; try discriminate.
  destruct (all_loop g r) as [[ys'|]|] eqn:Er; try discriminate. injection H as <-.
  rewrite (Hg _ _ Eg), (IH _ eq_refl). reflexivity.
Qed.

Lemma all_loop_some (g : value -> sres) l : all_loop g l <> inl None.
Proof.
  induction l as [|x r IH]; [discriminate|]. cbn [all_loop]. destruct (g x); try discriminate.
  destruct (all_loop g r) as [[ys|]|]; try discriminate. contradiction.
Qed.

(* ------------------------------------------------------------------ fixed tuples *)
Lemma tuple_sim (T : ty -> value -> bool) (g : smeth -> value -> sres) (h : ty -> value -> sres) (C : ty -> smeth) ts : forall l acc,
  Forall (fun t => forall x, T t x = true -> sim (g (C t) x) (h t x)) ts ->
  ht_zip T ts l = true ->
  sim (match tuple_loop g (map C ts) l with inl ys => SROk (VList (rev acc ++ ys)) | inr e => e end)
      (img_zip h ts l acc).
Proof.
  induction ts as [|t ts IH]; intros l acc HF Hz.
  - destruct l; [|discriminate]. cbn. rewrite app_nil_r. reflexivity.
  - destruct l as [|x r]; [discriminate|]. cbn [ht_zip] in Hz. apply andb_true_iff in Hz. destruct Hz as [Hx Hr].
    inversion HF as [|? ? Hh Ht]; subst. specialize (Hh x Hx). cbn [map tuple_loop img_zip].
    destruct (g (C t) x) eqn:Eg.
    + apply sim_ok_l in Hh. rewrite Hh. specialize (IH r (v :: acc) Ht Hr).
      destruct (tuple_loop g (map C ts) r); [|exact IH]. cbn [rev] in IH. rewrite <- app_assoc in IH. exact IH.
    + destruct (h t x); try contradiction; exact I.
    + destruct (h t x); try contradiction; exact I.
    + apply sim_fuel_l in Hh. rewrite Hh. exact I.
Qed.

(* ------------------------------------------------------------------ unions: alternatives with disjoint runtime classes *)
Definition simple_code (x : expcls) : option nat :=
  match x with
  | XNone => Some 0 | XBool => Some 1 | XInt => Some 2 | XFloat => Some 3 | XStr => Some 4 | XListC => Some 5
  | XTupleC => Some 6 | XSetC => Some 7 | XFrozenSetC => Some 8 | XDictC | XMapABC => Some 9
  | _ => None
  end.

Definition prim_simple (c : pcls) : option expcls :=
  match c with
  | CNone => Some XNone | CBool => Some XBool | CInt => Some XInt | CFloat => Some XFloat | CStr => Some XStr
  | _ => None
  end.

(* no value is an instance of both (sound, not complete) *)
Definition sdisj0 (x y : expcls) : bool :=
  match x, y with
  | XCls c, XCls c' => negb (Nat.eqb c c')
  | XEnumC e, XEnumC e' => negb (Nat.eqb e e')
  | XCls c, z | z, XCls c =>
      match simple_code z with
      | Some 6 => negb (is_namedtuple u c)
      | Some _ => true
      | None => match z with XEnumC _ => true | _ => false end
      end
  | XEnumC _, z | z, XEnumC _ => match simple_code z with Some _ => true | None => false end
  | _, _ =>
      match simple_code x, simple_code y with
      | Some a, Some b => negb (Nat.eqb a b) && negb (Nat.eqb a 1 && Nat.eqb b 2) && negb (Nat.eqb a 2 && Nat.eqb b 1)
      | _, _ => false
      end
  end.

Definition sdisj (x y : expcls) : bool :=
  match x, y with
  | XPrims cs, XPrims cs' =>
      forallb (fun c => forallb (fun c' => match prim_simple c, prim_simple c' with
                                           | Some a, Some b => sdisj0 a b | _, _ => true end) cs') cs
  | XPrims cs, z | z, XPrims cs => forallb (fun c => match prim_simple c with Some a => sdisj0 a z | None => true end) cs
  | _, _ => sdisj0 x y
  end.

Lemma sdisj0_sound x y v : sdisj0 x y = true -> isinst u v x = true -> isinst u v y = false.
Proof.
  destruct x, y; cbn [sdisj0 simple_code]; intros H; try discriminate H; destruct v; cbn [isinst]; intros Hi;
    try discriminate Hi; try reflexivity;
    try (apply negb_true_iff in H; apply Nat.eqb_neq in H; apply Nat.eqb_neq; congruence);
    try (apply negb_true_iff in H; apply Nat.eqb_eq in Hi; subst; assumption);
    try (apply negb_true_iff in H; congruence);
    try (apply negb_true_iff in H; apply Nat.eqb_neq; intros ->; congruence);
    try (apply negb_true_iff in H; apply Nat.eqb_neq in H; apply Nat.eqb_eq in Hi; apply Nat.eqb_neq; lia).
Qed.

Lemma isinst_prim_simple v c : isinst_prim v c = true -> exists a, prim_simple c = Some a /\ isinst u v a = true.
Proof. destruct c, v; cbn; intros H; try discriminate; eexists; split; reflexivity. Qed.

Lemma simple_isinst_prim v c a : prim_simple c = Some a -> isinst u v a = isinst_prim v c.
Proof. destruct c; intros E; try discriminate; injection E as <-; destruct v; reflexivity. Qed.

Lemma sdisj_sound x y v : sdisj x y = true -> isinst u v x = true -> isinst u v y = false.
Proof.
  assert (P : forall cs z, forallb (fun c => match prim_simple c with Some a => sdisj0 a z | None => true end) cs = true ->
                     isinst u v (XPrims cs) = true -> isinst u v z = false).
  { intros cs z H Hi. cbn [isinst] in Hi. apply existsb_exists in Hi. destruct Hi as [c [Hin Hc]].
    rewrite forallb_forall in H. specialize (H c Hin). destruct (isinst_prim_simple v c Hc) as [a [Ea Ha]].
    rewrite Ea in H. eapply sdisj0_sound; eassumption. }
  assert (Q : forall cs z, forallb (fun c => match prim_simple c with Some a => sdisj0 a z | None => true end) cs = true ->
                     isinst u v z = true -> isinst u v (XPrims cs) = false).
  { intros cs z H Hi. cbn [isinst]. destruct (existsb (isinst_prim v) cs) eqn:E; [|reflexivity].
    apply existsb_exists in E. destruct E as [c [Hin Hc]]. rewrite forallb_forall in H. specialize (H c Hin).
    destruct (isinst_prim_simple v c Hc) as [a [Ea Ha]]. rewrite Ea in H.
    rewrite (sdisj0_sound a z v H Ha) in Hi. discriminate. }
  destruct x, y; cbn [sdisj]; intros H Hi; try (eapply sdisj0_sound; eassumption); try (eapply P; eassumption); try (eapply Q; eassumption).
  (* XPrims / XPrims *)
  cbn [isinst] in *. destruct (existsb (isinst_prim v) cs0) eqn:E; [|reflexivity].
  apply existsb_exists in Hi. destruct Hi as [c [Hin Hc]]. apply existsb_exists in E. destruct E as [c' [Hin' Hc']].
  rewrite forallb_forall in H. specialize (H c Hin). rewrite forallb_forall in H. specialize (H c' Hin').
  destruct (isinst_prim_simple v c Hc) as [a [Ea Ha]]. destruct (isinst_prim_simple v c' Hc') as [b [Eb Hb]].
  rewrite Ea, Eb in H. rewrite (sdisj0_sound a b v H Ha) in Hb. discriminate.
Qed.

Fixpoint pair_disj (l : list expcls) : bool :=
  match l with [] => true | x :: r => forallb (sdisj x) r && pair_disj r end.

Definition classes_of (ts : list ty) : list expcls :=
  flat_map (fun t => match expected_class u t with Some x => [x] | None => [] end) ts.

(* every union met in the type has alternatives with pairwise disjoint runtime classes *)
Fixpoint du_ty (t : ty) : bool :=
  match t with
  | TColl _ t' | TCon _ t' => du_ty t'
  | TTuple ts => forallb du_ty ts
  | TMap kt vt => du_ty kt && du_ty vt
  | TUnion ts => forallb du_ty ts && pair_disj (classes_of ts)
  | _ => true
  end.

Definition du_univ : Prop :=
  forall c, forallb (fun fd => du_ty (fd_ty fd)) (cd_fields (get_cls u c)) = true
            /\ forallb (fun sm => du_ty (sm_ty sm)) (cd_methods (get_cls u c)) = true.

Definition wrap (m : smeth) : smeth :=
  match m with STuple ms' | STupleCheck ms' => SCheckedTuple (List.length ms') m | m' => m' end.

Definition finish (r : sres) : sres :=
  match r with SROk y => SROk y | SRFuel => SRFuel | _ => SRTypeError "Expected union" end.

(* what the image does with the alternative whose class matches *)
Definition img_alt (h : ty -> value -> sres) (t : ty) (v : value) : sres :=
  match t with
  | TTuple ts' => match iter_values v with
                  | Some l => if Nat.eqb (List.length l) (List.length ts') then h t v
                              else SRCrash "TypeError: Expected n-tuple"
                  | None => SRCrash "TypeError: len()" end
  | _ => h t v end.

Definition no_match (v : value) (ts : list ty) : Prop :=
  forall t, In t ts -> exists y, expected_class u t = Some y /\ isinst u v y = false.

Lemma img_first_skip (h : ty -> value -> sres) v pre rest :
  no_match v pre -> img_first u h v (pre ++ rest) = img_first u h v rest.
Proof.
  induction pre as [|t pre IH]; intros H; [reflexivity|]. cbn [app img_first].
  destruct (H t (or_introl eq_refl)) as [y [Ey Hy]]. rewrite Ey, Hy. apply IH. intros t' Hin. apply H. right. exact Hin.
Qed.

Lemma img_first_none (h : ty -> value -> sres) v ts : no_match v ts -> img_first u h v ts = SRTypeError "Expected union".
Proof.
  intros H. rewrite <- (app_nil_r ts). rewrite img_first_skip by exact H. reflexivity.
Qed.

Lemma img_first_at (h : ty -> value -> sres) v pre t post x :
  no_match v pre -> no_match v post -> expected_class u t = Some x -> isinst u v x = true ->
  img_first u h v (pre ++ t :: post) = finish (img_alt h t v).
Proof.
  intros Hpre Hpost Ex Hx. rewrite img_first_skip by exact Hpre. cbn [img_first]. rewrite Ex, Hx.
  unfold finish, img_alt. destruct t; try (destruct (h _ v); try reflexivity; apply img_first_none; exact Hpost).
  destruct (iter_values v); [|apply img_first_none; exact Hpost].
  destruct (Nat.eqb _ _); [|apply img_first_none; exact Hpost].
  destruct (h _ v); try reflexivity; apply img_first_none; exact Hpost.
Qed.

Definition alts_of (ts : list ty) : list (expcls * smeth) :=
  flat_map (fun t => match expected_class u t with Some x => [(x, wrap (scompile u o t))] | None => [] end) ts.

Lemma try_skip (g : smeth -> value -> sres) v pre rest :
  no_match v pre -> try_loop g v (alts_of (pre ++ rest)) = try_loop g v (alts_of rest).
Proof.
  induction pre as [|t pre IH]; intros H; [reflexivity|]. unfold alts_of in *. cbn [app flat_map].
  destruct (H t (or_introl eq_refl)) as [y [Ey Hy]]. rewrite Ey. cbn [app try_loop]. rewrite Hy.
  apply IH. intros t' Hin. apply H. right. exact Hin.
Qed.

Lemma try_none (g : smeth -> value -> sres) v ts : no_match v ts -> try_loop g v (alts_of ts) = SRTypeError "Expected union".
Proof. intros H. rewrite <- (app_nil_r ts). rewrite try_skip by exact H. reflexivity. Qed.

Lemma try_at (g : smeth -> value -> sres) v pre t post x :
  no_match v pre -> no_match v post -> expected_class u t = Some x -> isinst u v x = true ->
  try_loop g v (alts_of (pre ++ t :: post)) = finish (g (wrap (scompile u o t)) v).
Proof.
  intros Hpre Hpost Ex Hx. rewrite try_skip by exact Hpre. unfold alts_of. cbn [flat_map]. rewrite Ex. cbn [app try_loop].
  rewrite Hx. fold (alts_of post). unfold finish. destruct (g _ v); try reflexivity; apply try_none; exact Hpost.
Qed.

(* the alternative selected by the typing, and why no other one can take the value *)
Lemma matched (T : ty -> value -> bool) v : forall ts,
  forallb (fun t' => match expected_class u t' with Some _ => true | None => false end) ts = true ->
  pair_disj (classes_of ts) = true -> ht_first u T v ts = true ->
  exists pre t post x, ts = (pre ++ t :: post)%list /\ expected_class u t = Some x /\ isinst u v x = true /\ T t v = true
                       /\ no_match v pre /\ no_match v post.
Proof.
  induction ts as [|t ts IH]; intros Hec Hd Hht; [discriminate|].
  cbn [forallb] in Hec. apply andb_true_iff in Hec. destruct Hec as [Hec1 Hec2].
  cbn [ht_first] in Hht. destruct (expected_class u t) as [x|] eqn:Ex; [|discriminate].
  unfold classes_of in Hd. cbn [flat_map] in Hd. rewrite Ex in Hd. cbn [app pair_disj] in Hd. fold (classes_of ts) in Hd.
  apply andb_true_iff in Hd. destruct Hd as [Hdx Hd].
  destruct (isinst u v x) eqn:Ei.
  - exists [], t, ts, x. repeat split; auto.
    + intros t' Hin. contradiction.
    + intros t' Hin. rewrite forallb_forall in Hec2. specialize (Hec2 t' Hin).
      destruct (expected_class u t') as [y|] eqn:Ey; [|discriminate]. exists y. split; [reflexivity|].
      rewrite forallb_forall in Hdx. eapply sdisj_sound; [apply Hdx|exact Ei].
      unfold classes_of. apply in_flat_map. exists t'. split; [exact Hin|]. rewrite Ey. left. reflexivity.
  - destruct (IH Hec2 Hd Hht) as [pre [t0 [post [x0 [-> [Ex0 [Hi0 [HT [Hpre Hpost]]]]]]]]].
    exists (t :: pre), t0, post, x0. repeat split; auto.
    intros t' [<-|Hin]; [exists x; split; assumption|apply Hpre; exact Hin].
Qed.

(* ------------------------------------------------------------------ THE THEOREM *)
Hypothesis Hpt : no_pass_through o = true.
Hypothesis Htd_fs : forall c, is_typed_dict (get_cls u c) = true -> cd_fields_set (get_cls u c) = false.

Lemma no_pt : pt_any o = false /\ pt_collections o = false /\ pt_dataclasses o = false /\ pt_enums o = false /\ pt_tuple o = false.
Proof.
  pose proof Hpt as H. unfold no_pass_through in H. apply negb_true_iff in H.
  repeat (apply orb_false_iff in H; destruct H as [H ?]). repeat split; assumption.
Qed.

Lemma prim_class_typed n v t' : ty_of_class v = Some t' ->
  match v with VNone | VBool _ | VInt _ | VStr _ => True | _ => False end -> ht n t' v = true.
Proof. destruct v; intros E H; try contradiction; injection E as <-; destruct n; reflexivity. Qed.

Lemma v_is_none (v : value) : v = VNone \/ v <> VNone.
Proof. destruct v; try (right; discriminate). left. reflexivity. Qed.

Lemma finish_sim a b : sim a b -> sim (finish a) (finish b).
Proof. destruct a, b; cbn; auto. Qed.

Lemma sim_finish_r a b : sim a b -> sim a (finish b).
Proof. destruct a, b; cbn; auto. Qed.

Lemma ht_zip_len (g : ty -> value -> bool) ts : forall l, ht_zip g ts l = true -> List.length l = List.length ts.
Proof.
  induction ts as [|t ts IH]; intros [|x l] H; try discriminate; [reflexivity|].
  cbn [ht_zip] in H. apply andb_true_iff in H. destruct H as [_ H]. cbn [List.length]. rewrite (IH l H). reflexivity.
Qed.

(* a well-typed value passes the length check the image makes for a tuple alternative *)
Lemma img_alt_typed (h : ty -> value -> sres) n t v : ht n t v = true -> img_alt h t v = h t v.
Proof.
  intros H. destruct t; try reflexivity. rewrite ht_TTuple in H. destruct v; try discriminate. cbn [img_alt iter_values].
  rewrite (ht_zip_len _ _ _ H), Nat.eqb_refl. reflexivity.
Qed.

(* when the compiled method is a tuple method, well-typed values are tuples of that length *)
Lemma stuple_typed n : forall t v ms',
  (scompile u o t = STuple ms' \/ scompile u o t = STupleCheck ms') -> ht n t v = true ->
  exists l, v = VTuple l /\ List.length l = List.length ms'.
Proof.
  destruct no_pt as [Pany [Pcoll [Pdc [Penum Ptup]]]].
  induction t using ty_ind'; intros v ms' Hm Hht; cbn [scompile] in Hm;
    try (destruct Hm as [Hm|Hm]; discriminate Hm).
  - rewrite Pany in Hm. destruct Hm as [Hm|Hm]; discriminate Hm.
  - repeat match type of Hm with context [if ?c then _ else _] => destruct c end; destruct Hm as [Hm|Hm]; discriminate Hm.
  - rewrite Ptup in Hm. destruct Hm as [Hm|Hm]; [|discriminate Hm]. injection Hm as <-.
    rewrite ht_TTuple in Hht. destruct v; try discriminate. exists l. split; [reflexivity|].
    rewrite map_length. apply (ht_zip_len _ _ _ Hht).
  - repeat match type of Hm with context [if ?c then _ else _] => destruct c end; destruct Hm as [Hm|Hm]; discriminate Hm.
  - repeat match type of Hm with context [if ?c then _ else _] => destruct c end; destruct Hm as [Hm|Hm]; discriminate Hm.
  - repeat match type of Hm with context [if ?c then _ else _] => destruct c end; destruct Hm as [Hm|Hm]; discriminate Hm.
  - rewrite ht_TCon in Hht. eapply IHt; eassumption.
  - destruct ts as [|t1 [|t2 tr]].
    + cbn in Hm. destruct Hm as [Hm|Hm]; discriminate Hm.
    + cbn [map] in Hm. inversion H as [|? ? Hh _]; subst. rewrite ht_TUnion in Hht. eapply Hh; eassumption.
    + cbn [map] in Hm.
      repeat match type of Hm with
             | context [if ?c then _ else _] => destruct c
             | context [match filter ?f ?l with _ => _ end] => destruct (filter f l) as [|[? ?] ?]
             end; destruct Hm as [Hm|Hm]; discriminate Hm.
Qed.

Lemma wrap_sim fuel n t v :
  ht n t v = true -> sim (sx fuel (scompile u o t) v) (img fuel t v) ->
  sim (sx fuel (wrap (scompile u o t)) v) (img_alt (img fuel) t v).
Proof.
  intros Hht Hs. rewrite (img_alt_typed _ n t v Hht).
  destruct (scompile u o t) eqn:Em; try exact Hs; cbn [wrap].
  - destruct (stuple_typed n t v ms (or_intror Em) Hht) as [l [-> Hl]].
    rewrite sexec_SCheckedTuple. cbn [iter_values]. rewrite Hl, Nat.eqb_refl. exact Hs.
  - destruct (stuple_typed n t v ms (or_introl Em) Hht) as [l [-> Hl]].
    rewrite sexec_SCheckedTuple. cbn [iter_values]. rewrite Hl, Nat.eqb_refl. exact Hs.
Qed.

Lemma combine_map_self {A B} (f : A -> B) l : combine l (map f l) = map (fun a => (a, f a)) l.
Proof. induction l as [|a l IH]; [reflexivity|]. cbn [map combine]. rewrite IH. reflexivity. Qed.

Lemma alts_eq ts :
  flat_map (fun am : option expcls * smeth =>
              match fst am with
              | Some x => [(x, match snd am with
                               | STuple ms' | STupleCheck ms' => SCheckedTuple (List.length ms') (snd am)
                               | m' => m' end)]
              | None => [] end)
           (map (fun tm : ty * smeth => (expected_class u (fst tm), snd tm)) (combine ts (map (scompile u o) ts)))
  = alts_of ts.
Proof.
  unfold alts_of. induction ts as [|t ts IH]; [reflexivity|].
  cbn [map combine flat_map fst snd]. rewrite IH. destruct (expected_class u t); [|reflexivity].
  cbn [app]. f_equal. f_equal. unfold wrap. destruct (scompile u o t); reflexivity.
Qed.

Lemma none_alts ts :
  existsb (fun am : option expcls * smeth => match fst am with None => true | Some _ => false end)
          (map (fun tm : ty * smeth => (expected_class u (fst tm), snd tm)) (combine ts (map (scompile u o) ts)))
  = existsb (fun t' => match expected_class u t' with None => true | Some _ => false end) ts.
Proof.
  induction ts as [|t ts IH]; [reflexivity|]. cbn [map combine existsb fst]. rewrite IH. reflexivity.
Qed.

(* ------------------------------------------------------------------ objects *)
Definition compile_elem (cd : cdef) (e : elem) : sfield smeth :=
  match e with EField f => compile_sfield u o cd f | EMethod sm => compile_smethod u o sm end.

Definition triple (cd : cdef) (e : elem) : string * option ordering * sfield smeth :=
  (elem_name e, elem_order e, compile_elem cd e).

Lemma find_triple cd (P : string -> bool) es :
  find (fun x : string * option ordering * sfield smeth => P (fst (fst x))) (map (triple cd) es)
  = option_map (triple cd) (find (fun e => P (elem_name e)) es).
Proof.
  induction es as [|e es IH]; [reflexivity|]. cbn [map find triple fst]. destruct (P (elem_name e)); [reflexivity|exact IH].
Qed.

(* the compiled object method visits the elements the image visits, in the same order *)
Lemma order_fields_elems cd :
  order_fields cd (map (fun f => (fd_name f, fs_order (fd_ser f), compile_sfield u o cd f)) (cd_fields cd)
                   ++ map (fun sm => (sm_name sm, sm_order sm, compile_smethod u o sm)) (cd_methods cd))
  = option_map (map (compile_elem cd)) (ordered_elems cd).
Proof.
  unfold order_fields, ordered_elems.
  set (es := (map EField (cd_fields cd) ++ map EMethod (cd_methods cd))%list).
  assert (E : (map (fun f => (fd_name f, fs_order (fd_ser f), compile_sfield u o cd f)) (cd_fields cd)
               ++ map (fun sm => (sm_name sm, sm_order sm, compile_smethod u o sm)) (cd_methods cd))%list = map (triple cd) es).
  { unfold es. rewrite map_app, !map_map. reflexivity. }
  rewrite E. rewrite map_map. cbn [triple fst snd].
  destruct (sort_by_order (cd_order cd) (map (fun e => {| ename := elem_name e; eord := elem_order e |}) es)) as [sorted|]; [|reflexivity].
  cbn [option_map]. f_equal. induction sorted as [|x sorted IH]; [reflexivity|]. cbn [flat_map map].
  rewrite (find_triple cd (fun n => String.eqb n (ename x)) es).
  destruct (find (fun e => String.eqb (elem_name e) (ename x)) es); cbn [option_map app map triple snd]; rewrite IH; reflexivity.
Qed.

Lemma fields_loop_cons (g : smeth -> value -> sres) v x r acc :
  fields_loop g v (x :: r) acc =
  match fields_loop g v [x] acc with inl acc' => fields_loop g v r acc' | inr e => inr e end.
Proof.
  destruct x as [name alias|name alias fm|[name alias fm td required eu skip_if undefined skip_none skip_default dflt]|name alias result undefined skip_none fm];
    cbn [fields_loop].
  - destruct (getattr v name); reflexivity.
  - destruct (getattr v name); [|reflexivity]. destruct (g fm v0); reflexivity.
  - destruct (if td then _ else _); [|reflexivity].
    destruct (if td then _ else _); [|reflexivity]. destruct (_ || _)%bool; [reflexivity|]. destruct (g fm v0); reflexivity.
  - destruct (_ || _)%bool; [reflexivity|]. destruct (g fm result); reflexivity.
Qed.

Lemma simple_loop_fields (g : smeth -> value -> sres) v base : forall acc,
  forallb is_plain_identity base = true ->
  simple_loop v (map sfield_name base) acc = match fields_loop g v base acc with inl acc' => SROk (VDict acc') | inr e => e end.
Proof.
  induction base as [|x base IH]; intros acc H; [reflexivity|].
  cbn [forallb] in H. apply andb_true_iff in H. destruct H as [Hx Hb].
  destruct x as [name alias| | |]; try discriminate. cbn [is_plain_identity] in Hx. apply String.eqb_eq in Hx. subst alias.
  cbn [map sfield_name simple_loop fields_loop]. destruct (getattr v name); [|reflexivity]. apply IH. exact Hb.
Qed.

Lemma img_fields_cons (g : ty -> value -> sres) cd td v e r acc :
  img_fields o g cd td v (e :: r) acc =
  match img_fields o g cd td v [e] acc with inl acc' => img_fields o g cd td v r acc' | inr x => inr x end.
Proof.
  destruct e as [fd|sm]; cbn [img_fields].
  - destruct (td && fd_required fd && _)%bool; [reflexivity|]. destruct (negb td && _)%bool; [reflexivity|].
    destruct (omitted o cd v fd _); [reflexivity|].
    destruct (if td then _ else _); [|reflexivity]. destruct (g (fd_ty fd) v0); reflexivity.
  - destruct (_ || _)%bool; [reflexivity|]. destruct (g (sm_ty sm) (sm_result sm)); reflexivity.
Qed.

Definition loop_sim (a b : list (value * value) + sres) : Prop :=
  match a, b with inl x, inl y => x = y | inr e, inr e' => sim e e' | _, _ => False end.

Definition elem_ok (n' : nat) (cd : cdef) (v : value) (e : elem) : Prop :=
  match e with
  | EField fd =>
      du_ty (fd_ty fd) = true /\
      if is_typed_dict cd
      then exists kvs, v = VDict kvs /\ match vdict_get (fd_name fd) kvs with
                                        | Some x => ht n' (fd_ty fd) x = true
                                        | None => fd_required fd = false end
      else exists c' fs, v = VObj c' fs /\ ht_field (ht n') fs fd = true
  | EMethod sm =>
      du_ty (sm_ty sm) = true /\
      (((sm_undefined sm && is_vundef (sm_result sm)) || (so_excl_none o && ty_has_none (sm_ty sm) && is_vnone (sm_result sm)))%bool = true
       \/ exists m, ht m (sm_ty sm) (sm_result sm) = true)
  end.

Lemma emit_sim (g : smeth -> value -> sres) (h : ty -> value -> sres) t alias x acc :
  sim (g (scompile u o t) x) (h t x) ->
  loop_sim (emit g (scompile u o t) alias x acc)
           (match h t x with SROk y => inl (result_set acc alias y) | other => inr other end).
Proof.
  unfold emit. intros Hs. destruct (g (scompile u o t) x) eqn:Eg.
  - apply sim_ok_l in Hs. rewrite Hs. reflexivity.
  - destruct (h t x); try contradiction; exact I.
  - destruct (h t x); try contradiction; exact I.
  - apply sim_fuel_l in Hs. rewrite Hs. exact I.
Qed.

(* a field that is emitted holds a value of its type *)
Lemma emitted_field_typed n' cd v fs fd x :
  ht_field (ht n') fs fd = true -> dict_get (fd_name fd) fs = Some x -> omitted o cd v fd (Some x) = false ->
  ht n' (fd_ty fd) x = true /\ (x = VUndefined -> fs_undefined (fd_ser fd) = true).
Proof.
  unfold ht_field. intros Hf Hg Ho. rewrite Hg in Hf. unfold omitted in Ho.
  repeat (apply orb_false_iff in Ho; destruct Ho as [Ho ?]).
  destruct x; try (split; [exact Hf|intros E; discriminate E]).
  - (* None *)
    split; [|intros E; discriminate E]. apply orb_true_iff in Hf. destruct Hf as [Hf|Hf]; [|exact Hf].
    match goal with Hn : (is_vnone VNone && _)%bool = false |- _ => cbn [is_vnone andb] in Hn; rewrite Hf in Hn; discriminate Hn end.
  - (* Undefined *)
    match goal with Hu : (is_vundef VUndefined && _)%bool = false |- _ => cbn [is_vundef andb] in Hu; rewrite Hf in Hu; discriminate Hu end.
Qed.

Lemma elem_step f n' cd v e acc :
  (forall t n x, du_ty t = true -> ht n t x = true -> sim (sx f (scompile u o t) x) (img f t x)) ->
  (is_typed_dict cd = true -> cd_fields_set cd = false) ->
  elem_ok n' cd v e ->
  loop_sim (fields_loop (sx f) v [compile_elem cd e] acc) (img_fields o (img f) cd (is_typed_dict cd) v [e] acc).
Proof.
  intros IH Htdfs Hok. destruct e as [fd|sm]; cbn [compile_elem elem_ok] in *.
  - destruct Hok as [Hdu Hok]. destruct (is_typed_dict cd) eqn:Etd.
    + (* TypedDict *)
      destruct Hok as [kvs [-> Hk]]. rewrite (typed_dict_field_rule u o (sx f) cd fd kvs acc Etd (Htdfs eq_refl)).
      cbn [img_fields andb negb]. destruct (vdict_get (fd_name fd) kvs) as [x|] eqn:Eg.
      * rewrite andb_false_r. destruct (omitted o cd (VDict kvs) fd (Some x)); [reflexivity|].
        apply emit_sim. eapply IH; eassumption.
      * rewrite Hk. cbn [andb]. reflexivity.
    + destruct Hok as [c' [fs [-> Hf]]].
      assert (Hget : exists x, dict_get (fd_name fd) fs = Some x).
      { unfold ht_field in Hf. destruct (dict_get (fd_name fd) fs); [eexists; reflexivity|discriminate]. }
      destruct Hget as [x Hget]. cbn [img_fields andb negb getattr]. rewrite Hget. cbn [andb].
      destruct (omitted o cd (VObj c' fs) fd (Some x)) eqn:Eo.
      * assert (Hund : x = VUndefined -> fs_undefined (fd_ser fd) = true).
        { intros ->. unfold ht_field in Hf. rewrite Hget in Hf. exact Hf. }
        rewrite (field_omission_rule u o (sx f) cd fd (VObj c' fs) x acc Etd Hget Hund (sexec_SIdentity u o f)), Eo. reflexivity.
      * destruct (emitted_field_typed n' cd (VObj c' fs) fs fd x Hf Hget Eo) as [Hty Hund].
        rewrite (field_omission_rule u o (sx f) cd fd (VObj c' fs) x acc Etd Hget Hund (sexec_SIdentity u o f)), Eo.
        apply emit_sim. eapply IH; eassumption.
  - destruct Hok as [Hdu Hok]. rewrite (method_omission_rule u o (sx f) sm v acc). cbn [img_fields].
    destruct ((sm_undefined sm && is_vundef (sm_result sm)) || (so_excl_none o && ty_has_none (sm_ty sm) && is_vnone (sm_result sm)))%bool eqn:Ec;
      [reflexivity|].
    destruct Hok as [Hc|[m Hm]]; [discriminate|]. apply emit_sim. eapply IH; eassumption.
Qed.

Lemma elems_sim f n' cd v :
  (forall t n x, du_ty t = true -> ht n t x = true -> sim (sx f (scompile u o t) x) (img f t x)) ->
  (is_typed_dict cd = true -> cd_fields_set cd = false) ->
  forall es acc, Forall (elem_ok n' cd v) es ->
  loop_sim (fields_loop (sx f) v (map (compile_elem cd) es) acc) (img_fields o (img f) cd (is_typed_dict cd) v es acc).
Proof.
  intros IH Htdfs. induction es as [|e es IHes]; intros acc HF; [reflexivity|].
  inversion HF as [|? ? He Hes]; subst. cbn [map]. rewrite fields_loop_cons, img_fields_cons.
  pose proof (elem_step f n' cd v e acc IH Htdfs He) as Hs.
  destruct (fields_loop (sx f) v [compile_elem cd e] acc), (img_fields o (img f) cd (is_typed_dict cd) v [e] acc); try contradiction.
  - cbn in Hs. subst. apply IHes. exact Hes.
  - exact Hs.
Qed.

Hypothesis Hdu : du_univ.
(* the (constant) result of a serialized method is omitted or has the declared return type *)
Hypothesis Hmeth : forall c sm, In sm (cd_methods (get_cls u c)) ->
  ((sm_undefined sm && is_vundef (sm_result sm)) || (so_excl_none o && ty_has_none (sm_ty sm) && is_vnone (sm_result sm)))%bool = true
  \/ exists m, ht m (sm_ty sm) (sm_result sm) = true.
(* additional properties of TypedDicts are arbitrary values: outside the statement *)
Hypothesis Hnoextra : forall c, (is_typed_dict (get_cls u c) && so_addprops o)%bool = false.

Lemma ordered_elems_in cd es e :
  ordered_elems cd = Some es -> In e es -> In e (map EField (cd_fields cd) ++ map EMethod (cd_methods cd))%list.
Proof.
  unfold ordered_elems. destruct (sort_by_order _ _) as [sorted|]; [|discriminate]. intros E Hin. injection E as <-.
  apply in_flat_map in Hin. destruct Hin as [x [_ Hx]].
  destruct (find _ _) as [e'|] eqn:Ef; [|contradiction]. destruct Hx as [<-|[]]. apply find_some in Ef. tauto.
Qed.

Lemma class_du v t' : ty_of_class v = Some t' -> du_ty t' = true.
Proof. destruct v; intros E; try discriminate; injection E as <-; reflexivity. Qed.

Lemma compile_step fuel :
  (forall f, fuel = S f -> forall t n v, du_ty t = true -> ht n t v = true -> sim (sx f (scompile u o t) v) (img f t v)) ->
  forall t n v, du_ty t = true -> ht n t v = true -> sim (sx fuel (scompile u o t) v) (img fuel t v).
Proof.
  intros IHf. destruct no_pt as [Pany [Pcoll [Pdc [Penum Ptup]]]].
  induction t using ty_ind'; intros n v Hd Hht.
  - cbn [scompile]. rewrite sexec_SIdentity, image_prim by exact I. reflexivity.
  - cbn [scompile]. rewrite sexec_SIdentity, image_prim by exact I. reflexivity.
  - cbn [scompile]. rewrite sexec_SIdentity, image_prim by exact I. reflexivity.
  - cbn [scompile]. rewrite sexec_SIdentity, image_prim by exact I. reflexivity.
  - cbn [scompile]. rewrite sexec_SIdentity, image_prim by exact I. reflexivity.
  - (* Any *)
    cbn [scompile]. rewrite Pany. destruct fuel as [|f]; [exact I|]. rewrite sexec_SAny_S, image_TAny_S.
    destruct n as [|n']; [rewrite ht_TAny_O in Hht; discriminate|]. rewrite ht_TAny_S in Hht.
    destruct (ty_of_class v) as [t'|] eqn:Et; [|exact I]. eapply IHf; [reflexivity|exact (class_du _ _ Et)|exact Hht].
  - (* collections *)
    cbn [du_ty] in Hd. cbn [scompile]. rewrite Ptup, Pcoll. cbn [andb orb]. rewrite !orb_false_r.
    rewrite ht_TColl in Hht. rewrite image_TColl.
    assert (Hl : exists l, iter_values v = Some l /\ forallb (ht n t) l = true /\ (k = KList -> v = VList l)).
    { destruct k; destruct v; try discriminate; eexists; repeat split; try exact Hht; try reflexivity; intros; discriminate. }
    destruct Hl as [l [Hit [Hall Hlist]]]. rewrite Hit.
    assert (HF : Forall (fun x => sim (sx fuel (scompile u o t) x) (img fuel t x)) l).
    { apply Forall_forall. intros x Hx. rewrite forallb_forall in Hall. eapply IHt; [exact Hd|]. apply Hall. exact Hx. }
    pose proof (all_sim _ _ _ HF) as Hs.
    destruct (is_identity (scompile u o t)) eqn:Eid.
    + destruct (scompile u o t) eqn:Em; try discriminate.
      assert (Himg : img_all (img fuel t) l = inl l).
      { apply img_all_identity. eapply Forall_impl; [|exact HF]. intros x Hx. cbv beta in Hx. rewrite sexec_SIdentity in Hx. exact Hx. }
      rewrite Himg. destruct (so_nocopy o && match k with KList => true | _ => false end)%bool eqn:Ep.
      * rewrite sexec_SIdentity. apply andb_true_iff in Ep. destruct Ep as [_ Ek]. destruct k; try discriminate.
        rewrite (Hlist eq_refl). reflexivity.
      * rewrite sexec_SList, Hit. reflexivity.
    + destruct ((so_nocopy o && match k with KList => true | _ => false end) && scheck_only (scompile u o t))%bool eqn:Ec.
      * apply andb_true_iff in Ec. destruct Ec as [Ep Ec]. apply andb_true_iff in Ep. destruct Ep as [_ Ek].
        destruct k; try discriminate. rewrite sexec_SCollCheck, Hit.
        destruct (all_loop (sx fuel (scompile u o t)) l) as [[ys|]|e] eqn:Ea.
        -- destruct (img_all (img fuel t) l); [|contradiction]. subst.
           rewrite (all_loop_same _ _ _ (fun x y => check_only_same fuel _ x y Ec) Ea), (Hlist eq_refl). reflexivity.
        -- exfalso. exact (all_loop_some _ _ Ea).
        -- destruct (img_all (img fuel t) l); [contradiction|exact Hs].
      * rewrite sexec_SColl, Hit.
        destruct (all_loop (sx fuel (scompile u o t)) l) as [[ys|]|e] eqn:Ea.
        -- destruct (img_all (img fuel t) l); [|contradiction]. subst. reflexivity.
        -- exfalso. exact (all_loop_some _ _ Ea).
        -- destruct (img_all (img fuel t) l); [contradiction|exact Hs].
  - (* fixed tuples *)
    cbn [du_ty] in Hd. cbn [scompile]. rewrite Ptup. rewrite ht_TTuple in Hht. destruct v; try discriminate.
    rewrite sexec_STuple, image_TTuple.
    assert (HF : Forall (fun t => forall x, ht n t x = true -> sim (sx fuel (scompile u o t) x) (img fuel t x)) ts).
    { rewrite Forall_forall in *. rewrite forallb_forall in Hd. intros t Hin x Hx. eapply H; [exact Hin|apply Hd; exact Hin|exact Hx]. }
    exact (tuple_sim (ht n) (sx fuel) (img fuel) (scompile u o) ts l [] HF Hht).
  - (* mappings *)
    cbn [du_ty] in Hd. apply andb_true_iff in Hd. destruct Hd as [Hd1 Hd2].
    cbn [scompile]. rewrite Pcoll, orb_false_r. rewrite ht_TMap in Hht. destruct v; try discriminate.
    apply andb_true_iff in Hht. destruct Hht as [Hall Hdist]. rewrite image_TMap, img_map_items.
    assert (HF : Forall (fun kv => sim (sx fuel (scompile u o t1) (fst kv)) (img fuel t1 (fst kv))
                                   /\ sim (sx fuel (scompile u o t2) (snd kv)) (img fuel t2 (snd kv))) l).
    { apply Forall_forall. intros kv Hin. rewrite forallb_forall in Hall. specialize (Hall kv Hin).
      apply andb_true_iff in Hall. destruct Hall as [Hk Hv]. split; [eapply IHt1|eapply IHt2]; eassumption. }
    pose proof (map_sim _ _ _ _ _ HF) as Hs.
    assert (Hfold : fold_left (fun a kv => dict_set a (fst kv) (snd kv)) l [] = l).
    { exact (fold_dict_set_new l [] Hdist). }
    destruct (is_identity (scompile u o t1) && is_identity (scompile u o t2))%bool eqn:Eid.
    + apply andb_true_iff in Eid. destruct Eid as [E1 E2].
      destruct (scompile u o t1) eqn:Em1; try discriminate. destruct (scompile u o t2) eqn:Em2; try discriminate.
      assert (Himg : map_loop (img fuel t1) (img fuel t2) l = inl l).
      { assert (Hsame : map_loop (sx fuel SIdentity) (sx fuel SIdentity) l = inl l).
        { clear. induction l as [|[k x] r IH]; [reflexivity|]. cbn [map_loop]. rewrite !sexec_SIdentity, IH. reflexivity. }
        rewrite Hsame in Hs. destruct (map_loop (img fuel t1) (img fuel t2) l); [congruence|contradiction]. }
      rewrite Himg, Hfold. destruct (so_nocopy o); [rewrite sexec_SIdentity|rewrite sexec_SDict]; reflexivity.
    + destruct (so_nocopy o && scheck_only (scompile u o t1) && scheck_only (scompile u o t2))%bool eqn:Ec.
      * apply andb_true_iff in Ec. destruct Ec as [Ec Ec2]. apply andb_true_iff in Ec. destruct Ec as [_ Ec1].
        rewrite sexec_SMapCheck.
        destruct (map_loop (sx fuel (scompile u o t1)) (sx fuel (scompile u o t2)) l) as [items|e] eqn:Ea.
        -- destruct (map_loop (img fuel t1) (img fuel t2) l); [|contradiction]. subst.
           rewrite (map_loop_same _ _ _ _ (fun k y => check_only_same fuel _ k y Ec1) (fun x y => check_only_same fuel _ x y Ec2) Ea).
           rewrite Hfold. reflexivity.
        -- destruct (map_loop (img fuel t1) (img fuel t2) l); [contradiction|exact Hs].
      * rewrite sexec_SMap.
        destruct (map_loop (sx fuel (scompile u o t1)) (sx fuel (scompile u o t2)) l) as [items|e] eqn:Ea.
        -- destruct (map_loop (img fuel t1) (img fuel t2) l); [|contradiction]. subst. reflexivity.
        -- destruct (map_loop (img fuel t1) (img fuel t2) l); [contradiction|exact Hs].
  - (* literals *)
    cbn [scompile]. rewrite Penum, Pany. cbn [orb]. rewrite image_TLit.
    destruct (forallb _ vs); [rewrite sexec_SIdentity; reflexivity|].
    destruct fuel as [|f]; [exact I|]. rewrite sexec_SAny_S.
    destruct (ty_of_class v) as [t'|] eqn:Et; [|exact I]. eapply (IHf f eq_refl t' n); [exact (class_du _ _ Et)|].
    apply prim_class_typed; [exact Et|]. rewrite ht_TLit in Hht. destruct v; try discriminate; exact I.
  - (* enums *)
    cbn [scompile]. rewrite Penum, sexec_SValue, image_TEnum. destruct v; cbn; auto.
  - (* Annotated *)
    cbn [du_ty] in Hd. cbn [scompile]. rewrite image_TCon. rewrite ht_TCon in Hht. eapply IHt; eassumption.
  - (* unions *)
    cbn [du_ty] in Hd. apply andb_true_iff in Hd. destruct Hd as [Hdts Hdisj].
    assert (HF : Forall (fun t => forall x, ht n t x = true -> sim (sx fuel (scompile u o t) x) (img fuel t x)) ts).
    { rewrite Forall_forall in *. rewrite forallb_forall in Hdts. intros t Hin x Hx. eapply H; [exact Hin|apply Hdts; exact Hin|exact Hx]. }
    rewrite ht_TUnion in Hht. rewrite image_TUnion.
    destruct ts as [|t1 [|t2 tr]].
    + discriminate.
    + cbn [scompile map]. inversion HF as [|? ? Hh _]; subst. apply Hh. exact Hht.
    + apply andb_true_iff in Hht. destruct Hht as [Hec Hfirst].
      assert (Hnone : existsb (fun t' => match expected_class u t' with None => true | Some _ => false end) (t1 :: t2 :: tr) = false).
      { destruct (existsb _ (t1 :: t2 :: tr)) eqn:E; [|reflexivity]. apply existsb_exists in E. destruct E as [t0 [Hin E0]].
        rewrite forallb_forall in Hec. specialize (Hec t0 Hin). destruct (expected_class u t0); discriminate. }
      rewrite Hnone.
      destruct (matched (ht n) v _ Hec Hdisj Hfirst) as [pre [t [post [x [Ets [Ex [Hi [Hty [Hpre Hpost]]]]]]]]].
      assert (Hin : In t (t1 :: t2 :: tr)) by (rewrite Ets; apply in_or_app; right; left; reflexivity).
      assert (Hsim : sim (sx fuel (scompile u o t) v) (img fuel t v)).
      { rewrite Forall_forall in HF. apply HF; assumption. }
      rewrite Ets at 2. rewrite (img_first_at (img fuel) v pre t post x Hpre Hpost Ex Hi).
      (* the three shapes of the compiled method *)
      set (ts := t1 :: t2 :: tr) in *.
      assert (Ecomp : scompile u o (TUnion ts) =
                      if forallb is_identity (map (scompile u o) ts) then SIdentity
                      else if (Nat.eqb (List.length ts) 2 && existsb (fun t => match t with TNone => true | _ => false end) ts)%bool then
                        match filter (fun tm : ty * smeth => negb (match expected_class u (fst tm) with Some XNone => true | _ => false end))
                                     (combine ts (map (scompile u o) ts)) with
                        | (_, m) :: _ => SOptional m
                        | [] => SCompileError "StopIteration"
                        end
                      else SUnion (alts_of ts)).
      { unfold ts in *. cbn [scompile]. rewrite none_alts, Hnone, alts_eq. reflexivity. }
      rewrite Ecomp. clear Ecomp.
      destruct (forallb is_identity (map (scompile u o) ts)) eqn:Eid.
      * (* every alternative serializes by identity *)
        rewrite sexec_SIdentity.
        assert (Em : scompile u o t = SIdentity).
        { rewrite forallb_forall in Eid. specialize (Eid (scompile u o t) (in_map _ _ _ Hin)).
          destruct (scompile u o t); try discriminate. reflexivity. }
        rewrite Em, sexec_SIdentity in Hsim. apply sim_ok_l in Hsim.
        rewrite (img_alt_typed _ n t v Hty), Hsim. reflexivity.
      * destruct (Nat.eqb (List.length ts) 2 && existsb (fun t => match t with TNone => true | _ => false end) ts)%bool eqn:Eopt.
        -- (* Optional *)
           destruct tr as [|t3 tr']; [|cbn in Eopt; discriminate]. unfold ts in *. clear ts.
           cbn [List.length Nat.eqb andb existsb] in Eopt. rewrite orb_false_r in Eopt.
           cbn [map combine filter fst].
           assert (HxN : forall y w, isinst u w y = true -> w <> VNone -> match y with XNone => true | _ => false end = false).
           { intros y w Hy Hw. destruct y; try reflexivity. destruct w; try discriminate. exfalso. apply Hw. reflexivity. }
           assert (HyN : forall y, isinst u VNone y = false -> match y with XNone => true | _ => false end = false).
           { intros y Hy. destruct y; try reflexivity. discriminate. }
           rewrite (img_alt_typed _ n t v Hty).
           destruct pre as [|p pre'].
           ++ (* the first alternative takes the value *)
              cbn [app] in Ets. injection Ets as <- <-. rewrite Ex.
              destruct (Hpost t2 (or_introl eq_refl)) as [y2 [Ey2 Hy2]]. rewrite Ey2.
              destruct (v_is_none v) as [->|Hv].
              ** (* None: the first alternative is the None one *)
                 assert (Et1 : t1 = TNone).
                 { destruct t2; try (destruct t1; try discriminate Eopt; reflexivity).
                   cbn [expected_class] in Ey2. injection Ey2 as <-. discriminate. }
                 subst t1. cbn [expected_class] in Ex. injection Ex as <-. cbn [negb]. rewrite (HyN _ Hy2). cbn [negb].
                 rewrite sexec_SOptional. rewrite image_prim by exact I. reflexivity.
              ** rewrite (HxN _ _ Hi Hv). cbn [negb]. rewrite sexec_SOptional.
                 destruct v; try (apply sim_finish_r; exact Hsim). exfalso. apply Hv. reflexivity.
           ++ (* the second alternative takes the value *)
              destruct pre' as [|p' pre''].
              2:{ cbn [app] in Ets. injection Ets as _ _ Ets. destruct pre''; discriminate. }
              cbn [app] in Ets. injection Ets as <- <- <-.
              destruct (Hpre t1 (or_introl eq_refl)) as [y1 [Ey1 Hy1]]. rewrite Ey1, Ex.
              destruct (v_is_none v) as [->|Hv].
              ** assert (Et2 : t2 = TNone).
                 { destruct t1; try (destruct t2; try discriminate Eopt; reflexivity).
                   cbn [expected_class] in Ey1. injection Ey1 as <-. discriminate. }
                 subst t2. rewrite (HyN _ Hy1). cbn [negb]. rewrite sexec_SOptional, image_prim by exact I. reflexivity.
              ** rewrite (HxN _ _ Hi Hv). cbn [negb].
                 destruct (match y1 with XNone => true | _ => false end) eqn:Ey; cbn [negb].
                 --- rewrite sexec_SOptional. destruct v; try (apply sim_finish_r; exact Hsim). exfalso. apply Hv. reflexivity.
                 --- (* then the second alternative would be None and could not take a value other than None *)
                     exfalso. assert (Et2 : t2 = TNone).
                     { destruct t1; try (destruct t2; try discriminate Eopt; reflexivity).
                       cbn [expected_class] in Ey1. injection Ey1 as <-. discriminate. }
                     subst t2. cbn [expected_class] in Ex. injection Ex as <-. destruct v; try discriminate. apply Hv. reflexivity.
        -- (* general case *)
           rewrite sexec_SUnion. rewrite Ets. rewrite (try_at (sx fuel) v pre t post x Hpre Hpost Ex Hi).
           apply finish_sim. apply (wrap_sim fuel n t v Hty Hsim).
  - (* classes *)
    cbn [scompile]. destruct fuel as [|f]; [exact I|]. rewrite sexec_SRec_S, image_TObj_S. cbv zeta.
    destruct n as [|n']; [rewrite ht_TObj_O in Hht; discriminate|]. rewrite ht_TObj_S in Hht. cbv zeta in Hht.
    unfold scompile_obj. rewrite order_fields_elems. rewrite (Hnoextra c).
    set (cd := get_cls u c) in *.
    destruct (ordered_elems cd) as [es|] eqn:Eo; cbn [option_map]; [|rewrite sexec_SCompileError; exact I].
    assert (HF : Forall (elem_ok n' cd v) es).
    { apply Forall_forall. intros e Hin. pose proof (ordered_elems_in cd es e Eo Hin) as Hin'.
      destruct (Hdu c) as [Hduf Hdum]. fold cd in Hduf, Hdum.
      apply in_app_or in Hin'. destruct Hin' as [Hin'|Hin']; apply in_map_iff in Hin'; destruct Hin' as [a [<- Ha]]; cbn [elem_ok].
      - rewrite forallb_forall in Hduf. split; [apply Hduf; exact Ha|].
        unfold is_typed_dict. destruct (cd_kind cd) eqn:Ek.
        + destruct v; try discriminate. apply andb_true_iff in Hht. destruct Hht as [Hht _]. apply andb_true_iff in Hht.
          destruct Hht as [_ Hf]. rewrite forallb_forall in Hf. eexists; eexists; split; [reflexivity|apply Hf; exact Ha].
        + destruct v; try discriminate. apply andb_true_iff in Hht. destruct Hht as [Hht _]. apply andb_true_iff in Hht.
          destruct Hht as [_ Hf]. rewrite forallb_forall in Hf. eexists; eexists; split; [reflexivity|apply Hf; exact Ha].
        + destruct v; try discriminate. apply andb_true_iff in Hht. destruct Hht as [Hf _]. rewrite forallb_forall in Hf.
          specialize (Hf a Ha). eexists; split; [reflexivity|].
          destruct (vdict_get (fd_name a) l); [exact Hf|]. apply negb_true_iff in Hf. exact Hf.
      - rewrite forallb_forall in Hdum. split; [apply Hdum; exact Ha|]. apply (Hmeth c). exact Ha. }
    pose proof (elems_sim f n' cd v (IHf f eq_refl) (Htd_fs c) es [] HF) as Hs.
    rewrite Pdc, andb_false_r.
    destruct (negb (forallb is_plain_identity (map (compile_elem cd) es))) eqn:Epl.
    + rewrite sexec_SObj.
      destruct (fields_loop (sx f) v (map (compile_elem cd) es) []), (img_fields o (img f) cd (is_typed_dict cd) v es []);
        try contradiction; cbn in Hs; [subst; reflexivity|exact Hs].
    + apply negb_false_iff in Epl. rewrite sexec_SSimpleObj, (simple_loop_fields (sx f) v _ [] Epl).
      destruct (fields_loop (sx f) v (map (compile_elem cd) es) []), (img_fields o (img f) cd (is_typed_dict cd) v es []);
        try contradiction; cbn in Hs; [subst; reflexivity|exact Hs].
Qed.

(* for every amount of fuel: same value, both fail, or both run out of fuel *)
Theorem compile_correct : forall fuel t n v,
  du_ty t = true -> ht n t v = true -> sim (serialize u o fuel t v) (img fuel t v).
Proof.
  unfold serialize. induction fuel as [|f IH]; apply compile_step.
  - intros f' E. discriminate.
  - intros f' E. injection E as <-. exact IH.
Qed.
End C.

(* ------------------------------------------------------------------ the hypotheses as one executable check *)
Section Checked.
Variable u : univ.
Variable o : sopts.
Variable mf : nat.    (* fuel used to type the results of serialized methods *)

Definition meth_ok (sm : smeth_def) : bool :=
  ((sm_undefined sm && is_vundef (sm_result sm)) || (so_excl_none o && ty_has_none (sm_ty sm) && is_vnone (sm_result sm))
   || has_type u mf (sm_ty sm) (sm_result sm))%bool.

Definition cc_cls_b (cd : cdef) : bool :=
  (negb (is_typed_dict cd) || negb (cd_fields_set cd))
  && forallb (fun fd => du_ty u (fd_ty fd)) (cd_fields cd)
  && forallb (fun sm => du_ty u (sm_ty sm)) (cd_methods cd)
  && forallb meth_ok (cd_methods cd)
  && negb (is_typed_dict cd && so_addprops o).

Definition cc_univ_b : bool := no_pass_through o && forallb cc_cls_b (u_classes u).

Lemma cc_cls_all : forallb cc_cls_b (u_classes u) = true -> forall c, cc_cls_b (get_cls u c) = true.
Proof.
  intros H c. unfold get_cls. destruct (nth_in_or_default c (u_classes u) empty_cls) as [Hin|Hd].
  - rewrite forallb_forall in H. apply H. exact Hin.
  - rewrite Hd. reflexivity.
Qed.

Definition cc_hyps (n : nat) (t : ty) (v : value) : bool := cc_univ_b && du_ty u t && has_type u n t v.

Theorem compile_correct_checked fuel n t v :
  cc_hyps n t v = true -> sim (serialize u o fuel t v) (image u o fuel t v).
Proof.
  unfold cc_hyps, cc_univ_b. intros H. apply andb_true_iff in H. destruct H as [H Hty]. apply andb_true_iff in H. destruct H as [H Hdu].
  apply andb_true_iff in H. destruct H as [Hpt Hall]. pose proof (cc_cls_all Hall) as Hc.
  assert (Hsplit : forall c, (negb (is_typed_dict (get_cls u c)) || negb (cd_fields_set (get_cls u c)))%bool = true
                             /\ forallb (fun fd => du_ty u (fd_ty fd)) (cd_fields (get_cls u c)) = true
                             /\ forallb (fun sm => du_ty u (sm_ty sm)) (cd_methods (get_cls u c)) = true
                             /\ forallb meth_ok (cd_methods (get_cls u c)) = true
                             /\ negb (is_typed_dict (get_cls u c) && so_addprops o) = true).
  { intros c. specialize (Hc c). unfold cc_cls_b in Hc. repeat (apply andb_true_iff in Hc; destruct Hc as [Hc ?]). repeat split; assumption. }
  apply (compile_correct u o Hpt) with (n := n); try assumption.
  - intros c Htd. destruct (Hsplit c) as [H1 _]. rewrite Htd in H1. cbn [negb orb] in H1. apply negb_true_iff in H1. exact H1.
  - intros c. destruct (Hsplit c) as [_ [H2 [H3 _]]]. split; assumption.
  - intros c sm Hin. destruct (Hsplit c) as [_ [_ [_ [H4 _]]]]. rewrite forallb_forall in H4. specialize (H4 sm Hin).
    unfold meth_ok in H4. apply orb_true_iff in H4. destruct H4 as [H4|H4]; [left; exact H4|right; exists mf; exact H4].
  - intros c. destruct (Hsplit c) as [_ [_ [_ [_ H5]]]]. apply negb_true_iff in H5. exact H5.
Qed.
End Checked.

(* the hypotheses are satisfiable: the recursive dataclass of the round-trip example, with a serialized method added *)
Definition cc_ex_univ : univ := mkU
  [ mkCls KData
      [ mkF "v" "v" TInt true VNone false None no_fser;
        mkF "next" "nextNode" (TUnion [TObj 0; TNone]) false VNone false None (mkFS true SkipNever false false None);
        mkF "tags" "tags" (TColl KList TStr) false (VList []) false None no_fser;
        mkF "pos" "pos" (TTuple [TFloat; TBool]) true VNone false None no_fser;
        mkF "extra" "extra" (TMap TStr (TUnion [TInt; TStr; TColl KVarTuple TBool])) true VNone false None no_fser ]
      [] [mkSM "size" "size" TInt (VInt 3) false None] [] false ]
  [].

Definition cc_ex_opts : sopts := mkSO false true false true true false false false false false (fun s => "p_" ++ s).

Definition cc_ex_value : value :=
  VObj 0 [("v", VInt 1);
          ("next", VObj 0 [("v", VInt 2); ("next", VNone); ("tags", VList []); ("pos", VTuple [VFloat (FQ 6); VBool true]); ("extra", VDict [])]);
          ("tags", VList [VStr "x"; VStr "y"]); ("pos", VTuple [VFloat (FQ (-1)); VBool false]);
          ("extra", VDict [(VStr "k", VInt 3); (VStr "l", VStr "s"); (VStr "m", VTuple [VBool true])])].

Example cc_ex_hyps : cc_hyps cc_ex_univ cc_ex_opts 5 3 (TObj 0) cc_ex_value = true.
Proof. vm_compute. reflexivity. Qed.
