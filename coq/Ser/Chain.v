(* C05 / C04 / C01 chained: the two MODELS OF THE CODE (compiled serializer, compiled deserializer), not only the two
   specifications, compose to the identity. *)
From Coq Require Import List String ZArith Bool Arith.
From AV Require Import Core.Json Core.Errors Deser.Model Deser.Spec Deser.Loops Deser.Proofs Ser.Model Ser.Spec Ser.RoundTrip
  Ser.RoundTripInd Ser.CompileProofs.
Import ListNotations.

Lemma sim_ok_r a y : sim a (SROk y) -> a = SROk y.
Proof. destruct a; cbn; intros H; try contradiction. subst. reflexivity. Qed.

(* what the compiled serializer produces is what the specification says, hence it round-trips through the specification ... *)
Theorem compiled_serializer_round_trip u so mf n t v :
  rt_hyps u so n t v = true -> cc_hyps u so mf n t v = true ->
  exists j d, serialize u so (S n) t v = SROk j /\ unembed j = Some d /\ spec u (dopts_of so) (S n) None t d = SOk v.
Proof.
  intros Hr Hc. destruct (round_trip_checked u so n t v Hr) as [j [d [Hi [Hu Hs]]]].
  exists j, d. split; [|split; assumption].
  pose proof (compile_correct_checked u so mf (S n) n t v Hc) as Hsim. rewrite Hi in Hsim. apply sim_ok_r. exact Hsim.
Qed.

(* ... and through the compiled deserializer (C01), unless that one runs out of fuel *)
Theorem compiled_models_round_trip u so mf n t v :
  rt_hyps u so n t v = true -> cc_hyps u so mf n t v = true ->
  wf_univ u (dopts_of so) = true -> wf_ty t = true -> union_order_ok t = true ->
  exists j d, serialize u so (S n) t v = SROk j /\ unembed j = Some d /\
              (wf_data d = true ->
               deserialize u (dopts_of so) (S n) None t d = ROk v \/ deserialize u (dopts_of so) (S n) None t d = RFuel).
Proof.
  intros Hr Hc Hwu Hwt Huo. destruct (compiled_serializer_round_trip u so mf n t v Hr Hc) as [j [d [Hser [Hu Hs]]]].
  exists j, d. split; [exact Hser|]. split; [exact Hu|]. intros Hwd.
  assert (Hstrict : strict_opts (dopts_of so)) by reflexivity.
  pose proof (deserialize_agrees_with_spec u (dopts_of so) (S n) None t d Hstrict Hwu Hwt Huo Hwd) as Ha.
  unfold spec_deserialize in Ha. rewrite Hs in Ha.
  destruct (deserialize u (dopts_of so) (S n) None t d); cbn in Ha; try contradiction; [left; congruence|right; reflexivity].
Qed.
