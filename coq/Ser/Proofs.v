(* Serialization: the omission rule of object fields (C04), proved on the compiled field strategies. *)
From Coq Require Import List String ZArith Bool Arith Lia Btauto.
From AV Require Import Core.Json Core.Errors Core.Text Small.Ordering Deser.Model Ser.Model Ser.Spec Ser.Unfold.
Import ListNotations.

Section P.
Variable u : univ.
Variable o : sopts.

Definition emit (g : smeth -> value -> sres) (m : smeth) (alias : string) (x : value) (acc : list (value * value))
  : list (value * value) + sres :=
  match g m x with SROk y => inl (result_set acc alias y) | other => inr other end.

(* dataclass / NamedTuple field: whatever strategy was compiled for it (IdentityField, SimpleField or ComplexField),
   the key is left out exactly when the documented rule `omitted` says so, and otherwise holds the serialized value *)
Theorem field_omission_rule (g : smeth -> value -> sres) cd fd v x acc :
  is_typed_dict cd = false ->
  getattr v (fd_name fd) = Some x ->
  (x = VUndefined -> fs_undefined (fd_ser fd) = true) ->
  (forall y, g SIdentity y = SROk y) ->
  fields_loop g v [compile_sfield u o cd fd] acc =
  if omitted o cd v fd (Some x) then inl acc
  else emit g (scompile u o (fd_ty fd)) (so_aliaser o (fd_alias fd)) x acc.
Proof.
  intros Htd Hget Hund Hid. unfold compile_sfield, omitted, emit. rewrite Htd. cbn [orb].
  set (dflt := if fd_required fd then None else Some (fd_default fd)).
  destruct (so_excl_unset o && cd_fields_set cd)%bool eqn:Eu; cbn [orb].
  - (* exclude_unset on a with_fields_set class: always a ComplexField *)
    cbn [fields_loop]. rewrite Hget. cbn [negb orb].
    destruct (in_fields_set v (fd_name fd)); cbn [negb orb andb]; [|reflexivity].
    match goal with |- (if ?a then _ else _) = (if ?b then _ else _) => assert (E : a = b) end.
    { destruct x; destruct dflt as [[]|]; cbn [is_vundef is_vnone]; btauto. }
    rewrite E. destruct (_ || _)%bool; reflexivity.
  - destruct (skippable o fd) eqn:Esk.
    + cbn [fields_loop]. rewrite Hget. cbn [negb orb andb].
      match goal with |- (if ?a then _ else _) = (if ?b then _ else _) => assert (E : a = b) end.
      { destruct x; destruct dflt as [[]|]; cbn [is_vundef is_vnone]; btauto. }
      rewrite E. destruct (_ || _)%bool; reflexivity.
    + (* IdentityField / SimpleField: none of the omission conditions can hold *)
      assert (Hno : (skip_if_holds (fs_skip_if (fd_ser fd)) x
                     || (is_vundef x && (fs_undefined (fd_ser fd) || match dflt with Some VUndefined => true | _ => false end))
                     || (is_vnone x && (fs_none_undef (fd_ser fd) || (so_excl_none o && ty_has_none (fd_ty fd))
                                        || ((fs_skip_default (fd_ser fd) || so_excl_defaults o) && match dflt with Some VNone => true | _ => false end)))
                     || ((fs_skip_default (fd_ser fd) || so_excl_defaults o)
                         && match dflt with
                            | Some VNone | Some VUndefined | None => false
                            | Some dv => value_pyeq x dv end))%bool = false).
      { unfold skippable in Esk. repeat (apply orb_false_iff in Esk; destruct Esk as [Esk ?]).
        destruct (fs_skip_if (fd_ser fd)) eqn:Esi; try discriminate. cbn [skip_if_holds orb].
        assert (Hu : is_vundef x = false).
        { destruct x; try reflexivity. specialize (Hund eq_refl). congruence. }
        rewrite Hu. cbn [andb orb].
        subst dflt. destruct (fd_required fd); cbn [negb andb] in *.
        - rewrite !andb_false_r, !orb_false_r.
          destruct (is_vnone x); cbn [andb]; [|reflexivity].
          match goal with H : fs_none_undef _ = false |- _ => rewrite H end.
          match goal with H : (so_excl_none o && _)%bool = false |- _ => rewrite H end. reflexivity.
        - match goal with H : (fs_skip_default _ || so_excl_defaults o)%bool = false |- _ =>
            rewrite H end.
          cbn [andb]. rewrite !orb_false_r.
          destruct (is_vnone x); cbn [andb]; [|reflexivity].
          match goal with H : fs_none_undef _ = false |- _ => rewrite H end.
          match goal with H : (so_excl_none o && _)%bool = false |- _ => rewrite H end. reflexivity. }
      cbn [andb orb negb]. rewrite Hno.
      destruct (is_identity (scompile u o (fd_ty fd))) eqn:Ei; cbn [fields_loop]; rewrite Hget.
      * destruct (scompile u o (fd_ty fd)); try discriminate. rewrite Hid. reflexivity.
      * destruct (g (scompile u o (fd_ty fd)) x); reflexivity.
Qed.

End P.

Section P2.
Variable u : univ.
Variable o : sopts.

(* serialized methods: omitted exactly when the result is Undefined (and the return type says so) or None under exclude_none *)
Theorem method_omission_rule (g : smeth -> value -> sres) sm v acc :
  fields_loop g v [compile_smethod u o sm] acc =
  if ((sm_undefined sm && is_vundef (sm_result sm))
      || (so_excl_none o && ty_has_none (sm_ty sm) && is_vnone (sm_result sm)))%bool then inl acc
  else emit g (scompile u o (sm_ty sm)) (so_aliaser o (sm_alias sm)) (sm_result sm) acc.
Proof.
  unfold compile_smethod, emit. cbn [fields_loop].
  replace ((sm_undefined sm && is_vundef (sm_result sm) || ty_has_none (sm_ty sm) && so_excl_none o && is_vnone (sm_result sm))%bool)
    with ((sm_undefined sm && is_vundef (sm_result sm) || so_excl_none o && ty_has_none (sm_ty sm) && is_vnone (sm_result sm))%bool)
    by btauto.
  destruct (_ || _)%bool; [reflexivity|]. destruct (g _ _); reflexivity.
Qed.

(* TypedDict field: emitted iff the key is present (a missing required key is an error), never subject to exclude_unset *)
Theorem typed_dict_field_rule (g : smeth -> value -> sres) cd fd kvs acc :
  is_typed_dict cd = true -> cd_fields_set cd = false ->
  fields_loop g (VDict kvs) [compile_sfield u o cd fd] acc =
  match vdict_get (fd_name fd) kvs with
  | None => if fd_required fd then inr (SRCrash "KeyError / AttributeError") else inl acc
  | Some x => if omitted o cd (VDict kvs) fd (Some x) then inl acc
              else emit g (scompile u o (fd_ty fd)) (so_aliaser o (fd_alias fd)) x acc
  end.
Proof.
  intros Htd Hfs. unfold compile_sfield, omitted, emit. rewrite Htd, Hfs. cbn [orb fields_loop].
  destruct (vdict_get (fd_name fd) kvs) as [x|] eqn:Eg.
  - rewrite orb_true_r. cbn [in_fields_set getattr].
    set (dflt := if fd_required fd then None else Some (fd_default fd)).
    match goal with |- (if ?a then _ else _) = (if ?b then _ else _) => assert (E : a = b) end.
    { unfold in_fields_set. cbn [getattr].
      destruct x; destruct dflt as [[]|]; cbn [is_vundef is_vnone]; btauto. }
    rewrite E. destruct (_ || _)%bool; [reflexivity|]. destruct (g _ _); reflexivity.
  - rewrite orb_false_r. destruct (fd_required fd); reflexivity.
Qed.
End P2.
