(* C05: round-trip lemmas. *)
From Coq Require Import List String ZArith Bool Arith.
From AV Require Import Core.Json Core.Errors Core.Text Deser.Model Deser.Spec Deser.Loops Ser.Model Ser.Spec Ser.RoundTrip.
Import ListNotations.

(* JSON data without foreign object *)
Fixpoint is_json_data (d : pyval) : bool :=
  match d with
  | POther _ => false
  | PList l => forallb is_json_data l
  | PDict kvs => (fix go (kvs : list (string * pyval)) : bool :=
                    match kvs with [] => true | (_, x) :: r => is_json_data x && go r end) kvs
  | _ => true
  end.

Lemma pyval_ind' (P : pyval -> Prop) :
  P PNone -> (forall b, P (PBool b)) -> (forall z, P (PInt z)) -> (forall f, P (PFloat f)) -> (forall s, P (PStr s)) ->
  (forall l, Forall P l -> P (PList l)) -> (forall kvs, Forall (fun kv => P (snd kv)) kvs -> P (PDict kvs)) ->
  (forall t, P (POther t)) -> forall d, P d.
Proof.
  intros H0 H1 H2 H3 H4 H5 H6 H7. fix IH 1. intros [| | | | |l|kvs|t]; try (clear IH; auto; fail).
  - apply H5. induction l as [|x r IHr]; constructor; [apply IH|exact IHr].
  - apply H6. induction kvs as [|[k x] r IHr]; constructor; [apply IH|exact IHr].
Qed.

(* the JSON value built for Any data (embed) reads back as the same data: the data embedding loses nothing *)
Theorem unembed_embed : forall d, is_json_data d = true -> unembed (embed d) = Some d.
Proof.
  induction d as [| | | | |l IH|kvs IH|t] using pyval_ind'; intros Hj; try reflexivity; try discriminate.
  - cbn [embed unembed].
    assert (H : (fix go (l0 : list value) : option (list pyval) :=
                   match l0 with
                   | [] => Some []
                   | x :: r => match unembed x, go r with Some d, Some ds => Some (d :: ds) | _, _ => None end
                   end) (map embed l) = Some l).
    { cbn [is_json_data] in Hj. induction IH as [|x r Hx _ IHr]; [reflexivity|].
      cbn [forallb] in Hj. apply andb_true_iff in Hj. destruct Hj as [Hjx Hjr].
      cbn [map]. rewrite (Hx Hjx), (IHr Hjr). reflexivity. }
    rewrite H. reflexivity.
  - cbn [embed unembed].
    assert (H : (fix go (kvs0 : list (value * value)) : option (list (string * pyval)) :=
                   match kvs0 with
                   | [] => Some []
                   | (VStr k, x) :: r => match unembed x, go r with Some d, Some ds => Some ((k, d) :: ds) | _, _ => None end
                   | _ => None
                   end) (map (fun kv => (VStr (fst kv), embed (snd kv))) kvs) = Some kvs).
    { cbn [is_json_data] in Hj. induction IH as [|[k x] r Hx _ IHr]; [reflexivity|].
      apply andb_true_iff in Hj. destruct Hj as [Hjx Hjr]. cbn [map fst snd]. cbn [snd] in Hx.
      rewrite (Hx Hjx), (IHr Hjr). reflexivity. }
    rewrite H. reflexivity.
Qed.
