(* Executable model of apischema/serialization: method trees (methods.py) and their compilation (__init__.py),
   for check_type = False and fall_back_on_any = False.  No proofs here. *)
From Coq Require Import List String ZArith Bool Arith.
From AV Require Import Core.Json Core.Errors Core.Text Small.Ordering Deser.Model.
Import ListNotations.
Open Scope string_scope.

Record sopts := mkSO {
  so_addprops : bool; so_excl_defaults : bool; so_excl_none : bool; so_excl_unset : bool; so_nocopy : bool;
  pt_any : bool; pt_collections : bool; pt_dataclasses : bool; pt_enums : bool; pt_tuple : bool;
  so_aliaser : string -> string }.

Definition fields_set_attr : string := "~fields_set".

(* ------------------------------------------------------------------ runtime classes *)
Inductive expcls :=
| XNone | XBool | XInt | XFloat | XStr
| XListC | XTupleC | XSetC | XFrozenSetC | XDictC
| XSeqABC | XCollABC | XAbsSetABC | XMapABC
| XCls (cid : nat) | XEnumC (eid : nat) | XObject
| XPrims (cs : list pcls).      (* a tuple of primitive classes (Literal alternative) *)

Definition is_namedtuple (u : univ) (cid : nat) : bool :=
  match cd_kind (get_cls u cid) with KNamedTuple => true | _ => false end.

(* isinstance(obj, cls) *)
Definition isinst_prim (v : value) (c : pcls) : bool :=
  match c, v with
  | CNone, VNone | CBool, VBool _ | CInt, VInt _ | CInt, VBool _ | CFloat, VFloat _ | CStr, VStr _ => true
  | _, _ => false
  end.

Definition isinst (u : univ) (v : value) (x : expcls) : bool :=
  match x, v with
  | XObject, _ => true
  | XPrims cs, _ => existsb (isinst_prim v) cs
  | XNone, VNone => true
  | XBool, VBool _ => true
  | XInt, VInt _ | XInt, VBool _ => true
  | XFloat, VFloat _ => true
  | XStr, VStr _ => true
  | XListC, VList _ => true
  | XTupleC, VTuple _ => true
  | XTupleC, VObj c _ => is_namedtuple u c
  | XSetC, VSet _ => true
  | XFrozenSetC, VFrozenSet _ => true
  | XDictC, VDict _ | XMapABC, VDict _ => true
  | XSeqABC, VList _ | XSeqABC, VTuple _ | XSeqABC, VStr _ => true
  | XSeqABC, VObj c _ => is_namedtuple u c
  | XCollABC, VList _ | XCollABC, VTuple _ | XCollABC, VStr _ | XCollABC, VSet _ | XCollABC, VFrozenSet _
  | XCollABC, VDict _ => true
  | XCollABC, VObj c _ => is_namedtuple u c
  | XAbsSetABC, VSet _ | XAbsSetABC, VFrozenSet _ => true
  | XCls c, VObj c' _ => Nat.eqb c c'
  | XEnumC e, VEnum e' _ => Nat.eqb e e'
  | _, _ => false
  end.

(* ------------------------------------------------------------------ method trees *)
Record cfield_ (M : Type) := CFld {
  cf_name : string; cf_alias : string; cf_meth : M;
  cf_typed_dict : bool; cf_required : bool; cf_excl_unset : bool; cf_skip_if : skipif;
  cf_undefined : bool; cf_skip_none : bool; cf_skip_default : bool; cf_default : option value }.
Arguments CFld {M}.

Inductive sfield (M : Type) :=
| FIdentity (name alias : string)
| FSimple (name alias : string) (m : M)
| FComplex (c : cfield_ M)
| FSerialized (name alias : string) (result : value) (undefined skip_none : bool) (m : M).
Arguments FIdentity {M}. Arguments FSimple {M}. Arguments FComplex {M}. Arguments FSerialized {M}.

Inductive smeth :=
| SIdentity
| SList                 (* list(obj) *)
| SDict                 (* dict(obj) *)
| SRec (cid : nat)      (* the class' method (RecMethod / factory), compiled lazily *)
| SAny                  (* AnyMethod: dispatch on obj.__class__ *)
| SCollCheck (vm : smeth)
| SColl (vm : smeth)
| SValue                (* ValueMethod: obj.value *)
| SEnum                 (* EnumMethod: any_method.serialize(obj.value) *)
| SMapCheck (km vm : smeth)
| SMap (km vm : smeth)
| SSimpleObj (names : list string)
| SObj (fs : list (sfield smeth))
| SObjAdditional (fs : list (sfield smeth)) (field_names : list string) (am : smeth)   (* am: the method for additional values *)
| STupleCheck (ms : list smeth)
| STuple (ms : list smeth)
| SCheckedTuple (n : nat) (m : smeth)     (* CheckedTupleMethod (union alternatives) *)
| SOptional (m : smeth)
| SUnion (alts : list (expcls * smeth))
| SCompileError (what : string).      (* an exception raised while building the method *)

Inductive sres := SROk (v : value) | SRTypeError (what : string) | SRCrash (what : string) | SRFuel.

(* ------------------------------------------------------------------ compilation *)
Fixpoint scheck_only (m : smeth) : bool :=
  match m with
  | SIdentity | SCollCheck _ | SMapCheck _ _ => true
  | SOptional m' => scheck_only m'
  | SUnion alts => forallb (fun am => scheck_only (snd am)) alts
  | _ => false
  end.

Definition is_identity (m : smeth) : bool := match m with SIdentity => true | _ => false end.

Definition coll_cls (k : ckind) : expcls :=
  match k with
  | KList => XListC | KSet => XSetC | KFrozenSet => XFrozenSetC | KVarTuple => XTupleC
  | KSeq => XSeqABC | KColl => XCollABC | KAbsSet => XAbsSetABC
  end.

Definition is_set_kind (k : ckind) : bool := match k with KSet | KFrozenSet | KAbsSet => true | _ => false end.

(* expected_class(tp); None = TypeError("... is not supported in union serialization") *)
Fixpoint expected_class (u : univ) (t : ty) : option expcls :=
  match t with
  | TNone => Some XNone | TBool => Some XBool | TInt => Some XInt | TFloat => Some XFloat | TStr => Some XStr
  | TAny => Some XObject
  | TColl k _ => Some (coll_cls k)
  | TTuple _ => Some XTupleC
  | TMap _ _ => Some XDictC
  | TLit vs => Some (XPrims (map prim_cls vs))
  | TEnum e => Some (XEnumC e)
  | TCon _ t' => expected_class u t'
  | TUnion _ => None
  | TObj c => Some (if is_typed_dict (get_cls u c) then XMapABC else XCls c)
  end.

Definition ty_has (f : ty -> bool) (t : ty) : bool :=
  (fix go (t : ty) : bool :=
     match t with
     | TCon _ t' => go t'
     | TUnion ts => existsb f ts
     | _ => f t
     end) t.

Definition ty_has_none (t : ty) : bool := ty_has (fun x => match x with TNone => true | _ => false end) t.

Fixpoint scompile (u : univ) (o : sopts) (t : ty) {struct t} : smeth :=
  match t with
  | TNone | TBool | TInt | TFloat | TStr => SIdentity
  | TAny => if pt_any o then SIdentity else SAny
  | TColl k t' =>
      let vm := scompile u o t' in
      let passthrough := ((so_nocopy o && match k with KList => true | _ => false end)
                          || (pt_tuple o && match k with KVarTuple => true | _ => false end)
                          || (pt_collections o && negb (is_set_kind k)))%bool in
      if is_identity vm then (if passthrough then SIdentity else SList)
      else if (passthrough && scheck_only vm)%bool then SCollCheck vm else SColl vm
  | TTuple ts =>
      let ms := map (scompile u o) ts in
      if pt_tuple o then
        (if forallb is_identity ms then SIdentity
         else if forallb scheck_only ms then STupleCheck ms else STuple ms)
      else STuple ms
  | TMap kt vt =>
      let km := scompile u o kt in
      let vm := scompile u o vt in
      let passthrough := (so_nocopy o || pt_collections o)%bool in
      if (is_identity km && is_identity vm)%bool then (if passthrough then SIdentity else SDict)
      else if (passthrough && scheck_only km && scheck_only vm)%bool then SMapCheck km vm else SMap km vm
  | TLit vs =>
      if (pt_enums o || forallb (fun p => match p with LInt _ | LBool _ | LStr _ => true | LNone => false end) vs)%bool
      then SIdentity else (if pt_any o then SIdentity else SAny)
  | TEnum e =>
      if pt_enums o then SIdentity
      else SValue     (* check_type = False: the classes of the member values all serialize by identity *)
  | TCon _ t' => scompile u o t'
  | TObj c => SRec c
  | TUnion ts =>
      let ms := map (scompile u o) ts in
      match ts, ms with
      | [_], [m] => m
      | _, _ =>
          let alts := map (fun tm : ty * smeth => (expected_class u (fst tm), snd tm)) (combine ts ms) in
          if existsb (fun am => match fst am with None => true | Some _ => false end) alts
          then SCompileError "TypeError: not supported in union serialization"
          else if forallb is_identity ms then SIdentity
          else if (Nat.eqb (List.length ts) 2 && existsb (fun t => match t with TNone => true | _ => false end) ts)%bool then
            match filter (fun tm : ty * smeth => negb (match expected_class u (fst tm) with Some XNone => true | _ => false end))
                         (combine ts ms) with
            | (_, m) :: _ => SOptional m
            | [] => SCompileError "StopIteration"
            end
          else SUnion (flat_map (fun am : option expcls * smeth =>
                                   match fst am with
                                   | Some x => [(x, match snd am with
                                                    | STuple ms' | STupleCheck ms' => SCheckedTuple (List.length ms') (snd am)
                                                    | m' => m' end)]
                                   | None => [] end) alts)
      end
  end.

(* object fields *)
Definition skippable (o : sopts) (f : fdef) : bool :=
  (match fs_skip_if (fd_ser f) with SkipNever => false | _ => true end
   || fs_undefined (fd_ser f)
   || (negb (fd_required f) && (fs_skip_default (fd_ser f) || so_excl_defaults o))
   || fs_none_undef (fd_ser f)
   || (so_excl_none o && ty_has_none (fd_ty f)))%bool.

Definition is_vnone (v : value) : bool := match v with VNone => true | _ => false end.
Definition is_vundef (v : value) : bool := match v with VUndefined => true | _ => false end.

Definition compile_sfield (u : univ) (o : sopts) (cd : cdef) (f : fdef) : sfield smeth :=
  let alias := so_aliaser o (fd_alias f) in
  let m := scompile u o (fd_ty f) in
  let td := is_typed_dict cd in
  let eu := (so_excl_unset o && cd_fields_set cd)%bool in
  let dflt := if fd_required f then None else Some (fd_default f) in
  if (td || eu || skippable o f)%bool then
    FComplex (CFld (fd_name f) alias m td (fd_required f) eu (fs_skip_if (fd_ser f))
                 (fs_undefined (fd_ser f) || match dflt with Some VUndefined => true | _ => false end)
                 ((ty_has_none (fd_ty f) && so_excl_none o) || fs_none_undef (fd_ser f)
                  || (match dflt with Some VNone => true | _ => false end && (fs_skip_default (fd_ser f) || so_excl_defaults o)))
                 ((fs_skip_default (fd_ser f) || so_excl_defaults o)
                  && match dflt with Some VNone | Some VUndefined | None => false | Some _ => true end)
                 dflt)
  else if is_identity m then FIdentity (fd_name f) alias
  else FSimple (fd_name f) alias m.

Definition compile_smethod (u : univ) (o : sopts) (sm : smeth_def) : sfield smeth :=
  FSerialized (sm_name sm) (so_aliaser o (sm_alias sm)) (sm_result sm) (sm_undefined sm)
              (ty_has_none (sm_ty sm) && so_excl_none o) (scompile u o (sm_ty sm)).

Definition sfield_name {M} (f : sfield M) : string :=
  match f with
  | FIdentity n _ | FSimple n _ _ | FSerialized n _ _ _ _ _ => n
  | FComplex c => cf_name _ c
  end.

(* sort_by_order over FieldToOrder(name, ordering, field) *)
Definition order_fields (cd : cdef) (fs : list (string * option ordering * sfield smeth)) : option (list (sfield smeth)) :=
  let elts := map (fun x => {| ename := fst (fst x); eord := snd (fst x) |}) fs in
  match sort_by_order (cd_order cd) elts with
  | None => None
  | Some sorted =>
      Some (flat_map (fun e => match find (fun x => String.eqb (fst (fst x)) (ename e)) fs with
                               | Some x => [snd x] | None => [] end) sorted)
  end.

Definition is_plain_identity (f : sfield smeth) : bool :=
  match f with FIdentity n a => String.eqb n a | _ => false end.

Definition scompile_obj (u : univ) (o : sopts) (cid : nat) (cd : cdef) : smeth :=
  let fs := map (fun f => (fd_name f, fs_order (fd_ser f), compile_sfield u o cd f)) (cd_fields cd) in
  let ms := map (fun sm => (sm_name sm, sm_order sm, compile_smethod u o sm)) (cd_methods cd) in
  match order_fields cd (fs ++ ms)%list with
  | None => SCompileError "ValueError: Cyclic after/before ordering"
  | Some base =>
      if (is_typed_dict cd && so_addprops o)%bool then SObjAdditional base (map fd_name (cd_fields cd)) (if pt_any o then SIdentity else SAny)
      else if negb (forallb is_plain_identity base) then SObj base
      else if (match cd_kind cd with KData => true | _ => false end && pt_dataclasses o)%bool then SIdentity
      else SSimpleObj (map sfield_name base)
  end.

(* the type AnyMethod compiles for the runtime class of the value *)
Definition ty_of_class (v : value) : option ty :=
  match v with
  | VNone => Some TNone | VBool _ => Some TBool | VInt _ => Some TInt | VFloat _ => Some TFloat | VStr _ => Some TStr
  | VList _ => Some (TColl KList TAny)
  | VTuple _ => Some (TColl KVarTuple TAny)
  | VSet _ => Some (TColl KSet TAny)
  | VFrozenSet _ => Some (TColl KFrozenSet TAny)
  | VDict _ => Some (TMap TAny TAny)
  | VObj c _ => Some (TObj c)
  | VEnum e _ => Some (TEnum e)
  | VOther _ | VUndefined => None
  end.

(* ------------------------------------------------------------------ execution *)
Fixpoint chars (s : string) : list value :=
  match s with EmptyString => [] | String c r => VStr (String c EmptyString) :: chars r end.

Definition iter_values (v : value) : option (list value) :=
  match v with
  | VList l | VTuple l | VSet l | VFrozenSet l => Some l
  | VStr s => Some (chars s)
  | VObj _ fs => Some (map snd (filter (fun kv => negb (String.eqb (fst kv) fields_set_attr)) fs))   (* NamedTuple *)
  | VDict kvs => Some (map fst kvs)
  | _ => None
  end.

Definition getattr (v : value) (name : string) : option value :=
  match v with
  | VObj _ fs => dict_get name fs
  | _ => None
  end.

Fixpoint vdict_get (k : string) (kvs : list (value * value)) : option value :=
  match kvs with
  | [] => None
  | (VStr k', x) :: r => if String.eqb k k' then Some x else vdict_get k r
  | _ :: r => vdict_get k r
  end.

Definition in_fields_set (obj : value) (name : string) : bool :=
  match getattr obj fields_set_attr with
  | Some (VList names) => existsb (fun n => match n with VStr s => String.eqb s name | _ => false end) names
  | _ => false
  end.

Definition skip_if_holds (s : skipif) (v : value) : bool :=
  match s, v with
  | SkipIfNone, VNone => true
  | SkipIfZero, VInt z => Z.eqb z 0
  | SkipIfZero, VBool b => negb b
  | SkipIfZero, VFloat (FQ q) => Z.eqb q 0
  | SkipIfEmptyStr, VStr s => String.eqb s ""
  | _, _ => false
  end.

Definition result_set (res : list (value * value)) (alias : string) (v : value) : list (value * value) :=
  dict_set res (VStr alias) v.

Section SExec.
  Variable u : univ.
  Variable o : sopts.

  Fixpoint sexec (fuel : nat) : smeth -> value -> sres :=
    fix go (m : smeth) (v : value) {struct m} : sres :=
      let all (vm : smeth) (l : list value) : option (list value) + sres :=
        (fix loop (l : list value) : option (list value) + sres :=
           match l with
           | [] => inl (Some [])
           | x :: r =>
               match go vm x with
               | SROk y => match loop r with inl (Some ys) => inl (Some (y :: ys)) | other => other end
               | other => inr other
               end
           end) l in
      match m with
      | SIdentity => SROk v
      | SCompileError w => SRCrash w
      | SList => match iter_values v with
                 | Some l => SROk (VList l)
                 | None => SRCrash "TypeError: not iterable" end
      | SDict => match v with VDict kvs => SROk (VDict kvs) | _ => SRCrash "TypeError: dict()" end
      | SRec c =>
          match fuel with
          | O => SRFuel
          | S f => sexec f (scompile_obj u o c (get_cls u c)) v
          end
      | SAny =>
          match fuel with
          | O => SRFuel
          | S f => match ty_of_class v with
                   | Some t => sexec f (scompile u o t) v
                   | None => SRCrash "Unsupported"
                   end
          end
      | SCollCheck vm =>
          match iter_values v with
          | Some l => match all vm l with inl _ => SROk v | inr e => e end
          | None => SRCrash "TypeError: not iterable"
          end
      | SColl vm =>
          match iter_values v with
          | Some l => match all vm l with
                      | inl (Some ys) => SROk (VList ys)
                      | inl None => SRCrash "impossible"
                      | inr e => e end
          | None => SRCrash "TypeError: not iterable"
          end
      | SValue => match v with VEnum _ p => SROk (prim_value p) | _ => SRCrash "AttributeError: value" end
      | SEnum =>
          match fuel with
          | O => SRFuel
          | S f => match v with
                   | VEnum _ p => sexec f SAny (prim_value p)
                   | _ => SRCrash "AttributeError: value" end
          end
      | SMapCheck km vm | SMap km vm =>
          match v with
          | VDict kvs =>
              let r :=
                (fix loop (kvs : list (value * value)) : list (value * value) + sres :=
                   match kvs with
                   | [] => inl []
                   | (k, x) :: rest =>
                       match go km k with
                       | SROk k' =>
                           match go vm x with
                           | SROk x' => match loop rest with inl acc => inl ((k', x') :: acc) | other => other end
                           | other => inr other
                           end
                       | other => inr other
                       end
                   end) kvs in
              match r with
              | inl items => SROk (match m with
                                   | SMapCheck _ _ => v
                                   | _ => VDict (fold_left (fun a kv => dict_set a (fst kv) (snd kv)) items []) end)
              | inr e => e
              end
          | _ => SRCrash "AttributeError: items"
          end
      | SSimpleObj names =>
          (fix loop (ns : list string) (acc : list (value * value)) : sres :=
             match ns with
             | [] => SROk (VDict acc)
             | n :: r => match getattr v n with
                         | Some x => loop r (result_set acc n x)
                         | None => SRCrash "AttributeError"
                         end
             end) names []
      | SObj fs | SObjAdditional fs _ _ =>
          let base :=
            (fix loop (fs : list (sfield smeth)) (acc : list (value * value)) : list (value * value) + sres :=
               match fs with
               | [] => inl acc
               | FIdentity name alias :: r =>
                   match getattr v name with
                   | Some x => loop r (result_set acc alias x)
                   | None => inr (SRCrash "AttributeError")
                   end
               | FSimple name alias fm :: r =>
                   match getattr v name with
                   | Some x => match go fm x with
                               | SROk y => loop r (result_set acc alias y)
                               | other => inr other end
                   | None => inr (SRCrash "AttributeError")
                   end
               | FComplex (CFld name alias fm td required eu skip_if undefined skip_none skip_default dflt) :: r =>
                   let present :=
                     if td then (required || match v with VDict kvs => match vdict_get name kvs with Some _ => true | None => false end
                                                        | _ => false end)%bool
                     else (negb eu || in_fields_set v name)%bool in
                   if present then
                     match (if td then match v with VDict kvs => vdict_get name kvs | _ => None end else getattr v name) with
                     | None => inr (SRCrash "KeyError / AttributeError")
                     | Some x =>
                         let skipped :=
                           (skip_if_holds skip_if x
                            || (undefined && is_vundef x)
                            || (skip_none && is_vnone x)
                            || (skip_default && match dflt with Some dv => value_pyeq x dv | None => false end))%bool in
                         if skipped then loop r acc
                         else match go fm x with
                              | SROk y => loop r (result_set acc alias y)
                              | other => inr other end
                     end
                   else loop r acc
               | FSerialized name alias result undefined skip_none fm :: r =>
                   if ((undefined && is_vundef result) || (skip_none && is_vnone result))%bool then loop r acc
                   else match go fm result with
                        | SROk y => loop r (result_set acc alias y)
                        | other => inr other end
               end) fs [] in
          match base, m with
          | inr e, _ => e
          | inl acc, SObjAdditional _ field_names am =>
              match v with
              | VDict kvs =>
                  (fix extra (kvs : list (value * value)) (acc : list (value * value)) : sres :=
                     match kvs with
                     | [] => SROk (VDict acc)
                     | (VStr k, x) :: rest =>
                         if (existsb (String.eqb k) field_names
                             || existsb (fun kv => match fst kv with VStr k' => String.eqb k k' | _ => false end) acc)%bool
                         then extra rest acc
                         else match go am x with
                              | SROk y => extra rest (result_set acc k y)
                              | other => other end
                     | _ :: rest => extra rest acc
                     end) kvs acc
              | _ => SRCrash "AttributeError: items"
              end
          | inl acc, _ => SROk (VDict acc)
          end
      | STupleCheck ms | STuple ms =>
          match v with
          | VTuple l =>
              let r :=
                (fix loop (ms : list smeth) (l : list value) : list value + sres :=
                   match ms, l with
                   | [], _ => inl []
                   | em :: mr, x :: xr =>
                       match go em x with
                       | SROk y => match loop mr xr with inl ys => inl (y :: ys) | other => other end
                       | other => inr other
                       end
                   | _ :: _, [] => inr (SRCrash "IndexError")
                   end) ms l in
              match r with
              | inl ys => SROk (match m with STupleCheck _ => v | _ => VList ys end)
              | inr e => e
              end
          | _ => SRCrash "TypeError: not a tuple"
          end
      | SCheckedTuple n vm =>
          match iter_values v with
          | Some l => if Nat.eqb (List.length l) n then go vm v else SRCrash "TypeError: Expected n-tuple"
          | None => SRCrash "TypeError: len()"
          end
      | SOptional vm => match v with VNone => SROk VNone | _ => go vm v end
      | SUnion alts =>
          (fix try (alts : list (expcls * smeth)) : sres :=
             match alts with
             | [] => SRTypeError "Expected union"
             | (x, am) :: r =>
                 if isinst u v x then
                   match go am v with
                   | SROk y => SROk y
                   | SRFuel => SRFuel
                   | _ => try r          (* `except Exception: pass` *)
                   end
                 else try r
             end) alts
      end.
End SExec.

(* serialize(tp, obj, **options) *)
Definition serialize (u : univ) (o : sopts) (fuel : nat) (t : ty) (v : value) : sres :=
  sexec u o fuel (scompile u o t) v.
