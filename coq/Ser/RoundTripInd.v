(* C05: the round trip deserialize(T, serialize(T, v)) = v, proved by induction on the nesting of classes and on the type,
   for primitives, lists, variable and fixed tuples, string-keyed mappings, enums, literals, unions whose alternatives accept
   disjoint classes of JSON data, and dataclasses / NamedTuples without skip options -- on the two declarative
   specifications (Ser/Spec.v: image, Deser/Spec.v: spec). *)
From Coq Require Import List String ZArith Bool Arith Lia.
From AV Require Import Core.Json Core.Errors Core.Text Small.Ordering Deser.Model Deser.Spec Deser.Unfold Deser.Loops
  Ser.Model Ser.Spec Ser.RoundTrip.
Import ListNotations.

(* ------------------------------------------------------------------ the loops of image / has_type / unembed, named *)
Definition img_all (g : value -> Ser.Model.sres) : list value -> list value + Ser.Model.sres :=
  fix loop (l : list value) : list value + Ser.Model.sres :=
    match l with
    | [] => inl []
    | x :: r => match g x with
                | SROk y => match loop r with inl ys => inl (y :: ys) | other => other end
                | other => inr other end
    end.

Definition img_zip (g : ty -> value -> Ser.Model.sres) : list ty -> list value -> list value -> Ser.Model.sres :=
  fix zip (ts : list ty) (l : list value) (acc : list value) : Ser.Model.sres :=
    match ts, l with
    | [], _ => SROk (VList (rev acc))
    | t1 :: tr, x :: r => match g t1 x with SROk y => zip tr r (y :: acc) | other => other end
    | _ :: _, [] => SRCrash "IndexError"
    end.

Definition img_map (gk gv : value -> Ser.Model.sres) : list (value * value) -> list (value * value) -> Ser.Model.sres :=
  fix loop (kvs : list (value * value)) (acc : list (value * value)) : Ser.Model.sres :=
    match kvs with
    | [] => SROk (VDict acc)
    | (k, x) :: r =>
        match gk k with
        | SROk k' => match gv x with SROk x' => loop r (dict_set acc k' x') | other => other end
        | other => other end
    end.

Definition ht_zip (g : ty -> value -> bool) : list ty -> list value -> bool :=
  fix zip (ts : list ty) (l : list value) : bool :=
    match ts, l with
    | [], [] => true
    | t1 :: tr, x :: r => g t1 x && zip tr r
    | _, _ => false
    end.

Definition unembed_list : list value -> option (list pyval) :=
  fix go (l : list value) : option (list pyval) :=
    match l with
    | [] => Some []
    | x :: r => match unembed x, go r with Some d, Some ds => Some (d :: ds) | _, _ => None end
    end.

Definition unembed_items : list (value * value) -> option (list (string * pyval)) :=
  fix go (kvs : list (value * value)) : option (list (string * pyval)) :=
    match kvs with
    | [] => Some []
    | (VStr k, x) :: r => match unembed x, go r with Some d, Some ds => Some ((k, d) :: ds) | _, _ => None end
    | _ => None
    end.

Lemma unembed_VList l : unembed (VList l) = option_map PList (unembed_list l).
Proof. reflexivity. Qed.
Lemma unembed_VDict kvs : unembed (VDict kvs) = option_map PDict (unembed_items kvs).
Proof. reflexivity. Qed.

Section RT.
Variable u : univ.
Variable o : sopts.
Notation img := (image u o).
Notation ht := (has_type u).
Notation sp := (spec u (dopts_of o)).

Lemma image_prim fuel t v :
  match t with TNone | TBool | TInt | TFloat | TStr => True | _ => False end -> img fuel t v = SROk v.
Proof. destruct fuel, t; intros H; try contradiction; reflexivity. Qed.

Lemma image_TColl fuel k t' v :
  img fuel (TColl k t') v =
  match iter_values v with
  | Some l => match img_all (img fuel t') l with inl ys => SROk (VList ys) | inr e => e end
  | None => SRCrash "TypeError: not iterable"
  end.
Proof. destruct fuel; reflexivity. Qed.

Lemma image_TTuple fuel ts v :
  img fuel (TTuple ts) v =
  match v with VTuple l => img_zip (img fuel) ts l [] | _ => SRCrash "TypeError: not a tuple" end.
Proof. destruct fuel; reflexivity. Qed.

Lemma image_TMap fuel kt vt v :
  img fuel (TMap kt vt) v =
  match v with VDict kvs => img_map (img fuel kt) (img fuel vt) kvs [] | _ => SRCrash "AttributeError: items" end.
Proof. destruct fuel; reflexivity. Qed.

Lemma image_TEnum fuel e v :
  img fuel (TEnum e) v = match v with VEnum _ p => SROk (prim_value p) | _ => SRCrash "AttributeError: value" end.
Proof. destruct fuel; reflexivity. Qed.

Lemma image_TLit_prims fuel vs v :
  forallb (fun p => match p with LInt _ | LBool _ | LStr _ => true | LNone => false end) vs = true ->
  img fuel (TLit vs) v = SROk v.
Proof. intros H. destruct fuel; cbn; rewrite H; reflexivity. Qed.

Lemma ht_TColl fuel k t' v :
  ht fuel (TColl k t') v =
  match k, v with
  | KList, VList l | KSet, VSet l | KFrozenSet, VFrozenSet l | KVarTuple, VTuple l
  | KSeq, VList l | KSeq, VTuple l | KColl, VList l | KColl, VTuple l
  | KAbsSet, VSet l | KAbsSet, VFrozenSet l => forallb (ht fuel t') l
  | _, _ => false
  end.
Proof. destruct fuel; reflexivity. Qed.

Lemma ht_TTuple fuel ts v :
  ht fuel (TTuple ts) v = match v with VTuple l => ht_zip (ht fuel) ts l | _ => false end.
Proof. destruct fuel; reflexivity. Qed.

Lemma ht_TMap fuel kt vt v :
  ht fuel (TMap kt vt) v =
  match v with
  | VDict kvs => forallb (fun kv => ht fuel kt (fst kv) && ht fuel vt (snd kv)) kvs && keys_distinct [] kvs
  | _ => false
  end.
Proof. destruct fuel; reflexivity. Qed.

Lemma ht_TEnum fuel e v :
  ht fuel (TEnum e) v = match v with VEnum e' p => Nat.eqb e e' && existsb (prim_eqb p) (get_enum u e) | _ => false end.
Proof. destruct fuel; reflexivity. Qed.

Lemma ht_TLit fuel vs v :
  ht fuel (TLit vs) v = match v with
                        | VNone => existsb (prim_eqb LNone) vs
                        | VBool b => existsb (prim_eqb (LBool b)) vs
                        | VInt z => existsb (prim_eqb (LInt z)) vs
                        | VStr s => existsb (prim_eqb (LStr s)) vs
                        | _ => false end.
Proof. destruct fuel; reflexivity. Qed.

Lemma ht_prim fuel t v :
  match t with TNone | TBool | TInt | TFloat | TStr => True | _ => False end ->
  ht fuel t v = match t, v with
                | TNone, VNone | TBool, VBool _ | TInt, VInt _ | TFloat, VFloat _ | TStr, VStr _ => true
                | _, _ => false end.
Proof. destruct fuel, t; intros H; try contradiction; destruct v; reflexivity. Qed.

(* ------------------------------------------------------------------ unions: loops and the JSON classes an alternative accepts *)
Definition img_first (g : ty -> value -> Ser.Model.sres) (v : value) : list ty -> Ser.Model.sres :=
  fix first (ts : list ty) : Ser.Model.sres :=
    match ts with
    | [] => SRTypeError "Expected union"
    | t1 :: tr =>
        match expected_class u t1 with
        | Some x =>
            if isinst u v x then
              match (match t1 with
                     | TTuple ts' => match iter_values v with
                                     | Some l => if Nat.eqb (List.length l) (List.length ts') then g t1 v
                                                 else SRCrash "TypeError: Expected n-tuple"
                                     | None => SRCrash "TypeError: len()" end
                     | _ => g t1 v end) with
              | SROk y => SROk y
              | SRFuel => SRFuel
              | _ => first tr
              end
            else first tr
        | None => first tr
        end
    end.

Definition ht_first (g : ty -> value -> bool) (v : value) : list ty -> bool :=
  fix first (ts : list ty) : bool :=
    match ts with
    | [] => false
    | t1 :: tr => match expected_class u t1 with
                  | Some x => if isinst u v x then g t1 v else first tr
                  | None => false end
    end.

Lemma image_TUnion fuel ts v :
  img fuel (TUnion ts) v =
  match ts with
  | [t1] => img fuel t1 v
  | _ => if existsb (fun t' => match expected_class u t' with None => true | Some _ => false end) ts
         then SRCrash "TypeError: not supported in union serialization" else img_first (img fuel) v ts
  end.
Proof. destruct fuel; destruct ts as [|t1 [|t2 tr]]; reflexivity. Qed.

Lemma ht_TUnion fuel ts v :
  ht fuel (TUnion ts) v =
  match ts with
  | [t1] => ht fuel t1 v
  | _ => forallb (fun t' => match expected_class u t' with Some _ => true | None => false end) ts && ht_first (ht fuel) v ts
  end.
Proof. destruct fuel; destruct ts as [|t1 [|t2 tr]]; reflexivity. Qed.

(* the classes of JSON data an alternative may accept *)
Fixpoint akinds (t : ty) : list pcls :=
  match t with
  | TNone => [CNone] | TBool => [CBool] | TInt => [CInt] | TFloat => [CFloat; CInt] | TStr => [CStr]
  | TColl _ _ | TTuple _ => [CList]
  | TMap _ _ => [CDict]
  | TLit vs => map prim_cls vs
  | TEnum e => map prim_cls (get_enum u e)
  | TUnion ts => flat_map akinds ts
  | TCon _ t' => akinds t'
  | TObj _ => [CDict]
  | TAny => [CNone; CBool; CInt; CFloat; CStr; CList; CDict; COther]
  end.

Definition disjoint (a b : list pcls) : bool := forallb (fun x => negb (existsb (pcls_eqb x) b)) a.

Fixpoint pairwise (l : list (list pcls)) : bool :=
  match l with [] => true | a :: r => forallb (disjoint a) r && pairwise r end.

(* ------------------------------------------------------------------ objects: loops of image / has_type, named *)
Definition img_fields (g : ty -> value -> Ser.Model.sres) (cd : cdef) (td : bool) (v : value) :
  list elem -> list (value * value) -> list (value * value) + Ser.Model.sres :=
  fix loop (es : list elem) (acc : list (value * value)) : list (value * value) + Ser.Model.sres :=
    match es with
    | [] => inl acc
    | EField fd :: r =>
        let x := if td then match v with VDict kvs => vdict_get (fd_name fd) kvs | _ => None end
                 else getattr v (fd_name fd) in
        if (td && fd_required fd && match x with None => true | _ => false end)%bool
        then inr (SRCrash "KeyError") else
        if (negb td && match x with None => true | _ => false end)%bool
        then inr (SRCrash "AttributeError") else
        if omitted o cd v fd x then loop r acc
        else match x with
             | Some xv => match g (fd_ty fd) xv with
                          | SROk y => loop r (result_set acc (so_aliaser o (fd_alias fd)) y)
                          | other => inr other end
             | None => loop r acc
             end
    | EMethod sm :: r =>
        let res := sm_result sm in
        if ((sm_undefined sm && is_vundef res)
            || (so_excl_none o && ty_has_none (sm_ty sm) && is_vnone res))%bool then loop r acc
        else match g (sm_ty sm) res with
             | SROk y => loop r (result_set acc (so_aliaser o (sm_alias sm)) y)
             | other => inr other end
    end.

Definition img_extra (g : ty -> value -> Ser.Model.sres) (cd : cdef) :
  list (value * value) -> list (value * value) -> Ser.Model.sres :=
  fix extra (kvs : list (value * value)) (acc : list (value * value)) : Ser.Model.sres :=
    match kvs with
    | [] => SROk (VDict acc)
    | (VStr k, x) :: rest =>
        if (existsb (String.eqb k) (map fd_name (cd_fields cd))
            || existsb (fun kv => match fst kv with VStr k' => String.eqb k k' | _ => false end) acc)%bool
        then extra rest acc
        else match g TAny x with
             | SROk y => extra rest (result_set acc k y)
             | other => other end
    | _ :: rest => extra rest acc
    end.

Lemma image_TObj_S m c v :
  img (S m) (TObj c) v =
  let cd := get_cls u c in
  let td := is_typed_dict cd in
  match ordered_elems cd with
  | None => SRCrash "ValueError: Cyclic after/before ordering"
  | Some es =>
      match img_fields (img m) cd td v es [] with
      | inr e => e
      | inl acc =>
          if (td && so_addprops o)%bool then
            match v with
            | VDict kvs => img_extra (img m) cd kvs acc
            | _ => SRCrash "AttributeError: items"
            end
          else SROk (VDict acc)
      end
  end.
Proof. reflexivity. Qed.

Definition ht_field (g : ty -> value -> bool) (fs : list (string * value)) (fd : fdef) : bool :=
  match dict_get (fd_name fd) fs with
  | Some VUndefined => fs_undefined (fd_ser fd)
  | Some VNone => fs_none_undef (fd_ser fd) || g (fd_ty fd) VNone
  | Some x => g (fd_ty fd) x
  | None => false end.

Lemma ht_TObj_S f c v :
  ht (S f) (TObj c) v =
  let cd := get_cls u c in
  match cd_kind cd, v with
  | KTypedDict, VDict kvs =>
      forallb (fun fd => match vdict_get (fd_name fd) kvs with
                         | Some x => ht f (fd_ty fd) x
                         | None => negb (fd_required fd) end) (cd_fields cd)
      && forallb (fun kv => match fst kv with VStr _ => true | _ => false end) kvs
  | KTypedDict, _ => false
  | _, VObj c' fs =>
      Nat.eqb c c' && forallb (ht_field (ht f) fs) (cd_fields cd)
      && (negb (cd_fields_set cd) || match dict_get fields_set_attr fs with Some (VList _) => true | _ => false end)
  | _, _ => false
  end.
Proof. reflexivity. Qed.

Lemma ht_TObj_O c v : ht O (TObj c) v = false.
Proof. reflexivity. Qed.

(* ------------------------------------------------------------------ the fragment *)
Fixpoint rt_ty (t : ty) : bool :=
  match t with
  | TNone | TBool | TInt | TFloat | TStr => true
  | TColl KList t' | TColl KVarTuple t' => rt_ty t'
  | TTuple ts => forallb rt_ty ts
  | TMap TStr vt => rt_ty vt
  | TEnum _ => true
  | TLit vs => forallb (fun p => match p with LInt _ | LBool _ | LStr _ => true | LNone => false end) vs
  (* unions whose alternatives accept pairwise disjoint classes of JSON data: Optional[T], Union[int, str, List[X]], ... *)
  | TUnion ts => forallb rt_ty ts && pairwise (map akinds ts)
  (* classes: under the conditions of rt_univ below *)
  | TObj _ => true
  | _ => false
  end.

Fixpoint no_obj (t : ty) : bool :=
  match t with
  | TObj _ => false
  | TColl _ t' | TCon _ t' => no_obj t'
  | TTuple ts | TUnion ts => forallb no_obj ts
  | TMap kt vt => no_obj kt && no_obj vt
  | _ => true
  end.

(* a field without skip option, constraint or Undefined alternative *)
Definition plain_field (fd : fdef) : bool :=
  negb (fs_skip_default (fd_ser fd)) && match fs_skip_if (fd_ser fd) with SkipNever => true | _ => false end
  && negb (fs_none_undef (fd_ser fd)) && negb (fs_undefined (fd_ser fd))
  && match fd_con fd with None => true | Some _ => false end
  && rt_ty (fd_ty fd).

Fixpoint sd (seen : list string) (ks : list string) : bool :=
  match ks with
  | [] => true
  | k :: r => negb (existsb (String.eqb k) seen) && sd (seen ++ [k]) r
  end.

Definition alias_of (fd : fdef) : string := so_aliaser o (fd_alias fd).

(* a dataclass / NamedTuple whose serialization keeps every field, in declaration order *)
Definition rt_cls (cd : cdef) : Prop :=
  is_typed_dict cd = false /\ cd_fields_set cd = false /\ cd_methods cd = [] /\ cd_depreq cd = []
  /\ ordered_elems cd = Some (map EField (cd_fields cd))
  /\ forallb plain_field (cd_fields cd) = true
  /\ sd [] (map fd_name (cd_fields cd)) = true /\ sd [] (map alias_of (cd_fields cd)) = true.

Definition rt_univ : Prop :=
  so_excl_none o = false /\ so_excl_defaults o = false /\ forall c, rt_cls (get_cls u c).

(* values in the form the harness gives them: the attributes of an instance are its fields, in declaration order *)
Fixpoint strs_eqb (a b : list string) : bool :=
  match a, b with
  | [], [] => true
  | x :: r, y :: s => String.eqb x y && strs_eqb r s
  | _, _ => false
  end.

Fixpoint canonical (v : value) : bool :=
  match v with
  | VList l | VSet l | VFrozenSet l | VTuple l => forallb canonical l
  | VDict kvs => (fix go (kvs : list (value * value)) : bool :=
                    match kvs with [] => true | (k, x) :: r => canonical k && canonical x && go r end) kvs
  | VObj c fs => strs_eqb (map fst fs) (map fd_name (cd_fields (get_cls u c)))
                 && (fix go (fs : list (string * value)) : bool :=
                       match fs with [] => true | (_, x) :: r => canonical x && go r end) fs
  | _ => true
  end.

(* the value serializes, and what is produced deserializes back to it (m: fuel = bound on the nesting of classes) *)
Definition rt (m : nat) (t : ty) (v : value) : Prop :=
  exists j d, img m t v = SROk j /\ unembed j = Some d /\ sp m None t d = SOk v.

Lemma accept_nil d v : accept [] d v = SOk v.
Proof. reflexivity. Qed.

(* a list of values that round-trip element-wise round-trips as a whole *)
Lemma all_round_trip m t' l :
  Forall (rt m t') l ->
  exists ys ds, img_all (img m t') l = inl ys /\ unembed_list ys = Some ds /\
                all_ok (map (sp m None t') ds) = Some (Some l).
Proof.
  induction 1 as [|x r [j [d [Hi [Hu Hs]]]] _ [ys [ds [Hys [Hds Hok]]]]].
  - exists [], []. repeat split; reflexivity.
  - exists (j :: ys), (d :: ds). cbn [img_all unembed_list map all_ok].
    rewrite Hi, Hys, Hu, Hds, Hs, Hok. repeat split; reflexivity.
Qed.

Lemma zip_round_trip (T : ty -> value -> bool) (G : value -> Prop) m ts : forall l acc,
  Forall (fun t => forall v, T t v = true -> G v -> rt m t v) ts ->
  ht_zip T ts l = true -> Forall G l ->
  exists ys ds, img_zip (img m) ts l acc = SROk (VList (rev acc ++ ys)) /\ unembed_list ys = Some ds /\
                List.length ds = List.length ts /\ all_ok (zip_spec (sp m None) ts ds) = Some (Some l).
Proof.
  induction ts as [|t ts IH]; intros l acc HF Hht HG.
  - destruct l; [|discriminate]. exists [], []. cbn. rewrite app_nil_r. repeat split; reflexivity.
  - destruct l as [|x r]; [discriminate|]. cbn [ht_zip] in Hht. apply andb_true_iff in Hht. destruct Hht as [Hx Hr].
    inversion HF as [|? ? Hhead Htail]; subst. inversion HG as [|? ? HGx HGr]; subst.
    destruct (Hhead x Hx HGx) as [j [d [Hi [Hu Hs]]]].
    destruct (IH r (j :: acc) Htail Hr HGr) as [ys [ds [Hz [Hds [Hlen Hok]]]]].
    exists (j :: ys), (d :: ds). cbn [img_zip unembed_list zip_spec all_ok List.length].
    rewrite Hi, Hz, Hu, Hds, Hs, Hok, Hlen. cbn [rev]. rewrite <- app_assoc. repeat split; reflexivity.
Qed.

(* ------------------------------------------------------------------ string-keyed dicts *)
Definition lift (kv : string * value) : value * value := (VStr (fst kv), snd kv).

Lemma py_eq_str a b : py_eq (VStr a) (VStr b) = String.eqb a b.
Proof. reflexivity. Qed.

Lemma existsb_pyeq_str k ss : existsb (py_eq (VStr k)) (map VStr ss) = existsb (String.eqb k) ss.
Proof. induction ss as [|s ss IH]; [reflexivity|]. cbn [map existsb]. rewrite py_eq_str, IH. reflexivity. Qed.

Lemma keys_distinct_lift ss skvs : keys_distinct (map VStr ss) (map lift skvs) = sd ss (map fst skvs).
Proof.
  revert ss. induction skvs as [|[k x] r IH]; intros ss; [reflexivity|].
  cbn [map lift fst snd keys_distinct sd]. rewrite existsb_pyeq_str.
  replace (map VStr ss ++ [VStr k])%list with (map VStr (ss ++ [k])) by (rewrite map_app; reflexivity).
  rewrite IH. reflexivity.
Qed.

Lemma dict_set_fresh acc k x :
  existsb (String.eqb k) (map fst acc) = false -> dict_set (map lift acc) (VStr k) x = map lift (acc ++ [(k, x)]).
Proof.
  induction acc as [|[k' x'] acc IH]; intros H; [reflexivity|].
  cbn [map fst existsb] in H. apply orb_false_iff in H. destruct H as [H1 H2].
  cbn [map lift fst snd dict_set app]. rewrite py_eq_str, H1. rewrite (IH H2). reflexivity.
Qed.

Lemma fold_dict_set_distinct skvs : forall acc,
  sd (map fst acc) (map fst skvs) = true ->
  fold_left (fun a kv => dict_set a (fst kv) (snd kv)) (map lift skvs) (map lift acc) = map lift (acc ++ skvs).
Proof.
  induction skvs as [|[k x] r IH]; intros acc H; [rewrite app_nil_r; reflexivity|].
  cbn [map fst sd] in H. apply andb_true_iff in H. destruct H as [Hk Hr]. apply negb_true_iff in Hk.
  cbn [map lift fst snd fold_left]. rewrite (dict_set_fresh acc k x Hk).
  rewrite IH; [rewrite <- app_assoc; reflexivity|]. rewrite map_app. exact Hr.
Qed.

Lemma keys_are_str n vt kvs :
  forallb (fun kv => ht n TStr (fst kv) && ht n vt (snd kv)) kvs = true ->
  exists skvs, kvs = map lift skvs /\ Forall (fun kv => ht n vt (snd kv) = true) skvs.
Proof.
  induction kvs as [|[k x] r IH]; intros H; [exists []; split; [reflexivity|constructor]|].
  cbn [forallb fst snd] in H. apply andb_true_iff in H. destruct H as [Hkx Hr]. apply andb_true_iff in Hkx.
  destruct Hkx as [Hk Hx]. rewrite ht_prim in Hk by exact I. destruct k; try discriminate.
  destruct (IH Hr) as [skvs [-> HF]]. exists ((s, x) :: skvs). split; [reflexivity|]. constructor; assumption.
Qed.

Lemma map_round_trip m vt skvs : forall acc,
  sd (map fst acc) (map fst skvs) = true ->
  Forall (fun kv => rt m vt (snd kv)) skvs ->
  exists ys ds, img_map (img m TStr) (img m vt) (map lift skvs) (map lift acc) = SROk (VDict (map lift (acc ++ ys)))
                /\ unembed_items (map lift ys) = Some ds /\ map fst ds = map fst skvs
                /\ all_ok (map (fun kv => sp m None vt (snd kv)) ds) = Some (Some (map snd skvs)).
Proof.
  induction skvs as [|[k x] r IH]; intros acc Hd HF.
  - exists [], []. cbn. rewrite app_nil_r. repeat split; reflexivity.
  - cbn [map fst sd] in Hd. apply andb_true_iff in Hd. destruct Hd as [Hk Hr]. apply negb_true_iff in Hk.
    inversion HF as [|? ? [j [d [Hi [Hu Hs]]]] Htail]; subst. cbn [snd] in Hi, Hs.
    destruct (IH (acc ++ [(k, j)])%list) as [ys [ds [Hm [Hun [Hfst Hok]]]]]; [rewrite map_app; exact Hr|exact Htail|].
    exists ((k, j) :: ys), ((k, d) :: ds). cbn [map lift fst snd img_map].
    rewrite (image_prim m TStr (VStr k) I), Hi, (dict_set_fresh acc k j Hk), Hm. rewrite <- app_assoc.
    cbn [unembed_items map fst snd all_ok app]. change (lift (k, j)) with (VStr k, j). cbv iota beta.
    rewrite Hu, Hun, Hfst, Hs, Hok. repeat split; reflexivity.
Qed.

Lemma str_keys_spec m (ds : list (string * pyval)) :
  all_ok (map (fun kv => sp m None TStr (PStr (fst kv))) ds) = Some (Some (map (fun kv => VStr (fst kv)) ds)).
Proof.
  induction ds as [|[k d] r IH]; [reflexivity|]. cbn [map fst all_ok]. rewrite spec_TStr. cbn [ocons]. rewrite accept_nil, IH.
  reflexivity.
Qed.

Lemma combine_lift (ds : list (string * pyval)) (skvs : list (string * value)) :
  map fst ds = map fst skvs -> combine (map (fun kv => VStr (fst kv)) ds) (map snd skvs) = map lift skvs.
Proof.
  revert skvs. induction ds as [|[k d] r IH]; intros [|[k' x] skvs] H; try discriminate; [reflexivity|].
  cbn [map fst] in H. injection H as -> H. cbn [map fst snd combine lift]. rewrite (IH _ H). reflexivity.
Qed.

(* ------------------------------------------------------------------ unions *)
Lemma pcls_eqb_eq a b : pcls_eqb a b = true -> a = b.
Proof. destruct a, b; intros H; try discriminate; reflexivity. Qed.

Lemma prim_in_cls p vs : existsb (prim_eqb p) vs = true -> existsb (pcls_eqb (prim_cls p)) (map prim_cls vs) = true.
Proof.
  induction vs as [|q vs IH]; [discriminate|]. cbn [existsb map]. intros H. apply orb_true_iff in H. destruct H as [H|H].
  - destruct p, q; try discriminate; reflexivity.
  - rewrite (IH H). apply orb_true_r.
Qed.

Lemma prim_of_cls d p : prim_of d = Some p -> cls_of d = prim_cls p.
Proof. destruct d; intros H; try discriminate; injection H as <-; reflexivity. Qed.

(* a datum whose class is not among those the type accepts is rejected (one unit of fuel is enough to see it) *)
Lemma reject_other_class m : forall t acc d,
  rt_ty t = true -> existsb (pcls_eqb (cls_of d)) (akinds t) = false -> sp (S m) acc t d = SRej.
Proof.
  induction t using ty_ind'; intros acc d Hrt Hk; try discriminate.
  - rewrite spec_TNone. destruct d; try reflexivity; discriminate.
  - rewrite spec_TBool. destruct d; try reflexivity; discriminate.
  - rewrite spec_TInt. destruct d; try reflexivity; discriminate.
  - rewrite spec_TFloat. destruct d; try reflexivity; discriminate.
  - rewrite spec_TStr. destruct d; try reflexivity; discriminate.
  - rewrite spec_TColl. destruct d; try reflexivity; discriminate.
  - rewrite spec_TTuple. destruct d; try reflexivity; discriminate.
  - rewrite spec_TMap. destruct d; try reflexivity; discriminate.
  - rewrite spec_TLit. destruct (prim_of d) as [p|] eqn:Ep; [|reflexivity].
    destruct (existsb (prim_eqb p) vs) eqn:E; [|reflexivity].
    apply prim_in_cls in E. rewrite <- (prim_of_cls d p Ep) in E. cbn [akinds] in Hk. congruence.
  - rewrite spec_TEnum. destruct (prim_of d) as [p|] eqn:Ep; [|reflexivity].
    destruct (existsb (prim_eqb p) (get_enum u e)) eqn:E; [|reflexivity].
    apply prim_in_cls in E. rewrite <- (prim_of_cls d p Ep) in E. cbn [akinds] in Hk. congruence.
  - rewrite spec_TUnion. cbn [rt_ty] in Hrt. apply andb_true_iff in Hrt. destruct Hrt as [Hrt _]. cbn [akinds] in Hk.
    induction H as [|t ts Ht _ IH]; [reflexivity|].
    cbn [forallb] in Hrt. apply andb_true_iff in Hrt. destruct Hrt as [Hrt1 Hrt2].
    cbn [flat_map] in Hk. rewrite existsb_app in Hk. apply orb_false_iff in Hk. destruct Hk as [Hk1 Hk2].
    cbn [first_spec]. rewrite (Ht acc d Hrt1 Hk1). apply IH; assumption.
  - rewrite spec_TObj_S. cbv zeta. destruct d; try reflexivity; discriminate.
Qed.

Lemma ht_zip_length g ts : forall l, ht_zip g ts l = true -> List.length l = List.length ts.
Proof.
  induction ts as [|t ts IH]; intros [|x l] H; try discriminate; [reflexivity|].
  cbn [ht_zip] in H. apply andb_true_iff in H. destruct H as [_ H]. cbn [List.length]. rewrite (IH l H). reflexivity.
Qed.

Lemma disjoint_not_in a b c : disjoint a b = true -> existsb (pcls_eqb c) b = true -> existsb (pcls_eqb c) a = false.
Proof.
  intros Hd Hb. destruct (existsb (pcls_eqb c) a) eqn:Ea; [|reflexivity].
  apply existsb_exists in Ea. destruct Ea as [x [Hx Ex]]. apply pcls_eqb_eq in Ex. subst x.
  unfold disjoint in Hd. rewrite forallb_forall in Hd. specialize (Hd c Hx). rewrite Hb in Hd. discriminate.
Qed.

(* the alternative whose class matches the value serializes it; every other alternative rejects the result *)
Lemma union_round_trip n m (G : value -> Prop) v : forall ts,
  Forall (fun t => forall v, ht n t v = true -> G v -> rt (S m) t v) ts -> G v ->
  forallb rt_ty ts = true -> pairwise (map akinds ts) = true ->
  forallb (fun t' => match expected_class u t' with Some _ => true | None => false end) ts = true ->
  ht_first (ht n) v ts = true ->
  exists j d t1, img_first (img (S m)) v ts = SROk j /\ unembed j = Some d /\ In t1 ts /\
                 existsb (pcls_eqb (cls_of d)) (akinds t1) = true /\
                 first_spec (fun t => sp (S m) None t d) ts = SOk v.
Proof.
  intros ts HF HG. revert HF.
  induction ts as [|t ts IH]; intros HF Hrt Hpw Hec Hht; [discriminate|].
  inversion HF as [|? ? Hhead Htail]; subst.
  cbn [forallb] in Hrt, Hec. apply andb_true_iff in Hrt. destruct Hrt as [Hrt1 Hrt2].
  apply andb_true_iff in Hec. destruct Hec as [Hec1 Hec2].
  cbn [map pairwise] in Hpw. apply andb_true_iff in Hpw. destruct Hpw as [Hd Hpw].
  cbn [ht_first img_first first_spec] in *. destruct (expected_class u t) as [x|] eqn:Ex; [|discriminate].
  destruct (isinst u v x) eqn:Ei.
  - destruct (Hhead v Hht HG) as [j [d [Hi [Hu Hs]]]].
    assert (Himg : match t with
                   | TTuple ts' => match iter_values v with
                                   | Some l => if Nat.eqb (List.length l) (List.length ts') then img (S m) t v
                                               else SRCrash "TypeError: Expected n-tuple"
                                   | None => SRCrash "TypeError: len()" end
                   | _ => img (S m) t v end = SROk j).
    { destruct t; try exact Hi. rewrite ht_TTuple in Hht. destruct v; try discriminate. cbn [iter_values].
      rewrite (ht_zip_length _ _ _ Hht), Nat.eqb_refl. exact Hi. }
    rewrite Himg. exists j, d, t. rewrite Hs. repeat split; auto; [left; reflexivity|].
    destruct (existsb (pcls_eqb (cls_of d)) (akinds t)) eqn:E; [reflexivity|].
    rewrite (reject_other_class m t None d Hrt1 E) in Hs. discriminate.
  - destruct (IH Htail Hrt2 Hpw Hec2 Hht) as [j [d [t1 [Hi [Hu [Hin [Hk Hs]]]]]]].
    exists j, d, t1. rewrite Hi. repeat split; auto; [right; exact Hin|].
    assert (Hrej : sp (S m) None t d = SRej).
    { apply reject_other_class; [exact Hrt1|]. eapply disjoint_not_in; [|exact Hk].
      rewrite forallb_forall in Hd. apply Hd. apply in_map. exact Hin. }
    rewrite Hrej. exact Hs.
Qed.

(* ------------------------------------------------------------------ objects *)
Lemma sd_fresh seen ks k : sd seen ks = true -> In k ks -> existsb (String.eqb k) seen = false.
Proof.
  revert seen. induction ks as [|k' r IH]; intros seen H Hin; [contradiction|].
  cbn [sd] in H. apply andb_true_iff in H. destruct H as [Hk Hr]. destruct Hin as [->|Hin].
  - apply negb_true_iff in Hk. exact Hk.
  - specialize (IH _ Hr Hin). rewrite existsb_app in IH. apply orb_false_iff in IH. tauto.
Qed.

(* in an association list with distinct keys every entry is found under its key *)
Lemma dict_get_distinct {A} (l : list (string * A)) : forall seen,
  sd seen (map fst l) = true -> Forall (fun kd => dict_get (fst kd) l = Some (snd kd)) l.
Proof.
  induction l as [|[k x] r IH]; intros seen H; constructor.
  - cbn [fst snd dict_get]. rewrite String.eqb_refl. reflexivity.
  - cbn [map fst sd] in H. apply andb_true_iff in H. destruct H as [_ Hr].
    specialize (IH _ Hr). rewrite Forall_forall in *. intros [k' x'] Hin. cbn [fst snd dict_get].
    assert (Hne : existsb (String.eqb k') (seen ++ [k]) = false).
    { eapply sd_fresh; [exact Hr|]. apply in_map with (f := fst) in Hin. exact Hin. }
    rewrite existsb_app in Hne. apply orb_false_iff in Hne. destruct Hne as [_ Hne]. cbn [existsb] in Hne.
    rewrite orb_false_r in Hne. rewrite Hne. apply (IH (k', x') Hin).
Qed.

Lemma strs_eqb_eq a : forall b, strs_eqb a b = true -> a = b.
Proof.
  induction a as [|x a IH]; intros [|y b] H; try discriminate; [reflexivity|].
  cbn [strs_eqb] in H. apply andb_true_iff in H. destruct H as [H1 H2]. apply String.eqb_eq in H1. subst.
  rewrite (IH b H2). reflexivity.
Qed.

Lemma omitted_plain cd v fd x :
  cd_fields_set cd = false -> plain_field fd = true -> so_excl_none o = false -> so_excl_defaults o = false ->
  x <> VUndefined -> omitted o cd v fd (Some x) = false.
Proof.
  intros Hfs Hp Hn Hd Hx. unfold plain_field in Hp. repeat (apply andb_true_iff in Hp; destruct Hp as [Hp ?]).
  unfold omitted. rewrite Hfs, Hn, Hd.
  destruct (fs_skip_default (fd_ser fd)); [discriminate|]. destruct (fs_skip_if (fd_ser fd)); try discriminate.
  destruct (fs_none_undef (fd_ser fd)); [discriminate|]. destruct (fs_undefined (fd_ser fd)); [discriminate|].
  destruct x; try reflexivity; try (exfalso; apply Hx; reflexivity);
    cbn; rewrite ?andb_false_r, ?orb_false_r; try reflexivity;
    destruct (fd_required fd); try reflexivity; destruct (fd_default fd); reflexivity.
Qed.

(* the relation between a field, its entry in the instance and what the field loop needs *)
Definition field_ok (m : nat) (fs0 : list (string * value)) (fd : fdef) (kx : string * value) : Prop :=
  fd_name fd = fst kx /\ dict_get (fd_name fd) fs0 = Some (snd kx) /\ snd kx <> VUndefined /\ plain_field fd = true
  /\ rt m (fd_ty fd) (snd kx).

Lemma fields_round_trip m cd c fs0 :
  cd_fields_set cd = false -> so_excl_none o = false -> so_excl_defaults o = false ->
  forall fds kxs, Forall2 (field_ok m fs0) fds kxs ->
  forall acc, sd (map fst acc) (map alias_of fds) = true ->
  exists ys ds,
    img_fields (img m) cd false (VObj c fs0) (map EField fds) (map lift acc) = inl (map lift (acc ++ ys))
    /\ unembed_items (map lift ys) = Some ds /\ map fst ds = map alias_of fds
    /\ Forall2 (fun p kd => sp m None (fd_ty (fst p)) (snd kd) = SOk (snd (snd p))) (combine fds kxs) ds.
Proof.
  intros Hfs Hn Hd. induction 1 as [|fd kx fds kxs [Hname [Hget [Hund [Hplain [j [d [Hi [Hu Hs]]]]]]]] _ IH]; intros acc Hsd.
  - exists [], []. cbn. rewrite app_nil_r. repeat split; try reflexivity. constructor.
  - cbn [map sd] in Hsd. apply andb_true_iff in Hsd. destruct Hsd as [Hk Hr]. apply negb_true_iff in Hk.
    destruct (IH (acc ++ [(alias_of fd, j)])%list) as [ys [ds [Hm [Hun [Hfst HF]]]]]; [rewrite map_app; exact Hr|].
    exists ((alias_of fd, j) :: ys), ((alias_of fd, d) :: ds).
    cbn [map img_fields getattr andb negb]. rewrite Hget. cbv iota beta.
    rewrite (omitted_plain cd (VObj c fs0) fd (snd kx) Hfs Hplain Hn Hd Hund), Hi.
    unfold result_set. fold (alias_of fd). rewrite (dict_set_fresh acc (alias_of fd) j Hk), Hm. rewrite <- app_assoc.
    cbn [unembed_items map fst snd app combine]. change (lift (alias_of fd, j)) with (VStr (alias_of fd), j). cbv iota beta.
    rewrite Hu, Hun, Hfst. repeat split; try reflexivity. constructor; [exact Hs|exact HF].
Qed.

Lemma names_Forall2 (fields : list fdef) (fs : list (string * value)) :
  map fst fs = map fd_name fields -> Forall2 (fun fd kx => fd_name fd = fst kx) fields fs.
Proof.
  revert fs. induction fields as [|fd r IH]; intros [|kx fs] H; try discriminate; constructor.
  - cbn [map] in H. injection H as H _. symmetry. exact H.
  - apply IH. cbn [map] in H. injection H as _ H. exact H.
Qed.

Lemma Forall2_Forall_r {A B} (R : A -> B -> Prop) (Q : B -> Prop) l l' :
  Forall2 R l l' -> Forall Q l' -> Forall2 (fun a b => R a b /\ Q b) l l'.
Proof. induction 1; intros HQ; constructor; inversion HQ; subst; auto. Qed.

Lemma Forall2_Forall_l {A B} (R : A -> B -> Prop) (Q : A -> Prop) l l' :
  Forall2 R l l' -> Forall Q l -> Forall2 (fun a b => R a b /\ Q a) l l'.
Proof. induction 1; intros HQ; constructor; inversion HQ; subst; auto. Qed.

(* the specification of deserialization on the produced object: every field is found and gives back its value *)
Lemma spec_fields m cd ds : forall fds kxs dsx,
  Forall2 (fun p kd => fst kd = alias_of (fst p) /\ dict_get (fst kd) ds = Some (snd kd) /\
                       fd_con (fst p) = None /\ fd_name (fst p) = fst (snd p) /\
                       sp m None (fd_ty (fst p)) (snd kd) = SOk (snd (snd p))) (combine fds kxs) dsx ->
  List.length fds = List.length kxs ->
  map (spec_field u (dopts_of o) m cd ds) fds = map (fun kx => Some (Some (Some kx))) kxs.
Proof.
  induction fds as [|fd fds IH]; intros [|kx kxs] dsx HF Hlen; try discriminate; [reflexivity|].
  cbn [combine] in HF. inversion HF as [|? kd ? dsx' [Hal [Hget [Hcon [Hname Hs]]]] HF']; subst.
  cbn [map fst snd] in *. rewrite (IH kxs dsx' HF'); [|cbn [List.length] in Hlen; lia].
  unfold spec_field at 1. cbn [dopts_of o_aliaser]. fold (alias_of fd). rewrite <- Hal, Hget, Hcon, Hs, Hname.
  destruct kx; reflexivity.
Qed.

Lemma construct_fields (fs0 : list (string * value)) : forall fields l,
  Forall2 (fun fd kx => fd_name fd = fst kx /\ dict_get (fd_name fd) fs0 = Some (snd kx)) fields l ->
  map (fun f => (fd_name f, match dict_get (fd_name f) fs0 with Some v => v | None => fd_default f end)) fields = l.
Proof.
  induction 1 as [|fd [k x] fields l [Hn Hg] _ IH]; [reflexivity|].
  cbn [map fst snd] in *. rewrite Hg, Hn, IH. reflexivity.
Qed.

Lemma construct_same cd c fs0 :
  is_typed_dict cd = false ->
  Forall2 (fun fd kx => fd_name fd = fst kx /\ dict_get (fd_name fd) fs0 = Some (snd kx)) (cd_fields cd) fs0 ->
  construct cd c fs0 = VObj c fs0.
Proof.
  intros Htd HF. unfold construct. unfold is_typed_dict in Htd. rewrite (construct_fields fs0 _ _ HF).
  destruct (cd_kind cd); try discriminate; reflexivity.
Qed.

Lemma no_extra (ds : list (string * pyval)) aliases :
  map fst ds = aliases -> filter (fun kv => negb (existsb (String.eqb (fst kv)) aliases)) ds = [].
Proof.
  intros <-. assert (H : forall l : list (string * pyval), (forall kv, In kv l -> In (fst kv) (map fst ds)) ->
                                  filter (fun kv => negb (existsb (String.eqb (fst kv)) (map fst ds))) l = []).
  { induction l as [|kv l IH]; intros Hin; [reflexivity|]. cbn [filter].
    assert (E : existsb (String.eqb (fst kv)) (map fst ds) = true).
    { apply existsb_exists. exists (fst kv). split; [apply Hin; left; reflexivity|apply String.eqb_refl]. }
    rewrite E. cbn [negb]. apply IH. intros kv' H'. apply Hin. right. exact H'. }
  apply H. intros kv Hin. apply in_map. exact Hin.
Qed.

Lemma canonical_obj c fs : canonical (VObj c fs) = true ->
  map fst fs = map fd_name (cd_fields (get_cls u c)) /\ Forall (fun kx => canonical (snd kx) = true) fs.
Proof.
  cbn [canonical]. intros H. apply andb_true_iff in H. destruct H as [H1 H2]. split; [apply strs_eqb_eq; exact H1|].
  clear H1. induction fs as [|[k x] r IH]; constructor.
  - apply andb_true_iff in H2. tauto.
  - apply IH. apply andb_true_iff in H2. tauto.
Qed.

Lemma canonical_dict kvs : canonical (VDict kvs) = true -> Forall (fun kv => canonical (snd kv) = true) kvs.
Proof.
  cbn [canonical]. induction kvs as [|[k x] r IH]; intros H; constructor.
  - apply andb_true_iff in H. destruct H as [H _]. apply andb_true_iff in H. tauto.
  - apply IH. apply andb_true_iff in H. tauto.
Qed.

Lemma Forall2_imp {A B} (R R' : A -> B -> Prop) l l' :
  (forall a b, R a b -> R' a b) -> Forall2 R l l' -> Forall2 R' l l'.
Proof. intros H. induction 1; constructor; auto. Qed.

Lemma Forall2_and {A B} (R R' : A -> B -> Prop) l l' :
  Forall2 R l l' -> Forall2 R' l l' -> Forall2 (fun a b => R a b /\ R' a b) l l'.
Proof. induction 1; intros H'; inversion H'; subst; constructor; auto. Qed.

Lemma Forall2_combine {A B} (R : A -> B -> Prop) l l' :
  Forall2 R l l' -> Forall (fun p => R (fst p) (snd p)) (combine l l').
Proof. induction 1; cbn [combine]; constructor; auto. Qed.

Lemma Forall2_len {A B} (R : A -> B -> Prop) l l' : Forall2 R l l' -> List.length l = List.length l'.
Proof. induction 1; cbn [List.length]; congruence. Qed.

Definition field_res := option (option (option (string * value))).

Lemma no_fuel_results (fs : list (string * value)) :
  existsb (fun r : field_res => match r with None => true | _ => false end) (map (fun kx => Some (Some (Some kx))) fs) = false.
Proof. induction fs; [reflexivity|exact IHfs]. Qed.

Lemma no_rejected_results (fs : list (string * value)) :
  existsb (fun r : field_res => match r with Some None => true | _ => false end) (map (fun kx => Some (Some (Some kx))) fs) = false.
Proof. induction fs; [reflexivity|exact IHfs]. Qed.

Lemma results_values (fs : list (string * value)) :
  flat_map (fun r : field_res => match r with Some (Some (Some nv)) => [nv] | _ => [] end)
           (map (fun kx => Some (Some (Some kx))) fs) = fs.
Proof. induction fs as [|kx fs IH]; [reflexivity|]. cbn [map flat_map app]. rewrite IH. reflexivity. Qed.

(* ------------------------------------------------------------------ THE ROUND TRIP *)
Definition ctx_ok (t : ty) : Prop := no_obj t = true \/ rt_univ.

Lemma round_trip_step n :
  (forall n', n = S n' -> forall t v, rt_ty t = true -> ctx_ok t -> ht n' t v = true -> canonical v = true -> rt (S n') t v) ->
  forall t v, rt_ty t = true -> ctx_ok t -> ht n t v = true -> canonical v = true -> rt (S n) t v.
Proof.
  intros IHn. induction t using ty_ind'; intros v Hrt Hctx Hht Hcan; try discriminate.
  - rewrite ht_prim in Hht by exact I. destruct v; try discriminate. exists VNone, PNone. repeat split; reflexivity.
  - rewrite ht_prim in Hht by exact I. destruct v; try discriminate. exists (VBool b), (PBool b). repeat split; reflexivity.
  - rewrite ht_prim in Hht by exact I. destruct v; try discriminate. exists (VInt z), (PInt z). repeat split; reflexivity.
  - rewrite ht_prim in Hht by exact I. destruct v; try discriminate. exists (VFloat f), (PFloat f). repeat split; reflexivity.
  - rewrite ht_prim in Hht by exact I. destruct v; try discriminate. exists (VStr s), (PStr s). repeat split; reflexivity.
  - (* collections *)
    rewrite ht_TColl in Hht.
    assert (Hl : exists l, (v = VList l /\ k = KList \/ v = VTuple l /\ k = KVarTuple) /\ forallb (ht n t) l = true).
    { destruct k; try discriminate; destruct v; try discriminate; eexists; split; try exact Hht; auto. }
    destruct Hl as [l [Hv Hall]].
    assert (Ht : rt_ty t = true) by (destruct k; try discriminate; exact Hrt).
    assert (Hc : ctx_ok t) by (destruct Hctx as [Hc|Hc]; [left; exact Hc|right; exact Hc]).
    assert (Hcl : forallb canonical l = true) by (destruct Hv as [[-> _]|[-> _]]; exact Hcan).
    assert (HF : Forall (rt (S n) t) l).
    { apply Forall_forall. intros x Hx. rewrite forallb_forall in Hall, Hcl. apply IHt; auto. }
    destruct (all_round_trip (S n) t l HF) as [ys [ds [Hys [Hds Hok]]]].
    exists (VList ys), (PList ds). rewrite image_TColl, unembed_VList, spec_TColl, Hds, Hok. cbn [ocons]. rewrite accept_nil.
    destruct Hv as [[-> ->]|[-> ->]]; cbn [iter_values]; rewrite Hys; repeat split; reflexivity.
  - (* fixed tuples *)
    rewrite ht_TTuple in Hht. destruct v; try discriminate. cbn [rt_ty] in Hrt.
    assert (HF : Forall (fun t => forall v, ht n t v = true -> canonical v = true -> rt (S n) t v) ts).
    { rewrite Forall_forall in *. intros t Hin v' Hv' Hc'. rewrite forallb_forall in Hrt. apply H; auto.
      destruct Hctx as [Hc|Hc]; [left|right; exact Hc]. cbn [no_obj] in Hc. rewrite forallb_forall in Hc. auto. }
    assert (HG : Forall (fun x => canonical x = true) l) by (apply Forall_forall; apply forallb_forall; exact Hcan).
    destruct (zip_round_trip (ht n) (fun x => canonical x = true) (S n) ts l [] HF Hht HG) as [ys [ds [Hz [Hds [Hlen Hok]]]]].
    exists (VList ys), (PList ds). rewrite image_TTuple, unembed_VList, spec_TTuple, Hz, Hds, Hlen, Nat.eqb_refl, Hok.
    cbn [negb ocons]. rewrite accept_nil. repeat split; reflexivity.
  - (* string-keyed mappings *)
    cbn [rt_ty] in Hrt. destruct t1; try discriminate. rewrite ht_TMap in Hht. destruct v; try discriminate.
    apply andb_true_iff in Hht. destruct Hht as [Hall Hd]. destruct (keys_are_str n t2 l Hall) as [skvs [-> HFt]].
    assert (Hc2 : ctx_ok t2).
    { destruct Hctx as [Hc|Hc]; [left|right; exact Hc]. cbn [no_obj] in Hc. apply andb_true_iff in Hc. tauto. }
    assert (HF : Forall (fun kv => rt (S n) t2 (snd kv)) skvs).
    { apply canonical_dict in Hcan. rewrite Forall_forall in *. intros kv Hin. apply IHt2; auto.
      apply (Hcan (lift kv)). apply in_map. exact Hin. }
    change (@nil value) with (map VStr []) in Hd. rewrite keys_distinct_lift in Hd.
    destruct (map_round_trip (S n) t2 skvs [] Hd HF) as [ys [ds [Hm [Hun [Hfst Hok]]]]].
    exists (VDict (map lift ys)), (PDict ds). rewrite image_TMap. change (@nil (value * value)) with (map lift []).
    rewrite Hm, unembed_VDict, Hun, spec_TMap, str_keys_spec, Hok. cbn [ocons app option_map]. rewrite accept_nil.
    rewrite (combine_lift ds skvs Hfst). change (@nil (value * value)) with (map lift []).
    rewrite (fold_dict_set_distinct skvs [] Hd). repeat split; reflexivity.
  - (* literals *)
    cbn [rt_ty] in Hrt. rewrite ht_TLit in Hht. unfold rt. rewrite (image_TLit_prims (S n) vs v Hrt).
    destruct v; try discriminate.
    + exists VNone, PNone. rewrite spec_TLit. cbn [prim_of]. rewrite Hht. repeat split; reflexivity.
    + exists (VBool b), (PBool b). rewrite spec_TLit. cbn [prim_of]. rewrite Hht. repeat split; reflexivity.
    + exists (VInt z), (PInt z). rewrite spec_TLit. cbn [prim_of]. rewrite Hht. repeat split; reflexivity.
    + exists (VStr s), (PStr s). rewrite spec_TLit. cbn [prim_of]. rewrite Hht. repeat split; reflexivity.
  - (* enums *)
    rewrite ht_TEnum in Hht. destruct v; try discriminate. apply andb_true_iff in Hht. destruct Hht as [He Hp].
    apply Nat.eqb_eq in He. subst eid. unfold rt. rewrite image_TEnum.
    destruct p as [|b|z|s].
    + exists VNone, PNone. rewrite spec_TEnum. cbn [prim_of]. rewrite Hp. repeat split; reflexivity.
    + exists (VBool b), (PBool b). rewrite spec_TEnum. cbn [prim_of]. rewrite Hp. repeat split; reflexivity.
    + exists (VInt z), (PInt z). rewrite spec_TEnum. cbn [prim_of]. rewrite Hp. repeat split; reflexivity.
    + exists (VStr s), (PStr s). rewrite spec_TEnum. cbn [prim_of]. rewrite Hp. repeat split; reflexivity.
  - (* unions *)
    cbn [rt_ty] in Hrt. apply andb_true_iff in Hrt. destruct Hrt as [Hrt Hpw]. rewrite ht_TUnion in Hht.
    assert (HF : Forall (fun t => forall v, ht n t v = true -> canonical v = true -> rt (S n) t v) ts).
    { rewrite Forall_forall in *. intros t Hin v' Hv' Hc'. rewrite forallb_forall in Hrt. apply H; auto.
      destruct Hctx as [Hc|Hc]; [left|right; exact Hc]. cbn [no_obj] in Hc. rewrite forallb_forall in Hc. auto. }
    destruct ts as [|t1 [|t2 tr]].
    + discriminate.
    + inversion HF as [|? ? Hhead _]; subst.
      destruct (Hhead v Hht Hcan) as [j [d [Hi [Hu Hs]]]]. exists j, d. rewrite image_TUnion, spec_TUnion.
      cbn [first_spec]. rewrite Hs. repeat split; assumption.
    + apply andb_true_iff in Hht. destruct Hht as [Hec Hht].
      destruct (union_round_trip n n (fun x => canonical x = true) v _ HF Hcan Hrt Hpw Hec Hht) as [j [d [t' [Hi [Hu [_ [_ Hs]]]]]]].
      exists j, d. rewrite image_TUnion, spec_TUnion.
      assert (Hnone : existsb (fun t' => match expected_class u t' with None => true | Some _ => false end) (t1 :: t2 :: tr) = false).
      { destruct (existsb _ (t1 :: t2 :: tr)) eqn:E; [|reflexivity]. apply existsb_exists in E. destruct E as [t0 [Hin E0]].
        rewrite forallb_forall in Hec. specialize (Hec t0 Hin). destruct (expected_class u t0); discriminate. }
      rewrite Hnone. repeat split; assumption.
  - (* classes *)
    destruct Hctx as [Hc|[Hen [Hed Hcls]]]; [discriminate|].
    destruct n as [|n']; [rewrite ht_TObj_O in Hht; discriminate|].
    specialize (IHn n' eq_refl). rewrite ht_TObj_S in Hht. cbv zeta in Hht.
    destruct (Hcls c) as [Htd [Hfs [Hmeth [Hdep [Hord [Hplain [Hnames Haliases]]]]]]].
    set (cd := get_cls u c) in *.
    assert (Hv : exists fs, v = VObj c fs /\ forallb (ht_field (ht n') fs) (cd_fields cd) = true).
    { unfold is_typed_dict in Htd. destruct (cd_kind cd); try discriminate; destruct v; try discriminate;
        apply andb_true_iff in Hht; destruct Hht as [Hht _]; apply andb_true_iff in Hht; destruct Hht as [He Hf];
        apply Nat.eqb_eq in He; subst; eexists; split; eauto. }
    destruct Hv as [fs [-> Hfields]].
    destruct (canonical_obj c fs Hcan) as [Hfst Hcanf]. fold cd in Hfst.
    (* every field is typed, canonical, not Undefined: it round-trips by the induction hypothesis on the nesting *)
    assert (Hsdfs : sd [] (map fst fs) = true) by (rewrite Hfst; exact Hnames).
    pose proof (dict_get_distinct fs [] Hsdfs) as Hgets.
    assert (HF : Forall2 (field_ok (S n') fs) (cd_fields cd) fs).
    { pose proof (names_Forall2 _ _ Hfst) as HN.
      apply Forall2_Forall_r with (Q := fun kx => dict_get (fst kx) fs = Some (snd kx) /\ canonical (snd kx) = true) in HN.
      2:{ rewrite Forall_forall in *. intros kx Hin. split; auto. }
      apply Forall2_Forall_l with (Q := fun fd => ht_field (ht n') fs fd = true /\ plain_field fd = true) in HN.
      2:{ rewrite Forall_forall. rewrite forallb_forall in Hfields, Hplain. intros fd Hin. split; auto. }
      eapply Forall2_imp; [|exact HN]. intros fd kx [[Hn [Hg Hck]] [Hhf Hpf]]. cbv beta in *.
      unfold field_ok. rewrite Hn. repeat split; auto.
      - unfold ht_field in Hhf. rewrite Hn, Hg in Hhf. intros E. rewrite E in Hhf.
        unfold plain_field in Hpf. repeat (apply andb_true_iff in Hpf; destruct Hpf as [Hpf ?]).
        destruct (fs_undefined (fd_ser fd)); discriminate.
      - assert (Hty : ht n' (fd_ty fd) (snd kx) = true).
        { unfold ht_field in Hhf. rewrite Hn, Hg in Hhf.
          unfold plain_field in Hpf. repeat (apply andb_true_iff in Hpf; destruct Hpf as [Hpf ?]).
          destruct (snd kx) eqn:Ev; try exact Hhf.
          - destruct (fs_none_undef (fd_ser fd)); [discriminate|exact Hhf].
          - destruct (fs_undefined (fd_ser fd)); discriminate. }
        apply IHn; auto.
        + unfold plain_field in Hpf. repeat (apply andb_true_iff in Hpf; destruct Hpf as [Hpf ?]). assumption.
        + right. exact (conj Hen (conj Hed Hcls)). }
    destruct (fields_round_trip (S n') cd c fs Hfs Hen Hed _ _ HF [] Haliases) as [ys [ds [Hm [Hun [Hfstd HS]]]]].
    exists (VDict (map lift ys)), (PDict ds).
    rewrite image_TObj_S. cbv zeta. fold cd. rewrite Hord, Htd. change (@nil (value * value)) with (map lift []).
    rewrite Hm. cbn [andb app]. rewrite unembed_VDict, Hun. cbn [option_map].
    split; [reflexivity|]. split; [reflexivity|].
    rewrite spec_TObj_S. cbv zeta. fold cd.
    assert (Hsdds : sd [] (map fst ds) = true) by (rewrite Hfstd; exact Haliases).
    pose proof (dict_get_distinct ds [] Hsdds) as Hgd.
    assert (Hrs : map (spec_field u (dopts_of o) (S n') cd ds) (cd_fields cd) = map (fun kx => Some (Some (Some kx))) fs).
    { apply spec_fields with (dsx := ds).
      - assert (Hal : Forall2 (fun (p : fdef * (string * value)) (kd : string * pyval) => fst kd = alias_of (fst p))
                              (combine (cd_fields cd) fs) ds).
        { clear - Hfstd HF. revert ds Hfstd. induction HF as [|fd kx fds kxs _ _ IH]; intros [|kd ds] Hd; try discriminate; constructor.
          - cbn [map] in Hd. injection Hd as Hd _. exact Hd.
          - apply IH. cbn [map] in Hd. injection Hd as _ Hd. exact Hd. }
        assert (Hfo : Forall (fun p : fdef * (string * value) => field_ok (S n') fs (fst p) (snd p)) (combine (cd_fields cd) fs)).
        { apply Forall2_combine. exact HF. }
        pose proof (Forall2_and _ _ _ _ (Forall2_Forall_l _ _ _ _ (Forall2_Forall_r _ _ _ _ HS Hgd) Hfo) Hal) as HH.
        eapply Forall2_imp; [|exact HH]. intros p kd [[[Hsp Hg] Hok] Hal']. cbv beta in *.
        destruct Hok as [Hn [_ [_ [Hpf _]]]].
        unfold plain_field in Hpf. repeat (apply andb_true_iff in Hpf; destruct Hpf as [Hpf ?]).
        repeat split; auto. destruct (fd_con (fst p)); [discriminate|reflexivity].
      - eapply Forall2_len. exact HF. }
    rewrite Hrs, no_fuel_results, no_rejected_results, results_values.
    assert (Hex : filter (fun kv : string * pyval =>
                            negb (existsb (String.eqb (fst kv)) (map (fun fd => o_aliaser (dopts_of o) (fd_alias fd)) (cd_fields cd)))) ds = [])
      by (apply no_extra; exact Hfstd).
    rewrite Hex. cbn [negb andb ocons all_valid forallb]. rewrite andb_false_r. rewrite Htd, andb_false_r.
    rewrite construct_same; [reflexivity|exact Htd|].
    eapply Forall2_imp; [|exact HF]. intros fd kx [Hn [Hg _]]. split; assumption.
Qed.

(* for every bound n on the nesting of classes in the value *)
Theorem round_trip : forall n t v,
  rt_ty t = true -> ctx_ok t -> ht n t v = true -> canonical v = true -> rt (S n) t v.
Proof.
  induction n as [|n IH]; apply round_trip_step.
  - intros n' E. discriminate.
  - intros n' E. injection E as <-. exact IH.
Qed.

(* the object-free corollary needs no condition on the classes nor on the options *)
Corollary container_round_trip : forall n t v,
  rt_ty t = true -> no_obj t = true -> ht n t v = true -> canonical v = true -> rt (S n) t v.
Proof. intros n t v Hrt Hno. apply round_trip; [exact Hrt|left; exact Hno]. Qed.

Corollary class_round_trip : forall n t v,
  rt_univ -> rt_ty t = true -> ht n t v = true -> canonical v = true -> rt (S n) t v.
Proof. intros n t v Hu Hrt. apply round_trip; [exact Hrt|right; exact Hu]. Qed.

(* ------------------------------------------------------------------ the conditions as executable checks *)
Definition order_kept (cd : cdef) : bool :=
  match sort_by_order (cd_order cd)
          (map (fun e => {| ename := elem_name e; eord := elem_order e |}) (map EField (cd_fields cd))) with
  | Some sorted => strs_eqb (map ename sorted) (map fd_name (cd_fields cd))
  | None => false
  end.

Definition rt_cls_b (cd : cdef) : bool :=
  negb (is_typed_dict cd) && negb (cd_fields_set cd)
  && match cd_methods cd with [] => true | _ => false end && match cd_depreq cd with [] => true | _ => false end
  && order_kept cd && forallb plain_field (cd_fields cd)
  && sd [] (map fd_name (cd_fields cd)) && sd [] (map alias_of (cd_fields cd)).

Definition rt_univ_b : bool :=
  negb (so_excl_none o) && negb (so_excl_defaults o) && forallb rt_cls_b (u_classes u).

Lemma find_field (F : list fdef) : forall seen fd,
  sd seen (map fd_name F) = true -> In fd F ->
  find (fun e => String.eqb (elem_name e) (fd_name fd)) (map EField F) = Some (EField fd).
Proof.
  induction F as [|f F IH]; intros seen fd H Hin; [contradiction|].
  cbn [map sd] in H. apply andb_true_iff in H. destruct H as [_ Hr]. cbn [map find elem_name].
  destruct Hin as [->|Hin]; [rewrite String.eqb_refl; reflexivity|].
  assert (Hne : existsb (String.eqb (fd_name fd)) (seen ++ [fd_name f]) = false).
  { eapply sd_fresh; [exact Hr|]. apply in_map. exact Hin. }
  rewrite existsb_app in Hne. apply orb_false_iff in Hne. destruct Hne as [_ Hne]. cbn [existsb] in Hne.
  rewrite orb_false_r in Hne. rewrite String.eqb_sym, Hne. eapply IH; eassumption.
Qed.

Lemma order_kept_ok cd :
  cd_methods cd = [] -> sd [] (map fd_name (cd_fields cd)) = true -> order_kept cd = true ->
  ordered_elems cd = Some (map EField (cd_fields cd)).
Proof.
  intros Hm Hsd Hk. unfold ordered_elems. rewrite Hm. cbn [map]. rewrite app_nil_r. unfold order_kept in Hk.
  destruct (sort_by_order _ _) as [sorted|]; [|discriminate]. apply strs_eqb_eq in Hk. f_equal.
  assert (G : forall (l : list elt) (G : list fdef), (forall fd, In fd G -> In fd (cd_fields cd)) ->
              map ename l = map fd_name G ->
              flat_map (fun x => match find (fun e => String.eqb (elem_name e) (ename x)) (map EField (cd_fields cd)) with
                                 | Some e => [e] | None => [] end) l = map EField G).
  { induction l as [|x l IH]; intros [|g G] Hin Hn; try discriminate; [reflexivity|].
    cbn [map] in Hn. injection Hn as Hx Hl. cbn [flat_map map]. rewrite Hx.
    rewrite (find_field (cd_fields cd) [] g Hsd (Hin g (or_introl eq_refl))). cbn [app].
    rewrite (IH G); [reflexivity| |exact Hl]. intros fd H. apply Hin. right. exact H. }
  apply G; [auto|exact Hk].
Qed.

Lemma rt_cls_b_ok cd : rt_cls_b cd = true -> rt_cls cd.
Proof.
  unfold rt_cls_b, rt_cls. intros H. repeat (apply andb_true_iff in H; destruct H as [H ?]).
  apply negb_true_iff in H. 
  match goal with Hx : negb (cd_fields_set cd) = true |- _ => apply negb_true_iff in Hx end.
  assert (Hm : cd_methods cd = []) by (destruct (cd_methods cd); [reflexivity|discriminate]).
  assert (Hd : cd_depreq cd = []) by (destruct (cd_depreq cd); [reflexivity|discriminate]).
  repeat split; auto. apply order_kept_ok; assumption.
Qed.

Lemma rt_univ_b_ok : rt_univ_b = true -> rt_univ.
Proof.
  unfold rt_univ_b, rt_univ. intros H. repeat (apply andb_true_iff in H; destruct H as [H ?]).
  apply negb_true_iff in H. match goal with Hx : negb (so_excl_defaults o) = true |- _ => apply negb_true_iff in Hx end.
  split; [assumption|]. split; [assumption|]. intros c. apply rt_cls_b_ok. unfold get_cls.
  match goal with Hf : forallb rt_cls_b (u_classes u) = true |- _ => rename Hf into Hall end.
  destruct (nth_in_or_default c (u_classes u) empty_cls) as [Hin|Hdef].
  - rewrite forallb_forall in Hall. apply Hall. exact Hin.
  - rewrite Hdef. reflexivity.
Qed.

(* the statement with executable hypotheses only *)
Definition rt_hyps (n : nat) (t : ty) (v : value) : bool :=
  rt_ty t && (no_obj t || rt_univ_b) && ht n t v && canonical v.

Theorem round_trip_checked n t v : rt_hyps n t v = true -> rt (S n) t v.
Proof.
  unfold rt_hyps. intros H. repeat (apply andb_true_iff in H; destruct H as [H ?]).
  apply round_trip; auto. match goal with Hx : (no_obj t || rt_univ_b)%bool = true |- _ => apply orb_true_iff in Hx; destruct Hx as [Hx|Hx] end.
  - left; assumption.
  - right; apply rt_univ_b_ok; assumption.
Qed.
End RT.

(* ------------------------------------------------------------------ the hypotheses are satisfiable: a recursive dataclass *)
Open Scope string_scope.
Definition rt_ex_univ : univ := mkU
  [ mkCls KData
      [ mkF "v" "v" TInt true VNone false None no_fser;
        mkF "next" "nextNode" (TUnion [TObj 0; TNone]) false VNone false None no_fser;
        mkF "tags" "tags" (TColl KList TStr) false (VList []) false None no_fser;
        mkF "kind" "kind" (TEnum 0) true VNone false None no_fser;
        mkF "pos" "pos" (TTuple [TFloat; TBool]) true VNone false None no_fser;
        mkF "extra" "extra" (TMap TStr (TUnion [TInt; TStr; TColl KVarTuple TBool])) true VNone false None no_fser ]
      [] [] [] false ]
  [ [LStr "a"; LInt 1] ].

Definition rt_ex_opts : sopts :=
  mkSO false false false true false false false false false false (fun s => "p_" ++ s).

Definition rt_ex_leaf : value :=
  VObj 0 [("v", VInt 2); ("next", VNone); ("tags", VList []); ("kind", VEnum 0 (LInt 1));
          ("pos", VTuple [VFloat (FQ 6); VBool true]); ("extra", VDict [])].

Definition rt_ex_value : value :=
  VObj 0 [("v", VInt 1); ("next", rt_ex_leaf); ("tags", VList [VStr "x"; VStr "y"]); ("kind", VEnum 0 (LStr "a"));
          ("pos", VTuple [VFloat (FQ (-1)); VBool false]);
          ("extra", VDict [(VStr "k", VInt 3); (VStr "l", VStr "s"); (VStr "m", VTuple [VBool true])])].

Example rt_ex_hyps : rt_hyps rt_ex_univ rt_ex_opts 2 (TObj 0) rt_ex_value = true.
Proof. vm_compute. reflexivity. Qed.

Example rt_ex_round_trip : rt rt_ex_univ rt_ex_opts 3 (TObj 0) rt_ex_value.
Proof. apply round_trip_checked. exact rt_ex_hyps. Qed.
