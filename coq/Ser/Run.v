(* Comparison of the serialization model with observations of the implementation. No proofs. *)
From Coq Require Import List String ZArith Bool Arith.
From AV Require Import Core.Json Core.Errors Core.Text Deser.Model Deser.Run Ser.Model.
Import ListNotations.
Open Scope string_scope.

Inductive sobs := OOk (v : value) | OTypeError | OCrash (cls : string).

Definition sfuel0 : nat := 60.

Definition sres_matches (r : sres) (o : sobs) : bool :=
  match r, o with
  | SROk v, OOk v' => value_eqb v v'
  | SRTypeError _, OTypeError => true
  | SRCrash _, OCrash _ => true
  | _, _ => false
  end.

Definition show_sres (r : sres) : string :=
  match r with
  | SROk v => "Ok " ++ show_value v
  | SRTypeError w => "TypeCheckError " ++ w
  | SRCrash w => "Crash " ++ w
  | SRFuel => "OutOfFuel"
  end.
