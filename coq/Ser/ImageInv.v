(* What serialization produces, characterised by an invariant Q on (type, produced datum): if Q is established by every way of
   producing data (one closure property per type constructor), then it holds of the image of every well-typed value of the
   round-trip fragment.  Instantiated in Schema/SerClassProofs.v with "validates against the serialization schema". *)
From Coq Require Import List String ZArith Bool Arith Lia.
From AV Require Import Core.Json Core.Errors Core.Text Small.Ordering Deser.Model Deser.Spec Deser.Unfold Deser.Loops
  Ser.Model Ser.Spec Ser.RoundTrip Ser.RoundTripInd.
Import ListNotations.

Section Inv.
Variable u : univ.
Variable o : sopts.
Notation img := (image u o).
Notation ht := (has_type u).

Variable Q : ty -> pyval -> Prop.
Hypothesis Q_none : Q TNone PNone.
Hypothesis Q_bool : forall b, Q TBool (PBool b).
Hypothesis Q_int : forall z, Q TInt (PInt z).
Hypothesis Q_float : forall f, Q TFloat (PFloat f).
Hypothesis Q_str : forall s, Q TStr (PStr s).
Hypothesis Q_coll : forall k t ds, k = KList \/ k = KVarTuple -> Forall (Q t) ds -> Q (TColl k t) (PList ds).
Hypothesis Q_tuple : forall ts ds, Forall2 Q ts ds -> Q (TTuple ts) (PList ds).
Hypothesis Q_map : forall vt (ds : list (string * pyval)), Forall (fun kd => Q vt (snd kd)) ds -> Q (TMap TStr vt) (PDict ds).
Hypothesis Q_lit : forall vs d p, prim_of d = Some p -> existsb (prim_eqb p) vs = true -> rt_ty u (TLit vs) = true -> Q (TLit vs) d.
Hypothesis Q_enum : forall e d p, prim_of d = Some p -> existsb (prim_eqb p) (get_enum u e) = true -> Q (TEnum e) d.
Hypothesis Q_union : forall ts t d, In t ts -> Q t d -> Q (TUnion ts) d.
Hypothesis Q_obj : forall c (ds : list (string * pyval)),
  rt_cls u o (get_cls u c) ->
  Forall2 (fun fd kd => fst kd = alias_of o fd /\ Q (fd_ty fd) (snd kd)) (cd_fields (get_cls u c)) ds ->
  Q (TObj c) (PDict ds).

Definition iq (m : nat) (t : ty) (v : value) : Prop :=
  exists j d, img m t v = SROk j /\ unembed j = Some d /\ Q t d.

Lemma all_iq m t' l :
  Forall (iq m t') l -> exists ys ds, img_all (img m t') l = inl ys /\ unembed_list ys = Some ds /\ Forall (Q t') ds.
Proof.
  induction 1 as [|x r [j [d [Hi [Hu Hq]]]] _ [ys [ds [Hys [Hds HQ]]]]].
  - exists [], []. repeat split; try reflexivity. constructor.
  - exists (j :: ys), (d :: ds). cbn [img_all unembed_list]. rewrite Hi, Hys, Hu, Hds. repeat split; try reflexivity. constructor; assumption.
Qed.

Lemma zip_iq (T : ty -> value -> bool) (G : value -> Prop) m ts : forall l acc,
  Forall (fun t => forall v, T t v = true -> G v -> iq m t v) ts ->
  ht_zip T ts l = true -> Forall G l ->
  exists ys ds, img_zip (img m) ts l acc = SROk (VList (rev acc ++ ys)) /\ unembed_list ys = Some ds /\ Forall2 Q ts ds.
Proof.
  induction ts as [|t ts IH]; intros l acc HF Hht HG.
  - destruct l; [|discriminate]. exists [], []. cbn. rewrite app_nil_r. repeat split; try reflexivity. constructor.
  - destruct l as [|x r]; [discriminate|]. cbn [ht_zip] in Hht. apply andb_true_iff in Hht. destruct Hht as [Hx Hr].
    inversion HF as [|? ? Hhead Htail]; subst. inversion HG as [|? ? HGx HGr]; subst.
    destruct (Hhead x Hx HGx) as [j [d [Hi [Hu Hq]]]].
    destruct (IH r (j :: acc) Htail Hr HGr) as [ys [ds [Hz [Hds HQ]]]].
    exists (j :: ys), (d :: ds). cbn [img_zip unembed_list]. rewrite Hi, Hz, Hu, Hds. cbn [rev]. rewrite <- app_assoc.
    repeat split; try reflexivity. constructor; assumption.
Qed.

Lemma map_iq m vt skvs : forall acc,
  sd (map fst acc) (map fst skvs) = true ->
  Forall (fun kv => iq m vt (snd kv)) skvs ->
  exists ys ds, img_map (img m TStr) (img m vt) (map lift skvs) (map lift acc) = SROk (VDict (map lift (acc ++ ys)))
                /\ unembed_items (map lift ys) = Some ds /\ Forall (fun kd => Q vt (snd kd)) ds.
Proof.
  induction skvs as [|[k x] r IH]; intros acc Hd HF.
  - exists [], []. cbn. rewrite app_nil_r. repeat split; try reflexivity. constructor.
  - cbn [map fst sd] in Hd. apply andb_true_iff in Hd. destruct Hd as [Hk Hr]. apply negb_true_iff in Hk.
    inversion HF as [|? ? [j [d [Hi [Hu Hq]]]] Htail]; subst. cbn [snd] in Hi, Hq.
    destruct (IH (acc ++ [(k, j)])%list) as [ys [ds [Hm [Hun HQ]]]]; [rewrite map_app; exact Hr|exact Htail|].
    exists ((k, j) :: ys), ((k, d) :: ds). cbn [map lift fst snd img_map].
    rewrite (image_prim u o m TStr (VStr k) I), Hi, (dict_set_fresh acc k j Hk), Hm. rewrite <- app_assoc.
    cbn [unembed_items app]. change (lift (k, j)) with (VStr k, j). cbv iota beta. rewrite Hu, Hun.
    repeat split; try reflexivity. constructor; [exact Hq|exact HQ].
Qed.

(* the first alternative whose class matches serializes the value *)
Lemma union_iq n m (G : value -> Prop) v : forall ts,
  Forall (fun t => forall v, ht n t v = true -> G v -> iq (S m) t v) ts -> G v ->
  forallb (fun t' => match expected_class u t' with Some _ => true | None => false end) ts = true ->
  ht_first u (ht n) v ts = true ->
  exists j d t1, img_first u (img (S m)) v ts = SROk j /\ unembed j = Some d /\ In t1 ts /\ Q t1 d.
Proof.
  intros ts HF HG. revert HF. induction ts as [|t ts IH]; intros HF Hec Hht; [discriminate|].
  inversion HF as [|? ? Hhead Htail]; subst.
  cbn [forallb] in Hec. apply andb_true_iff in Hec. destruct Hec as [Hec1 Hec2].
  cbn [ht_first img_first] in *. destruct (expected_class u t) as [x|] eqn:Ex; [|discriminate].
  destruct (isinst u v x) eqn:Ei.
  - destruct (Hhead v Hht HG) as [j [d [Hi [Hu Hq]]]].
    assert (Himg : match t with
                   | TTuple ts' => match iter_values v with
                                   | Some l => if Nat.eqb (List.length l) (List.length ts') then img (S m) t v
                                               else SRCrash "TypeError: Expected n-tuple"
                                   | None => SRCrash "TypeError: len()" end
                   | _ => img (S m) t v end = SROk j).
    { destruct t; try exact Hi. rewrite ht_TTuple in Hht. destruct v; try discriminate. cbn [iter_values].
      rewrite (ht_zip_length _ _ _ Hht), Nat.eqb_refl. exact Hi. }
    rewrite Himg. exists j, d, t. repeat split; auto. left. reflexivity.
  - destruct (IH Htail Hec2 Hht) as [j [d [t1 [Hi [Hu [Hin Hq]]]]]]. exists j, d, t1. repeat split; auto. right. exact Hin.
Qed.

Lemma fields_iq m cd c fs0 :
  cd_fields_set cd = false -> so_excl_none o = false -> so_excl_defaults o = false ->
  forall fds kxs,
  Forall2 (fun fd kx => fd_name fd = fst kx /\ dict_get (fd_name fd) fs0 = Some (snd kx) /\ snd kx <> VUndefined
                        /\ plain_field u fd = true /\ iq m (fd_ty fd) (snd kx)) fds kxs ->
  forall acc, sd (map fst acc) (map (alias_of o) fds) = true ->
  exists ys ds,
    img_fields o (img m) cd false (VObj c fs0) (map EField fds) (map lift acc) = inl (map lift (acc ++ ys))
    /\ unembed_items (map lift ys) = Some ds
    /\ Forall2 (fun fd kd => fst kd = alias_of o fd /\ Q (fd_ty fd) (snd kd)) fds ds.
Proof.
  intros Hfs Hn Hd. induction 1 as [|fd kx fds kxs [Hname [Hget [Hund [Hplain [j [d [Hi [Hu Hq]]]]]]]] _ IH]; intros acc Hsd.
  - exists [], []. cbn. rewrite app_nil_r. repeat split; try reflexivity. constructor.
  - cbn [map sd] in Hsd. apply andb_true_iff in Hsd. destruct Hsd as [Hk Hr]. apply negb_true_iff in Hk.
    destruct (IH (acc ++ [(alias_of o fd, j)])%list) as [ys [ds [Hm [Hun HF]]]]; [rewrite map_app; exact Hr|].
    exists ((alias_of o fd, j) :: ys), ((alias_of o fd, d) :: ds).
    cbn [map img_fields getattr andb negb]. rewrite Hget. cbv iota beta.
    rewrite (omitted_plain u o cd (VObj c fs0) fd (snd kx) Hfs Hplain Hn Hd Hund), Hi.
    unfold result_set. fold (alias_of o fd). rewrite (dict_set_fresh acc (alias_of o fd) j Hk), Hm. rewrite <- app_assoc.
    cbn [unembed_items app]. change (lift (alias_of o fd, j)) with (VStr (alias_of o fd), j). cbv iota beta.
    rewrite Hu, Hun. repeat split; try reflexivity. constructor; [split; [reflexivity|exact Hq]|exact HF].
Qed.

Lemma inv_step n :
  (forall n', n = S n' -> forall t v, rt_ty u t = true -> ctx_ok u o t -> ht n' t v = true -> canonical u v = true -> iq (S n') t v) ->
  forall t v, rt_ty u t = true -> ctx_ok u o t -> ht n t v = true -> canonical u v = true -> iq (S n) t v.
Proof.
  intros IHn. induction t using ty_ind'; intros v Hrt Hctx Hht Hcan; try discriminate.
  - rewrite ht_prim in Hht by exact I. destruct v; try discriminate. exists VNone, PNone. repeat split; auto.
  - rewrite ht_prim in Hht by exact I. destruct v; try discriminate. exists (VBool b), (PBool b). repeat split; auto.
  - rewrite ht_prim in Hht by exact I. destruct v; try discriminate. exists (VInt z), (PInt z). repeat split; auto.
  - rewrite ht_prim in Hht by exact I. destruct v; try discriminate. exists (VFloat f), (PFloat f). repeat split; auto.
  - rewrite ht_prim in Hht by exact I. destruct v; try discriminate. exists (VStr s), (PStr s). repeat split; auto.
  - (* collections *)
    rewrite ht_TColl in Hht.
    assert (Hl : exists l, (v = VList l /\ k = KList \/ v = VTuple l /\ k = KVarTuple) /\ forallb (ht n t) l = true).
    { destruct k; try discriminate; destruct v; try discriminate; eexists; split; try exact Hht; auto. }
    destruct Hl as [l [Hv Hall]].
    assert (Ht : rt_ty u t = true) by (destruct k; try discriminate; exact Hrt).
    assert (Hc : ctx_ok u o t) by (destruct Hctx as [Hc|Hc]; [left; exact Hc|right; exact Hc]).
    assert (Hcl : forallb (canonical u) l = true) by (destruct Hv as [[-> _]|[-> _]]; exact Hcan).
    assert (HF : Forall (iq (S n) t) l).
    { apply Forall_forall. intros x Hx. rewrite forallb_forall in Hall, Hcl. apply IHt; auto. }
    destruct (all_iq (S n) t l HF) as [ys [ds [Hys [Hds HQ]]]].
    exists (VList ys), (PList ds). rewrite image_TColl, unembed_VList, Hds.
    assert (Hk : k = KList \/ k = KVarTuple) by (destruct Hv as [[_ ->]|[_ ->]]; auto).
    destruct Hv as [[-> ->]|[-> ->]]; cbn [iter_values]; rewrite Hys; repeat split; try reflexivity; apply Q_coll; auto.
  - (* fixed tuples *)
    rewrite ht_TTuple in Hht. destruct v; try discriminate. cbn [rt_ty] in Hrt.
    assert (HF : Forall (fun t => forall v, ht n t v = true -> canonical u v = true -> iq (S n) t v) ts).
    { rewrite Forall_forall in *. intros t Hin v' Hv' Hc'. rewrite forallb_forall in Hrt. apply H; auto.
      destruct Hctx as [Hc|Hc]; [left|right; exact Hc]. cbn [no_obj] in Hc. rewrite forallb_forall in Hc. auto. }
    assert (HG : Forall (fun x => canonical u x = true) l) by (apply Forall_forall; apply forallb_forall; exact Hcan).
    destruct (zip_iq (ht n) (fun x => canonical u x = true) (S n) ts l [] HF Hht HG) as [ys [ds [Hz [Hds HQ]]]].
    exists (VList ys), (PList ds). rewrite image_TTuple, unembed_VList, Hz, Hds. repeat split; try reflexivity. apply Q_tuple. exact HQ.
  - (* string-keyed mappings *)
    cbn [rt_ty] in Hrt. destruct t1; try discriminate. rewrite ht_TMap in Hht. destruct v; try discriminate.
    apply andb_true_iff in Hht. destruct Hht as [Hall Hd]. destruct (keys_are_str u n t2 l Hall) as [skvs [-> HFt]].
    assert (Hc2 : ctx_ok u o t2).
    { destruct Hctx as [Hc|Hc]; [left|right; exact Hc]. cbn [no_obj] in Hc. apply andb_true_iff in Hc. tauto. }
    assert (HF : Forall (fun kv => iq (S n) t2 (snd kv)) skvs).
    { apply canonical_dict in Hcan. rewrite Forall_forall in *. intros kv Hin. apply IHt2; auto.
      apply (Hcan (lift kv)). apply in_map. exact Hin. }
    change (@nil value) with (map VStr []) in Hd. rewrite keys_distinct_lift in Hd.
    destruct (map_iq (S n) t2 skvs [] Hd HF) as [ys [ds [Hm [Hun HQ]]]].
    exists (VDict (map lift ys)), (PDict ds). rewrite image_TMap. change (@nil (value * value)) with (map lift []).
    rewrite Hm, unembed_VDict, Hun. repeat split; try reflexivity. apply Q_map. exact HQ.
  - (* literals *)
    pose proof Hrt as Hrt0. cbn [rt_ty] in Hrt. rewrite ht_TLit in Hht. unfold iq. rewrite (image_TLit_prims u o (S n) vs v Hrt).
    destruct v; try discriminate.
    + exists VNone, PNone. repeat split; try reflexivity. eapply Q_lit; [reflexivity|exact Hht|exact Hrt0].
    + exists (VBool b), (PBool b). repeat split; try reflexivity. eapply Q_lit; [reflexivity|exact Hht|exact Hrt0].
    + exists (VInt z), (PInt z). repeat split; try reflexivity. eapply Q_lit; [reflexivity|exact Hht|exact Hrt0].
    + exists (VStr s), (PStr s). repeat split; try reflexivity. eapply Q_lit; [reflexivity|exact Hht|exact Hrt0].
  - (* enums *)
    rewrite ht_TEnum in Hht. destruct v; try discriminate. apply andb_true_iff in Hht. destruct Hht as [He Hp].
    apply Nat.eqb_eq in He. subst eid. unfold iq. rewrite image_TEnum.
    destruct p as [|b|z|s].
    + exists VNone, PNone. repeat split; try reflexivity. eapply Q_enum; [reflexivity|exact Hp].
    + exists (VBool b), (PBool b). repeat split; try reflexivity. eapply Q_enum; [reflexivity|exact Hp].
    + exists (VInt z), (PInt z). repeat split; try reflexivity. eapply Q_enum; [reflexivity|exact Hp].
    + exists (VStr s), (PStr s). repeat split; try reflexivity. eapply Q_enum; [reflexivity|exact Hp].
  - (* unions *)
    cbn [rt_ty] in Hrt. apply andb_true_iff in Hrt. destruct Hrt as [Hrt Hpw]. rewrite ht_TUnion in Hht.
    assert (HF : Forall (fun t => forall v, ht n t v = true -> canonical u v = true -> iq (S n) t v) ts).
    { rewrite Forall_forall in *. intros t Hin v' Hv' Hc'. rewrite forallb_forall in Hrt. apply H; auto.
      destruct Hctx as [Hc|Hc]; [left|right; exact Hc]. cbn [no_obj] in Hc. rewrite forallb_forall in Hc. auto. }
    destruct ts as [|t1 [|t2 tr]].
    + discriminate.
    + inversion HF as [|? ? Hhead _]; subst.
      destruct (Hhead v Hht Hcan) as [j [d [Hi [Hu Hq]]]]. exists j, d. rewrite image_TUnion.
      repeat split; auto. apply (Q_union [t1] t1 d); [left; reflexivity|exact Hq].
    + apply andb_true_iff in Hht. destruct Hht as [Hec Hht].
      destruct (union_iq n n (fun x => canonical u x = true) v _ HF Hcan Hec Hht) as [j [d [t' [Hi [Hu [Hin Hq]]]]]].
      exists j, d. rewrite image_TUnion.
      assert (Hnone : existsb (fun t' => match expected_class u t' with None => true | Some _ => false end) (t1 :: t2 :: tr) = false).
      { destruct (existsb _ (t1 :: t2 :: tr)) eqn:E; [|reflexivity]. apply existsb_exists in E. destruct E as [t0 [Hin0 E0]].
        rewrite forallb_forall in Hec. specialize (Hec t0 Hin0). destruct (expected_class u t0); discriminate. }
      rewrite Hnone. repeat split; auto. apply (Q_union _ t' d Hin Hq).
  - (* classes *)
    destruct Hctx as [Hc|[Hen [Hed Hcls]]]; [discriminate|].
    destruct n as [|n']; [rewrite ht_TObj_O in Hht; discriminate|].
    specialize (IHn n' eq_refl). rewrite ht_TObj_S in Hht. cbv zeta in Hht.
    pose proof (Hcls c) as Hrc. destruct Hrc as [Htd [Hfs [Hmeth [Hdep [Hord [Hplain [Hnames Haliases]]]]]]].
    set (cd := get_cls u c) in *.
    assert (Hv : exists fs, v = VObj c fs /\ forallb (ht_field (ht n') fs) (cd_fields cd) = true).
    { unfold is_typed_dict in Htd. destruct (cd_kind cd); try discriminate; destruct v; try discriminate;
        apply andb_true_iff in Hht; destruct Hht as [Hht _]; apply andb_true_iff in Hht; destruct Hht as [He Hf];
        apply Nat.eqb_eq in He; subst; eexists; split; eauto. }
    destruct Hv as [fs [-> Hfields]].
    destruct (canonical_obj u c fs Hcan) as [Hfst Hcanf]. fold cd in Hfst.
    assert (Hsdfs : sd [] (map fst fs) = true) by (rewrite Hfst; exact Hnames).
    pose proof (dict_get_distinct fs [] Hsdfs) as Hgets.
    assert (HF : Forall2 (fun fd kx => fd_name fd = fst kx /\ dict_get (fd_name fd) fs = Some (snd kx) /\ snd kx <> VUndefined
                                       /\ plain_field u fd = true /\ iq (S n') (fd_ty fd) (snd kx)) (cd_fields cd) fs).
    { pose proof (names_Forall2 _ _ Hfst) as HN.
      apply Forall2_Forall_r with (Q := fun kx => dict_get (fst kx) fs = Some (snd kx) /\ canonical u (snd kx) = true) in HN.
      2:{ rewrite Forall_forall in *. intros kx Hin. split; auto. }
      apply Forall2_Forall_l with (Q := fun fd => ht_field (ht n') fs fd = true /\ plain_field u fd = true) in HN.
      2:{ rewrite Forall_forall. rewrite forallb_forall in Hfields, Hplain. intros fd Hin. split; auto. }
      eapply Forall2_imp; [|exact HN]. intros fd kx [[Hn [Hg Hck]] [Hhf Hpf]]. cbv beta in *.
      rewrite Hn. repeat split; auto.
      - unfold ht_field in Hhf. rewrite Hn, Hg in Hhf. intros E. rewrite E in Hhf.
        unfold plain_field in Hpf. repeat (apply andb_true_iff in Hpf; destruct Hpf as [Hpf ?]).
        destruct (fs_undefined (fd_ser fd)); discriminate.
      - assert (Hty : ht n' (fd_ty fd) (snd kx) = true).
        { unfold ht_field in Hhf. rewrite Hn, Hg in Hhf.
          unfold plain_field in Hpf. repeat (apply andb_true_iff in Hpf; destruct Hpf as [Hpf ?]).
          destruct (snd kx) eqn:Ev; try exact Hhf.
          - destruct (fs_none_undef (fd_ser fd)); [discriminate|exact Hhf].
          - destruct (fs_undefined (fd_ser fd)); discriminate. }
        apply IHn; auto.
        + unfold plain_field in Hpf. repeat (apply andb_true_iff in Hpf; destruct Hpf as [Hpf ?]). assumption.
        + right. exact (conj Hen (conj Hed Hcls)). }
    destruct (fields_iq (S n') cd c fs Hfs Hen Hed _ _ HF [] Haliases) as [ys [ds [Hm [Hun HQ]]]].
    exists (VDict (map lift ys)), (PDict ds).
    rewrite image_TObj_S. cbv zeta. fold cd. rewrite Hord, Htd. change (@nil (value * value)) with (map lift []).
    rewrite Hm. cbn [andb app]. rewrite unembed_VDict, Hun. cbn [option_map].
    repeat split; try reflexivity. apply Q_obj; [exact (Hcls c)|exact HQ].
Qed.

Theorem image_invariant : forall n t v,
  rt_ty u t = true -> ctx_ok u o t -> ht n t v = true -> canonical u v = true -> iq (S n) t v.
Proof.
  induction n as [|n IH]; apply inv_step.
  - intros n' E. discriminate.
  - intros n' E. injection E as <-. exact IH.
Qed.
End Inv.
