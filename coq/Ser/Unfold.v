(* Unfolding equations for `sexec` with the inline loops named (proved by computation). *)
From Coq Require Import List String ZArith Bool Arith.
From AV Require Import Core.Json Core.Errors Core.Text Small.Ordering Deser.Model Ser.Model.
Import ListNotations.

Section U.
Variable u : univ.
Variable o : sopts.
Notation sx := (sexec u o).

Definition all_loop (g : value -> sres) : list value -> option (list value) + sres :=
  fix loop (l : list value) : option (list value) + sres :=
    match l with
    | [] => inl (Some [])
    | x :: r =>
        match g x with
        | SROk y => match loop r with inl (Some ys) => inl (Some (y :: ys)) | other => other end
        | other => inr other
        end
    end.

Definition fields_loop (g : smeth -> value -> sres) (v : value) :
  list (sfield smeth) -> list (value * value) -> list (value * value) + sres :=
  fix loop (fs : list (sfield smeth)) (acc : list (value * value)) : list (value * value) + sres :=
    match fs with
    | [] => inl acc
    | FIdentity name alias :: r =>
        match getattr v name with
        | Some x => loop r (result_set acc alias x)
        | None => inr (SRCrash "AttributeError")
        end
    | FSimple name alias fm :: r =>
        match getattr v name with
        | Some x => match g fm x with
                    | SROk y => loop r (result_set acc alias y)
                    | other => inr other end
        | None => inr (SRCrash "AttributeError")
        end
    | FComplex (CFld name alias fm td required eu skip_if undefined skip_none skip_default dflt) :: r =>
        let present :=
          if td then (required || match v with VDict kvs => match vdict_get name kvs with Some _ => true | None => false end
                                             | _ => false end)%bool
          else (negb eu || in_fields_set v name)%bool in
        if present then
          match (if td then match v with VDict kvs => vdict_get name kvs | _ => None end else getattr v name) with
          | None => inr (SRCrash "KeyError / AttributeError")
          | Some x =>
              let skipped :=
                (skip_if_holds skip_if x
                 || (undefined && is_vundef x)
                 || (skip_none && is_vnone x)
                 || (skip_default && match dflt with Some dv => value_pyeq x dv | None => false end))%bool in
              if skipped then loop r acc
              else match g fm x with
                   | SROk y => loop r (result_set acc alias y)
                   | other => inr other end
          end
        else loop r acc
    | FSerialized name alias result undefined skip_none fm :: r =>
        if ((undefined && is_vundef result) || (skip_none && is_vnone result))%bool then loop r acc
        else match g fm result with
             | SROk y => loop r (result_set acc alias y)
             | other => inr other end
    end.

Lemma sexec_SObj fuel fs v :
  sx fuel (SObj fs) v = match fields_loop (sx fuel) v fs [] with inl acc => SROk (VDict acc) | inr e => e end.
Proof. destruct fuel; reflexivity. Qed.

Lemma sexec_SIdentity fuel v : sx fuel SIdentity v = SROk v.
Proof. destruct fuel; reflexivity. Qed.

Lemma sexec_SRec_S fuel c v : sx (S fuel) (SRec c) v = sx fuel (scompile_obj u o c (get_cls u c)) v.
Proof. reflexivity. Qed.

End U.
