(* C05: composition of the two models.  unembed: the JSON value produced by serialization, as data for deserialization. *)
From Coq Require Import List String ZArith Bool Arith.
From AV Require Import Core.Json Core.Errors Core.Text Small.Ordering Deser.Model Deser.Spec Ser.Model Ser.Spec.
Import ListNotations.

Fixpoint unembed (v : value) : option pyval :=
  match v with
  | VNone => Some PNone
  | VBool b => Some (PBool b)
  | VInt z => Some (PInt z)
  | VFloat f => Some (PFloat f)
  | VStr s => Some (PStr s)
  | VList l =>
      option_map PList ((fix go (l : list value) : option (list pyval) :=
                           match l with
                           | [] => Some []
                           | x :: r => match unembed x, go r with Some d, Some ds => Some (d :: ds) | _, _ => None end
                           end) l)
  | VDict kvs =>
      option_map PDict ((fix go (kvs : list (value * value)) : option (list (string * pyval)) :=
                           match kvs with
                           | [] => Some []
                           | (VStr k, x) :: r => match unembed x, go r with Some d, Some ds => Some ((k, d) :: ds) | _, _ => None end
                           | _ => None
                           end) kvs)
  | _ => None
  end.

Definition dopts_of (o : sopts) : dopts := mkO (so_addprops o) false false (so_nocopy o) (so_aliaser o).

(* deserialize(T, serialize(T, v)) == v, same runtime classes (value_eqb distinguishes list / tuple / set / frozenset) *)
Definition roundtrip_case (u : univ) (o : sopts) (fs fd : nat) (t : ty) (v : value) : bool :=
  match serialize u o fs t v with
  | SROk j =>
      match unembed j with
      | Some d => match deserialize u (dopts_of o) fd None t d with
                  | ROk v' => value_eqb v v'
                  | _ => false
                  end
      | None => false
      end
  | _ => false
  end.

(* the same statement on the declarative specifications (image / spec) *)
Definition roundtrip_spec_case (u : univ) (o : sopts) (fs fd : nat) (t : ty) (v : value) : bool :=
  match image u o fs t v with
  | SROk j =>
      match unembed j with
      | Some d => match spec u (dopts_of o) fd None t d with
                  | SOk v' => value_eqb v v'
                  | _ => false
                  end
      | None => false
      end
  | _ => false
  end.
