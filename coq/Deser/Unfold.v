(* Unfolding equations for `exec`: each method class' deserialize body, with the inline loops named.
   Every lemma is proved by computation (the right-hand sides are the bodies written in Model.v). *)
From Coq Require Import List String ZArith Bool Arith.
From AV Require Import Core.Json Core.Errors Core.Text Deser.Model.
Import ListNotations.

Section Unfold.
Variable u : univ.
Variable o : dopts.

Definition elts_loop (g : pyval -> res) : nat -> list pyval -> acc3 :=
  fix loop (i : nat) (l : list pyval) : acc3 :=
    match l with
    | [] => A3 [] [] None
    | x :: r =>
        match g x with
        | ROk v => match loop (S i) r with A3 vs ch st => A3 (v :: vs) ch st end
        | RErr e => match loop (S i) r with A3 vs ch st => A3 vs ((KIdx i, e) :: ch) st end
        | other => A3 [] [] (Some other)
        end
    end.

Definition tuple_loop (g : meth -> pyval -> res) : nat -> list meth -> list pyval -> acc3 :=
  fix loop (i : nat) (ms : list meth) (l : list pyval) : acc3 :=
    match ms, l with
    | em :: mr, x :: r =>
        match g em x with
        | ROk v => match loop (S i) mr r with A3 vs ch st => A3 (v :: vs) ch st end
        | RErr e => match loop (S i) mr r with A3 vs ch st => A3 vs ((KIdx i, e) :: ch) st end
        | other => A3 [] [] (Some other)
        end
    | _, _ => A3 [] [] None
    end.

Definition map_loop (gk gv : pyval -> res) : list (string * pyval) -> list (value * value) * children * option res :=
  fix loop (kvs : list (string * pyval)) : list (value * value) * children * option res :=
    match kvs with
    | [] => ([], [], None)
    | (k, x) :: rest =>
        match gk (PStr k), gv x with
        | ROk kv, ROk v => let '(items, ch, st) := loop rest in ((kv, v) :: items, ch, st)
        | RErr e1, RErr e2 => let '(items, ch, st) := loop rest in (items, (KStr k, merge e1 e2) :: ch, st)
        | RErr e, ROk _ | ROk _, RErr e => let '(items, ch, st) := loop rest in (items, (KStr k, e) :: ch, st)
        | RCrash w, _ | _, RCrash w => ([], [], Some (RCrash w))
        | RFuel, _ | _, RFuel => ([], [], Some RFuel)
        end
    end.

Definition simple_loop (g : meth -> pyval -> res) (kvs : list (string * pyval)) :
  list (mfield_ meth) -> nat * list (string * value) * children * option res :=
  fix loop (fs : list (mfield_ meth)) : nat * list (string * value) * children * option res :=
    match fs with
    | [] => (O, [], [], None)
    | MF name alias fm required reqby fb :: rest =>
        match dict_get alias kvs with
        | Some x =>
            match g fm x with
            | ROk _ => let '(n, vals, ch, st) := loop rest in (S n, (name, embed x) :: vals, ch, st)
            | RErr e => let '(n, vals, ch, st) := loop rest in
                        (S n, vals, if (required || negb fb)%bool then (KStr alias, e) :: ch else ch, st)
            | other => (O, [], [], Some other)
            end
        | None =>
            let '(n, vals, ch, st) := loop rest in
            (n, vals, if required then (KStr alias, err_msg msg_missing) :: ch else ch, st)
        end
    end.

Definition obj_loop (g : meth -> pyval -> res) (kvs : list (string * pyval)) :
  list (mfield_ meth) -> nat * list (string * value) * children * option res :=
  fix loop (fs : list (mfield_ meth)) : nat * list (string * value) * children * option res :=
    match fs with
    | [] => (O, [], [], None)
    | MF name alias fm required reqby fb :: rest =>
        match dict_get alias kvs with
        | Some x =>
            match g fm x with
            | ROk v => let '(n, vals, ch, st) := loop rest in (S n, (name, v) :: vals, ch, st)
            | RErr e => let '(n, vals, ch, st) := loop rest in
                        (S n, vals, if (required || negb fb)%bool then (KStr alias, e) :: ch else ch, st)
            | other => (O, [], [], Some other)
            end
        | None =>
            let '(n, vals, ch, st) := loop rest in
            if required then (n, vals, (KStr alias, err_msg msg_missing) :: ch, st)
            else
              let present := sort_strs (filter (fun r => dict_has r kvs) reqby) in
              match present with
              | [] => (n, vals, ch, st)
              | _ => (n, vals, (KStr alias, err_msg (reqby_msg present)) :: ch, st)
              end
        end
    end.

Definition float_alt (g : meth -> pyval -> res) (d : pyval) : list (pcls * meth) -> option res :=
  fix findf (l : list (pcls * meth)) : option res :=
    match l with
    | [] => None
    | (c'', m'') :: r' => if pcls_eqb CFloat c'' then Some (g m'' d) else findf r'
    end.

Definition bytype_find (g : meth -> pyval -> res) (d : pyval) (c : pcls) (tbl : list (pcls * meth)) :
  list (pcls * meth) -> res :=
  fix find (l : list (pcls * meth)) : res :=
    match l with
    | [] => RErr (bad_type d (map fst tbl))
    | (c', m') :: r =>
        if pcls_eqb c c' then
          match g m' d with
          | RErr e =>
              match (if pcls_eqb c CInt then float_alt g d tbl else None) with
              | Some (RErr e2) =>
                  RErr (merge (merge e e2)
                              (bad_type d (filter (fun x => negb (pcls_eqb x CInt || pcls_eqb x CFloat)) (map fst tbl))))
              | Some other => other
              | None => RErr (merge e (bad_type d (filter (fun x => negb (pcls_eqb x c)) (map fst tbl))))
              end
          | other => other
          end
        else find r
    end.

Definition union_alts (g : meth -> pyval -> res) (d : pyval) : list meth -> option verr -> res :=
  fix alts (ms : list meth) (err : option verr) : res :=
    match ms with
    | [] => match err with Some e => RErr e | None => RCrash "AssertionError: empty union" end
    | m' :: r =>
        match g m' d with
        | RErr e => alts r (Some (merge_opt err e))
        | other => other
        end
    end.

Notation ex := (exec u o).

Lemma exec_MRec_S fuel cid extra d :
  ex (S fuel) (MRec cid extra) d = ex fuel (compile_obj o cid (get_cls u cid) extra) d.
Proof. reflexivity. Qed.

Lemma exec_MRec_O cid extra d : ex O (MRec cid extra) d = RFuel.
Proof. reflexivity. Qed.

Lemma exec_MNone fuel d : ex fuel MNone d = match d with PNone => ROk VNone | _ => RErr (bad_type d [CNone]) end.
Proof. destruct fuel; reflexivity. Qed.
Lemma exec_MBool fuel d : ex fuel MBool d = match d with PBool b => ROk (VBool b) | _ => RErr (bad_type d [CBool]) end.
Proof. destruct fuel; reflexivity. Qed.
Lemma exec_MInt fuel cs d :
  ex fuel (MInt cs) d = match d with PInt z => finish d cs [] (VInt z) | _ => RErr (bad_type d [CInt]) end.
Proof. destruct fuel; reflexivity. Qed.
Lemma exec_MStr fuel cs d :
  ex fuel (MStr cs) d = match d with PStr s => finish d cs [] (VStr s) | _ => RErr (bad_type d [CStr]) end.
Proof. destruct fuel; reflexivity. Qed.
Lemma exec_MFloat fuel cs d :
  ex fuel (MFloat cs) d =
  match d with
  | PFloat f => finish d cs [] (VFloat f)
  | PInt z => match float_of_int z with
              | ROk v => finish (PFloat (FQ (4 * z))) cs [] v
              | other => other end
  | _ => RErr (bad_type d [CFloat])
  end.
Proof. destruct fuel; reflexivity. Qed.

Lemma exec_MAny fuel cs d :
  ex fuel (MAny cs) d =
  finish d (match d with
            | PInt _ | PFloat _ => ocons cons_num cs
            | PStr _ => ocons cons_str cs
            | PList _ => ocons cons_list cs
            | PDict _ => ocons cons_dict cs
            | _ => [] end) [] (embed d).
Proof. destruct fuel; reflexivity. Qed.

Lemma exec_MList fuel cs vm d :
  ex fuel (MList cs vm) d =
  match d with
  | PList l => match elts_loop (ex fuel vm) O l with
               | A3 _ _ (Some st) => st
               | A3 vs ch None => finish d cs ch (VList vs)
               end
  | _ => RErr (bad_type d [CList])
  end.
Proof. destruct fuel; reflexivity. Qed.

Lemma exec_MListCheck fuel cs vm d :
  ex fuel (MListCheck cs vm) d =
  match d with
  | PList l => match elts_loop (ex fuel vm) O l with
               | A3 _ _ (Some st) => st
               | A3 _ ch None => finish d cs ch (embed d)
               end
  | _ => RErr (bad_type d [CList])
  end.
Proof. destruct fuel; reflexivity. Qed.

Lemma exec_MSet fuel cs vm d :
  ex fuel (MSet cs vm) d =
  match d with
  | PList l => match elts_loop (ex fuel vm) O l with
               | A3 _ _ (Some st) => st
               | A3 vs ch None =>
                   if forallb hashable vs then finish d cs ch (VSet (fold_left set_add vs []))
                   else RCrash "TypeError: unhashable type"
               end
  | _ => RErr (bad_type d [CList])
  end.
Proof. destruct fuel; reflexivity. Qed.

Lemma exec_MFrozenSet fuel lm d :
  ex fuel (MFrozenSet lm) d =
  match ex fuel lm d with
  | ROk (VList vs) => if forallb hashable vs then ROk (VFrozenSet (fold_left set_add vs []))
                      else RCrash "TypeError: unhashable type"
  | ROk _ => RCrash "frozenset of a non-list"
  | other => other
  end.
Proof. destruct fuel; reflexivity. Qed.

Lemma exec_MVarTuple fuel lm d :
  ex fuel (MVarTuple lm) d =
  match ex fuel lm d with
  | ROk (VList vs) => ROk (VTuple vs)
  | ROk _ => RCrash "tuple of a non-list"
  | other => other
  end.
Proof. destruct fuel; reflexivity. Qed.

Lemma exec_MLiteral fuel eid vs co d :
  ex fuel (MLiteral eid vs co) d =
  exec_literal eid (match eid with Some e => get_enum u e | None => vs end) co d.
Proof. destruct fuel; reflexivity. Qed.

Lemma exec_MMap fuel cs km vm d :
  ex fuel (MMap cs km vm) d =
  match d with
  | PDict kvs =>
      match map_loop (ex fuel km) (ex fuel vm) kvs with
      | (_, _, Some st) => st
      | (items, ch, None) =>
          if forallb (fun kv => hashable (fst kv)) items
          then finish d cs ch (VDict (fold_left (fun acc kv => dict_set acc (fst kv) (snd kv)) items []))
          else RCrash "TypeError: unhashable key"
      end
  | _ => RErr (bad_type d [CDict])
  end.
Proof. destruct fuel; reflexivity. Qed.

Lemma exec_MMapCheck fuel cs km vm d :
  ex fuel (MMapCheck cs km vm) d =
  match d with
  | PDict kvs =>
      match map_loop (ex fuel km) (ex fuel vm) kvs with
      | (_, _, Some st) => st
      | (items, ch, None) => finish d cs ch (embed d)
      end
  | _ => RErr (bad_type d [CDict])
  end.
Proof. destruct fuel; reflexivity. Qed.

Lemma exec_MTuple fuel cs ms d :
  ex fuel (MTuple cs ms) d =
  match d with
  | PList l =>
      let n := List.length ms in
      if Nat.ltb (List.length l) n then RErr (err_msg (cmsg (KMinItems n)))
      else if Nat.ltb n (List.length l) then RErr (err_msg (cmsg (KMaxItems n)))
      else match tuple_loop (ex fuel) O ms l with
           | A3 _ _ (Some st) => st
           | A3 vs ch None => finish d cs ch (VTuple vs)
           end
  | _ => RErr (bad_type d [CList])
  end.
Proof. destruct fuel; reflexivity. Qed.

Lemma exec_MOptional fuel vm co d :
  ex fuel (MOptional vm co) d =
  match d with
  | PNone => ROk VNone
  | _ =>
      match ex fuel vm d with
      | RErr e =>
          if co then match coerce CNone d with inl _ => ROk VNone | inr e' => RErr e' end
          else RErr (merge e (bad_type d [CNone]))
      | other => other
      end
  end.
Proof. destruct fuel; reflexivity. Qed.

Lemma exec_MByType fuel tbl d :
  ex fuel (MByType tbl) d =
  let c0 := cls_of d in
  let has (c : pcls) := existsb (fun cm => pcls_eqb c (fst cm)) tbl in
  let c := if (pcls_eqb c0 CInt && negb (has CInt) && has CFloat)%bool then CFloat else c0 in
  bytype_find (ex fuel) d c tbl tbl.
Proof. destruct fuel; reflexivity. Qed.

Lemma exec_MUnion fuel ms d : ex fuel (MUnion ms) d = union_alts (ex fuel) d ms None.
Proof. destruct fuel; reflexivity. Qed.

Lemma exec_MCoerce fuel cls m d :
  ex fuel (MCoerce cls m) d = match coerce cls d with inl d' => ex fuel m d' | inr e => RErr e end.
Proof. destruct fuel; reflexivity. Qed.

Lemma exec_MSimpleObj fuel cid c fs aliases td d :
  ex fuel (MSimpleObj cid c fs aliases td) d =
  match d with
  | PDict kvs =>
      match simple_loop (ex fuel) kvs fs with
      | (_, _, _, Some st) => st
      | (count, vals, ch, None) =>
          let extra := filter (fun kv => negb (existsb (String.eqb (fst kv)) aliases)) kvs in
          let differ := negb (Nat.eqb (List.length kvs) count) in
          let ch' := if (differ && negb td)%bool
                     then (ch ++ map (fun kv => (KStr (fst kv), err_msg msg_unexpected)) extra)%list else ch in
          let vals' := if (differ && td)%bool
                       then (vals ++ map (fun kv => (fst kv, embed (snd kv))) extra)%list else vals in
          match ch' with
          | [] => ROk (construct (get_cls u cid) cid vals')
          | _ => RErr (VE [] ch')
          end
      end
  | _ => RErr (bad_type d [CDict])
  end.
Proof. destruct fuel; reflexivity. Qed.

Lemma exec_MObj fuel cid c cs fs aliases addprops td d :
  ex fuel (MObj cid c cs fs aliases addprops td) d =
  match d with
  | PDict kvs =>
      let msgs := match validate_constraints d cs [] with Some (VE ms _) => ms | None => [] end in
      match obj_loop (ex fuel) kvs fs with
      | (_, _, _, Some st) => st
      | (count, vals, ch, None) =>
          let extra := filter (fun kv => negb (existsb (String.eqb (fst kv)) aliases)) kvs in
          let differ := negb (Nat.eqb (List.length kvs) count) in
          let ch' := if (differ && negb addprops)%bool
                     then (ch ++ map (fun kv => (KStr (fst kv), err_msg msg_unexpected)) extra)%list else ch in
          let vals' := if (differ && addprops && td)%bool
                       then (vals ++ map (fun kv => (fst kv, embed (snd kv))) extra)%list else vals in
          match msgs, ch' with
          | [], [] => ROk (construct (get_cls u cid) cid vals')
          | _, _ => RErr (VE msgs ch')
          end
      end
  | _ => RErr (bad_type d [CDict])
  end.
Proof. destruct fuel; reflexivity. Qed.

End Unfold.

(* ------------------------------------------------------------------ the same for the specification *)
From AV Require Import Deser.Spec.

Section UnfoldSpec.
Variable u : univ.
Variable o : dopts.
Notation sp := (spec u o).

Definition zip_spec (h : ty -> pyval -> sres) : list ty -> list pyval -> list sres :=
  fix zip (ts : list ty) (l : list pyval) : list sres :=
    match ts, l with
    | t1 :: tr, x :: r => h t1 x :: zip tr r
    | _, _ => []
    end.

Definition first_spec (h : ty -> sres) : list ty -> sres :=
  fix first (ts : list ty) : sres :=
    match ts with
    | [] => SRej
    | t1 :: tr => match h t1 with SRej => first tr | r => r end
    end.

Definition spec_field (f : nat) (cd : cdef) (kvs : list (string * pyval)) (fd : fdef)
  : option (option (option (string * value))) :=
  let alias := o_aliaser o (fd_alias fd) in
  let fb := ((fd_fallback fd && negb (fd_required fd)) || o_fallback o)%bool in
  match dict_get alias kvs with
  | Some x =>
      match sp f (fd_con fd) (fd_ty fd) x with
      | SFuel => None
      | SOk v => Some (Some (Some (fd_name fd, v)))
      | SRej => if (fd_required fd || negb fb)%bool then Some None else Some (Some None)
      end
  | None =>
      if fd_required fd then Some None
      else if existsb (fun r => dict_has r kvs) (requiring o cd (fd_name fd)) then Some None
      else Some (Some None)
  end.

Lemma spec_TNone fuel acc d : sp fuel acc TNone d = match d with PNone => SOk VNone | _ => SRej end.
Proof. destruct fuel; reflexivity. Qed.
Lemma spec_TBool fuel acc d : sp fuel acc TBool d = match d with PBool b => SOk (VBool b) | _ => SRej end.
Proof. destruct fuel; reflexivity. Qed.
Lemma spec_TInt fuel acc d :
  sp fuel acc TInt d = match d with PInt z => accept (ocons cons_num acc) d (VInt z) | _ => SRej end.
Proof. destruct fuel; reflexivity. Qed.
Lemma spec_TStr fuel acc d :
  sp fuel acc TStr d = match d with PStr s => accept (ocons cons_str acc) d (VStr s) | _ => SRej end.
Proof. destruct fuel; reflexivity. Qed.
Lemma spec_TFloat fuel acc d :
  sp fuel acc TFloat d =
  match d with
  | PFloat f => accept (ocons cons_num acc) d (VFloat f)
  | PInt z => if Z.ltb (Z.abs z) huge
              then accept (ocons cons_num acc) (PFloat (FQ (4 * z))) (VFloat (FQ (4 * z)))
              else SRej
  | _ => SRej
  end.
Proof. destruct fuel; reflexivity. Qed.
Lemma spec_TAny fuel acc d : sp fuel acc TAny d = accept (any_cons acc d) d (embed d).
Proof. destruct fuel; reflexivity. Qed.
Lemma spec_TColl fuel acc k t' d :
  sp fuel acc (TColl k t') d =
  match d with
  | PList l =>
      match all_ok (map (sp fuel None t') l) with
      | None => SFuel
      | Some None => SRej
      | Some (Some vs) => accept (ocons cons_list acc) d (wrap_coll k vs)
      end
  | _ => SRej
  end.
Proof. destruct fuel; reflexivity. Qed.
Lemma spec_TTuple fuel acc ts d :
  sp fuel acc (TTuple ts) d =
  match d with
  | PList l =>
      if negb (Nat.eqb (List.length l) (List.length ts)) then SRej else
      match all_ok (zip_spec (sp fuel None) ts l) with
      | None => SFuel
      | Some None => SRej
      | Some (Some vs) => accept (ocons cons_list acc) d (VTuple vs)
      end
  | _ => SRej
  end.
Proof. destruct fuel; reflexivity. Qed.
Lemma spec_TMap fuel acc kt vt d :
  sp fuel acc (TMap kt vt) d =
  match d with
  | PDict kvs =>
      match all_ok (map (fun kv => sp fuel None kt (PStr (fst kv))) kvs),
            all_ok (map (fun kv => sp fuel None vt (snd kv)) kvs) with
      | None, _ | _, None => SFuel
      | Some None, _ | _, Some None => SRej
      | Some (Some ks), Some (Some vs) =>
          accept (ocons cons_dict acc) d
                 (VDict (fold_left (fun a kv => dict_set a (fst kv) (snd kv)) (combine ks vs) []))
      end
  | _ => SRej
  end.
Proof. destruct fuel; reflexivity. Qed.
Lemma spec_TLit fuel acc vs d :
  sp fuel acc (TLit vs) d =
  match prim_of d with
  | Some p => if existsb (prim_eqb p) vs then SOk (prim_value p) else SRej
  | None => SRej
  end.
Proof. destruct fuel; reflexivity. Qed.
Lemma spec_TEnum fuel acc e d :
  sp fuel acc (TEnum e) d =
  match prim_of d with
  | Some p => if existsb (prim_eqb p) (get_enum u e) then SOk (VEnum e p) else SRej
  | None => SRej
  end.
Proof. destruct fuel; reflexivity. Qed.
Lemma spec_TCon fuel acc c t' d : sp fuel acc (TCon c t') d = sp fuel (merge_oc acc (Some c)) t' d.
Proof. destruct fuel; reflexivity. Qed.
Lemma spec_TUnion fuel acc ts d : sp fuel acc (TUnion ts) d = first_spec (fun t => sp fuel acc t d) ts.
Proof. destruct fuel; reflexivity. Qed.
Lemma spec_TObj_O acc cid d : sp O acc (TObj cid) d = SFuel.
Proof. reflexivity. Qed.
Lemma spec_TObj_S f acc cid d :
  sp (S f) acc (TObj cid) d =
  let cd := get_cls u cid in
  match d with
  | PDict kvs =>
      let aliases := map (fun fd => o_aliaser o (fd_alias fd)) (cd_fields cd) in
      let extra := filter (fun kv => negb (existsb (String.eqb (fst kv)) aliases)) kvs in
      let rs := map (spec_field f cd kvs) (cd_fields cd) in
      if existsb (fun r => match r with None => true | _ => false end) rs then SFuel
      else if existsb (fun r => match r with Some None => true | _ => false end) rs then SRej
      else if (negb (o_addprops o) && negb (match extra with [] => true | _ => false end))%bool then SRej
      else if negb (all_valid (ocons cons_dict acc) d) then SRej
      else
        let vals := flat_map (fun r => match r with Some (Some (Some nv)) => [nv] | _ => [] end) rs in
        let vals' := if (o_addprops o && is_typed_dict cd)%bool
                     then (vals ++ map (fun kv => (fst kv, embed (snd kv))) extra)%list else vals in
        SOk (construct cd cid vals')
  | _ => SRej
  end.
Proof. reflexivity. Qed.

End UnfoldSpec.
