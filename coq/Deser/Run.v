(* Comparison of model results with observations of the implementation (used by generated case files). No proofs. *)
From Coq Require Import List String ZArith Bool Arith.
From AV Require Import Core.Json Core.Errors Core.Text Core.Util Deser.Model Deser.Spec.
Import ListNotations.
Open Scope string_scope.

Inductive obs := IOk (v : value) | IErr (l : list loc_err) | ICrash (cls : string).

Definition loc_eqb (a b : list ekey) : bool := leqb ekey_eqb a b.

(* group consecutive entries of one loc; the messages of one loc are compared as a multiset *)
Fixpoint group (l : list loc_err) : list (list ekey * list string) :=
  match l with
  | [] => []
  | (loc, m) :: r =>
      match group r with
      | (loc', ms) :: g => if loc_eqb loc loc' then (loc, m :: ms) :: g else (loc, [m]) :: (loc', ms) :: g
      | [] => [(loc, [m])]
      end
  end.

Fixpoint insert_dup (s : string) (l : list string) : list string :=
  match l with
  | [] => [s]
  | x :: r => match String.compare s x with Gt => x :: insert_dup s r | _ => s :: l end
  end.
Definition msort (l : list string) : list string := fold_right insert_dup [] l.

Definition errs_eqb (a b : list loc_err) : bool :=
  leqb (fun x y => loc_eqb (fst x) (fst y) && leqb String.eqb (msort (snd x)) (msort (snd y))) (group a) (group b).

Definition res_matches (r : res) (o : obs) : bool :=
  match r, o with
  | ROk v, IOk v' => value_eqb v v'
  | RErr e, IErr l => errs_eqb (flatten e) l
  | RCrash _, ICrash _ => true
  | _, _ => false
  end.

Definition fuel0 : nat := 40.

(* the hypotheses of the C01 theorem, as a boolean *)
Definition c01_hyps (u : univ) (o : dopts) (t : ty) (d : pyval) : bool :=
  (wf_univ u o && wf_ty t && union_order_ok t && wf_data d)%bool.

(* what the implementation did vs what the data model prescribes: exact when the theorem applies; otherwise
   (a union listing float before int) the value is only required to be Python-equal, as the property states *)
Definition spec_check (u : univ) (o : dopts) (root : option constraints) (t : ty) (d : pyval) (impl : option value) : bool :=
  match spec_deserialize u o fuel0 root t d, impl with
  | SOk v, Some v' => if c01_hyps u o t d then value_eqb v v' else value_loose_eqb v v'
  | SRej, None => true
  | _, _ => false
  end.

Definition show_ekey (k : ekey) : string := match k with KIdx n => show_nat n | KStr s => "'" ++ s ++ "'" end.
Definition show_errs (l : list loc_err) : string :=
  join "; " (map (fun e => "[" ++ join "," (map show_ekey (fst e)) ++ "] " ++ snd e) l).

Fixpoint show_value (v : value) : string :=
  match v with
  | VNone => "None" | VBool b => if b then "True" else "False" | VInt z => show_Z z | VFloat f => show_fl f
  | VStr s => "'" ++ s ++ "'"
  | VList l => "[" ++ join ", " (map show_value l) ++ "]"
  | VSet l => "set{" ++ join ", " (map show_value l) ++ "}"
  | VFrozenSet l => "frozenset{" ++ join ", " (map show_value l) ++ "}"
  | VTuple l => "(" ++ join ", " (map show_value l) ++ ")"
  | VDict l => "{" ++ join ", " (map (fun kv => show_value (fst kv) ++ ": " ++ show_value (snd kv)) l) ++ "}"
  | VObj c fs => "C" ++ show_nat c ++ "(" ++ join ", " (map (fun kv => fst kv ++ "=" ++ show_value (snd kv)) fs) ++ ")"
  | VEnum e p => "E" ++ show_nat e ++ "." ++ show_prim p
  | VOther t => "<" ++ t ++ ">"
  | VUndefined => "Undefined"
  end.

Definition show_res (r : res) : string :=
  match r with
  | ROk v => "Ok " ++ show_value v
  | RErr e => "Err " ++ show_errs (flatten e)
  | RCrash w => "Crash " ++ w
  | RFuel => "OutOfFuel"
  end.
