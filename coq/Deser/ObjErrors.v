(* C02 for objects: the children of the rejection of an object are exactly, in declaration order, the fields whose value is
   rejected (under the external name, carrying the field's own error), the missing required fields, the fields required by a
   present one -- followed by the unexpected properties. *)
From Coq Require Import List String ZArith Bool Arith Lia.
From AV Require Import Core.Json Core.Errors Core.Text Deser.Model Deser.Unfold.
Import ListNotations.
Open Scope string_scope.

Section O.
Variable u : univ.
Variable o : dopts.
Notation ex := (exec u o).

(* what one field contributes to the rejection *)
Definition field_errs (g : meth -> pyval -> res) (kvs : list (string * pyval)) (f : mfield_ meth) : children :=
  match f with
  | MF name alias fm required reqby fb =>
      match dict_get alias kvs with
      | Some x => match g fm x with
                  | RErr e => if (required || negb fb)%bool then [(KStr alias, e)] else []
                  | _ => [] end
      | None =>
          if required then [(KStr alias, err_msg msg_missing)]
          else match sort_strs (filter (fun r => dict_has r kvs) reqby) with
               | [] => []
               | present => [(KStr alias, err_msg (reqby_msg present))]
               end
      end
  end.

Definition field_present (kvs : list (string * pyval)) (f : mfield_ meth) : bool :=
  match f with MF _ alias _ _ _ _ => dict_has alias kvs end.

Lemma obj_loop_exact (g : meth -> pyval -> res) kvs fs : forall count vals ch,
  obj_loop g kvs fs = (count, vals, ch, None) ->
  ch = flat_map (field_errs g kvs) fs /\ count = List.length (filter (field_present kvs) fs).
Proof.
  induction fs as [|[name alias fm required reqby fb] fs IH]; intros count vals ch H.
  - cbn in H. injection H as <- _ <-. split; reflexivity.
  - cbn [obj_loop] in H. cbn [flat_map field_errs filter field_present].
    destruct (obj_loop g kvs fs) as [[[n vs] c0] st] eqn:El.
    assert (IH' : st = None -> c0 = flat_map (field_errs g kvs) fs /\ n = List.length (filter (field_present kvs) fs)).
    { intros ->. apply (IH n vs c0 eq_refl). }
    destruct (dict_get alias kvs) as [x|] eqn:Eg.
    + assert (Hp : dict_has alias kvs = true) by (unfold dict_has; rewrite Eg; reflexivity). rewrite Hp.
      destruct (g fm x) eqn:Egx; try discriminate.
      * injection H as Hn _ Hc Hst. destruct (IH' Hst) as [E1 E2]. subst. split; reflexivity.
      * injection H as Hn _ Hc Hst. destruct (IH' Hst) as [E1 E2]. subst.
        destruct (required || negb fb)%bool; split; reflexivity.
    + assert (Hp : dict_has alias kvs = false) by (unfold dict_has; rewrite Eg; reflexivity). rewrite Hp.
      destruct required.
      * injection H as Hn _ Hc Hst. destruct (IH' Hst) as [E1 E2]. subst. split; reflexivity.
      * destruct (sort_strs (filter (fun r => dict_has r kvs) reqby)) eqn:Ep;
          injection H as Hn _ Hc Hst; destruct (IH' Hst) as [E1 E2]; subst; split; reflexivity.
Qed.

(* the rejection of an object, exactly *)
Theorem obj_errors_exact fuel cid c cs fs aliases addprops td kvs e :
  ex fuel (MObj cid c cs fs aliases addprops td) (PDict kvs) = RErr e ->
  (forall st, snd (obj_loop (ex fuel) kvs fs) = Some st -> False) ->
  let extra := filter (fun kv => negb (existsb (String.eqb (fst kv)) aliases)) kvs in
  let differ := negb (Nat.eqb (List.length kvs) (List.length (filter (field_present kvs) fs))) in
  e = VE (match validate_constraints (PDict kvs) cs [] with Some (VE ms _) => ms | None => [] end)
         (flat_map (field_errs (ex fuel) kvs) fs
          ++ (if (differ && negb addprops)%bool then map (fun kv => (KStr (fst kv), err_msg msg_unexpected)) extra else [])).
Proof.
  intros H Hst. rewrite exec_MObj in H. cbv zeta in H.
  destruct (obj_loop (ex fuel) kvs fs) as [[[count vals] ch] st] eqn:El. destruct st as [st|]; [exfalso; apply (Hst st); reflexivity|].
  destruct (obj_loop_exact _ _ _ _ _ _ El) as [-> ->]. cbv zeta.
  destruct (negb (Nat.eqb (List.length kvs) (List.length (filter (field_present kvs) fs))) && negb addprops)%bool.
  - destruct (match validate_constraints (PDict kvs) cs [] with Some (VE ms _) => ms | None => [] end);
      destruct (flat_map _ fs ++ _)%list; try discriminate; injection H as <-; reflexivity.
  - rewrite app_nil_r. destruct (match validate_constraints (PDict kvs) cs [] with Some (VE ms _) => ms | None => [] end);
      destruct (flat_map _ fs); try discriminate; injection H as <-; reflexivity.
Qed.

(* no hiding: a field whose value is rejected is reported whatever happens to its siblings *)
Corollary obj_no_hiding fuel cid c cs fs aliases addprops td kvs e name alias fm reqby x ef :
  ex fuel (MObj cid c cs fs aliases addprops td) (PDict kvs) = RErr e ->
  (forall st, snd (obj_loop (ex fuel) kvs fs) = Some st -> False) ->
  In (MF name alias fm true reqby false) fs -> dict_get alias kvs = Some x -> ex fuel fm x = RErr ef ->
  In (KStr alias, ef) (children_of e).
Proof.
  intros H Hst Hin Hg Hx. rewrite (obj_errors_exact _ _ _ _ _ _ _ _ _ _ H Hst). cbn [children_of].
  apply in_or_app. left. apply in_flat_map. exists (MF name alias fm true reqby false). split; [exact Hin|].
  cbn [field_errs]. rewrite Hg, Hx. left. reflexivity.
Qed.

(* ... and a missing required field is reported under its external name *)
Corollary obj_missing_reported fuel cid c cs fs aliases addprops td kvs e name alias fm reqby fb :
  ex fuel (MObj cid c cs fs aliases addprops td) (PDict kvs) = RErr e ->
  (forall st, snd (obj_loop (ex fuel) kvs fs) = Some st -> False) ->
  In (MF name alias fm true reqby fb) fs -> dict_get alias kvs = None ->
  In (KStr alias, err_msg msg_missing) (children_of e).
Proof.
  intros H Hst Hin Hg. rewrite (obj_errors_exact _ _ _ _ _ _ _ _ _ _ H Hst). cbn [children_of].
  apply in_or_app. left. apply in_flat_map. exists (MF name alias fm true reqby fb). split; [exact Hin|].
  cbn [field_errs]. rewrite Hg. left. reflexivity.
Qed.
End O.
