(* Non-vacuity: a concrete universe / type / data meeting every hypothesis of the theorems. *)
From Coq Require Import List String ZArith Bool.
From AV Require Import Core.Json Core.Errors Core.Text Deser.Model Deser.Spec Deser.Run.
Import ListNotations.
Open Scope string_scope.

Definition ex_opts : dopts := mkO false false false true (fun s => s).

(* class C0: a: int (alias "A"); b: Optional[C0] = None; c: Dict[str, Tuple[int, float]] = {} ; d: Union[int, str, List[bool]] *)
Definition ex_cls : cdef :=
  mkCls KData
    [ mkF "a" "A" TInt true VNone false (Some (mkC (Some (CI 0)) None None None None None None None None None false None None)) no_fser;
      mkF "b" "b" (TUnion [TObj 0; TNone]) false VNone false None no_fser;
      mkF "c" "c" (TMap TStr (TTuple [TInt; TFloat])) false (VDict []) false None no_fser;
      mkF "d" "d" (TUnion [TInt; TStr; TColl KList TBool]) false (VInt 0) false None no_fser ] [("a", ["d"])] [] [] false.

Definition ex_univ : univ := mkU [ex_cls] [[LInt 1; LStr "x"]].
Definition ex_ty : ty := TColl KList (TUnion [TObj 0; TEnum 0]).

Definition ex_good : pyval :=
  PList [ PDict [("A", PInt 3); ("d", PList [PBool true]);
                 ("b", PDict [("A", PInt 0); ("d", PStr "s"); ("c", PDict [("k", PList [PInt 1; PInt 2])])])];
          PStr "x" ].
Definition ex_bad : pyval :=
  PList [ PDict [("A", PInt (-1)); ("zz", PNone); ("b", PDict [("d", PInt 1)])]; PInt 2 ].

Example ex_wf : wf_univ ex_univ ex_opts = true /\ wf_ty ex_ty = true /\ union_order_ok ex_ty = true
                /\ wf_data ex_good = true /\ wf_data ex_bad = true.
Proof. vm_compute. repeat split. Qed.

Example ex_accepts :
  show_res (deserialize ex_univ ex_opts 10 None ex_ty ex_good)
  = "Ok [C0(a=3, b=C0(a=0, b=None, c={'k': (1, 2.0)}, d='s'), c={}, d=[True]), E0.'x']".
Proof. vm_compute. reflexivity. Qed.

Example ex_spec_accepts :
  match spec_deserialize ex_univ ex_opts 10 None ex_ty ex_good, deserialize ex_univ ex_opts 10 None ex_ty ex_good with
  | SOk v, ROk v' => value_eqb v v'
  | _, _ => false
  end = true.
Proof. vm_compute. reflexivity. Qed.

Example ex_rejects :
  show_res (deserialize ex_univ ex_opts 10 None ex_ty ex_bad)
  = "Err [0] expected type integer, found object; [0] expected type string, found object; [0,'A'] less than 0 (minimum); [0,'b'] expected type null, found object; [0,'b','A'] missing property; [0,'d'] missing property (required by ['A']); [0,'zz'] unexpected property; [1] expected type object, found integer; [1] not one of [1, 'x'] (oneOf)".
Proof. vm_compute. reflexivity. Qed.

Example ex_spec_rejects : spec_deserialize ex_univ ex_opts 10 None ex_ty ex_bad = SRej.
Proof. vm_compute. reflexivity. Qed.
