(* C03: the compiled deserializer is total and crash-free on arbitrary data (non-JSON objects included). *)
From Coq Require Import List String ZArith Bool Arith Lia.
From AV Require Import Core.Json Core.Errors Core.Text Deser.Model Deser.Spec Deser.Unfold Deser.Loops Deser.Proofs Deser.Coerce.
Import ListNotations.

(* a datum containing objects of non-JSON classes, NaN, infinities and huge integers is still well-formed data *)
Definition ex_malformed : pyval :=
  PList [POther "tuple"; PFloat FNan; PFloat (FInf true); PInt (10 ^ 400); PDict [("k", POther "set")]; PBool true].

Example malformed_is_in_scope : wf_data ex_malformed = true.
Proof. vm_compute. reflexivity. Qed.

Theorem strict_never_crashes u o fuel root t d :
  strict_opts o -> wf_univ u o = true -> wf_ty t = true -> union_order_ok t = true -> wf_data d = true ->
  spec_deserialize u o fuel root t d <> SFuel ->
  forall w, deserialize u o fuel root t d <> RCrash w.
Proof.
  intros S W T1 T2 D NF w E.
  pose proof (deserialize_agrees_with_spec u o fuel root t d S W T1 T2 D) as A. rewrite E in A.
  destruct (spec_deserialize u o fuel root t d); simpl in A; try contradiction; congruence.
Qed.

(* the outcome is always one of: value, ValidationError (whose `errors` is a total function of the tree), crash, fuel;
   and under the hypotheses above only the first two remain once the fuel suffices *)
Theorem outcome_is_value_or_validation_error u o fuel root t d :
  strict_opts o -> wf_univ u o = true -> wf_ty t = true -> union_order_ok t = true -> wf_data d = true ->
  spec_deserialize u o fuel root t d <> SFuel -> deserialize u o fuel root t d <> RFuel ->
  (exists v, deserialize u o fuel root t d = ROk v) \/
  (exists e, deserialize u o fuel root t d = RErr e /\ exists l, flatten e = l).
Proof.
  intros S W T1 T2 D NF NF2.
  pose proof (strict_never_crashes u o fuel root t d S W T1 T2 D NF) as NC.
  destruct (deserialize u o fuel root t d) eqn:E; [left; eauto|right; eauto| |congruence].
  exfalso. exact (NC what eq_refl).
Qed.

(* with coercion: the coercer itself never crashes, a refusal is a type mismatch error *)
Theorem coercer_never_crashes cls d :
  (exists d', coerce cls d = inl d') \/ coerce cls d = inr (bad_type d [cls]).
Proof. exact (coerce_total cls d). Qed.
