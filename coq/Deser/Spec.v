(* Declarative specification of strict deserialization: which data conform to a type and what the typed image is.
   No method trees, no strategies (no check-only / by-type / simple-object fast paths), no error bookkeeping.
   Written from the documentation (data model, (de)serialization pages).  No proofs here. *)
From Coq Require Import List String ZArith Bool Arith.
From AV Require Import Core.Json Core.Errors Core.Text Deser.Model.
Import ListNotations.
Open Scope string_scope.

Inductive sres := SOk (v : value) | SRej | SFuel.

Definition all_valid (cs : list constr) (d : pyval) : bool := forallb (fun k => cvalid k d) cs.

Definition accept (cs : list constr) (d : pyval) (v : value) : sres := if all_valid cs d then SOk v else SRej.

(* combine the images of the elements of an array: all must conform *)
Fixpoint all_ok (rs : list sres) : option (option (list value)) :=   (* None = fuel, Some None = rejected *)
  match rs with
  | [] => Some (Some [])
  | r :: rest =>
      match r, all_ok rest with
      | SFuel, _ | _, None => None
      | SRej, _ | _, Some None => Some None
      | SOk v, Some (Some vs) => Some (Some (v :: vs))
      end
  end.

Definition wrap_coll (k : ckind) (vs : list value) : value :=
  match norm_kind k with
  | KSet => VSet (fold_left set_add vs [])
  | KFrozenSet => VFrozenSet (fold_left set_add vs [])
  | KVarTuple => VTuple vs
  | _ => VList vs
  end.

Definition any_cons (acc : option constraints) (d : pyval) : list constr :=
  match d with
  | PInt _ | PFloat _ => ocons cons_num acc
  | PStr _ => ocons cons_str acc
  | PList _ => ocons cons_list acc
  | PDict _ => ocons cons_dict acc
  | _ => []
  end.

Section Spec.
  Variable u : univ.
  Variable o : dopts.     (* only additional_properties, fall_back_on_default and the aliaser matter *)

  Fixpoint spec (fuel : nat) : option constraints -> ty -> pyval -> sres :=
    fix go (acc : option constraints) (t : ty) (d : pyval) {struct t} : sres :=
      match t with
      | TNone => match d with PNone => SOk VNone | _ => SRej end
      | TBool => match d with PBool b => SOk (VBool b) | _ => SRej end
      | TInt => match d with PInt z => accept (ocons cons_num acc) d (VInt z) | _ => SRej end
      | TFloat =>
          match d with
          | PFloat f => accept (ocons cons_num acc) d (VFloat f)
          | PInt z => if Z.ltb (Z.abs z) huge
                      then accept (ocons cons_num acc) (PFloat (FQ (4 * z))) (VFloat (FQ (4 * z)))
                      else SRej
          | _ => SRej
          end
      | TStr => match d with PStr s => accept (ocons cons_str acc) d (VStr s) | _ => SRej end
      | TAny => accept (any_cons acc d) d (embed d)
      | TColl k t' =>
          match d with
          | PList l =>
              match all_ok (map (go None t') l) with
              | None => SFuel
              | Some None => SRej
              | Some (Some vs) => accept (ocons cons_list acc) d (wrap_coll k vs)
              end
          | _ => SRej
          end
      | TTuple ts =>
          match d with
          | PList l =>
              if negb (Nat.eqb (List.length l) (List.length ts)) then SRej else
              match all_ok ((fix zip (ts : list ty) (l : list pyval) : list sres :=
                               match ts, l with
                               | t1 :: tr, x :: r => go None t1 x :: zip tr r
                               | _, _ => []
                               end) ts l) with
              | None => SFuel
              | Some None => SRej
              | Some (Some vs) => accept (ocons cons_list acc) d (VTuple vs)
              end
          | _ => SRej
          end
      | TMap kt vt =>
          match d with
          | PDict kvs =>
              match all_ok (map (fun kv => go None kt (PStr (fst kv))) kvs),
                    all_ok (map (fun kv => go None vt (snd kv)) kvs) with
              | None, _ | _, None => SFuel
              | Some None, _ | _, Some None => SRej
              | Some (Some ks), Some (Some vs) =>
                  accept (ocons cons_dict acc) d
                         (VDict (fold_left (fun a kv => dict_set a (fst kv) (snd kv)) (combine ks vs) []))
              end
          | _ => SRej
          end
      | TLit vs =>
          match prim_of d with
          | Some p => if existsb (prim_eqb p) vs then SOk (prim_value p) else SRej
          | None => SRej
          end
      | TEnum e =>
          match prim_of d with
          | Some p => if existsb (prim_eqb p) (get_enum u e) then SOk (VEnum e p) else SRej
          | None => SRej
          end
      | TCon c t' => go (merge_oc acc (Some c)) t' d
      | TUnion ts =>
          (fix first (ts : list ty) : sres :=
             match ts with
             | [] => SRej
             | t1 :: tr => match go acc t1 d with SRej => first tr | r => r end
             end) ts
      | TObj cid =>
          match fuel with
          | O => SFuel
          | S f =>
              let cd := get_cls u cid in
              match d with
              | PDict kvs =>
                  let aliases := map (fun fd => o_aliaser o (fd_alias fd)) (cd_fields cd) in
                  let extra := filter (fun kv => negb (existsb (String.eqb (fst kv)) aliases)) kvs in
                  (* one entry per field: Some (Some v) = provided and valid, Some None = absent / fell back to the default *)
                  let field (fd : fdef) : option (option (option (string * value))) :=   (* None = fuel; Some None = rejected *)
                    let alias := o_aliaser o (fd_alias fd) in
                    let fb := ((fd_fallback fd && negb (fd_required fd)) || o_fallback o)%bool in
                    match dict_get alias kvs with
                    | Some x =>
                        match spec f (fd_con fd) (fd_ty fd) x with
                        | SFuel => None
                        | SOk v => Some (Some (Some (fd_name fd, v)))
                        | SRej => if (fd_required fd || negb fb)%bool then Some None else Some (Some None)
                        end
                    | None =>
                        if fd_required fd then Some None
                        else if existsb (fun r => dict_has r kvs) (requiring o cd (fd_name fd)) then Some None
                        else Some (Some None)
                    end in
                  let rs := map field (cd_fields cd) in
                  if existsb (fun r => match r with None => true | _ => false end) rs then SFuel
                  else if existsb (fun r => match r with Some None => true | _ => false end) rs then SRej
                  else if (negb (o_addprops o) && negb (match extra with [] => true | _ => false end))%bool then SRej
                  else if negb (all_valid (ocons cons_dict acc) d) then SRej
                  else
                    let vals := flat_map (fun r => match r with Some (Some (Some nv)) => [nv] | _ => [] end) rs in
                    let vals' := if (o_addprops o && is_typed_dict cd)%bool
                                 then (vals ++ map (fun kv => (fst kv, embed (snd kv))) extra)%list else vals in
                    SOk (construct cd cid vals')
              | _ => SRej
              end
          end
      end.
End Spec.

Definition spec_deserialize (u : univ) (o : dopts) (fuel : nat) (root : option constraints) (t : ty) (d : pyval) : sres :=
  spec u o fuel root t d.

(* ---- well-formedness of types: where the values put in sets / used as keys are hashable *)
Fixpoint hashable_ty (t : ty) : bool :=
  match t with
  | TNone | TBool | TInt | TFloat | TStr | TLit _ | TEnum _ => true
  | TColl KFrozenSet _ => true
  | TColl KVarTuple t' => hashable_ty t'
  | TTuple ts => forallb hashable_ty ts
  | TCon _ t' => hashable_ty t'
  | TUnion ts => forallb hashable_ty ts
  | _ => false
  end.

Fixpoint wf_ty (t : ty) : bool :=
  match t with
  | TColl k t' => wf_ty t' && match norm_kind k with KSet | KFrozenSet => hashable_ty t' | _ => true end
  | TTuple ts => forallb wf_ty ts
  | TMap kt vt => wf_ty kt && wf_ty vt && (hashable_ty kt || match kt with TAny => true | _ => false end)
  | TCon _ t' => wf_ty t'
  | TUnion ts => forallb wf_ty ts && match ts with [] => false | _ => true end
  | _ => true
  end.

(* by-type dispatch sends an integer to the `int` alternative even when `float` is listed first (the results are
   then Python-equal, 1 == 1.0, not identical): the exact theorem excludes that ordering *)
Fixpoint float_before_int (l : list (option pcls)) (seen_float : bool) : bool :=
  match l with
  | [] => false
  | Some CFloat :: r => float_before_int r true
  | Some CInt :: r => seen_float || float_before_int r seen_float
  | _ :: r => float_before_int r seen_float
  end.

Fixpoint union_order_ok (t : ty) : bool :=
  match t with
  | TColl _ t' | TCon _ t' => union_order_ok t'
  | TTuple ts => forallb union_order_ok ts
  | TMap kt vt => union_order_ok kt && union_order_ok vt
  | TUnion ts => forallb union_order_ok ts && negb (float_before_int (map ty_cls ts) false)
  | _ => true
  end.

Fixpoint nodup_strs (l : list string) : bool :=
  match l with [] => true | x :: r => negb (existsb (String.eqb x) r) && nodup_strs r end.

(* data as produced by json.loads / any Python dict: the keys of an object are distinct *)
Fixpoint wf_data (d : pyval) : bool :=
  match d with
  | PList l => forallb wf_data l
  | PDict kvs => nodup_strs (map fst kvs)
                 && (fix go (kvs : list (string * pyval)) : bool :=
                       match kvs with [] => true | (_, x) :: r => wf_data x && go r end) kvs
  | _ => true
  end.

Definition wf_cls (o : dopts) (e_ok : bool) (cd : cdef) : bool :=
  forallb (fun fd => wf_ty (fd_ty fd) && union_order_ok (fd_ty fd)) (cd_fields cd)
  && nodup_strs (map (fun fd => o_aliaser o (fd_alias fd)) (cd_fields cd))
  && nodup_strs (map fd_name (cd_fields cd)).

(* well-formed universe: hashable set members, distinct aliases (under the aliaser in use) and names per class,
   no enum member valued None *)
Definition wf_univ (u : univ) (o : dopts) : bool :=
  forallb (wf_cls o true) (u_classes u)
  && forallb (fun vs => negb (existsb (prim_eqb LNone) vs)) (u_enums u).

(* comparison used by the harness: what the implementation did vs what the specification prescribes *)
Definition spec_matches_impl (s : sres) (impl_ok : option value) : bool :=
  match s, impl_ok with
  | SOk v, Some v' => value_eqb v v'
  | SRej, None => true
  | _, _ => false
  end.
