(* placeholder, filled below *)
From AV Require Import Deser.Model Deser.Spec.
