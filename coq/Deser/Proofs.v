(* Strict-mode correctness, part 2: hashability, check-only methods, unions, objects, main theorem. *)
From Coq Require Import List String ZArith Bool Arith Lia.
From AV Require Import Core.Json Core.Errors Core.Text Deser.Model Deser.Spec Deser.Unfold Deser.Loops.
Import ListNotations.
#[local] Hint Resolve agree_fuel_l agree_fuel_r agree_err agree_ok : core.

Section Main.
Variable u : univ.
Variable o : dopts.
Hypothesis strict : o_coerce o = false.

Notation ex := (exec u o).
Notation sp := (spec u o).

Lemma accept_ok cs d v v' : accept cs d v = SOk v' -> v = v'.
Proof. unfold accept. destruct (all_valid cs d); [intros H; injection H; auto|discriminate]. Qed.

Lemma first_spec_ok (h : ty -> sres) ts v :
  first_spec h ts = SOk v -> exists t, In t ts /\ h t = SOk v.
Proof.
  induction ts as [|t ts IH]; simpl; [discriminate|].
  destruct (h t) eqn:E; intros H.
  - injection H as <-. exists t. split; [left; reflexivity|exact E].
  - destruct (IH H) as [t' [Hin Ht']]. exists t'. split; [right; exact Hin|exact Ht'].
  - discriminate.
Qed.

Lemma set_add_hashable : forall vs acc, forallb hashable acc = true -> forallb hashable vs = true ->
  forallb hashable (fold_left set_add vs acc) = true.
Proof.
  induction vs as [|v vs IH]; simpl; intros acc Ha Hv; [exact Ha|].
  apply andb_true_iff in Hv. destruct Hv as [Hv1 Hv2]. apply IH; [|exact Hv2].
  unfold set_add. destruct (existsb (py_eq v) acc); [exact Ha|].
  rewrite forallb_app. simpl. rewrite Ha, Hv1. reflexivity.
Qed.

Lemma spec_hashable fuel : forall t acc d v,
  hashable_ty t = true -> sp fuel acc t d = SOk v -> hashable v = true.
Proof.
  induction t using ty_ind'; intros acc d v Hh Hs; simpl in Hh; try discriminate.
  - rewrite spec_TNone in Hs. destruct d; try discriminate. injection Hs as <-. reflexivity.
  - rewrite spec_TBool in Hs. destruct d; try discriminate. injection Hs as <-. reflexivity.
  - rewrite spec_TInt in Hs. destruct d; try discriminate. apply accept_ok in Hs. subst. reflexivity.
  - rewrite spec_TFloat in Hs. destruct d; try discriminate.
    + destruct (Z.ltb _ _); [|discriminate]. apply accept_ok in Hs. subst. reflexivity.
    + apply accept_ok in Hs. subst. reflexivity.
  - rewrite spec_TStr in Hs. destruct d; try discriminate. apply accept_ok in Hs. subst. reflexivity.
  - rewrite spec_TColl in Hs. destruct d; try discriminate.
    destruct (all_ok _) as [[vs|]|] eqn:E; try discriminate. apply accept_ok in Hs. subst v.
    destruct k; try discriminate; simpl; [reflexivity|].
    apply all_ok_some in E. clear - E IHt Hh.
    induction E as [|x v l vs Hx E IH]; simpl; [reflexivity|].
    rewrite (IHt _ _ _ Hh Hx), IH. reflexivity.
  - rewrite spec_TTuple in Hs. destruct d; try discriminate.
    destruct (negb _) eqn:Hlen; [discriminate|].
    destruct (all_ok _) as [[vs|]|] eqn:E; try discriminate. apply accept_ok in Hs. subst v. simpl.
    apply negb_false_iff, Nat.eqb_eq in Hlen.
    apply zip_ok_some in E; [|exact Hlen]. clear Hlen.
    revert l vs E Hh. induction H as [|t ts Ht Hts IH]; intros l vs E Hh.
    + simpl in E. inversion E. reflexivity.
    + destruct l as [|x l]; simpl in E; inversion E as [|? ? ? ? Hx Hrest]; subst; [reflexivity|].
      simpl in Hh. apply andb_true_iff in Hh. destruct Hh as [Hh1 Hh2]. simpl.
      simpl in Hx. rewrite (Ht _ _ _ Hh1 Hx). eapply IH; eassumption.
  - rewrite spec_TLit in Hs. destruct (prim_of d) as [p|]; [|discriminate].
    destruct (existsb _ _); [|discriminate]. injection Hs as <-. destruct p; reflexivity.
  - rewrite spec_TEnum in Hs. destruct (prim_of d) as [p|]; [|discriminate].
    destruct (existsb _ _); [|discriminate]. injection Hs as <-. reflexivity.
  - rewrite spec_TCon in Hs. eapply IHt; eassumption.
  - rewrite spec_TUnion in Hs. apply first_spec_ok in Hs. destruct Hs as [t [Hin Ht]].
    rewrite Forall_forall in H. rewrite forallb_forall in Hh. eapply H; [exact Hin|apply Hh; exact Hin|exact Ht].
Qed.

(* ---------------------------------------------------------------- check-only methods return the data itself *)
Lemma py_eq_VStr a b : py_eq (VStr a) (VStr b) = String.eqb a b.
Proof. reflexivity. Qed.

Lemma dict_set_fresh_str (g : string * pyval -> value) pre k v :
  existsb (String.eqb k) (map fst pre) = false ->
  dict_set (map (fun kv => (VStr (fst kv), g kv)) pre) (VStr k) v
  = (map (fun kv => (VStr (fst kv), g kv)) pre ++ [(VStr k, v)])%list.
Proof.
  induction pre as [|[k' x] pre IH]; intros H; [reflexivity|].
  cbn [map fst existsb] in H. apply orb_false_iff in H. destruct H as [H1 H2].
  cbn [map fst dict_set app]. rewrite py_eq_VStr, H1. rewrite IH by exact H2. reflexivity.
Qed.

Lemma nodup_strs_app_cons pre k (rest : list string) :
  nodup_strs (pre ++ k :: rest) = true ->
  existsb (String.eqb k) pre = false /\ nodup_strs ((pre ++ [k]) ++ rest) = true.
Proof.
  intros H. rewrite <- app_assoc. simpl. split; [|exact H].
  induction pre as [|p pre IH]; simpl in *; [reflexivity|].
  apply andb_true_iff in H. destruct H as [H1 H2]. rewrite (IH H2), orb_false_r.
  apply negb_true_iff in H1. rewrite existsb_app in H1. apply orb_false_iff in H1. destruct H1 as [_ H1].
  simpl in H1. apply orb_false_iff in H1. destruct H1 as [H1 _]. rewrite String.eqb_sym. exact H1.
Qed.

Lemma fold_dict_strs (g : string * pyval -> value) kvs : forall pre,
  nodup_strs (map fst (pre ++ kvs)) = true ->
  fold_left (fun a kv => dict_set a (fst kv) (snd kv)) (map (fun kv => (VStr (fst kv), g kv)) kvs)
            (map (fun kv => (VStr (fst kv), g kv)) pre)
  = map (fun kv => (VStr (fst kv), g kv)) (pre ++ kvs).
Proof.
  induction kvs as [|[k x] kvs IH]; intros pre H; simpl; [rewrite app_nil_r; reflexivity|].
  rewrite map_app in H. simpl in H. apply nodup_strs_app_cons in H. destruct H as [H1 H2].
  rewrite dict_set_fresh_str by exact H1.
  replace (map (fun kv => (VStr (fst kv), g kv)) pre ++ [(VStr k, g (k, x))])%list
    with (map (fun kv => (VStr (fst kv), g kv)) (pre ++ [(k, x)])) by (rewrite map_app; reflexivity).
  rewrite IH.
  - rewrite <- app_assoc. reflexivity.
  - rewrite !map_app. simpl. exact H2.
Qed.

Lemma forall2_embed (h : pyval -> sres) l vs :
  Forall2 (fun x v => h x = SOk v) l vs ->
  (forall x v, In x l -> h x = SOk v -> v = embed x) -> vs = map embed l.
Proof.
  induction 1 as [|x v l vs Hx Hl IH]; intros H; simpl; [reflexivity|].
  f_equal; [apply H; [left; reflexivity|exact Hx]|apply IH]. intros. eapply H; [right|]; eassumption.
Qed.

Lemma wf_data_list l x : wf_data (PList l) = true -> In x l -> wf_data x = true.
Proof. simpl. intros H Hin. rewrite forallb_forall in H. apply H. exact Hin. Qed.

Lemma wf_data_dict_go kvs :
  (fix go (kvs : list (string * pyval)) : bool :=
     match kvs with [] => true | (_, x) :: r => wf_data x && go r end) kvs = true ->
  forall k x, In (k, x) kvs -> wf_data x = true.
Proof.
  induction kvs as [|[k' x'] kvs IH]; simpl; intros H k x Hin; [contradiction|].
  apply andb_true_iff in H. destruct H as [H1 H2]. destruct Hin as [E|Hin]; [injection E as <- <-; exact H1|].
  eapply IH; eassumption.
Qed.

Lemma wf_data_dict kvs : wf_data (PDict kvs) = true ->
  nodup_strs (map fst kvs) = true /\ forall k x, In (k, x) kvs -> wf_data x = true.
Proof.
  cbn [wf_data]. intros H. apply andb_true_iff in H. destruct H as [H1 H2]. split; [exact H1|].
  apply wf_data_dict_go. exact H2.
Qed.

Lemma check_only_combine (clss : list pcls) (ms : list meth) :
  List.length clss = List.length ms ->
  forallb (fun cm : pcls * meth => check_only (snd cm)) (combine clss ms) = true -> forallb check_only ms = true.
Proof.
  revert ms. induction clss as [|c clss IH]; intros [|m ms] Hl H; simpl in *; try discriminate; [reflexivity|].
  apply andb_true_iff in H. destruct H as [H1 H2]. rewrite H1. apply IH; [lia|exact H2].
Qed.

Lemma flat_some_length (clss : list (option pcls)) :
  forallb (fun c => match c with Some _ => true | None => false end) clss = true ->
  List.length (flat_map (fun c => match c with Some x => [x] | None => [] end) clss) = List.length clss.
Proof.
  induction clss as [|[c|] clss IH]; simpl; intros H; try discriminate; [reflexivity|]. rewrite IH by exact H. reflexivity.
Qed.

(* which method a union compiles to *)
Inductive union_shape (acc : option constraints) (ts : list ty) : meth -> Prop :=
| US_single t1 : ts = [t1] -> union_shape acc ts (compile o acc t1)
| US_opt_l b : ts = [TNone; b] -> is_none_ty b = false -> union_shape acc ts (MOptional (compile o acc b) false)
| US_opt_r a : ts = [a; TNone] -> is_none_ty a = false -> union_shape acc ts (MOptional (compile o acc a) false)
| US_bytype : forallb (fun c => match c with Some _ => true | None => false end) (map ty_cls ts) = true ->
              nodup_cls (flat_map (fun c => match c with Some x => [x] | None => [] end) (map ty_cls ts)) = true ->
              union_shape acc ts (MByType (combine (flat_map (fun c => match c with Some x => [x] | None => [] end)
                                                             (map ty_cls ts)) (map (compile o acc) ts)))
| US_union : union_shape acc ts (MUnion (map (compile o acc) ts)).

Lemma compile_union_shape acc ts : union_shape acc ts (compile o acc (TUnion ts)).
Proof.
  cbn [compile]. rewrite strict. cbn [andb negb]. 
  destruct ts as [|a [|b [|c ts]]].
  - cbn. apply (US_bytype acc []); reflexivity.
  - apply US_single. reflexivity.
  - cbn [existsb List.length Nat.eqb orb andb]. rewrite !andb_true_r.
    destruct (is_none_ty a) eqn:Ea; destruct (is_none_ty b) eqn:Eb; cbn [orb andb combine map filter fst negb].
    + rewrite Ea, Eb. cbn. apply US_union.
    + rewrite Ea, Eb. cbn. destruct a; try discriminate. apply US_opt_l; [reflexivity|exact Eb].
    + rewrite Ea, Eb. cbn. destruct b; try discriminate. apply US_opt_r; [reflexivity|exact Ea].
    + cbn [existsb is_coerce].
      match goal with |- union_shape _ _ (if ?c then _ else _) => destruct c eqn:Ec end; [|apply US_union].
      apply andb_true_iff in Ec. destruct Ec as [Ec _]. apply andb_true_iff in Ec. destruct Ec as [E1 E2].
      apply US_bytype; assumption.
  - cbn [List.length Nat.eqb]. rewrite andb_false_r. cbn [andb].
    match goal with |- union_shape _ _ (if ?c then _ else _) => destruct c eqn:Ec end; [|apply US_union].
    apply andb_true_iff in Ec. destruct Ec as [Ec _]. apply andb_true_iff in Ec. destruct Ec as [E1 E2].
    apply US_bytype; assumption.
Qed.

Lemma check_only_embed fuel : forall t acc d v,
  wf_data d = true -> check_only (compile o acc t) = true -> sp fuel acc t d = SOk v -> v = embed d.
Proof.
  induction t using ty_ind'; intros acc d v Hwf Hco Hs.
  - rewrite spec_TNone in Hs. destruct d; try discriminate. injection Hs as <-. reflexivity.
  - rewrite spec_TBool in Hs. destruct d; try discriminate. injection Hs as <-. reflexivity.
  - rewrite spec_TInt in Hs. destruct d; try discriminate. apply accept_ok in Hs. subst. reflexivity.
  - cbn [compile] in Hco. unfold wrap_coerce in Hco. rewrite strict in Hco. discriminate.
  - rewrite spec_TStr in Hs. destruct d; try discriminate. apply accept_ok in Hs. subst. reflexivity.
  - cbn in Hco. discriminate.
  - (* collections *)
    cbn [compile] in Hco. unfold wrap_coerce in Hco. rewrite strict in Hco.
    destruct k; cbn [norm_kind] in Hco; try (cbn in Hco; discriminate).
    all: destruct (o_nocopy o && check_only (compile o None t))%bool eqn:E; [|cbn in Hco; discriminate].
    all: apply andb_true_iff in E; destruct E as [_ E].
    all: rewrite spec_TColl in Hs; destruct d; try discriminate.
    all: destruct (all_ok _) as [[vs|]|] eqn:Ea; try discriminate; apply accept_ok in Hs; subst v; unfold wrap_coll; cbn [norm_kind embed].
    all: f_equal; apply all_ok_some in Ea; eapply forall2_embed; [exact Ea|].
    all: intros x v Hin Hx; eapply IHt; [eapply wf_data_list; eassumption|exact E|exact Hx].
  - cbn [compile] in Hco. unfold wrap_coerce in Hco. rewrite strict in Hco. discriminate.
  - (* mappings *)
    cbn [compile] in Hco. unfold wrap_coerce in Hco. rewrite strict in Hco.
    destruct (o_nocopy o && check_only (compile o None t1) && check_only (compile o None t2))%bool eqn:E;
      [|cbn in Hco; discriminate].
    apply andb_true_iff in E. destruct E as [E E2]. apply andb_true_iff in E. destruct E as [_ E1].
    rewrite spec_TMap in Hs. destruct d; try discriminate.
    destruct (all_ok (map (fun kv => sp fuel None t1 (PStr (fst kv))) l)) as [[ks|]|] eqn:Ek; try discriminate;
      destruct (all_ok (map (fun kv => sp fuel None t2 (snd kv)) l)) as [[vs|]|] eqn:Ev; try discriminate.
    apply accept_ok in Hs. subst v.
    destruct (wf_data_dict _ Hwf) as [Hnd Hsub].
    assert (Hks : ks = map (fun kv => VStr (fst kv)) l).
    { apply all_ok_some in Ek. clear - Ek IHt1 E1.
      induction Ek as [|kv v l ks Hx _ IH]; simpl; [reflexivity|]. f_equal; [|exact IH].
      eapply (IHt1 None (PStr (fst kv))); [reflexivity|exact E1|exact Hx]. }
    assert (Hvs : vs = map (fun kv => embed (snd kv)) l).
    { apply all_ok_some in Ev. clear - Ev IHt2 E2 Hsub.
      induction Ev as [|kv v l vs Hx _ IH]; simpl; [reflexivity|]. f_equal.
      - destruct kv as [k x]. eapply IHt2; [eapply Hsub; left; reflexivity|exact E2|exact Hx].
      - apply IH. intros. eapply Hsub. right. eassumption. }
    subst ks vs. cbn [embed]. f_equal.
    replace (combine (map (fun kv => VStr (fst kv)) l) (map (fun kv => embed (snd kv)) l))
      with (map (fun kv : string * pyval => (VStr (fst kv), embed (snd kv))) l).
    + pose proof (fold_dict_strs (fun kv => embed (snd kv)) l [] Hnd) as HH. cbn [map app] in HH. exact HH.
    + clear. induction l as [|kv l IH]; cbn [map combine]; [reflexivity|]. rewrite IH. reflexivity.
  - cbn in Hco. discriminate.
  - cbn in Hco. discriminate.
  - rewrite spec_TCon in Hs. cbn [compile] in Hco. eapply IHt; eassumption.
  - (* unions *)
    rewrite spec_TUnion in Hs. apply first_spec_ok in Hs. destruct Hs as [t [Hin Ht]].
    rewrite Forall_forall in H.
    pose proof (compile_union_shape acc ts) as Sh.
    remember (compile o acc (TUnion ts)) as m eqn:Em. clear Em.
    destruct Sh as [t1 E|b E Hb|a E Ha|E1 E2|].
    + subst ts. destruct Hin as [<-|[]]. eapply H; [left; reflexivity|exact Hwf|exact Hco|exact Ht].
    + subst ts. cbn in Hco. destruct Hin as [<-|[<-|[]]].
      * rewrite spec_TNone in Ht. destruct d; try discriminate. injection Ht as <-. reflexivity.
      * eapply H; [right; left; reflexivity|exact Hwf|exact Hco|exact Ht].
    + subst ts. cbn in Hco. destruct Hin as [<-|[<-|[]]].
      * eapply H; [left; reflexivity|exact Hwf|exact Hco|exact Ht].
      * rewrite spec_TNone in Ht. destruct d; try discriminate. injection Ht as <-. reflexivity.
    + cbn [check_only] in Hco. apply check_only_combine in Hco; [|rewrite flat_some_length, !map_length; [reflexivity|exact E1]].
      rewrite forallb_forall in Hco. eapply H; [exact Hin|exact Hwf| |exact Ht].
      apply Hco. apply in_map. exact Hin.
    + cbn [check_only] in Hco. rewrite forallb_forall in Hco. eapply H; [exact Hin|exact Hwf| |exact Ht].
      apply Hco. apply in_map. exact Hin.
  - cbn [compile] in Hco. unfold wrap_coerce in Hco. rewrite strict in Hco. discriminate.
Qed.

(* ---------------------------------------------------------------- literals *)
Lemma literal_agree eid vs d :
  agree (exec_literal eid vs false d)
        (match prim_of d with
         | Some p => if existsb (prim_eqb p) vs then SOk (lit_result eid p) else SRej
         | None => SRej
         end).
Proof.
  unfold exec_literal. destruct d; simpl; auto;
    try (match goal with |- context [existsb ?f vs] => destruct (existsb f vs) end; simpl; auto).
  match goal with |- context [if ?c then _ else _] => destruct c end; simpl; auto.
Qed.

(* ---------------------------------------------------------------- unions *)
Definition rej_or_fuel (s : sres) : Prop := s = SRej \/ s = SFuel.

Lemma first_all_rej (h : ty -> sres) ts : (forall t, In t ts -> rej_or_fuel (h t)) -> rej_or_fuel (first_spec h ts).
Proof.
  induction ts as [|t ts IH]; intros H; simpl; [left; reflexivity|].
  destruct (H t (or_introl eq_refl)) as [E|E]; rewrite E; [|right; reflexivity].
  apply IH. intros. apply H. right. assumption.
Qed.

Lemma first_skip (h : ty -> sres) pre rest :
  (forall t, In t pre -> rej_or_fuel (h t)) ->
  first_spec h (pre ++ rest) = SFuel \/ first_spec h (pre ++ rest) = first_spec h rest.
Proof.
  induction pre as [|t pre IH]; intros H; simpl; [right; reflexivity|].
  destruct (H t (or_introl eq_refl)) as [E|E]; rewrite E; [|left; reflexivity].
  apply IH. intros. apply H. right. assumption.
Qed.

Lemma alts_agree (g : meth -> pyval -> res) (h : ty -> sres) (cmp : ty -> meth) d ts :
  Forall (fun t => agree (g (cmp t) d) (h t)) ts ->
  forall err, (err <> None \/ ts <> []) -> agree (union_alts g d (map cmp ts) err) (first_spec h ts).
Proof.
  induction 1 as [|t ts Ht Hts IH]; intros err Hne; simpl.
  - destruct err; [auto|]. destruct Hne; congruence.
  - destruct (g (cmp t) d) eqn:G; destruct (h t) eqn:Hh; simpl in Ht; try contradiction; subst; auto.
    apply IH. left. discriminate.
Qed.

Definition the_cls (t : ty) : pcls := match ty_cls t with Some c => c | None => CNone end.

Lemma flat_some_eq ts :
  forallb (fun c => match c with Some _ => true | None => false end) (map ty_cls ts) = true ->
  flat_map (fun c => match c with Some x => [x] | None => [] end) (map ty_cls ts) = map the_cls ts.
Proof.
  induction ts as [|t ts IH]; simpl; intros H; [reflexivity|]. unfold the_cls at 1.
  destruct (ty_cls t); [|discriminate]. simpl. rewrite IH by exact H. reflexivity.
Qed.

Lemma combine_map {A B C} (f : A -> B) (g : A -> C) l : combine (map f l) (map g l) = map (fun x => (f x, g x)) l.
Proof. induction l as [|x l IH]; simpl; [reflexivity|]. rewrite IH. reflexivity. Qed.

Definition compat (c : pcls) (d : pyval) : Prop := cls_of d = c \/ (c = CFloat /\ cls_of d = CInt).

Lemma pcls_eqb_eq a b : pcls_eqb a b = true <-> a = b.
Proof. destruct a, b; simpl; split; congruence. Qed.
Lemma pcls_eqb_neq a b : pcls_eqb a b = false <-> a <> b.
Proof. destruct a, b; simpl; split; congruence. Qed.

Lemma cls_reject fuel : forall t acc d cl,
  ty_cls t = Some cl -> ~ compat cl d -> rej_or_fuel (sp fuel acc t d).
Proof.
  unfold compat. induction t using ty_ind'; intros acc d cl Hc Hn; simpl in Hc; try discriminate.
  - injection Hc as <-. rewrite spec_TNone. destruct d; try (left; reflexivity). exfalso. apply Hn. left. reflexivity.
  - injection Hc as <-. rewrite spec_TBool. destruct d; try (left; reflexivity). exfalso. apply Hn. left. reflexivity.
  - injection Hc as <-. rewrite spec_TInt. destruct d; try (left; reflexivity). exfalso. apply Hn. left. reflexivity.
  - injection Hc as <-. rewrite spec_TFloat. destruct d; try (left; reflexivity); exfalso; apply Hn; [right; split|left]; reflexivity.
  - injection Hc as <-. rewrite spec_TStr. destruct d; try (left; reflexivity). exfalso. apply Hn. left. reflexivity.
  - injection Hc as <-. rewrite spec_TColl. destruct d; try (left; reflexivity). exfalso. apply Hn. left. reflexivity.
  - injection Hc as <-. rewrite spec_TTuple. destruct d; try (left; reflexivity). exfalso. apply Hn. left. reflexivity.
  - injection Hc as <-. rewrite spec_TMap. destruct d; try (left; reflexivity). exfalso. apply Hn. left. reflexivity.
  - rewrite spec_TCon. eapply IHt; eassumption.
  - destruct ts as [|t1 [|t2 ts]]; try discriminate. rewrite spec_TUnion. simpl.
    inversion H as [|? ? H1 _]; subst. destruct (H1 acc d cl Hc Hn) as [E|E]; rewrite E; [left|right]; reflexivity.
  - injection Hc as <-. destruct fuel; [right; reflexivity|]. rewrite spec_TObj_S. cbv zeta.
    destruct d; try (left; reflexivity). exfalso. apply Hn. left. reflexivity.
Qed.

Lemma nodup_cls_cons c l : nodup_cls (c :: l) = true -> existsb (pcls_eqb c) l = false /\ nodup_cls l = true.
Proof. simpl. intros H. apply andb_true_iff in H. destruct H as [H1 H2]. apply negb_true_iff in H1. auto. Qed.

Lemma existsb_cls_false c l x : existsb (pcls_eqb c) l = false -> In x l -> x <> c.
Proof.
  intros H Hin E. subst x. induction l as [|y l IH]; simpl in *; [contradiction|].
  apply orb_false_iff in H. destruct H as [H1 H2]. destruct Hin as [<-|Hin]; [|auto].
  apply pcls_eqb_neq in H1. congruence.
Qed.

Section ByType.
  Variable g : meth -> pyval -> res.
  Variable h : ty -> sres.
  Variable cmp : ty -> meth.
  Variable d : pyval.
  Variable all : list ty.
  Let tbl := map (fun t => (the_cls t, cmp t)) all.

  Definition fallback_of (c : pcls) (e : verr) : res :=
    match (if pcls_eqb c CInt then float_alt g d tbl else None) with
    | Some (RErr e2) =>
        RErr (merge (merge e e2)
                    (bad_type d (filter (fun x => negb (pcls_eqb x CInt || pcls_eqb x CFloat)) (map fst tbl))))
    | Some other => other
    | None => RErr (merge e (bad_type d (filter (fun x => negb (pcls_eqb x c)) (map fst tbl))))
    end.

  (* where the dispatch lands *)
  Lemma find_shape c ts :
    (exists pre t post, ts = (pre ++ t :: post)%list /\ the_cls t = c /\ (forall p, In p pre -> the_cls p <> c) /\
       bytype_find g d c tbl (map (fun t => (the_cls t, cmp t)) ts)
       = match g (cmp t) d with RErr e => fallback_of c e | other => other end)
    \/ ((forall p, In p ts -> the_cls p <> c) /\
        bytype_find g d c tbl (map (fun t => (the_cls t, cmp t)) ts) = RErr (bad_type d (map fst tbl))).
  Proof.
    induction ts as [|t ts IH]; simpl.
    - right. split; [tauto|reflexivity].
    - destruct (pcls_eqb c (the_cls t)) eqn:E.
      + left. exists [], t, ts. apply pcls_eqb_eq in E.
        split; [reflexivity|]. split; [congruence|]. split; [intros p []|reflexivity].
      + apply pcls_eqb_neq in E. destruct IH as [[pre [t' [post [E1 [E2 [E3 E4]]]]]]|[E1 E2]].
        * left. exists (t :: pre), t', post. subst ts.
          split; [reflexivity|]. split; [exact E2|]. split; [|exact E4].
          intros p [<-|Hp]; [congruence|auto].
        * right. split; [|exact E2]. intros p [<-|Hp]; [congruence|auto].
  Qed.

  Lemma float_alt_shape ts :
    (exists pre t post, ts = (pre ++ t :: post)%list /\ the_cls t = CFloat /\ (forall p, In p pre -> the_cls p <> CFloat) /\
       float_alt g d (map (fun t => (the_cls t, cmp t)) ts) = Some (g (cmp t) d))
    \/ ((forall p, In p ts -> the_cls p <> CFloat) /\ float_alt g d (map (fun t => (the_cls t, cmp t)) ts) = None).
  Proof.
    induction ts as [|t ts IH].
    - right. split; [intros p []|reflexivity].
    - destruct (pcls_eqb CFloat (the_cls t)) eqn:E.
      + left. exists [], t, ts. pose proof E as E'. apply pcls_eqb_eq in E'.
        split; [reflexivity|]. split; [congruence|]. split; [intros p []|].
        cbn [map float_alt]. cbn [fst snd]. rewrite E. reflexivity.
      + pose proof E as E'. apply pcls_eqb_neq in E'.
        destruct IH as [[pre [t' [post [E1 [E2 [E3 E4]]]]]]|[E1 E2]].
        * left. exists (t :: pre), t', post. subst ts.
          split; [reflexivity|]. split; [exact E2|]. split.
          -- intros p [<-|Hp]; [congruence|auto].
          -- cbn [map float_alt]. cbn [fst snd]. rewrite E. exact E4.
        * right. split.
          -- intros p [<-|Hp]; [congruence|auto].
          -- cbn [map float_alt]. cbn [fst snd]. rewrite E. exact E2.
  Qed.
End ByType.

Lemma split_two {A} (cls : A -> pcls) pre t post pre' tf post' :
  (pre ++ t :: post = pre' ++ tf :: post')%list -> cls t <> cls tf -> (forall p, In p pre -> cls p <> cls tf) ->
  exists mid, post = (mid ++ tf :: post')%list /\ pre' = (pre ++ t :: mid)%list.
Proof.
  revert pre'. induction pre as [|p pre IH]; intros pre' E Ht Hp.
  - destruct pre' as [|x pre'']; simpl in E; injection E as E1 E2.
    + congruence.
    + subst. exists pre''. split; reflexivity.
  - destruct pre' as [|x pre'']; simpl in E; injection E as E1 E2.
    + subst. exfalso. apply (Hp tf); [left; reflexivity|reflexivity].
    + subst x. destruct (IH pre'' E2 Ht) as [mid [M1 M2]]; [intros; apply Hp; right; assumption|].
      exists mid. split; [exact M1|]. simpl. rewrite M2. reflexivity.
Qed.

Lemma fbi_true l : In (Some CInt) l -> float_before_int l true = true.
Proof.
  induction l as [|x l IH]; intros H; [contradiction|]. destruct H as [->|H]; [reflexivity|].
  simpl. destruct x as [[]|]; auto.
Qed.

Lemma fbi_prefix pre (t : ty) post :
  float_before_int (map ty_cls (pre ++ t :: post)) false = false -> ty_cls t = Some CInt ->
  forall p, In p pre -> ty_cls p <> Some CFloat.
Proof.
  induction pre as [|x pre IH]; intros H Ht p Hp; [contradiction|]. cbn [map app float_before_int] in H.
  assert (Hin : In (Some CInt) (map ty_cls (pre ++ t :: post))).
  { rewrite map_app. apply in_or_app. right. simpl. left. exact Ht. }
  destruct (ty_cls x) as [[]|] eqn:Ex;
    try (destruct Hp as [<-|Hp]; [congruence|eapply IH; eassumption]).
  rewrite (fbi_true _ Hin) in H. discriminate.
Qed.

Lemma has_iff (cmp : ty -> meth) ts c :
  existsb (fun cm : pcls * meth => pcls_eqb c (fst cm)) (map (fun t => (the_cls t, cmp t)) ts) = true
  <-> exists t, In t ts /\ the_cls t = c.
Proof.
  rewrite existsb_exists. split.
  - intros [[c' m] [Hin E]]. apply in_map_iff in Hin. destruct Hin as [t [Et Hin]]. injection Et as <- <-.
    simpl in E. apply pcls_eqb_eq in E. exists t. auto.
  - intros [t [Hin E]]. exists (the_cls t, cmp t). split; [apply in_map_iff; exists t; auto|].
    simpl. apply pcls_eqb_eq. auto.
Qed.

Lemma nodup_cls_split (cls : ty -> pcls) pre t post :
  nodup_cls (map cls (pre ++ t :: post)) = true ->
  (forall p, In p pre -> cls p <> cls t) /\ (forall p, In p post -> cls p <> cls t).
Proof.
  induction pre as [|x pre IH]; simpl; intros H.
  - apply andb_true_iff in H. destruct H as [H1 H2]. apply negb_true_iff in H1. split; [intros p []|].
    intros p Hp. eapply existsb_cls_false; [exact H1|]. apply in_map. exact Hp.
  - apply andb_true_iff in H. destruct H as [H1 H2]. apply negb_true_iff in H1. destruct (IH H2) as [I1 I2].
    split; [|exact I2]. intros p [<-|Hp]; [|auto].
    intros E. assert (In (cls t) (map cls (pre ++ t :: post))) by (apply in_map; apply in_or_app; right; left; reflexivity).
    eapply (existsb_cls_false _ _ _ H1 H). congruence.
Qed.

Definition kind_eq (a b : res) : Prop :=
  match a, b with
  | ROk v, ROk v' => v = v'
  | RErr _, RErr _ => True
  | RCrash _, RCrash _ => True
  | RFuel, RFuel => True
  | _, _ => False
  end.

Lemma agree_kind a b s : kind_eq a b -> agree a s -> agree b s.
Proof. destruct a, b, s; simpl; intros; subst; auto; contradiction. Qed.

Lemma bytype_agree fuel acc ts d :
  forallb (fun c => match c with Some _ => true | None => false end) (map ty_cls ts) = true ->
  nodup_cls (map the_cls ts) = true ->
  float_before_int (map ty_cls ts) false = false ->
  Forall (fun t => agree (ex fuel (compile o acc t) d) (sp fuel acc t d)) ts ->
  agree (ex fuel (MByType (combine (map the_cls ts) (map (compile o acc) ts))) d)
        (first_spec (fun t => sp fuel acc t d) ts).
Proof.
  intros Hsome Hnd Hfbi HA.
  rewrite exec_MByType, combine_map. cbv zeta.
  set (h := fun t => sp fuel acc t d). set (cmp := compile o acc) in *. set (g := ex fuel) in *.
  set (tbl := map (fun t => (the_cls t, cmp t)) ts).
  assert (Hcls : forall t, In t ts -> ty_cls t = Some (the_cls t)).
  { intros t Hin. rewrite forallb_forall in Hsome. specialize (Hsome (ty_cls t) (in_map _ _ _ Hin)).
    unfold the_cls. destruct (ty_cls t); [reflexivity|discriminate]. }
  assert (HR : forall t, In t ts -> ~ compat (the_cls t) d -> rej_or_fuel (h t)).
  { intros t Hin Hn. eapply cls_reject; [apply Hcls; exact Hin|exact Hn]. }
  rewrite Forall_forall in HA.
  assert (Hag : forall t, In t ts -> agree (g (cmp t) d) (h t)) by exact HA.
  (* generic conclusion once the dispatched alternative is isolated and everything else rejects *)
  assert (Single : forall pre t post, ts = (pre ++ t :: post)%list ->
            (forall p, In p pre -> rej_or_fuel (h p)) -> (forall p, In p post -> rej_or_fuel (h p)) ->
            forall r, kind_eq (g (cmp t) d) r -> agree r (first_spec h ts)).
  { intros pre t post E Hpre Hpost r Hk. apply (agree_kind _ _ _ Hk). clear Hk r. subst ts.
    assert (Ht : agree (g (cmp t) d) (h t)) by (apply Hag; apply in_or_app; right; left; reflexivity).
    destruct (first_skip h pre (t :: post) Hpre) as [F|F]; rewrite F; [destruct (g (cmp t) d); auto|].
    simpl. pose proof (first_all_rej h post Hpost) as Fp.
    destruct (g (cmp t) d) eqn:G; destruct (h t) eqn:Hh; simpl in Ht; try contradiction; subst; auto.
    destruct Fp as [->| ->]; auto. }
  destruct (pcls_eqb (cls_of d) CInt && negb (existsb (fun cm : pcls * meth => pcls_eqb CInt (fst cm)) tbl)
            && existsb (fun cm : pcls * meth => pcls_eqb CFloat (fst cm)) tbl)%bool eqn:Adj.
  - (* integer sent to the float alternative: there is no int alternative *)
    apply andb_true_iff in Adj. destruct Adj as [Adj HasF]. apply andb_true_iff in Adj. destruct Adj as [Ci NoI].
    apply pcls_eqb_eq in Ci. apply negb_true_iff in NoI.
    assert (NoInt : forall p, In p ts -> the_cls p <> CInt).
    { intros p Hp E. assert (X : existsb (fun cm : pcls * meth => pcls_eqb CInt (fst cm)) tbl = true)
        by (apply has_iff; exists p; auto). congruence. }
    destruct (find_shape g h cmp d ts CFloat ts) as [[pre [t [post [E [Ec [Hpre Hres]]]]]]|[Hno _]].
    + fold tbl in Hres. rewrite Hres. unfold fallback_of. cbn [pcls_eqb].
      destruct (nodup_cls_split the_cls pre t post) as [N1 N2]; [rewrite <- E; exact Hnd|].
      eapply Single; [exact E| | |destruct (g (cmp t) d); simpl; auto].
      * intros p Hp. apply HR; [rewrite E; apply in_or_app; left; exact Hp|].
        unfold compat. rewrite Ci. intros [X|[X _]]; [apply (NoInt p); [rewrite E; apply in_or_app; left; exact Hp|congruence]|].
        apply (N1 p Hp). congruence.
      * intros p Hp. apply HR; [rewrite E; apply in_or_app; right; right; exact Hp|].
        unfold compat. rewrite Ci. intros [X|[X _]]; [apply (NoInt p); [rewrite E; apply in_or_app; right; right; exact Hp|congruence]|].
        apply (N2 p Hp). congruence.
    + exfalso. apply has_iff in HasF. destruct HasF as [t [Hin Et]]. exact (Hno t Hin Et).
  - destruct (find_shape g h cmp d ts (cls_of d) ts) as [[pre [t [post [E [Ec [Hpre Hres]]]]]]|[Hno Hres]];
      fold tbl in Hres; rewrite Hres.
    + destruct (nodup_cls_split the_cls pre t post) as [N1 N2]; [rewrite <- E; exact Hnd|].
      unfold fallback_of. subst tbl.
      destruct (pcls_eqb (cls_of d) CInt) eqn:Ci.
      * (* integer datum, int alternative present *)
        apply pcls_eqb_eq in Ci.
        destruct (float_alt_shape g cmp d ts) as [[pre' [tf [post' [E' [Ecf [Hpre' Hf]]]]]]|[Hnof Hf]];
          rewrite Hf.
        -- (* both alternatives: int comes first *)
           assert (Tint : ty_cls t = Some CInt) by (rewrite (Hcls t); [congruence|rewrite E; apply in_or_app; right; left; reflexivity]).
           assert (NoFpre : forall p, In p pre -> the_cls p <> CFloat).
           { intros p Hp X. rewrite E in Hfbi. apply (fbi_prefix pre t post Hfbi Tint p Hp).
             rewrite (Hcls p); [congruence|rewrite E; apply in_or_app; left; exact Hp]. }
           destruct (split_two the_cls pre t post pre' tf post') as [mid [M1 M2]];
             [congruence|congruence|intros p Hp; rewrite Ecf; apply NoFpre; exact Hp|].
           assert (Rpre : forall p, In p pre -> rej_or_fuel (h p)).
           { intros p Hp. apply HR; [rewrite E; apply in_or_app; left; exact Hp|].
             unfold compat. rewrite Ci. intros [X|[X _]]; [apply (N1 p Hp); congruence|exact (NoFpre p Hp X)]. }
           assert (Ht := Hag t ltac:(rewrite E; apply in_or_app; right; left; reflexivity)).
           assert (Htf := Hag tf ltac:(rewrite E'; apply in_or_app; right; left; reflexivity)).
           assert (Rmid : forall p, In p mid -> rej_or_fuel (h p)).
           { intros p Hp. assert (Hpost : In p post) by (rewrite M1; apply in_or_app; left; exact Hp).
             apply HR; [rewrite E; apply in_or_app; right; right; exact Hpost|].
             unfold compat. rewrite Ci. intros [X|[X _]]; [apply (N2 p Hpost); congruence|].
             apply (Hpre' p); [rewrite M2; apply in_or_app; right; right; exact Hp|exact X]. }
           assert (Rpost' : forall p, In p post' -> rej_or_fuel (h p)).
           { intros p Hp. assert (Hpost : In p post) by (rewrite M1; apply in_or_app; right; right; exact Hp).
             apply HR; [rewrite E; apply in_or_app; right; right; exact Hpost|].
             unfold compat. rewrite Ci. intros [X|[X _]]; [apply (N2 p Hpost); congruence|].
             destruct (nodup_cls_split the_cls pre' tf post') as [_ NF]; [rewrite <- E'; exact Hnd|].
             apply (NF p Hp). congruence. }
           rewrite E. destruct (first_skip h pre (t :: post) Rpre) as [F|F]; rewrite F;
             [destruct (g (cmp t) d); auto; destruct (g (cmp tf) d); auto|].
           simpl. destruct (g (cmp t) d) eqn:G; destruct (h t) eqn:Hh; simpl in Ht; try contradiction;
             try (rewrite Ht); auto; try (destruct (g (cmp tf) d); auto; fail).
           rewrite M1. destruct (first_skip h mid (tf :: post') Rmid) as [F2|F2]; rewrite F2;
             [destruct (g (cmp tf) d); auto|].
           simpl. pose proof (first_all_rej h post' Rpost') as Fp.
           destruct (g (cmp tf) d) eqn:G2; destruct (h tf) eqn:Hh2; simpl in Htf; try contradiction;
             try (rewrite Htf); auto.
           destruct Fp as [->| ->]; auto.
        -- (* no float alternative *)
           eapply Single; [exact E| | |destruct (g (cmp t) d); simpl; auto].
           ++ intros p Hp. apply HR; [rewrite E; apply in_or_app; left; exact Hp|].
              unfold compat. intros [X|[X _]]; [apply (N1 p Hp); congruence|].
              apply (Hnof p); [rewrite E; apply in_or_app; left; exact Hp|exact X].
           ++ intros p Hp. apply HR; [rewrite E; apply in_or_app; right; right; exact Hp|].
              unfold compat. intros [X|[X _]]; [apply (N2 p Hp); congruence|].
              apply (Hnof p); [rewrite E; apply in_or_app; right; right; exact Hp|exact X].
      * apply pcls_eqb_neq in Ci.
        eapply Single; [exact E| | |destruct (g (cmp t) d); simpl; auto].
        -- intros p Hp. apply HR; [rewrite E; apply in_or_app; left; exact Hp|].
           unfold compat. intros [X|[_ X]]; [apply (N1 p Hp); congruence|congruence].
        -- intros p Hp. apply HR; [rewrite E; apply in_or_app; right; right; exact Hp|].
           unfold compat. intros [X|[_ X]]; [apply (N2 p Hp); congruence|congruence].
    + (* no alternative for the class of the datum *)
      assert (Rall : forall p, In p ts -> rej_or_fuel (h p)).
      { intros p Hp. apply HR; [exact Hp|]. unfold compat. intros [X|[X Ci]]; [apply (Hno p Hp); congruence|].
        (* a float alternative and an integer datum: then the dispatch would have been adjusted, or an int alternative exists *)
        assert (HF : existsb (fun cm : pcls * meth => pcls_eqb CFloat (fst cm)) tbl = true) by (apply has_iff; exists p; auto).
        destruct (existsb (fun cm : pcls * meth => pcls_eqb CInt (fst cm)) tbl) eqn:HI.
        - apply has_iff in HI. destruct HI as [q [Hq Eq]]. apply (Hno q Hq). congruence.
        - rewrite Ci, HF in Adj. cbn in Adj. discriminate. }
      destruct (first_all_rej h ts Rall) as [->| ->]; auto.
Qed.

(* ---------------------------------------------------------------- objects *)
Definition is_none3 (r : option (option (option (string * value)))) : bool := match r with None => true | _ => false end.
Definition is_rej3 (r : option (option (option (string * value)))) : bool := match r with Some None => true | _ => false end.
Definition vals_of (rs : list (option (option (option (string * value))))) : list (string * value) :=
  flat_map (fun r => match r with Some (Some (Some nv)) => [nv] | _ => [] end) rs.

Definition present_count (kvs : list (string * pyval)) (fds : list fdef) : nat :=
  List.length (filter (fun fd => dict_has (o_aliaser o (fd_alias fd)) kvs) fds).

Lemma sort_strs_nil l : sort_strs l = [] <-> l = [].
Proof.
  split; [|intros ->; reflexivity]. destruct l as [|x l]; [reflexivity|]. simpl.
  generalize (sort_strs l). intros r. destruct r as [|y r]; simpl; [discriminate|].
  destruct (String.compare x y); discriminate.
Qed.

Lemma filter_nil_existsb {A} (f : A -> bool) l : filter f l = [] <-> existsb f l = false.
Proof.
  induction l as [|x l IH]; simpl; [tauto|]. destruct (f x); simpl; [split; discriminate|exact IH].
Qed.

Lemma dict_has_get {A} k (l : list (string * A)) : dict_has k l = match dict_get k l with Some _ => true | None => false end.
Proof. reflexivity. Qed.

Section ObjLoops.
  Variable f : nat.
  Variable cd : cdef.
  Variable kvs : list (string * pyval).
  Hypothesis wf_kvs : forall k x, In (k, x) kvs -> wf_data x = true.
  Hypothesis IHf : forall fd x, In fd (cd_fields cd) -> wf_data x = true ->
      agree (ex f (compile o (fd_con fd) (fd_ty fd)) x) (sp f (fd_con fd) (fd_ty fd) x).

  Lemma dict_get_in {A} k (l : list (string * A)) x : dict_get k l = Some x -> In (k, x) l.
  Proof.
    induction l as [|[k' y] l IH]; simpl; [discriminate|].
    destruct (String.eqb_spec k k') as [->|N]; [intros E; injection E as ->; left; reflexivity|].
    intros E. right. apply IH. exact E.
  Qed.

  Lemma spec_field_present fd x :
    dict_get (o_aliaser o (fd_alias fd)) kvs = Some x ->
    spec_field u o f cd kvs fd =
    match sp f (fd_con fd) (fd_ty fd) x with
    | SFuel => None
    | SOk v => Some (Some (Some (fd_name fd, v)))
    | SRej => if (fd_required fd || negb ((fd_fallback fd && negb (fd_required fd)) || o_fallback o))%bool
              then Some None else Some (Some None)
    end.
  Proof. intros E. unfold spec_field. rewrite E. reflexivity. Qed.

  Lemma spec_field_absent fd :
    dict_get (o_aliaser o (fd_alias fd)) kvs = None ->
    spec_field u o f cd kvs fd =
    if fd_required fd then Some None
    else if existsb (fun r => dict_has r kvs) (requiring o cd (fd_name fd)) then Some None
    else Some (Some None).
  Proof. intros E. unfold spec_field. rewrite E. reflexivity. Qed.

  Lemma obj_loop_agree fds :
    (forall fd, In fd fds -> In fd (cd_fields cd)) ->
    let rs := map (spec_field u o f cd kvs) fds in
    match obj_loop (ex f) kvs (map (compile_field o cd) fds) with
    | (_, _, _, Some st) => st = RFuel \/ existsb is_none3 rs = true
    | (count, vals, ch, None) =>
        existsb is_none3 rs = true \/
        ((ch = [] <-> existsb is_rej3 rs = false) /\ vals = vals_of rs /\ count = present_count kvs fds)
    end.
  Proof.
    induction fds as [|fd fds IH]; intros Hsub; cbn [map obj_loop existsb].
    - right. repeat split; auto.
    - assert (Hfd : In fd (cd_fields cd)) by (apply Hsub; left; reflexivity).
      assert (Hrest : forall fd', In fd' fds -> In fd' (cd_fields cd)) by (intros; apply Hsub; right; assumption).
      specialize (IH Hrest). cbv zeta in IH.
      unfold compile_field at 1. cbn [obj_loop].
      unfold present_count. cbn [filter]. rewrite dict_has_get. fold (present_count kvs fds).
      unfold vals_of. cbn [flat_map]. fold (vals_of (map (spec_field u o f cd kvs) fds)).
      destruct (dict_get (o_aliaser o (fd_alias fd)) kvs) as [x|] eqn:Eg.
      + rewrite (spec_field_present fd x Eg).
        assert (Hx : wf_data x = true) by (eapply wf_kvs; eapply dict_get_in; exact Eg).
        specialize (IHf fd x Hfd Hx).
        destruct (fd_required fd || negb (fd_fallback fd && negb (fd_required fd) || o_fallback o))%bool eqn:Eb;
          destruct (ex f (compile o (fd_con fd) (fd_ty fd)) x) eqn:G;
          destruct (sp f (fd_con fd) (fd_ty fd) x) eqn:Hh; simpl in IHf; try contradiction;
          destruct (obj_loop (ex f) kvs (map (compile_field o cd) fds)) as [[[n vals] ch] [st|]];
          cbn [is_none3 is_rej3 orb app List.length]; auto;
          try (destruct IH as [IH|IH]; [left; exact IH|right; exact IH]; fail);
          try (destruct IH as [IH|[I1 [I2 I3]]]; [left; exact IH|right]; try subst v; rewrite I2, I3;
               first [tauto | repeat split; intros X; discriminate]).
      + rewrite (spec_field_absent fd Eg).
        destruct (obj_loop (ex f) kvs (map (compile_field o cd) fds)) as [[[n vals] ch] [st|]].
        * destruct (fd_required fd); [|destruct (sort_strs _)];
            (destruct IH as [IH|IH]; [left; exact IH|right]);
            try (cbn [is_none3 orb]; exact IH);
            destruct (existsb _ (requiring o cd (fd_name fd))); cbn [is_none3 orb]; exact IH.
        * destruct (fd_required fd) eqn:Er.
          -- cbn [is_none3 is_rej3 orb app].
             destruct IH as [IH|[I1 [I2 I3]]]; [left; exact IH|right]. rewrite I2, I3.
             repeat split; intros X; discriminate.
          -- destruct (sort_strs (filter (fun r => dict_has r kvs) (requiring o cd (fd_name fd)))) eqn:Es.
             ++ apply (proj1 (sort_strs_nil _)) in Es. apply (proj1 (filter_nil_existsb _ _)) in Es. rewrite Es.
                cbn [is_none3 is_rej3 orb app].
                destruct IH as [IH|[I1 [I2 I3]]]; [left; exact IH|right]. rewrite I2, I3. tauto.
             ++ assert (Ex : existsb (fun r => dict_has r kvs) (requiring o cd (fd_name fd)) = true).
                { destruct (existsb (fun r => dict_has r kvs) (requiring o cd (fd_name fd))) eqn:E; [reflexivity|].
                  apply (proj2 (filter_nil_existsb _ _)) in E. rewrite E in Es. discriminate. }
                rewrite Ex. cbn [is_none3 is_rej3 orb app].
                destruct IH as [IH|[I1 [I2 I3]]]; [left; exact IH|right]. rewrite I2, I3.
                repeat split; intros X; discriminate.
  Qed.

  Lemma simple_loop_agree fds :
    (forall fd, In fd fds -> In fd (cd_fields cd)) ->
    (forall fd, In fd fds -> check_only (compile o (fd_con fd) (fd_ty fd)) = true
                             /\ ((fd_fallback fd && negb (fd_required fd)) || o_fallback o)%bool = false
                             /\ requiring o cd (fd_name fd) = []) ->
    let rs := map (spec_field u o f cd kvs) fds in
    match simple_loop (ex f) kvs (map (compile_field o cd) fds) with
    | (_, _, _, Some st) => st = RFuel \/ existsb is_none3 rs = true
    | (count, vals, ch, None) =>
        existsb is_none3 rs = true \/
        ((ch = [] <-> existsb is_rej3 rs = false) /\ vals = vals_of rs /\ count = present_count kvs fds)
    end.
  Proof.
    induction fds as [|fd fds IH]; intros Hsub Hsimple; cbn [map simple_loop existsb].
    - right. repeat split; auto.
    - assert (Hfd : In fd (cd_fields cd)) by (apply Hsub; left; reflexivity).
      assert (Hrest : forall fd', In fd' fds -> In fd' (cd_fields cd)) by (intros; apply Hsub; right; assumption).
      destruct (Hsimple fd (or_introl eq_refl)) as [Hco [Hfb Hrq]].
      specialize (IH Hrest (fun fd' H' => Hsimple fd' (or_intror H'))). cbv zeta in IH.
      unfold compile_field at 1. cbn [simple_loop].
      unfold present_count. cbn [filter]. rewrite dict_has_get. fold (present_count kvs fds).
      unfold vals_of. cbn [flat_map]. fold (vals_of (map (spec_field u o f cd kvs) fds)).
      destruct (dict_get (o_aliaser o (fd_alias fd)) kvs) as [x|] eqn:Eg.
      + rewrite (spec_field_present fd x Eg).
        assert (Hx : wf_data x = true) by (eapply wf_kvs; eapply dict_get_in; exact Eg).
        specialize (IHf fd x Hfd Hx). rewrite Hfb.
        pose proof (check_only_embed f (fd_ty fd) (fd_con fd) x) as CE.
        destruct (fd_required fd || negb false)%bool eqn:Eb;
          destruct (ex f (compile o (fd_con fd) (fd_ty fd)) x) eqn:G;
          destruct (sp f (fd_con fd) (fd_ty fd) x) eqn:Hh; simpl in IHf; try contradiction;
          destruct (simple_loop (ex f) kvs (map (compile_field o cd) fds)) as [[[n vals] ch] [st|]];
          cbn [is_none3 is_rej3 orb app List.length]; auto;
          try (destruct IH as [IH|IH]; [left; exact IH|right; exact IH]; fail);
          try (destruct IH as [IH|[I1 [I2 I3]]]; [left; exact IH|right];
               try (rewrite <- (CE _ Hx Hco eq_refl)); rewrite I2, I3;
               first [tauto | repeat split; intros X; discriminate]).
      + rewrite (spec_field_absent fd Eg). rewrite Hrq. cbn [existsb].
        destruct (simple_loop (ex f) kvs (map (compile_field o cd) fds)) as [[[n vals] ch] [st|]];
          destruct (fd_required fd) eqn:Er; cbn [is_none3 is_rej3 orb app]; auto;
          try (destruct IH as [IH|IH]; [left; exact IH|right; exact IH]; fail);
          (destruct IH as [IH|[I1 [I2 I3]]]; [left; exact IH|right]; rewrite I2, I3;
           first [tauto | repeat split; intros X; discriminate]).
  Qed.
End ObjLoops.

(* ---------------------------------------------------------------- the `len(data) != fields_count` shortcut *)
Lemma filter_or_len {A} (p q : A -> bool) l :
  (forall x, p x = true -> q x = false) ->
  List.length (filter (fun x => p x || q x) l) = List.length (filter p l) + List.length (filter q l).
Proof.
  intros D. induction l as [|x l IH]; simpl; [reflexivity|].
  destruct (p x) eqn:P; simpl; [rewrite (D x P); simpl; lia|]. destruct (q x); simpl; lia.
Qed.

Lemma filter_split_len {A} (p : A -> bool) l :
  List.length (filter p l) + List.length (filter (fun x => negb (p x)) l) = List.length l.
Proof. induction l as [|x l IH]; simpl; [reflexivity|]. destruct (p x); simpl; lia. Qed.

Lemma dict_has_filter_pos {A} a (kvs : list (string * A)) :
  dict_has a kvs = true -> 1 <= List.length (filter (fun kv => String.eqb (fst kv) a) kvs).
Proof.
  unfold dict_has. induction kvs as [|[k x] kvs IH]; simpl; [discriminate|].
  rewrite (String.eqb_sym k a). destruct (String.eqb a k); simpl; [lia|exact IH].
Qed.

Lemma present_le (A : list string) {B} (kvs : list (string * B)) :
  nodup_strs A = true ->
  List.length (filter (fun a => dict_has a kvs) A)
  <= List.length (filter (fun kv => existsb (String.eqb (fst kv)) A) kvs).
Proof.
  induction A as [|a A IH]; intros H; simpl; [lia|].
  apply andb_true_iff in H. destruct H as [H1 H2]. apply negb_true_iff in H1. specialize (IH H2).
  rewrite (filter_or_len (fun kv => String.eqb (fst kv) a) (fun kv => existsb (String.eqb (fst kv)) A)).
  - destruct (dict_has a kvs) eqn:E; simpl; [pose proof (dict_has_filter_pos a kvs E)|]; lia.
  - intros [k x] P. simpl in *. apply String.eqb_eq in P. subst k. exact H1.
Qed.

Lemma extra_nil (fds : list fdef) (kvs : list (string * pyval)) :
  nodup_strs (map (fun fd => o_aliaser o (fd_alias fd)) fds) = true ->
  List.length kvs = present_count kvs fds ->
  filter (fun kv => negb (existsb (String.eqb (fst kv)) (map (fun fd => o_aliaser o (fd_alias fd)) fds))) kvs = [].
Proof.
  intros Hnd Hc. apply length_zero_iff_nil.
  set (A := map (fun fd => o_aliaser o (fd_alias fd)) fds) in *.
  pose proof (present_le A kvs Hnd) as Hle.
  pose proof (filter_split_len (fun kv : string * pyval => existsb (String.eqb (fst kv)) A) kvs) as Hs.
  assert (Hpc : present_count kvs fds = List.length (filter (fun a => dict_has a kvs) A)).
  { unfold present_count, A. clear. induction fds as [|fd fds IH]; simpl; [reflexivity|].
    destruct (dict_has _ kvs); simpl; rewrite IH; reflexivity. }
  cbv beta in *. lia.
Qed.

Lemma andb_diag_assoc a b : (a && b && b)%bool = (a && b)%bool.
Proof. destruct a, b; reflexivity. Qed.

Lemma wf_get_cls cid : wf_univ u o = true -> wf_cls o true (get_cls u cid) = true.
Proof.
  unfold wf_univ, get_cls. intros H. apply andb_true_iff in H. destruct H as [H _].
  rewrite forallb_forall in H.
  destruct (nth_in_or_default cid (u_classes u) empty_cls) as [Hin|Hd]; [apply H; exact Hin|rewrite Hd; reflexivity].
Qed.

Lemma forallb_In {A} (p : A -> bool) l x : forallb p l = true -> In x l -> p x = true.
Proof. intros H Hin. rewrite forallb_forall in H. apply H. exact Hin. Qed.

Lemma obj_agree f :
  (forall acc t d, wf_ty t = true -> union_order_ok t = true -> wf_data d = true ->
      agree (ex f (compile o acc t) d) (sp f acc t d)) ->
  wf_univ u o = true ->
  forall cid acc d, wf_data d = true ->
  agree (ex f (compile_obj o cid (get_cls u cid) acc) d) (sp (S f) acc (TObj cid) d).
Proof.
  intros IHf Hwf cid acc d Hd. rewrite spec_TObj_S. cbv zeta.
  set (cd := get_cls u cid).
  pose proof (wf_get_cls cid Hwf) as Hc. fold cd in Hc. unfold wf_cls in Hc.
  apply andb_true_iff in Hc. destruct Hc as [Hc Hnames]. apply andb_true_iff in Hc. destruct Hc as [Hfields Haliases].
  assert (IHfield : forall fd x, In fd (cd_fields cd) -> wf_data x = true ->
            agree (ex f (compile o (fd_con fd) (fd_ty fd)) x) (sp f (fd_con fd) (fd_ty fd) x)).
  { intros fd x Hin Hx. pose proof (forallb_In _ _ _ Hfields Hin) as Hf. apply andb_true_iff in Hf.
    destruct Hf as [H1 H2]. apply IHf; assumption. }
  set (aliases := map (fun fd => o_aliaser o (fd_alias fd)) (cd_fields cd)).
  (* the common end of SimpleObjectMethod and ObjectMethod *)
  assert (Tail : forall kvs count vals ch msgs (cs : list constr) (e_simple : bool),
            wf_data (PDict kvs) = true ->
            (existsb is_none3 (map (spec_field u o f cd kvs) (cd_fields cd)) = true \/
             ((ch = [] <-> existsb is_rej3 (map (spec_field u o f cd kvs) (cd_fields cd)) = false) /\
              vals = vals_of (map (spec_field u o f cd kvs) (cd_fields cd)) /\
              count = present_count kvs (cd_fields cd))) ->
            (msgs = [] <-> all_valid (ocons cons_dict acc) (PDict kvs) = true) ->
            agree
              (let extra := filter (fun kv => negb (existsb (String.eqb (fst kv)) aliases)) kvs in
               let differ := negb (Nat.eqb (List.length kvs) count) in
               let ch' := if (differ && negb (o_addprops o))%bool
                          then (ch ++ map (fun kv => (KStr (fst kv), err_msg msg_unexpected)) extra)%list else ch in
               let vals' := if (differ && o_addprops o && is_typed_dict cd)%bool
                            then (vals ++ map (fun kv => (fst kv, embed (snd kv))) extra)%list else vals in
               match msgs, ch' with
               | [], [] => ROk (construct cd cid vals')
               | _, _ => RErr (VE msgs ch')
               end)
              (let extra := filter (fun kv => negb (existsb (String.eqb (fst kv)) aliases)) kvs in
               let rs := map (spec_field u o f cd kvs) (cd_fields cd) in
               if existsb (fun r => match r with None => true | _ => false end) rs then SFuel
               else if existsb (fun r => match r with Some None => true | _ => false end) rs then SRej
               else if (negb (o_addprops o) && negb (match extra with [] => true | _ => false end))%bool then SRej
               else if negb (all_valid (ocons cons_dict acc) (PDict kvs)) then SRej
               else
                 let vals := flat_map (fun r => match r with Some (Some (Some nv)) => [nv] | _ => [] end) rs in
                 let vals' := if (o_addprops o && is_typed_dict cd)%bool
                              then (vals ++ map (fun kv => (fst kv, embed (snd kv))) extra)%list else vals in
                 SOk (construct cd cid vals'))).
  { intros kvs count vals ch msgs cs _ Hk Hloop Hmsgs. cbv zeta.
    fold is_none3. fold is_rej3. fold (vals_of (map (spec_field u o f cd kvs) (cd_fields cd))).
    destruct Hloop as [Hn|[Hch [Hvals Hcount]]]; [rewrite Hn; auto|].
    destruct (existsb is_none3 _) eqn:En; [auto|].
    set (extra := filter (fun kv => negb (existsb (String.eqb (fst kv)) aliases)) kvs).
    assert (Hextra : Nat.eqb (List.length kvs) count = true -> extra = []).
    { intros E. apply Nat.eqb_eq in E. apply extra_nil; [exact Haliases|]. rewrite <- Hcount. exact E. }
    destruct (existsb is_rej3 _) eqn:Er.
    - (* some field rejected *)
      assert (ch <> []) by (intros X; apply Hch in X; discriminate).
      destruct (negb (Nat.eqb (List.length kvs) count) && negb (o_addprops o))%bool;
        destruct msgs; destruct ch; simpl; auto; congruence.
    - assert (Hc0 : ch = []) by (apply Hch; reflexivity). subst ch. rewrite <- Hvals.
      destruct (Nat.eqb (List.length kvs) count) eqn:Ed; cbn [negb andb].
      + rewrite (Hextra eq_refl). cbn [negb andb]. rewrite andb_false_r. cbn [negb andb].
        destruct (all_valid (ocons cons_dict acc) (PDict kvs)) eqn:Ev; cbn [negb].
        * rewrite (proj2 Hmsgs eq_refl). rewrite app_nil_r.
          destruct (o_addprops o && is_typed_dict cd)%bool; reflexivity.
        * destruct msgs; [exfalso; pose proof (proj1 Hmsgs eq_refl) as X; congruence|simpl; auto].
      + destruct (o_addprops o) eqn:Ea; cbn [negb andb].
        * destruct (all_valid (ocons cons_dict acc) (PDict kvs)) eqn:Ev; cbn [negb].
          -- rewrite (proj2 Hmsgs eq_refl). reflexivity.
          -- destruct msgs; [exfalso; pose proof (proj1 Hmsgs eq_refl) as X; congruence|simpl; auto].
        * destruct extra as [|kv extra'] eqn:Ee; cbn [negb andb map app].
          -- destruct (all_valid (ocons cons_dict acc) (PDict kvs)) eqn:Ev; cbn [negb].
             ++ rewrite (proj2 Hmsgs eq_refl). reflexivity.
             ++ destruct msgs; [exfalso; pose proof (proj1 Hmsgs eq_refl) as X; congruence|simpl; auto].
          -- destruct msgs; simpl; auto. }
  unfold compile_obj. fold cd. fold aliases.
  match goal with |- agree (ex f (if ?c then _ else _) d) _ => destruct c eqn:Cond end.
  - (* SimpleObjectMethod *)
    rewrite exec_MSimpleObj. destruct d as [| | | | | |kvs|]; auto.
    apply andb_true_iff in Cond. destruct Cond as [Cond Cfields].
    apply andb_true_iff in Cond. destruct Cond as [Cond Ctd2].
    apply andb_true_iff in Cond. destruct Cond as [Ccs Ctd].
    destruct (wf_data_dict _ Hd) as [Hnd Hsub].
    pose proof (simple_loop_agree f cd kvs Hsub IHfield (cd_fields cd) (fun _ H => H)) as SL.
    assert (Hsimple : forall fd, In fd (cd_fields cd) ->
              check_only (compile o (fd_con fd) (fd_ty fd)) = true /\
              ((fd_fallback fd && negb (fd_required fd)) || o_fallback o)%bool = false /\
              requiring o cd (fd_name fd) = []).
    { intros fd Hin. pose proof (forallb_In _ _ _ Cfields (in_map (compile_field o cd) _ _ Hin)) as Hf.
      unfold compile_field in Hf. cbn [mf_meth mf_alias mf_name mf_fallback mf_reqby] in Hf.
      apply andb_true_iff in Hf. destruct Hf as [Hf H4]. apply andb_true_iff in Hf. destruct Hf as [Hf H3].
      apply andb_true_iff in Hf. destruct Hf as [H1 H2].
      split; [exact H1|]. split; [apply negb_true_iff in H3; exact H3|].
      destruct (requiring o cd (fd_name fd)); [reflexivity|discriminate]. }
    specialize (SL Hsimple). cbv zeta in SL.
    destruct (simple_loop (ex f) kvs (map (compile_field o cd) (cd_fields cd))) as [[[count vals] ch] [st|]].
    + destruct SL as [->|SL]; auto. fold is_none3. rewrite SL. auto.
    + assert (Ecs : ocons cons_dict acc = []) by (destruct (ocons cons_dict acc); [reflexivity|discriminate]).
      pose proof (Tail kvs count vals ch [] [] true Hd SL) as T. cbv zeta in T.
      rewrite Ecs in T. specialize (T (conj (fun _ => eq_refl) (fun _ => eq_refl))).
      rewrite Ecs. cbv zeta. fold cd.
      destruct (o_addprops o) eqn:Ea; destruct (is_typed_dict cd) eqn:Et; try discriminate Ctd;
        cbn [andb negb] in *; rewrite ?andb_true_r, ?andb_false_r in *; exact T.
  - (* ObjectMethod *)
    rewrite exec_MObj. destruct d as [| | | | | |kvs|]; auto. cbv zeta.
    destruct (wf_data_dict _ Hd) as [Hnd Hsub].
    pose proof (obj_loop_agree f cd kvs Hsub IHfield (cd_fields cd) (fun _ H => H)) as OL. cbv zeta in OL.
    destruct (obj_loop (ex f) kvs (map (compile_field o cd) (cd_fields cd))) as [[[count vals] ch] [st|]].
    + destruct OL as [->|OL]; auto. fold is_none3. rewrite OL. auto.
    + apply (Tail kvs count vals ch _ (ocons cons_dict acc) false Hd OL).
      rewrite validate_nil. destruct (all_valid (ocons cons_dict acc) (PDict kvs)) eqn:Ev.
      * split; reflexivity.
      * split; [|discriminate]. intros X. apply map_eq_nil in X.
        apply (proj1 (filter_nil_forallb _ _)) in X. unfold all_valid in Ev. congruence.
Qed.

(* ---------------------------------------------------------------- remaining pieces *)
Lemma elts_hashable (g : pyval -> res) (h : pyval -> sres) l :
  (forall x, In x l -> agree (g x) (h x)) ->
  (forall x v, In x l -> h x = SOk v -> hashable v = true) ->
  forall i vs ch, elts_loop g i l = A3 vs ch None -> all_ok (map h l) = None \/ forallb hashable vs = true.
Proof.
  induction l as [|x l IH]; intros Ha Hh i vs ch E; simpl in E.
  - injection E as <- <-. right. reflexivity.
  - assert (Hx := Ha x (or_introl eq_refl)).
    assert (IH' := IH (fun y Hy => Ha y (or_intror Hy)) (fun y v Hy => Hh y v (or_intror Hy)) (S i)).
    destruct (g x) eqn:G; try discriminate.
    + destruct (elts_loop g (S i) l) as [vs' ch' [st|]] eqn:El; try discriminate. injection E as <- <-.
      destruct (IH' vs' ch' eq_refl) as [I|I]; simpl.
      * left. destruct (h x); [rewrite I; reflexivity| rewrite I; reflexivity|reflexivity].
      * destruct (h x) eqn:Hhx; simpl in Hx; try contradiction; [|left; reflexivity].
        subst v0. right. simpl. rewrite (Hh x v (or_introl eq_refl) Hhx), I. reflexivity.
    + destruct (elts_loop g (S i) l) as [vs' ch' [st|]] eqn:El; try discriminate. injection E as <- <-.
      destruct (IH' vs' ch' eq_refl) as [I|I]; [|right; exact I]. left. simpl.
      destruct (h x); rewrite ?I; reflexivity.
Qed.

Lemma spec_coll_kind fuel acc k t d :
  sp fuel acc (TColl k t) d =
  match sp fuel acc (TColl KList t) d with SOk (VList vs) => SOk (wrap_coll k vs) | r => r end.
Proof.
  rewrite !spec_TColl. destruct d; try reflexivity.
  destruct (all_ok _) as [[vs|]|]; try reflexivity.
  unfold accept. destruct (all_valid _ _); reflexivity.
Qed.

Lemma spec_list_elems fuel acc t l vs :
  sp fuel acc (TColl KList t) (PList l) = SOk (VList vs) ->
  Forall2 (fun x v => sp fuel None t x = SOk v) l vs.
Proof.
  rewrite spec_TColl. destruct (all_ok _) as [[vs'|]|] eqn:E; try discriminate.
  intros H. apply accept_ok in H. injection H as <-. apply all_ok_some. exact E.
Qed.

Lemma forall2_hashable fuel t l vs :
  hashable_ty t = true -> Forall2 (fun x v => sp fuel None t x = SOk v) l vs -> forallb hashable vs = true.
Proof.
  intros Hh. induction 1 as [|x v l vs Hx _ IH]; simpl; [reflexivity|].
  rewrite (spec_hashable fuel t None x v Hh Hx), IH. reflexivity.
Qed.

Lemma get_enum_no_none e :
  forallb (fun vs => negb (existsb (prim_eqb LNone) vs)) (u_enums u) = true ->
  existsb (prim_eqb LNone) (get_enum u e) = false.
Proof.
  intros H. unfold get_enum. rewrite forallb_forall in H.
  destruct (nth_in_or_default e (u_enums u) []) as [Hin|Hd]; [|rewrite Hd; reflexivity].
  apply negb_true_iff. apply H. exact Hin.
Qed.

Lemma spec_none_value fuel :
  forallb (fun vs => negb (existsb (prim_eqb LNone) vs)) (u_enums u) = true ->
  forall t acc v, sp fuel acc t PNone = SOk v -> v = VNone.
Proof.
  intros He. induction t using ty_ind'; intros acc v Hs.
  - rewrite spec_TNone in Hs. injection Hs as <-. reflexivity.
  - rewrite spec_TBool in Hs. discriminate.
  - rewrite spec_TInt in Hs. discriminate.
  - rewrite spec_TFloat in Hs. discriminate.
  - rewrite spec_TStr in Hs. discriminate.
  - rewrite spec_TAny in Hs. apply accept_ok in Hs. subst. reflexivity.
  - rewrite spec_TColl in Hs. discriminate.
  - rewrite spec_TTuple in Hs. discriminate.
  - rewrite spec_TMap in Hs. discriminate.
  - rewrite spec_TLit in Hs. simpl in Hs. destruct (existsb _ vs); [|discriminate]. injection Hs as <-. reflexivity.
  - rewrite spec_TEnum in Hs. simpl in Hs. rewrite (get_enum_no_none e He) in Hs. discriminate.
  - rewrite spec_TCon in Hs. eapply IHt. exact Hs.
  - rewrite spec_TUnion in Hs. apply first_spec_ok in Hs. destruct Hs as [t [Hin Ht]].
    rewrite Forall_forall in H. eapply H; eassumption.
  - destruct fuel; [discriminate|]. rewrite spec_TObj_S in Hs. discriminate.
Qed.

Lemma all_ok_tail_none (r : sres) rs : all_ok rs = None -> all_ok (r :: rs) = None.
Proof. intros H. simpl. rewrite H. destruct r; reflexivity. Qed.

Lemma map_items_keys (gk gv : pyval -> res) (hk hv : pyval -> sres) kvs :
  (forall k, agree (gk (PStr k)) (hk (PStr k))) ->
  forall items ch, map_loop gk gv kvs = (items, ch, None) ->
  all_ok (map (fun kv => hk (PStr (fst kv))) kvs) = None \/
  Forall (fun it : value * value => exists k, hk (PStr k) = SOk (fst it)) items.
Proof.
  intros Hk. induction kvs as [|[k x] kvs IH]; intros items ch E; simpl in E.
  - injection E as <- <-. right. constructor.
  - specialize (Hk k) as Hkk.
    destruct (gk (PStr k)) eqn:G1; destruct (gv x) eqn:G2; try discriminate;
      destruct (map_loop gk gv kvs) as [[items' ch'] [st|]] eqn:El; try discriminate; injection E as <- <-;
      (destruct (IH items' ch' eq_refl) as [I|I]; [left; cbn [map fst]; apply all_ok_tail_none; exact I|]).
    + destruct (hk (PStr k)) eqn:H1; simpl in Hkk; try contradiction.
      * subst. right. constructor; [exists k; exact H1|exact I].
      * left. cbn [map fst all_ok]. rewrite H1. reflexivity.
    + right. exact I.
    + right. exact I.
    + right. exact I.
Qed.

Lemma types_agree fuel :
  wf_univ u o = true ->
  (forall cid acc d, wf_data d = true -> agree (ex fuel (MRec cid acc) d) (sp fuel acc (TObj cid) d)) ->
  forall t acc d, wf_ty t = true -> union_order_ok t = true -> wf_data d = true ->
  agree (ex fuel (compile o acc t) d) (sp fuel acc t d).
Proof.
  intros Hwfu Hobj.
  assert (Henum : forallb (fun vs => negb (existsb (prim_eqb LNone) vs)) (u_enums u) = true).
  { unfold wf_univ in Hwfu. apply andb_true_iff in Hwfu. tauto. }
  induction t using ty_ind'; intros acc d Hwt Huo Hwd.
  - cbn [compile]. unfold wrap_coerce. rewrite strict, exec_MNone, spec_TNone. destruct d; auto.
  - cbn [compile]. unfold wrap_coerce. rewrite strict, exec_MBool, spec_TBool. destruct d; auto.
  - cbn [compile]. unfold wrap_coerce. rewrite strict, exec_MInt, spec_TInt. destruct d; auto. apply finish_nil.
  - cbn [compile]. unfold wrap_coerce. rewrite strict, exec_MFloat, spec_TFloat. destruct d; auto; [|apply finish_nil].
    unfold float_of_int. destruct (Z.ltb _ _); auto. apply finish_nil.
  - cbn [compile]. unfold wrap_coerce. rewrite strict, exec_MStr, spec_TStr. destruct d; auto. apply finish_nil.
  - cbn [compile]. rewrite exec_MAny, spec_TAny. unfold any_cons. destruct d; apply finish_nil.
  - (* collections *)
    cbn [wf_ty] in Hwt. apply andb_true_iff in Hwt. destruct Hwt as [Hwt Hhash]. cbn [union_order_ok] in Huo.
    assert (Helt : forall x, wf_data x = true -> agree (ex fuel (compile o None t) x) (sp fuel None t x))
      by (intros; apply IHt; assumption).
    (* the list method underlying every collection kind *)
    assert (ListAgree : agree (ex fuel (if (o_nocopy o && check_only (compile o None t))%bool
                                        then MListCheck (ocons cons_list acc) (compile o None t)
                                        else MList (ocons cons_list acc) (compile o None t)) d)
                              (sp fuel acc (TColl KList t) d)).
    { destruct (o_nocopy o && check_only (compile o None t))%bool eqn:Eco.
      - rewrite exec_MListCheck, spec_TColl. destruct d; auto.
        assert (Ha : forall x, In x l -> agree (ex fuel (compile o None t) x) (sp fuel None t x))
          by (intros x Hx; apply Helt; eapply wf_data_list; eassumption).
        pose proof (elts_agree _ _ l Ha O) as E.
        destruct (elts_loop (ex fuel (compile o None t)) 0 l) as [vs ch [st|]].
        + destruct E as [->|E]; auto. rewrite E. auto.
        + destruct (all_ok _) as [[vs'|]|] eqn:Ea; auto.
          * destruct E as [-> ->].
            pose proof (finish_nil (PList l) (ocons cons_list acc) (embed (PList l))) as Fn.
            unfold accept in *. destruct (all_valid _ _) eqn:Ev; [|exact Fn].
            assert (Hs : sp fuel acc (TColl KList t) (PList l) = SOk (VList vs'))
              by (rewrite spec_TColl, Ea; unfold accept; rewrite Ev; reflexivity).
            assert (Hco : check_only (compile o acc (TColl KList t)) = true).
            { cbn [compile]. unfold wrap_coerce. rewrite strict, Eco. reflexivity. }
            pose proof (check_only_embed fuel _ _ _ _ Hwd Hco Hs) as Hv.
            change (wrap_coll KList vs') with (VList vs'). rewrite Hv. exact Fn.
          * destruct (finish_children (PList l) (ocons cons_list acc) ch (embed (PList l)) E) as [e He]. rewrite He. auto.
      - rewrite exec_MList, spec_TColl. destruct d; auto.
        apply (array_result _ _ l (PList l) (ocons cons_list acc) VList).
        intros x Hx. apply Helt. eapply wf_data_list; eassumption. }
    cbn [compile]. unfold wrap_coerce. rewrite strict.
    destruct k; cbn [norm_kind] in *.
    + exact ListAgree.
    + (* set *)
      rewrite exec_MSet, spec_TColl. destruct d; auto.
      assert (Ha : forall x, In x l -> agree (ex fuel (compile o None t) x) (sp fuel None t x))
        by (intros x Hx; apply Helt; eapply wf_data_list; eassumption).
      pose proof (elts_agree _ _ l Ha O) as E.
      pose proof (elts_hashable _ _ l Ha (fun x v _ Hv => spec_hashable fuel t None x v Hhash Hv) O) as Eh.
      destruct (elts_loop (ex fuel (compile o None t)) 0 l) as [vs ch [st|]].
      * destruct E as [->|E]; auto. rewrite E. auto.
      * destruct (Eh vs ch eq_refl) as [Eh'|Eh']; [rewrite Eh'; destruct (forallb hashable vs); auto; destruct (finish _ _ _ _); auto|].
        rewrite Eh'. destruct (all_ok _) as [[vs'|]|] eqn:Ea; auto.
        -- destruct E as [-> ->]. apply finish_nil.
        -- destruct (finish_children (PList l) (ocons cons_list acc) ch (VSet (fold_left set_add vs [])) E) as [e He].
           rewrite He. auto.
    + (* frozenset *)
      rewrite exec_MFrozenSet, spec_coll_kind.
      destruct (ex fuel _ d) eqn:G; destruct (sp fuel acc (TColl KList t) d) eqn:Hs; simpl in ListAgree; try contradiction; auto.
      subst v0. destruct d; try (rewrite spec_TColl in Hs; discriminate).
      assert (exists vs, v = VList vs) as [vs ->].
      { rewrite spec_TColl in Hs. destruct (all_ok _) as [[vs|]|]; try discriminate. apply accept_ok in Hs. eauto. }
      rewrite (forall2_hashable fuel t l vs Hhash (spec_list_elems _ _ _ _ _ Hs)). reflexivity.
    + (* variadic tuple *)
      rewrite exec_MVarTuple, spec_coll_kind.
      destruct (ex fuel _ d) eqn:G; destruct (sp fuel acc (TColl KList t) d) eqn:Hs; simpl in ListAgree; try contradiction; auto.
      subst v0. destruct d; try (rewrite spec_TColl in Hs; discriminate).
      assert (exists vs, v = VList vs) as [vs ->].
      { rewrite spec_TColl in Hs. destruct (all_ok _) as [[vs|]|]; try discriminate. apply accept_ok in Hs. eauto. }
      reflexivity.
    + (* Sequence / Collection: deserialized as a list *)
      rewrite spec_coll_kind.
      destruct (ex fuel _ d) eqn:G; destruct (sp fuel acc (TColl KList t) d) eqn:Hs; simpl in ListAgree; try contradiction; auto.
      subst v0. destruct d; try (rewrite spec_TColl in Hs; discriminate).
      assert (exists vs, v = VList vs) as [vs ->].
      { rewrite spec_TColl in Hs. destruct (all_ok _) as [[vs|]|]; try discriminate. apply accept_ok in Hs. eauto. }
      reflexivity.
    + (* Sequence / Collection: deserialized as a list *)
      rewrite spec_coll_kind.
      destruct (ex fuel _ d) eqn:G; destruct (sp fuel acc (TColl KList t) d) eqn:Hs; simpl in ListAgree; try contradiction; auto.
      subst v0. destruct d; try (rewrite spec_TColl in Hs; discriminate).
      assert (exists vs, v = VList vs) as [vs ->].
      { rewrite spec_TColl in Hs. destruct (all_ok _) as [[vs|]|]; try discriminate. apply accept_ok in Hs. eauto. }
      reflexivity.
    + (* AbstractSet: deserialized as a set *)
      rewrite exec_MSet, spec_TColl. destruct d; auto.
      assert (Ha : forall x, In x l -> agree (ex fuel (compile o None t) x) (sp fuel None t x))
        by (intros x Hx; apply Helt; eapply wf_data_list; eassumption).
      pose proof (elts_agree _ _ l Ha O) as E.
      pose proof (elts_hashable _ _ l Ha (fun x v _ Hv => spec_hashable fuel t None x v Hhash Hv) O) as Eh.
      destruct (elts_loop (ex fuel (compile o None t)) 0 l) as [vs ch [st|]].
      * destruct E as [->|E]; auto. rewrite E. auto.
      * destruct (Eh vs ch eq_refl) as [Eh'|Eh']; [rewrite Eh'; destruct (forallb hashable vs); auto; destruct (finish _ _ _ _); auto|].
        rewrite Eh'. destruct (all_ok _) as [[vs'|]|] eqn:Ea; auto.
        -- destruct E as [-> ->]. apply finish_nil.
        -- destruct (finish_children (PList l) (ocons cons_list acc) ch (VSet (fold_left set_add vs [])) E) as [e He].
           rewrite He. auto.
  - (* fixed tuples *)
    cbn [compile]. unfold wrap_coerce. rewrite strict, exec_MTuple, spec_TTuple. destruct d; auto. cbv zeta.
    rewrite map_length.
    destruct (Nat.ltb_spec (List.length l) (List.length ts)) as [L1|L1];
      [destruct (Nat.eqb_spec (List.length l) (List.length ts)); [lia|simpl; auto]|].
    destruct (Nat.ltb_spec (List.length ts) (List.length l)) as [L2|L2];
      [destruct (Nat.eqb_spec (List.length l) (List.length ts)); [lia|simpl; auto]|].
    assert (Hlen : List.length l = List.length ts) by lia. rewrite Hlen, Nat.eqb_refl. cbn [negb].
    cbn [wf_ty union_order_ok] in Hwt, Huo.
    assert (HF : Forall (fun t => forall x, In x l -> agree (ex fuel (compile o None t) x) (sp fuel None t x)) ts).
    { rewrite Forall_forall in *. intros t Hin x Hx. apply H; [exact Hin|eapply forallb_In; eassumption|eapply forallb_In; eassumption|].
      eapply wf_data_list; eassumption. }
    assert (TA : forall ts' l' i, List.length l' = List.length ts' ->
               Forall (fun t => forall x, In x l' -> agree (ex fuel (compile o None t) x) (sp fuel None t x)) ts' ->
               match tuple_loop (ex fuel) i (map (compile o None) ts') l' with
               | A3 _ _ (Some st) => st = RFuel \/ all_ok (zip_spec (sp fuel None) ts' l') = None
               | A3 vs ch None =>
                   match all_ok (zip_spec (sp fuel None) ts' l') with
                   | None => True
                   | Some None => ch <> []
                   | Some (Some vs') => ch = [] /\ vs = vs'
                   end
               end).
    { clear. induction ts' as [|t ts' IH]; intros [|x l'] i Hl HF'; simpl in Hl; try discriminate; simpl; [auto|].
      inversion HF' as [|? ? Ht Hts]; subst. specialize (Ht x (or_introl eq_refl)).
      assert (IH' := IH l' (S i) ltac:(lia)).
      assert (Hts' : Forall (fun t0 => forall x0, In x0 l' -> agree (ex fuel (compile o None t0) x0) (sp fuel None t0 x0)) ts').
      { rewrite Forall_forall in *. intros t0 H0 x0 Hx0. apply Hts; [exact H0|right; exact Hx0]. }
      specialize (IH' Hts').
      destruct (ex fuel (compile o None t) x) eqn:G; destruct (sp fuel None t x) eqn:Hh; simpl in Ht; try contradiction; simpl;
        destruct (tuple_loop (ex fuel) (S i) (map (compile o None) ts') l') as [vs ch [st|]]; simpl;
        destruct (all_ok (zip_spec (sp fuel None) ts' l')) as [[vs'|]|]; simpl;
        intuition (try discriminate; try congruence; subst; auto). }
    specialize (TA ts l O Hlen HF).
    destruct (tuple_loop (ex fuel) 0 (map (compile o None) ts) l) as [vs ch [st|]].
    + destruct TA as [->|TA]; auto. rewrite TA. auto.
    + destruct (all_ok _) as [[vs'|]|]; auto.
      * destruct TA as [-> ->]. apply finish_nil.
      * destruct (finish_children (PList l) (ocons cons_list acc) ch (VTuple vs) TA) as [e He]. rewrite He. auto.
  - (* mappings *)
    cbn [wf_ty union_order_ok] in Hwt, Huo.
    apply andb_true_iff in Hwt. destruct Hwt as [Hwt Hkey]. apply andb_true_iff in Hwt. destruct Hwt as [Hw1 Hw2].
    apply andb_true_iff in Huo. destruct Huo as [Hu1 Hu2].
    cbn [compile]. unfold wrap_coerce. rewrite strict.
    assert (Common : forall kvs, d = PDict kvs ->
              match map_loop (ex fuel (compile o None t1)) (ex fuel (compile o None t2)) kvs with
              | (_, _, Some st) => st = RFuel \/ sp fuel acc (TMap t1 t2) d = SFuel
              | (items, ch, None) =>
                  sp fuel acc (TMap t1 t2) d = SFuel \/
                  (forallb (fun kv => hashable (fst kv)) items = true /\
                   ((ch <> [] /\ sp fuel acc (TMap t1 t2) d = SRej) \/
                    (ch = [] /\
                     sp fuel acc (TMap t1 t2) d =
                     accept (ocons cons_dict acc) d (VDict (fold_left (fun a kv => dict_set a (fst kv) (snd kv)) items [])))))
              end).
    { intros kvs ->. destruct (wf_data_dict _ Hwd) as [Hnd Hsub].
      pose proof (map_agree (ex fuel (compile o None t1)) (ex fuel (compile o None t2))
                            (sp fuel None t1) (sp fuel None t2) kvs) as MA.
      assert (M1 : forall k, agree (ex fuel (compile o None t1) (PStr k)) (sp fuel None t1 (PStr k)))
        by (intros; apply IHt1; auto).
      assert (M2 : forall x, In x (map snd kvs) -> agree (ex fuel (compile o None t2) x) (sp fuel None t2 x)).
      { intros x Hx. apply in_map_iff in Hx. destruct Hx as [[k x'] [<- Hin]]. apply IHt2; auto. eapply Hsub. exact Hin. }
      specialize (MA M1 M2).
      pose proof (map_items_keys (ex fuel (compile o None t1)) (ex fuel (compile o None t2))
                                 (sp fuel None t1) (sp fuel None t2) kvs M1) as MK.
      rewrite spec_TMap.
      destruct (map_loop _ _ kvs) as [[items ch] [st|]].
      - destruct MA as [->|[MA|MA]]; auto; right; rewrite MA; [reflexivity|].
        destruct (all_ok (map (fun kv => sp fuel None t1 (PStr (fst kv))) kvs)) as [[?|]|]; reflexivity.
      - destruct (MK items ch eq_refl) as [MK'|MK']; [left; rewrite MK'; reflexivity|].
        assert (Hh : forallb (fun kv : value * value => hashable (fst kv)) items = true).
        { clear - MK' Hkey. induction MK' as [|it items [k Hx] _ IH]; simpl; [reflexivity|]. rewrite IH, andb_true_r.
          apply orb_true_iff in Hkey. destruct Hkey as [Hk|Hk].
          - eapply spec_hashable; eassumption.
          - destruct t1; try discriminate. rewrite spec_TAny in Hx. apply accept_ok in Hx. rewrite <- Hx. reflexivity. }
        destruct (all_ok (map (fun kv => sp fuel None t1 (PStr (fst kv))) kvs)) as [[ks|]|] eqn:Ek;
          destruct (all_ok (map (fun kv => sp fuel None t2 (snd kv)) kvs)) as [[vs|]|] eqn:Ev; auto;
          right; (split; [exact Hh|]); auto.
        destruct MA as [-> ->]. right. split; reflexivity. }
    destruct (o_nocopy o && check_only (compile o None t1) && check_only (compile o None t2))%bool eqn:Eco.
    + rewrite exec_MMapCheck. destruct d; try (rewrite spec_TMap; auto; fail).
      specialize (Common l eq_refl).
      destruct (map_loop _ _ l) as [[items ch] [st|]].
      * destruct Common as [->|C]; auto. rewrite C. auto.
      * destruct Common as [C|[_ [[Hc C]|[Hc C]]]]; rewrite C; auto.
        -- destruct (finish_children (PDict l) (ocons cons_dict acc) ch (embed (PDict l)) Hc) as [e He]. rewrite He. auto.
        -- subst ch. pose proof (finish_nil (PDict l) (ocons cons_dict acc) (embed (PDict l))) as Fn.
           unfold accept in *. destruct (all_valid _ _) eqn:Ev; [|exact Fn].
           assert (Hco : check_only (compile o acc (TMap t1 t2)) = true).
           { cbn [compile]. unfold wrap_coerce. rewrite strict, Eco. reflexivity. }
           rewrite (check_only_embed fuel _ _ _ _ Hwd Hco C). exact Fn.
    + rewrite exec_MMap. destruct d; try (rewrite spec_TMap; auto; fail).
      specialize (Common l eq_refl).
      destruct (map_loop _ _ l) as [[items ch] [st|]].
      * destruct Common as [->|C]; auto. rewrite C. auto.
      * destruct Common as [C|[Hh [[Hc C]|[Hc C]]]]; rewrite C; auto; rewrite Hh.
        -- destruct (finish_children (PDict l) (ocons cons_dict acc) ch
                       (VDict (fold_left (fun a kv => dict_set a (fst kv) (snd kv)) items [])) Hc) as [e He]. rewrite He. auto.
        -- subst ch. apply finish_nil.
  - (* literal *)
    cbn [compile]. rewrite strict, exec_MLiteral, spec_TLit. apply literal_agree.
  - (* enum *)
    cbn [compile]. rewrite strict, exec_MLiteral, spec_TEnum. apply literal_agree.
  - (* constraints *)
    cbn [compile]. rewrite spec_TCon. apply IHt; assumption.
  - (* unions *)
    cbn [wf_ty union_order_ok] in Hwt, Huo.
    apply andb_true_iff in Hwt. destruct Hwt as [Hwt Hne]. apply andb_true_iff in Huo. destruct Huo as [Huo Hfbi].
    apply negb_true_iff in Hfbi.
    assert (HA : Forall (fun t => agree (ex fuel (compile o acc t) d) (sp fuel acc t d)) ts).
    { rewrite Forall_forall in *. intros t Hin. apply H; [exact Hin|eapply forallb_In; eassumption|eapply forallb_In; eassumption|exact Hwd]. }
    rewrite spec_TUnion.
    pose proof (compile_union_shape acc ts) as Sh.
    remember (compile o acc (TUnion ts)) as m eqn:Em. clear Em.
    destruct Sh as [t1 E|b E Hb|a E Ha|E1 E2|].
    + subst ts. inversion HA as [|? ? A1 _]; subst. simpl. destruct (sp fuel acc t1 d); auto.
    + subst ts. inversion HA as [|? ? _ A2]; subst. inversion A2 as [|? ? A2' _]; subst.
      rewrite exec_MOptional. simpl. rewrite spec_TNone.
      destruct d; auto; destruct (ex fuel (compile o acc b) _) eqn:G; destruct (sp fuel acc b _) eqn:Hs;
        simpl in A2'; try contradiction; subst; auto.
    + subst ts. inversion HA as [|? ? A1 A2]; subst.
      rewrite exec_MOptional. simpl. rewrite spec_TNone.
      destruct d; try (destruct (ex fuel (compile o acc a) _) eqn:G; destruct (sp fuel acc a _) eqn:Hs;
        simpl in A1; try contradiction; subst; auto; fail).
      destruct (sp fuel acc a PNone) eqn:Hs; auto.
      rewrite (spec_none_value fuel Henum a acc v Hs). reflexivity.
    + rewrite (flat_some_eq ts E1) in *. apply bytype_agree; assumption.
    + rewrite exec_MUnion. apply alts_agree; [exact HA|]. right. destruct ts; [discriminate|discriminate].
  - (* objects *)
    cbn [compile]. unfold wrap_coerce. rewrite strict. apply Hobj. exact Hwd.
Qed.

(* ---------------------------------------------------------------- the main theorem *)
Theorem exec_spec_agree :
  wf_univ u o = true ->
  forall fuel t acc d, wf_ty t = true -> union_order_ok t = true -> wf_data d = true ->
  agree (ex fuel (compile o acc t) d) (sp fuel acc t d).
Proof.
  intros Hwfu. induction fuel as [|f IH]; intros t acc d H1 H2 H3.
  - apply types_agree; try assumption. intros cid acc' d' _. rewrite exec_MRec_O. apply agree_fuel_l.
  - apply types_agree; try assumption. intros cid acc' d' Hd'. rewrite exec_MRec_S.
    apply obj_agree; try assumption. intros acc'' t'' d'' W1 W2 W3. apply IH; assumption.
Qed.

End Main.

(* ---------------------------------------------------------------- packaged for the property files *)
Definition strict_opts (o : dopts) : Prop := o_coerce o = false.

Theorem deserialize_agrees_with_spec u o fuel root t d :
  strict_opts o -> wf_univ u o = true -> wf_ty t = true -> union_order_ok t = true -> wf_data d = true ->
  agree (deserialize u o fuel root t d) (spec_deserialize u o fuel root t d).
Proof. intros S W. unfold deserialize, spec_deserialize. apply exec_spec_agree; assumption. Qed.

(* accept <-> conform, value = typed image, never a crash (whenever the fuel suffices on both sides) *)
Corollary deserialize_ok_iff u o fuel root t d :
  strict_opts o -> wf_univ u o = true -> wf_ty t = true -> union_order_ok t = true -> wf_data d = true ->
  deserialize u o fuel root t d <> RFuel -> spec_deserialize u o fuel root t d <> SFuel ->
  (forall v, deserialize u o fuel root t d = ROk v <-> spec_deserialize u o fuel root t d = SOk v)
  /\ ((exists e, deserialize u o fuel root t d = RErr e) <-> spec_deserialize u o fuel root t d = SRej)
  /\ (forall w, deserialize u o fuel root t d <> RCrash w).
Proof.
  intros S W T1 T2 D NF1 NF2. pose proof (deserialize_agrees_with_spec u o fuel root t d S W T1 T2 D) as A.
  destruct (deserialize u o fuel root t d) eqn:E1; destruct (spec_deserialize u o fuel root t d) eqn:E2;
    simpl in A; try contradiction; try congruence; subst.
  - split; [intros v'; split; intros X; congruence|]. split; [split; [intros [e X]; discriminate|discriminate]|intros; discriminate].
  - split; [intros v'; split; discriminate|]. split; [split; [reflexivity|intros _; eexists; reflexivity]|intros; discriminate].
Qed.
