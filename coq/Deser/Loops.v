(* Strict-mode correctness of the compiled deserializer: exec (compile t) agrees with the declarative spec. *)
From Coq Require Import List String ZArith Bool Arith Lia.
From AV Require Import Core.Json Core.Errors Core.Text Deser.Model Deser.Spec Deser.Unfold.
Import ListNotations.

(* ------------------------------------------------------------------ agreement *)
Definition agree (r : res) (s : sres) : Prop :=
  match r, s with
  | RFuel, _ => True
  | _, SFuel => True
  | ROk v, SOk v' => v = v'
  | RErr _, SRej => True
  | _, _ => False
  end.

Lemma agree_fuel_l s : agree RFuel s. Proof. destruct s; exact I. Qed.
Lemma agree_fuel_r r : agree r SFuel. Proof. destruct r; exact I. Qed.
Lemma agree_err e : agree (RErr e) SRej. Proof. exact I. Qed.
Lemma agree_ok v : agree (ROk v) (SOk v). Proof. reflexivity. Qed.
#[local] Hint Resolve agree_fuel_l agree_fuel_r agree_err agree_ok : core.

(* ------------------------------------------------------------------ constraints *)
Lemma filter_nil_forallb {A} (f : A -> bool) l : filter (fun x => negb (f x)) l = [] <-> forallb f l = true.
Proof.
  induction l as [|x l IH]; simpl; [tauto|].
  destruct (f x); simpl; [exact IH|]. split; discriminate.
Qed.

Lemma validate_nil d cs :
  validate_constraints d cs [] = if all_valid cs d then None else Some (VE (map cmsg (filter (fun k => negb (cvalid k d)) cs)) []).
Proof.
  unfold validate_constraints, all_valid.
  destruct (filter (fun k => negb (cvalid k d)) cs) eqn:F.
  - apply filter_nil_forallb in F. rewrite F. reflexivity.
  - destruct (forallb (fun k => cvalid k d) cs) eqn:E; [|reflexivity].
    apply filter_nil_forallb in E. rewrite E in F. discriminate.
Qed.

Lemma finish_nil d cs v : agree (finish d cs [] v) (accept cs d v).
Proof.
  unfold finish, accept. rewrite validate_nil. destruct (all_valid cs d); simpl; auto.
Qed.

Lemma finish_nil_eq d cs v :
  finish d cs [] v = if all_valid cs d then ROk v
                     else RErr (VE (map cmsg (filter (fun k => negb (cvalid k d)) cs)) []).
Proof. unfold finish. rewrite validate_nil. destruct (all_valid cs d); reflexivity. Qed.

Lemma finish_children d cs ch v : ch <> [] -> exists e, finish d cs ch v = RErr e.
Proof.
  intros H. unfold finish, validate_constraints.
  destruct (filter _ cs); [destruct ch; [congruence|]|]; eexists; reflexivity.
Qed.

(* ------------------------------------------------------------------ array loops *)
Lemma elts_agree (g : pyval -> res) (h : pyval -> sres) l :
  (forall x, In x l -> agree (g x) (h x)) ->
  forall i,
  match elts_loop g i l with
  | A3 _ _ (Some st) => st = RFuel \/ all_ok (map h l) = None
  | A3 vs ch None =>
      match all_ok (map h l) with
      | None => True
      | Some None => ch <> []
      | Some (Some vs') => ch = [] /\ vs = vs'
      end
  end.
Proof.
  induction l as [|x l IH]; intros H i; simpl; [auto|].
  assert (Hx := H x (or_introl eq_refl)).
  assert (Hl : forall y, In y l -> agree (g y) (h y)) by (intros; apply H; right; assumption).
  specialize (IH Hl (S i)).
  destruct (g x) eqn:G; destruct (h x) eqn:Hh; simpl in Hx; try contradiction; simpl;
    destruct (elts_loop g (S i) l) as [vs ch [st|]]; simpl;
    destruct (all_ok (map h l)) as [[vs'|]|]; simpl;
    intuition (try discriminate; try congruence; subst; auto).
Qed.

(* the outcome of an array method, from the loop and the constraints *)
Lemma array_result (g : pyval -> res) (h : pyval -> sres) l d cs (mk : list value -> value) :
  (forall x, In x l -> agree (g x) (h x)) ->
  agree (match elts_loop g O l with
         | A3 _ _ (Some st) => st
         | A3 vs ch None => finish d cs ch (mk vs)
         end)
        (match all_ok (map h l) with
         | None => SFuel
         | Some None => SRej
         | Some (Some vs) => accept cs d (mk vs)
         end).
Proof.
  intros H. pose proof (elts_agree g h l H O) as E.
  destruct (elts_loop g O l) as [vs ch [st|]].
  - destruct E as [E|E]; subst; auto. rewrite E. auto.
  - destruct (all_ok (map h l)) as [[vs'|]|]; auto.
    + destruct E; subst. apply finish_nil.
    + destruct (finish_children d cs ch (mk vs) E) as [e He]. rewrite He. auto.
Qed.

(* ------------------------------------------------------------------ tuple loop *)
Lemma tuple_agree (g : meth -> pyval -> res) (h : ty -> pyval -> sres) (cmp : ty -> meth) ts :
  Forall (fun t => forall x, agree (g (cmp t) x) (h t x)) ts ->
  forall l i, List.length l = List.length ts ->
  match tuple_loop g i (map cmp ts) l with
  | A3 _ _ (Some st) => st = RFuel \/ all_ok (zip_spec h ts l) = None
  | A3 vs ch None =>
      match all_ok (zip_spec h ts l) with
      | None => True
      | Some None => ch <> []
      | Some (Some vs') => ch = [] /\ vs = vs'
      end
  end.
Proof.
  induction 1 as [|t ts Ht Hts IH]; intros l i Hlen; destruct l as [|x l]; simpl in Hlen; try discriminate; simpl; [auto|].
  injection Hlen as Hlen. specialize (IH l (S i) Hlen). specialize (Ht x).
  destruct (g (cmp t) x) eqn:G; destruct (h t x) eqn:Hh; simpl in Ht; try contradiction; simpl;
    destruct (tuple_loop g (S i) (map cmp ts) l) as [vs ch [st|]]; simpl;
    destruct (all_ok (zip_spec h ts l)) as [[vs'|]|]; simpl;
    intuition (try discriminate; try congruence; subst; auto).
Qed.

(* ------------------------------------------------------------------ mapping loop *)
Lemma map_agree (gk gv : pyval -> res) (hk hv : pyval -> sres) kvs :
  (forall k, agree (gk (PStr k)) (hk (PStr k))) ->
  (forall x, In x (map snd kvs) -> agree (gv x) (hv x)) ->
  match map_loop gk gv kvs with
  | (_, _, Some st) => st = RFuel \/ all_ok (map (fun kv => hk (PStr (fst kv))) kvs) = None
                       \/ all_ok (map (fun kv => hv (snd kv)) kvs) = None
  | (items, ch, None) =>
      match all_ok (map (fun kv => hk (PStr (fst kv))) kvs), all_ok (map (fun kv => hv (snd kv)) kvs) with
      | None, _ | _, None => True
      | Some None, _ | _, Some None => ch <> []
      | Some (Some ks), Some (Some vs) => ch = [] /\ items = combine ks vs
      end
  end.
Proof.
  intros Hk. induction kvs as [|[k x] kvs IH]; intros Hv; simpl; [auto|].
  assert (Hx := Hv x (or_introl eq_refl)). specialize (Hk k) as Hkk.
  assert (Hl : forall y, In y (map snd kvs) -> agree (gv y) (hv y)) by (intros; apply Hv; right; assumption).
  specialize (IH Hl).
  destruct (gk (PStr k)) eqn:G1; destruct (hk (PStr k)) eqn:H1; simpl in Hkk; try contradiction;
    destruct (gv x) eqn:G2; destruct (hv x) eqn:H2; simpl in Hx; try contradiction; simpl;
    destruct (map_loop gk gv kvs) as [[items ch] [st|]]; simpl;
    destruct (all_ok (map (fun kv => hk (PStr (fst kv))) kvs)) as [[ks|]|]; simpl;
    destruct (all_ok (map (fun kv => hv (snd kv)) kvs)) as [[vs|]|]; simpl;
    intuition (try discriminate; try congruence; subst; auto).
Qed.

(* ------------------------------------------------------------------ all_ok facts *)
Lemma all_ok_some {A} (h : A -> sres) l vs :
  all_ok (map h l) = Some (Some vs) -> Forall2 (fun x v => h x = SOk v) l vs.
Proof.
  revert vs. induction l as [|x l IH]; simpl; intros vs H.
  - injection H as <-. constructor.
  - destruct (h x) eqn:E; destruct (all_ok (map h l)) as [[vs'|]|]; try discriminate.
    injection H as <-. constructor; [exact E|apply IH; reflexivity].
Qed.

Lemma zip_ok_some (h : ty -> pyval -> sres) ts l vs :
  List.length l = List.length ts ->
  all_ok (zip_spec h ts l) = Some (Some vs) ->
  Forall2 (fun tx v => h (fst tx) (snd tx) = SOk v) (combine ts l) vs.
Proof.
  revert l vs. induction ts as [|t ts IH]; intros [|x l] vs Hlen H; simpl in *; try discriminate.
  - injection H as <-. constructor.
  - destruct (h t x) eqn:E; destruct (all_ok (zip_spec h ts l)) as [[vs'|]|] eqn:E2; try discriminate.
    injection H as <-. constructor; [exact E|]. apply IH; [lia|exact E2].
Qed.

(* ------------------------------------------------------------------ hashability of images *)
Section TyInd.
  Variable Q : ty -> Prop.
  Hypothesis HNone : Q TNone.
  Hypothesis HBool : Q TBool.
  Hypothesis HInt : Q TInt.
  Hypothesis HFloat : Q TFloat.
  Hypothesis HStr : Q TStr.
  Hypothesis HAny : Q TAny.
  Hypothesis HColl : forall k t, Q t -> Q (TColl k t).
  Hypothesis HTuple : forall ts, Forall Q ts -> Q (TTuple ts).
  Hypothesis HMap : forall kt vt, Q kt -> Q vt -> Q (TMap kt vt).
  Hypothesis HLit : forall vs, Q (TLit vs).
  Hypothesis HEnum : forall e, Q (TEnum e).
  Hypothesis HCon : forall c t, Q t -> Q (TCon c t).
  Hypothesis HUnion : forall ts, Forall Q ts -> Q (TUnion ts).
  Hypothesis HObj : forall c, Q (TObj c).

  Fixpoint ty_ind' (t : ty) : Q t :=
    match t with
    | TNone => HNone | TBool => HBool | TInt => HInt | TFloat => HFloat | TStr => HStr | TAny => HAny
    | TColl k t' => HColl k t' (ty_ind' t')
    | TTuple ts => HTuple ts ((fix go (l : list ty) : Forall Q l :=
                                 match l with [] => Forall_nil Q | x :: r => Forall_cons x (ty_ind' x) (go r) end) ts)
    | TMap kt vt => HMap kt vt (ty_ind' kt) (ty_ind' vt)
    | TLit vs => HLit vs
    | TEnum e => HEnum e
    | TCon c t' => HCon c t' (ty_ind' t')
    | TUnion ts => HUnion ts ((fix go (l : list ty) : Forall Q l :=
                                 match l with [] => Forall_nil Q | x :: r => Forall_cons x (ty_ind' x) (go r) end) ts)
    | TObj c => HObj c
    end.
End TyInd.

