(* C08 (deserialization side): no_copy and the constructor choice never change results. *)
From Coq Require Import List String ZArith Bool Arith Lia.
From AV Require Import Core.Json Core.Errors Core.Text Deser.Model Deser.Spec Deser.Unfold Deser.Loops Deser.Proofs.
Import ListNotations.

Section Ext.
Variable u : univ.
Variable o1 o2 : dopts.
Hypothesis Hadd : o_addprops o1 = o_addprops o2.
Hypothesis Hfb : o_fallback o1 = o_fallback o2.
Hypothesis Hal : forall s, o_aliaser o1 s = o_aliaser o2 s.

Lemma requiring_ext cd name : requiring o1 cd name = requiring o2 cd name.
Proof.
  unfold requiring. induction (cd_depreq cd) as [|[f reqs] l IH]; simpl; [reflexivity|].
  rewrite IH. destruct (existsb (String.eqb name) reqs); [|reflexivity].
  destruct (find _ (cd_fields cd)); [rewrite Hal|]; reflexivity.
Qed.

Lemma all_ok_ext {A} (h1 h2 : A -> sres) l : (forall x, In x l -> h1 x = h2 x) -> all_ok (map h1 l) = all_ok (map h2 l).
Proof.
  induction l as [|x l IH]; intros H; simpl; [reflexivity|].
  rewrite (H x (or_introl eq_refl)), IH; [reflexivity|]. intros. apply H. right. assumption.
Qed.

(* the specification only reads additional_properties, fall_back_on_default and the aliaser *)
Lemma spec_opts_ext : forall fuel t acc d, spec u o1 fuel acc t d = spec u o2 fuel acc t d.
Proof.
  induction fuel as [|f IHf].
  - intros t acc d. reflexivity.
  - induction t using ty_ind'; intros acc d;
      rewrite ?spec_TNone, ?spec_TBool, ?spec_TInt, ?spec_TFloat, ?spec_TStr, ?spec_TAny, ?spec_TLit, ?spec_TEnum;
      try reflexivity.
    + rewrite !spec_TColl. destruct d; try reflexivity. rewrite (all_ok_ext _ (spec u o2 (S f) None t) l); [reflexivity|]. intros; apply IHt.
    + rewrite !spec_TTuple. destruct d; try reflexivity. destruct (negb _); [reflexivity|].
      assert (E : zip_spec (spec u o1 (S f) None) ts l = zip_spec (spec u o2 (S f) None) ts l).
      { revert l. induction H as [|t ts Ht _ IH]; intros [|x l]; simpl; try reflexivity. rewrite Ht, IH. reflexivity. }
      rewrite E. reflexivity.
    + rewrite !spec_TMap. destruct d; try reflexivity.
      rewrite (all_ok_ext (fun kv => spec u o1 (S f) None t1 (PStr (fst kv)))
                          (fun kv => spec u o2 (S f) None t1 (PStr (fst kv))) l) by (intros; apply IHt1).
      rewrite (all_ok_ext (fun kv : string * pyval => spec u o1 (S f) None t2 (snd kv))
                          (fun kv => spec u o2 (S f) None t2 (snd kv)) l) by (intros; apply IHt2). reflexivity.
    + rewrite !spec_TCon. apply IHt.
    + rewrite !spec_TUnion. induction H as [|t ts Ht _ IH]; cbn [first_spec]; [reflexivity|]. rewrite Ht, IH. reflexivity.
    + rewrite !spec_TObj_S. cbv zeta. destruct d; try reflexivity.
      assert (Ef : forall fd, spec_field u o1 f (get_cls u c) l fd = spec_field u o2 f (get_cls u c) l fd).
      { intros fd. unfold spec_field. rewrite Hal, Hfb, requiring_ext. destruct (dict_get _ l); [rewrite IHf|]; reflexivity. }
      assert (Em : map (spec_field u o1 f (get_cls u c) l) (cd_fields (get_cls u c))
                   = map (spec_field u o2 f (get_cls u c) l) (cd_fields (get_cls u c)))
        by (apply map_ext; exact Ef).
      assert (Ea : map (fun fd => o_aliaser o1 (fd_alias fd)) (cd_fields (get_cls u c))
                   = map (fun fd => o_aliaser o2 (fd_alias fd)) (cd_fields (get_cls u c)))
        by (apply map_ext; intros; apply Hal).
      rewrite Em, Ea, Hadd. reflexivity.
Qed.
End Ext.

Definition same_outcome (a b : res) : Prop :=
  match a, b with
  | ROk v, ROk v' => v = v'
  | RErr _, RErr _ => True
  | RFuel, _ | _, RFuel => True
  | _, _ => False
  end.

(* two option records differing only by no_copy: same accepted value / both reject, for every type and datum *)
Theorem no_copy_irrelevant u o1 o2 fuel root t d :
  strict_opts o1 -> strict_opts o2 ->
  o_addprops o1 = o_addprops o2 -> o_fallback o1 = o_fallback o2 -> (forall s, o_aliaser o1 s = o_aliaser o2 s) ->
  wf_univ u o1 = true -> wf_univ u o2 = true -> wf_ty t = true -> union_order_ok t = true -> wf_data d = true ->
  spec_deserialize u o1 fuel root t d <> SFuel ->
  same_outcome (deserialize u o1 fuel root t d) (deserialize u o2 fuel root t d).
Proof.
  intros S1 S2 Ha Hf Hal W1 W2 T1 T2 D NF.
  pose proof (deserialize_agrees_with_spec u o1 fuel root t d S1 W1 T1 T2 D) as A1.
  pose proof (deserialize_agrees_with_spec u o2 fuel root t d S2 W2 T1 T2 D) as A2.
  unfold spec_deserialize in *. rewrite <- (spec_opts_ext u o1 o2 Ha Hf Hal) in A2.
  destruct (deserialize u o1 fuel root t d); destruct (deserialize u o2 fuel root t d);
    destruct (spec u o1 fuel root t d); simpl in *; try contradiction; try congruence; auto.
Qed.
