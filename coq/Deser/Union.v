(* C13: a compiled union (Optional / by-type / sequential strategy) behaves as "try each alternative in order". *)
From Coq Require Import List String ZArith Bool Arith Lia.
From AV Require Import Core.Json Core.Errors Core.Text Deser.Model Deser.Spec Deser.Unfold Deser.Loops Deser.Proofs.
Import ListNotations.

(* result of trying the alternatives in order: the first one that does not reject *)
Fixpoint first_res (rs : list res) : res :=
  match rs with
  | [] => RErr (VE [] [])
  | RErr _ :: rest => first_res rest
  | other :: _ => other
  end.

Section U.
Variable u : univ.
Variable o : dopts.
Hypothesis strict : o_coerce o = false.
Hypothesis Hwf : wf_univ u o = true.

Lemma first_rel (g : ty -> res) (h : ty -> sres) ts :
  Forall (fun t => agree (g t) (h t) /\ g t <> RFuel /\ h t <> SFuel) ts ->
  match first_spec h ts, first_res (map g ts) with
  | SOk v, ROk v' => v = v'
  | SRej, RErr _ => True
  | _, _ => False
  end.
Proof.
  induction 1 as [|t ts [Ha [Hg Hh]] _ IH]; simpl; [exact I|].
  destruct (g t) eqn:G; destruct (h t) eqn:Hs; simpl in Ha; try contradiction; try congruence; auto.
Qed.

Theorem union_is_first_accepting fuel acc ts d :
  wf_ty (TUnion ts) = true -> union_order_ok (TUnion ts) = true -> wf_data d = true ->
  Forall (fun t => exec u o fuel (compile o acc t) d <> RFuel /\ spec u o fuel acc t d <> SFuel) ts ->
  exec u o fuel (compile o acc (TUnion ts)) d <> RFuel ->
  kind_eq (exec u o fuel (compile o acc (TUnion ts)) d)
          (first_res (map (fun t => exec u o fuel (compile o acc t) d) ts)).
Proof.
  intros W1 W2 Wd Hnf Hnfu.
  pose proof (exec_spec_agree u o strict Hwf fuel (TUnion ts) acc d W1 W2 Wd) as A.
  rewrite spec_TUnion in A.
  assert (HF : Forall (fun t => agree (exec u o fuel (compile o acc t) d) (spec u o fuel acc t d)
                               /\ exec u o fuel (compile o acc t) d <> RFuel /\ spec u o fuel acc t d <> SFuel) ts).
  { rewrite Forall_forall in *. intros t Hin. destruct (Hnf t Hin) as [N1 N2]. split; [|split; assumption].
    cbn [wf_ty union_order_ok] in W1, W2.
    apply andb_true_iff in W1. destruct W1 as [W1 _]. apply andb_true_iff in W2. destruct W2 as [W2 _].
    apply exec_spec_agree; auto; eapply forallb_In; eassumption. }
  pose proof (first_rel (fun t => exec u o fuel (compile o acc t) d) (fun t => spec u o fuel acc t d) ts HF) as Rl.
  cbv beta in Rl.
  destruct (exec u o fuel (compile o acc (TUnion ts)) d) eqn:E;
    destruct (first_spec (fun t => spec u o fuel acc t d) ts) eqn:E2;
    destruct (first_res (map (fun t => exec u o fuel (compile o acc t) d) ts)) eqn:E3;
    simpl in *; try contradiction; try congruence; auto.
Qed.

(* Optional is the two-alternative case *)
Corollary optional_is_union fuel acc t d :
  wf_ty t = true -> union_order_ok t = true -> wf_data d = true -> is_none_ty t = false ->
  exec u o fuel (compile o acc t) d <> RFuel -> spec u o fuel acc t d <> SFuel ->
  exec u o fuel (compile o acc (TUnion [t; TNone])) d <> RFuel ->
  kind_eq (exec u o fuel (compile o acc (TUnion [t; TNone])) d)
          (first_res [exec u o fuel (compile o acc t) d; exec u o fuel (compile o acc TNone) d]).
Proof.
  intros W1 W2 Wd Hn N1 N2 N3.
  apply (union_is_first_accepting fuel acc [t; TNone] d); auto.
  - cbn [wf_ty forallb]. rewrite W1. reflexivity.
  - cbn [union_order_ok forallb map]. rewrite W2. cbn [andb].
    destruct (ty_cls t) as [[]|]; reflexivity.
  - constructor; [split; assumption|]. constructor; [|constructor]. split.
    + cbn [compile]. unfold wrap_coerce. rewrite strict, exec_MNone. destruct d; discriminate.
    + rewrite spec_TNone. destruct d; discriminate.
Qed.

End U.
