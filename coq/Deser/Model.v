(* Executable model of apischema/deserialization: types, method trees (methods.py), compilation (__init__.py).
   No proofs here.  One constructor of `meth` per method class; `exec` mirrors each `deserialize` body. *)
From Coq Require Import List String ZArith Bool Arith Ascii.
From AV Require Import Core.Json Core.Errors Core.Text Gen.Tables Small.Ordering.
Import ListNotations.
Open Scope string_scope.

(* ------------------------------------------------------------------ constraints *)
Inductive cnum := CI (z : Z) | CF (q : Z).
Definition cnum_q (c : cnum) : Z := match c with CI z => (4 * z)%Z | CF q => q end.
Definition show_cnum (c : cnum) : string := match c with CI z => show_Z z | CF q => show_q q end.

Record constraints := mkC {
  c_min : option cnum; c_max : option cnum; c_excmin : option cnum; c_excmax : option cnum; c_multof : option cnum;
  c_minlen : option nat; c_maxlen : option nat; c_pattern : option string;
  c_minitems : option nat; c_maxitems : option nat; c_unique : bool;
  c_minprops : option nat; c_maxprops : option nat }.

Definition no_constraints : constraints :=
  mkC None None None None None None None None None None false None None.

Definition omerge {A} (f : A -> A -> A) (a b : option A) : option A :=
  match a, b with Some x, Some y => Some (f x y) | Some x, None => Some x | None, o => o end.

(* Python max / min return the first argument on ties *)
Definition cmax (a b : cnum) : cnum := if Z.ltb (cnum_q a) (cnum_q b) then b else a.
Definition cmin (a b : cnum) : cnum := if Z.ltb (cnum_q b) (cnum_q a) then b else a.

(* merge_constraints; multipleOf / pattern are only merged with an absent value (the harness never nests two) *)
Definition merge_c (a b : constraints) : constraints :=
  mkC (omerge cmax (c_min a) (c_min b)) (omerge cmin (c_max a) (c_max b))
      (omerge cmax (c_excmin a) (c_excmin b)) (omerge cmin (c_excmax a) (c_excmax b))
      (omerge (fun x _ => x) (c_multof a) (c_multof b))
      (omerge Nat.max (c_minlen a) (c_minlen b)) (omerge Nat.min (c_maxlen a) (c_maxlen b))
      (omerge (fun x _ => x) (c_pattern a) (c_pattern b))
      (omerge Nat.max (c_minitems a) (c_minitems b)) (omerge Nat.min (c_maxitems a) (c_maxitems b))
      (c_unique a || c_unique b)
      (omerge Nat.max (c_minprops a) (c_minprops b)) (omerge Nat.min (c_maxprops a) (c_maxprops b)).

Definition merge_oc (a b : option constraints) : option constraints := omerge merge_c a b.

Inductive constr :=
| KMin (c : cnum) | KMax (c : cnum) | KExcMin (c : cnum) | KExcMax (c : cnum) | KMultOf (c : cnum)
| KMinLen (n : nat) | KMaxLen (n : nat) | KPattern (p : string)
| KMinItems (n : nat) | KMaxItems (n : nat) | KUnique
| KMinProps (n : nat) | KMaxProps (n : nat).

Definition opt_list {A B} (f : A -> B) (o : option A) : list B := match o with Some x => [f x] | None => [] end.

(* constraints_validators(...)[cls], in the field order of Constraints *)
Definition cons_num (c : constraints) : list constr :=
  (opt_list KMin (c_min c) ++ opt_list KMax (c_max c) ++ opt_list KExcMin (c_excmin c)
  ++ opt_list KExcMax (c_excmax c) ++ opt_list KMultOf (c_multof c))%list.
Definition cons_str (c : constraints) : list constr :=
  (opt_list KMinLen (c_minlen c) ++ opt_list KMaxLen (c_maxlen c) ++ opt_list KPattern (c_pattern c))%list.
Definition cons_list (c : constraints) : list constr :=
  (opt_list KMinItems (c_minitems c) ++ opt_list KMaxItems (c_maxitems c) ++ (if c_unique c then [KUnique] else []))%list.
Definition cons_dict (c : constraints) : list constr :=
  (opt_list KMinProps (c_minprops c) ++ opt_list KMaxProps (c_maxprops c))%list.

Definition ocons (f : constraints -> list constr) (o : option constraints) : list constr :=
  match o with Some c => f c | None => [] end.

(* equality of JSON data after to_hashable (used by UniqueItemsConstraint): JSON equality - numbers are compared
   mathematically, booleans are not numbers, arrays and objects are never equal *)
Fixpoint json_eq (a b : pyval) {struct a} : bool :=
  match a, b with
  | PNone, PNone => true
  | PBool x, PBool y => Bool.eqb x y
  | PInt x, PInt y => Z.eqb x y
  | PInt x, PFloat (FQ q) | PFloat (FQ q), PInt x => Z.eqb (4 * x) q
  | PFloat x, PFloat y => fl_eqb x y
  | PStr x, PStr y => String.eqb x y
  | PList l1, PList l2 => (fix go (l1 l2 : list pyval) : bool :=
                             match l1, l2 with
                             | [], [] => true
                             | x :: r1, y :: r2 => json_eq x y && go r1 r2
                             | _, _ => false end) l1 l2
  | PDict l1, PDict l2 =>
      Nat.eqb (List.length l1) (List.length l2) &&
      (fix all (l1 : list (string * pyval)) : bool :=
         match l1 with
         | [] => true
         | (k, x) :: r1 => match dict_get k l2 with Some y => json_eq x y | None => false end && all r1
         end) l1
  | POther x, POther y => String.eqb x y
  | _, _ => false
  end.

Fixpoint all_distinct (l : list pyval) : bool :=
  match l with [] => true | x :: r => negb (existsb (json_eq x) r) && all_distinct r end.

(* numeric value of the datum in quarters; None for nan / inf (every comparison with nan is False) *)
Definition data_q (d : pyval) : option (option Z) :=
  match d with
  | PInt z => Some (Some (4 * z)%Z)
  | PFloat (FQ q) => Some (Some q)
  | PFloat FNan => Some None
  | _ => None
  end.

Definition cmp_data (d : pyval) (k : Z -> bool) (pos_inf neg_inf : bool) : bool :=
  match d with
  | PInt z => k (4 * z)%Z
  | PFloat (FQ q) => k q
  | PFloat (FInf neg) => if neg then neg_inf else pos_inf
  | _ => false      (* nan: every comparison is False *)
  end.

Definition data_len (d : pyval) : nat :=
  match d with PStr s => String.length s | PList l => List.length l | PDict l => List.length l | _ => 0 end.

(* Constraint.validate *)
Definition cvalid (k : constr) (d : pyval) : bool :=
  match k with
  | KMin c => cmp_data d (fun q => Z.leb (cnum_q c) q) true false
  | KMax c => cmp_data d (fun q => Z.leb q (cnum_q c)) false true
  | KExcMin c => cmp_data d (fun q => Z.ltb (cnum_q c) q) true false
  | KExcMax c => cmp_data d (fun q => Z.ltb q (cnum_q c)) false true
  | KMultOf c => cmp_data d (fun q => Z.eqb (q mod (cnum_q c)) 0) false false
  | KMinLen n | KMinItems n | KMinProps n => Nat.leb n (data_len d)
  | KMaxLen n | KMaxItems n | KMaxProps n => Nat.leb (data_len d) n
  | KPattern p => match d with PStr s => prefixb p s | _ => false end
  | KUnique => match d with PList l => all_distinct l | _ => false end
  end.

Definition cmsg (k : constr) : string :=
  match k with
  | KMin c => render "minimum" (show_cnum c)
  | KMax c => render "maximum" (show_cnum c)
  | KExcMin c => render "exclusive_minimum" (show_cnum c)
  | KExcMax c => render "exclusive_maximum" (show_cnum c)
  | KMultOf c => render "multiple_of" (show_cnum c)
  | KMinLen n => render "min_length" (show_nat n)
  | KMaxLen n => render "max_length" (show_nat n)
  | KPattern p => render "pattern" ("^" ++ p)
  | KMinItems n => render "min_items" (show_nat n)
  | KMaxItems n => render "max_items" (show_nat n)
  | KUnique => render "unique_items" "True"
  | KMinProps n => render "min_properties" (show_nat n)
  | KMaxProps n => render "max_properties" (show_nat n)
  end.

Definition children := list (ekey * verr).

(* validate_constraints: None = no error *)
Definition validate_constraints (d : pyval) (cs : list constr) (ch : children) : option verr :=
  match filter (fun k => negb (cvalid k d)) cs with
  | [] => match ch with [] => None | _ => Some (VE [] ch) end
  | bad => Some (VE (map cmsg bad) ch)
  end.

(* ------------------------------------------------------------------ types and universe *)
(* KSeq / KColl / KAbsSet are the abstract spellings (Sequence, Collection, AbstractSet): deserialized like list / set,
   they matter for serialization only (runtime class of the values, pass-through rules) *)
Inductive ckind := KList | KSet | KFrozenSet | KVarTuple | KSeq | KColl | KAbsSet.

Definition norm_kind (k : ckind) : ckind :=
  match k with KSeq | KColl => KList | KAbsSet => KSet | other => other end.

Inductive ty :=
| TNone | TBool | TInt | TFloat | TStr | TAny
| TColl (k : ckind) (t : ty)
| TTuple (ts : list ty)
| TMap (kt vt : ty)
| TLit (vs : list prim)
| TEnum (eid : nat)
| TCon (c : constraints) (t : ty)        (* Annotated[t, schema(...)] *)
| TUnion (ts : list ty)
| TObj (cid : nat).

Inductive okind := KData | KNamedTuple | KTypedDict.

(* order(...) metadata: `ordering` comes from Small/Ordering.v (model of apischema/ordering.py) *)
(* skip(serialization_if=...) predicates used by the generated classes *)
Inductive skipif := SkipNever | SkipIfNone | SkipIfZero | SkipIfEmptyStr.

(* serialization-only attributes of a field (ignored by deserialization) *)
Record fser := mkFS {
  fs_skip_default : bool;      (* skip(serialization_default=True) *)
  fs_skip_if : skipif;         (* skip(serialization_if=pred) *)
  fs_none_undef : bool;        (* none_as_undefined *)
  fs_undefined : bool;         (* the field type is a union with UndefinedType *)
  fs_order : option ordering }.

Definition no_fser : fser := mkFS false SkipNever false false None.

Record fdef := mkF {
  fd_name : string; fd_alias : string; fd_ty : ty; fd_required : bool; fd_default : value;
  fd_fallback : bool;                  (* fall_back_on_default metadata (only meaningful with a default) *)
  fd_con : option constraints;         (* field-level schema(...) *)
  fd_ser : fser }.

(* a serialized method / property: constant result in the generated classes *)
Record smeth_def := mkSM {
  sm_name : string; sm_alias : string; sm_ty : ty; sm_result : value;
  sm_undefined : bool;                 (* return type is a union with UndefinedType *)
  sm_order : option ordering }.

Record cdef := mkCls {
  cd_kind : okind; cd_fields : list fdef;
  cd_depreq : list (string * list string);      (* dependent_required: field name -> names it requires *)
  cd_methods : list smeth_def;                  (* serialized methods, in registration order *)
  cd_order : list (string * ordering);          (* class-level order(...) overriding *)
  cd_fields_set : bool }.                       (* decorated with with_fields_set *)

Record univ := mkU { u_classes : list cdef; u_enums : list (list prim) }.

Definition empty_cls : cdef := mkCls KData [] [] [] [] false.
Definition get_cls (u : univ) (c : nat) : cdef := nth c (u_classes u) empty_cls.
Definition get_enum (u : univ) (e : nat) : list prim := nth e (u_enums u) [].

Record dopts := mkO {
  o_addprops : bool; o_coerce : bool; o_fallback : bool; o_nocopy : bool;
  o_aliaser : string -> string }.

(* ------------------------------------------------------------------ results *)
Inductive res := ROk (v : value) | RErr (e : verr) | RCrash (what : string) | RFuel.

(* ------------------------------------------------------------------ coercion.py *)
Definition isinstance (d : pyval) (c : pcls) : bool :=
  match c, d with
  | CNone, PNone => true
  | CBool, PBool _ => true
  | CInt, PInt _ | CInt, PBool _ => true
  | CFloat, PFloat _ => true
  | CStr, PStr _ => true
  | CList, PList _ => true
  | CDict, PDict _ => true
  | _, _ => false
  end.

Definition huge : Z := (2 ^ 1024)%Z.

Definition coerce (cls : pcls) (d : pyval) : pyval + verr :=
  let bad := inr (bad_type d [cls]) in
  match cls with
  | CNone =>
      match d with
      | PNone => inl PNone
      | PStr s => if existsb (String.eqb s) str_none_values then inl PNone else bad
      | _ => bad
      end
  | _ =>
      if isinstance d cls then inl d else
      match cls, d with
      | CBool, PStr s => match dict_get (lower s) str_to_bool with Some b => inl (PBool b) | None => bad end
      | CBool, PInt z => inl (PBool (negb (Z.eqb z 0)))
      | CInt, PStr s => match parse_int s with Some z => inl (PInt z) | None => bad end
      | CInt, PFloat (FQ q) => inl (PInt (Z.quot q 4))
      | CFloat, PStr s => match parse_float s with Some q => inl (PFloat (FQ q)) | None => bad end
      | CFloat, PInt z => if Z.ltb (Z.abs z) huge then inl (PFloat (FQ (4 * z))) else bad
      | CFloat, PBool b => inl (PFloat (FQ (if b then 4 else 0)))
      | CStr, PInt z => inl (PStr (show_Z z))
      | CStr, PFloat f => inl (PStr (show_fl f))
      | _, _ => bad
      end
  end.

(* ------------------------------------------------------------------ method trees *)
Inductive ctor := CtorRaw | CtorRawCopy | CtorFields | CtorNone.   (* RawConstructor / RawConstructorCopy / FieldsConstructor / NoConstructor *)

Record mfield_ (M : Type) := MF {
  mf_name : string; mf_alias : string; mf_meth : M; mf_required : bool;
  mf_reqby : list string; mf_fallback : bool }.
Arguments MF {M}. Arguments mf_name {M}. Arguments mf_alias {M}. Arguments mf_meth {M}.
Arguments mf_required {M}. Arguments mf_reqby {M}. Arguments mf_fallback {M}.

Inductive meth :=
| MRec (cid : nat) (extra : option constraints)      (* RecMethod: the class' method, compiled lazily, with merged constraints *)
| MCoerce (cls : pcls) (m : meth)                    (* CoercerMethod *)
| MAny (cs : option constraints)                     (* AnyMethod *)
| MListCheck (cs : list constr) (m : meth)           (* ListCheckOnlyMethod *)
| MList (cs : list constr) (m : meth)                (* ListMethod *)
| MSet (cs : list constr) (m : meth)                 (* SetMethod *)
| MFrozenSet (m : meth)                              (* FrozenSetMethod *)
| MVarTuple (m : meth)                               (* VariadicTupleMethod *)
| MLiteral (eid : option nat) (vs : list prim) (coerce : bool)   (* LiteralMethod (enum members when eid is Some) *)
| MMapCheck (cs : list constr) (km vm : meth)        (* MappingCheckOnly *)
| MMap (cs : list constr) (km vm : meth)             (* MappingMethod *)
| MSimpleObj (cid : nat) (c : ctor) (fs : list (mfield_ meth)) (aliases : list string) (typed_dict : bool)
| MObj (cid : nat) (c : ctor) (cs : list constr) (fs : list (mfield_ meth)) (aliases : list string)
       (addprops typed_dict : bool)
| MNone | MInt (cs : list constr) | MFloat (cs : list constr) | MStr (cs : list constr) | MBool
| MTuple (cs : list constr) (ms : list meth)         (* TupleMethod *)
| MOptional (m : meth) (coerce : bool)               (* OptionalMethod *)
| MByType (tbl : list (pcls * meth))                 (* UnionByTypeMethod *)
| MUnion (ms : list meth).                           (* UnionMethod *)

(* ------------------------------------------------------------------ compilation (DeserializationMethodVisitor) *)
Fixpoint check_only (m : meth) : bool :=
  match m with
  | MNone | MBool | MListCheck _ _ | MMapCheck _ _ _ => true
  | MInt cs | MStr cs => match cs with [] => true | _ => false end   (* ConstrainedInt/StrMethod are subclasses of Int/StrMethod *)
  | MOptional m' c => negb c && check_only m'
  | MUnion ms => forallb check_only ms
  | MByType tbl => forallb (fun cm => check_only (snd cm)) tbl
  | _ => false
  end.

(* factory.cls: the class the data must have, when known *)
Fixpoint ty_cls (t : ty) : option pcls :=
  match t with
  | TNone => Some CNone | TBool => Some CBool | TInt => Some CInt | TFloat => Some CFloat | TStr => Some CStr
  | TColl _ _ | TTuple _ => Some CList
  | TMap _ _ | TObj _ => Some CDict
  | TCon _ t' => ty_cls t'
  | TAny | TLit _ | TEnum _ => None
  | TUnion ts => match ts with [t'] => ty_cls t' | _ => None end
  end.

Definition wrap_coerce (o : dopts) (cls : option pcls) (m : meth) : meth :=
  match cls with Some c => if o_coerce o then MCoerce c m else m | None => m end.

Definition is_coerce (m : meth) : bool := match m with MCoerce _ _ => true | _ => false end.

Fixpoint nodup_cls (l : list pcls) : bool :=
  match l with [] => true | x :: r => negb (existsb (pcls_eqb x) r) && nodup_cls r end.

(* `NoneType in types`: the alternative is literally None *)
Definition is_none_ty (t : ty) : bool := match t with TNone => true | _ => false end.

Fixpoint compile (o : dopts) (acc : option constraints) (t : ty) {struct t} : meth :=
  match t with
  | TNone => wrap_coerce o (Some CNone) MNone
  | TBool => wrap_coerce o (Some CBool) MBool
  | TInt => wrap_coerce o (Some CInt) (MInt (ocons cons_num acc))
  | TFloat => wrap_coerce o (Some CFloat) (MFloat (ocons cons_num acc))
  | TStr => wrap_coerce o (Some CStr) (MStr (ocons cons_str acc))
  | TAny => MAny acc
  | TColl k t' =>
      let vm := compile o None t' in
      let cs := ocons cons_list acc in
      wrap_coerce o (Some CList)
        match norm_kind k with
        | KSet => MSet cs vm
        | _ =>
            let lm := if o_nocopy o && check_only vm then MListCheck cs vm else MList cs vm in
            match norm_kind k with KVarTuple => MVarTuple lm | KFrozenSet => MFrozenSet lm | _ => lm end
        end
  | TTuple ts => wrap_coerce o (Some CList) (MTuple (ocons cons_list acc) (map (compile o None) ts))
  | TMap kt vt =>
      let km := compile o None kt in
      let vm := compile o None vt in
      let cs := ocons cons_dict acc in
      wrap_coerce o (Some CDict)
        (if o_nocopy o && check_only km && check_only vm then MMapCheck cs km vm else MMap cs km vm)
  | TLit vs => MLiteral None vs (o_coerce o)
  | TEnum e => MLiteral (Some e) [] (o_coerce o)      (* members are looked up in the universe at run time *)
  | TCon c t' => compile o (merge_oc acc (Some c)) t'
  | TObj c => wrap_coerce o (Some CDict) (MRec c acc)
  | TUnion ts =>
      match ts with
      | [t1] => compile o acc t1
      | _ =>
          let ms := map (compile o acc) ts in
          let clss := map ty_cls ts in
          if (existsb is_none_ty ts && Nat.eqb (List.length ts) 2
              && negb (o_coerce o && match ts with t0 :: _ => is_none_ty t0 | [] => false end))%bool then
            match filter (fun tm => negb (is_none_ty (fst tm))) (combine ts ms) with
            | (_, vm) :: _ => MOptional vm (o_coerce o)
            | [] => MUnion ms
            end
          else if (forallb (fun c => match c with Some _ => true | None => false end) clss
                   && nodup_cls (flat_map (fun c => match c with Some x => [x] | None => [] end) clss)
                   && negb (existsb is_coerce ms))%bool
          then MByType (combine (flat_map (fun c => match c with Some x => [x] | None => [] end) clss) ms)
          else MUnion ms
      end
  end.

(* requiring[field name] = aliased names of the fields that require it *)
Definition requiring (o : dopts) (cd : cdef) (name : string) : list string :=
  flat_map (fun fr : string * list string =>
              if existsb (String.eqb name) (snd fr) then
                match find (fun f => String.eqb (fd_name f) (fst fr)) (cd_fields cd) with
                | Some f => [o_aliaser o (fd_alias f)]
                | None => []
                end
              else []) (cd_depreq cd).

Definition compile_field (o : dopts) (cd : cdef) (f : fdef) : mfield_ meth :=
  MF (fd_name f) (o_aliaser o (fd_alias f)) (compile o (fd_con f) (fd_ty f)) (fd_required f)
     (requiring o cd (fd_name f))
     ((fd_fallback f && negb (fd_required f)) || o_fallback o).

Definition is_typed_dict (cd : cdef) : bool := match cd_kind cd with KTypedDict => true | _ => false end.

(* the `object` factory: SimpleObjectMethod when every condition of the fast path holds *)
Definition compile_obj (o : dopts) (cid : nat) (cd : cdef) (acc : option constraints) : meth :=
  let fs := map (compile_field o cd) (cd_fields cd) in
  let cs := ocons cons_dict acc in
  let aliases := map (fun f => o_aliaser o (fd_alias f)) (cd_fields cd) in
  let td := is_typed_dict cd in
  if (match cs with [] => true | _ => false end
      && Bool.eqb td (o_addprops o)
      && (negb td || o_nocopy o)
      && forallb (fun f => check_only (mf_meth f) && String.eqb (mf_alias f) (mf_name f)
                           && negb (mf_fallback f) && match mf_reqby f with [] => true | _ => false end) fs)%bool
  then MSimpleObj cid (if td then CtorNone else CtorRawCopy) fs aliases td
  else MObj cid (if td then CtorNone else CtorRaw) cs fs aliases (o_addprops o) td.

(* ------------------------------------------------------------------ execution *)
Definition show_prim (p : prim) : string :=
  match p with
  | LNone => "None"
  | LBool b => if b then "True" else "False"
  | LInt z => show_Z z
  | LStr s => "'" ++ s ++ "'"
  end.

Definition show_list (l : list string) : string := "[" ++ join ", " l ++ "]".

Definition one_of_msg (vs : list prim) : string := render "one_of" (show_list (map show_prim vs)).

Fixpoint dedup_cls (l : list pcls) : list pcls :=
  match l with [] => [] | x :: r => if existsb (pcls_eqb x) r then dedup_cls r else x :: dedup_cls r end.

Definition unhashable_tags : list string := ["set"; "bytearray"].

Definition lit_result (eid : option nat) (p : prim) : value :=
  match eid with Some e => VEnum e p | None => prim_value p end.

Definition exec_literal (eid : option nat) (vs : list prim) (co : bool) (d : pyval) : res :=
  let lookup (d' : pyval) : option value :=
    match prim_of d' with
    | Some p => if existsb (prim_eqb p) vs then Some (lit_result eid p) else None
    | None => None
    end in
  let types := dedup_cls (map prim_cls vs) in
  let unhashable := match d with
                    | PList _ | PDict _ => true
                    | POther tag => existsb (String.eqb tag) unhashable_tags
                    | _ => false end in
  if unhashable then RErr (bad_type d types) else
  match lookup d with
  | Some v => ROk v
  | None =>
      let coerced :=
        if co then
          (fix try (cl : list pcls) : option value :=
             match cl with
             | [] => None
             | c :: r => match coerce c d with
                         | inl d' => match lookup d' with Some v => Some v | None => try r end
                         | inr _ => try r
                         end
             end) types
        else None in
      match coerced with Some v => ROk v | None => RErr (err_msg (one_of_msg vs)) end
  end.

Definition construct (cd : cdef) (cid : nat) (vals : list (string * value)) : value :=
  match cd_kind cd with
  | KTypedDict => VDict (fold_left (fun a kv => dict_set a (VStr (fst kv)) (snd kv)) vals [])
  | _ => VObj cid (map (fun f => (fd_name f, match dict_get (fd_name f) vals with
                                            | Some v => v
                                            | None => fd_default f end)) (cd_fields cd))
  end.

Definition set_child (ch : children) (k : ekey) (e : verr) : children := child_set ch k e.

Definition finish (d : pyval) (cs : list constr) (ch : children) (v : value) : res :=
  match validate_constraints d cs ch with Some e => RErr e | None => ROk v end.

Definition float_of_int (z : Z) : res :=
  if Z.ltb (Z.abs z) huge then ROk (VFloat (FQ (4 * z)))
  else RErr (err_msg "integer too large to be converted to float").

Definition reqby_msg (present : list string) : string :=
  msg_missing ++ " (required by " ++ show_list (map (fun s => "'" ++ s ++ "'") present) ++ ")".

Fixpoint insert_str (s : string) (l : list string) : list string :=
  match l with
  | [] => [s]
  | x :: r => match String.compare s x with Gt => x :: insert_str s r | Eq => l | Lt => s :: l end
  end.
Definition sort_strs (l : list string) : list string := fold_right insert_str [] l.

Section Exec.
  Variable u : univ.
  Variable o : dopts.

  (* the loop shared by List / ListCheckOnly / Set / Tuple: (results, crashes or fuel, child errors) *)
  Inductive acc3 := A3 (vals : list value) (ch : children) (stop : option res).

  Fixpoint exec (fuel : nat) : meth -> pyval -> res :=
    fix go (m : meth) (d : pyval) {struct m} : res :=
      let elts (vm : meth) (l : list pyval) : acc3 :=
        (fix loop (i : nat) (l : list pyval) : acc3 :=
           match l with
           | [] => A3 [] [] None
           | x :: r =>
               match go vm x with
               | ROk v => match loop (S i) r with A3 vs ch st => A3 (v :: vs) ch st end
               | RErr e => match loop (S i) r with A3 vs ch st => A3 vs ((KIdx i, e) :: ch) st end
               | other => A3 [] [] (Some other)
               end
           end) O l in
      match m with
      | MRec cid extra =>
          match fuel with
          | O => RFuel
          | S f => exec f (compile_obj o cid (get_cls u cid) extra) d
          end
      | MCoerce cls m' =>
          match coerce cls d with inl d' => go m' d' | inr e => RErr e end
      | MAny cs =>
          let k := match d with
                   | PInt _ | PFloat _ => ocons cons_num cs
                   | PStr _ => ocons cons_str cs
                   | PList _ => ocons cons_list cs
                   | PDict _ => ocons cons_dict cs
                   | _ => [] end in
          finish d k [] (embed d)
      | MListCheck cs vm =>
          match d with
          | PList l => match elts vm l with
                       | A3 _ _ (Some st) => st
                       | A3 _ ch None => finish d cs ch (embed d)
                       end
          | _ => RErr (bad_type d [CList])
          end
      | MList cs vm =>
          match d with
          | PList l => match elts vm l with
                       | A3 _ _ (Some st) => st
                       | A3 vs ch None => finish d cs ch (VList vs)
                       end
          | _ => RErr (bad_type d [CList])
          end
      | MSet cs vm =>
          match d with
          | PList l => match elts vm l with
                       | A3 _ _ (Some st) => st
                       | A3 vs ch None =>
                           if forallb hashable vs then finish d cs ch (VSet (fold_left set_add vs []))
                           else RCrash "TypeError: unhashable type"
                       end
          | _ => RErr (bad_type d [CList])
          end
      | MFrozenSet lm =>
          match go lm d with
          | ROk (VList vs) => if forallb hashable vs then ROk (VFrozenSet (fold_left set_add vs []))
                              else RCrash "TypeError: unhashable type"
          | ROk _ => RCrash "frozenset of a non-list"
          | other => other
          end
      | MVarTuple lm =>
          match go lm d with
          | ROk (VList vs) => ROk (VTuple vs)
          | ROk _ => RCrash "tuple of a non-list"
          | other => other
          end
      | MLiteral eid vs co =>
          exec_literal eid (match eid with Some e => get_enum u e | None => vs end) co d
      | MMapCheck cs km vm | MMap cs km vm =>
          match d with
          | PDict kvs =>
              let r :=
                (fix loop (kvs : list (string * pyval)) : list (value * value) * children * option res :=
                   match kvs with
                   | [] => ([], [], None)
                   | (k, x) :: rest =>
                       match go km (PStr k), go vm x with
                       | ROk kv, ROk v => let '(items, ch, st) := loop rest in ((kv, v) :: items, ch, st)
                       | RErr e1, RErr e2 => let '(items, ch, st) := loop rest in (items, (KStr k, merge e1 e2) :: ch, st)
                       | RErr e, ROk _ | ROk _, RErr e => let '(items, ch, st) := loop rest in (items, (KStr k, e) :: ch, st)
                       | RCrash w, _ | _, RCrash w => ([], [], Some (RCrash w))
                       | RFuel, _ | _, RFuel => ([], [], Some RFuel)
                       end
                   end) kvs in
              match r with
              | (_, _, Some st) => st
              | (items, ch, None) =>
                  match m with
                  | MMapCheck _ _ _ => finish d cs ch (embed d)
                  | _ => if forallb (fun kv => hashable (fst kv)) items
                         then finish d cs ch (VDict (fold_left (fun acc kv => dict_set acc (fst kv) (snd kv)) items []))
                         else RCrash "TypeError: unhashable key"
                  end
              end
          | _ => RErr (bad_type d [CDict])
          end
      | MSimpleObj cid c fs aliases td =>
          match d with
          | PDict kvs =>
              let r :=
                (fix loop (fs : list (mfield_ meth)) : nat * list (string * value) * children * option res :=
                   match fs with
                   | [] => (O, [], [], None)
                   | MF name alias fm required reqby fb :: rest =>
                       match dict_get alias kvs with
                       | Some x =>
                           match go fm x with
                           | ROk _ => let '(n, vals, ch, st) := loop rest in (S n, (name, embed x) :: vals, ch, st)
                           | RErr e => let '(n, vals, ch, st) := loop rest in
                                       (S n, vals, if (required || negb fb)%bool then (KStr alias, e) :: ch else ch, st)
                           | other => (O, [], [], Some other)
                           end
                       | None =>
                           let '(n, vals, ch, st) := loop rest in
                           (n, vals, if required then (KStr alias, err_msg msg_missing) :: ch else ch, st)
                       end
                   end) fs in
              match r with
              | (_, _, _, Some st) => st
              | (count, vals, ch, None) =>
                  let extra := filter (fun kv => negb (existsb (String.eqb (fst kv)) aliases)) kvs in
                  let differ := negb (Nat.eqb (List.length kvs) count) in
                  let ch' := if (differ && negb td)%bool
                             then (ch ++ map (fun kv => (KStr (fst kv), err_msg msg_unexpected)) extra)%list
                             else ch in
                  (* the constructor receives the data itself (field values are returned as is by check-only methods);
                     a TypedDict is the data dict: same items as the fields followed by the additional ones *)
                  let vals' := if (differ && td)%bool
                               then (vals ++ map (fun kv => (fst kv, embed (snd kv))) extra)%list else vals in
                  match ch' with
                  | [] => ROk (construct (get_cls u cid) cid vals')
                  | _ => RErr (VE [] ch')
                  end
              end
          | _ => RErr (bad_type d [CDict])
          end
      | MObj cid c cs fs aliases addprops td =>
          match d with
          | PDict kvs =>
              let msgs := match validate_constraints d cs [] with Some (VE ms _) => ms | None => [] end in
              let r :=
                (fix loop (fs : list (mfield_ meth)) : nat * list (string * value) * children * option res :=
                   match fs with
                   | [] => (O, [], [], None)
                   | MF name alias fm required reqby fb :: rest =>
                       match dict_get alias kvs with
                       | Some x =>
                           match go fm x with
                           | ROk v => let '(n, vals, ch, st) := loop rest in (S n, (name, v) :: vals, ch, st)
                           | RErr e => let '(n, vals, ch, st) := loop rest in
                                       (S n, vals, if (required || negb fb)%bool then (KStr alias, e) :: ch else ch, st)
                           | other => (O, [], [], Some other)
                           end
                       | None =>
                           let '(n, vals, ch, st) := loop rest in
                           if required then (n, vals, (KStr alias, err_msg msg_missing) :: ch, st)
                           else
                             let present := sort_strs (filter (fun r => dict_has r kvs) reqby) in
                             match present with
                             | [] => (n, vals, ch, st)
                             | _ => (n, vals, (KStr alias, err_msg (reqby_msg present)) :: ch, st)
                             end
                       end
                   end) fs in
              match r with
              | (_, _, _, Some st) => st
              | (count, vals, ch, None) =>
                  let extra := filter (fun kv => negb (existsb (String.eqb (fst kv)) aliases)) kvs in
                  let differ := negb (Nat.eqb (List.length kvs) count) in
                  let ch' := if (differ && negb addprops)%bool
                             then (ch ++ map (fun kv => (KStr (fst kv), err_msg msg_unexpected)) extra)%list else ch in
                  let vals' := if (differ && addprops && td)%bool
                               then (vals ++ map (fun kv => (fst kv, embed (snd kv))) extra)%list else vals in
                  match msgs, ch' with
                  | [], [] => ROk (construct (get_cls u cid) cid vals')
                  | _, _ => RErr (VE msgs ch')
                  end
              end
          | _ => RErr (bad_type d [CDict])
          end
      | MNone => match d with PNone => ROk VNone | _ => RErr (bad_type d [CNone]) end
      | MBool => match d with PBool b => ROk (VBool b) | _ => RErr (bad_type d [CBool]) end
      | MInt cs => match d with PInt z => finish d cs [] (VInt z) | _ => RErr (bad_type d [CInt]) end
      | MStr cs => match d with PStr s => finish d cs [] (VStr s) | _ => RErr (bad_type d [CStr]) end
      | MFloat cs =>
          match d with
          | PFloat f => finish d cs [] (VFloat f)
          | PInt z => match float_of_int z with
                      | ROk v => finish (PFloat (FQ (4 * z))) cs [] v
                      | other => other end
          | _ => RErr (bad_type d [CFloat])
          end
      | MTuple cs ms =>
          match d with
          | PList l =>
              let n := List.length ms in
              if Nat.ltb (List.length l) n then RErr (err_msg (cmsg (KMinItems n)))
              else if Nat.ltb n (List.length l) then RErr (err_msg (cmsg (KMaxItems n)))
              else
                let r :=
                  (fix loop (i : nat) (ms : list meth) (l : list pyval) : acc3 :=
                     match ms, l with
                     | em :: mr, x :: r =>
                         match go em x with
                         | ROk v => match loop (S i) mr r with A3 vs ch st => A3 (v :: vs) ch st end
                         | RErr e => match loop (S i) mr r with A3 vs ch st => A3 vs ((KIdx i, e) :: ch) st end
                         | other => A3 [] [] (Some other)
                         end
                     | _, _ => A3 [] [] None
                     end) O ms l in
                match r with
                | A3 _ _ (Some st) => st
                | A3 vs ch None => finish d cs ch (VTuple vs)
                end
          | _ => RErr (bad_type d [CList])
          end
      | MOptional vm co =>
          match d with
          | PNone => ROk VNone
          | _ =>
              match go vm d with
              | RErr e =>
                  if co then match coerce CNone d with inl _ => ROk VNone | inr e' => RErr e' end
                  else RErr (merge e (bad_type d [CNone]))
              | other => other
              end
          end
      | MByType tbl =>
          let c0 := cls_of d in
          let has (c : pcls) := existsb (fun cm => pcls_eqb c (fst cm)) tbl in
          let c := if (pcls_eqb c0 CInt && negb (has CInt) && has CFloat)%bool then CFloat else c0 in
          (fix find (l : list (pcls * meth)) : res :=
             match l with
             | [] => RErr (bad_type d (map fst tbl))
             | (c', m') :: r =>
                 if pcls_eqb c c' then
                   match go m' d with
                   | RErr e =>
                       (* an integer rejected by the int alternative is still tried as a float *)
                       match (if pcls_eqb c CInt then
                                (fix findf (l : list (pcls * meth)) : option res :=
                                   match l with
                                   | [] => None
                                   | (c'', m'') :: r' => if pcls_eqb CFloat c'' then Some (go m'' d) else findf r'
                                   end) tbl
                              else None) with
                       | Some (RErr e2) =>
                           RErr (merge (merge e e2)
                                       (bad_type d (filter (fun x => negb (pcls_eqb x CInt || pcls_eqb x CFloat))
                                                           (map fst tbl))))
                       | Some other => other
                       | None => RErr (merge e (bad_type d (filter (fun x => negb (pcls_eqb x c)) (map fst tbl))))
                       end
                   | other => other
                   end
                 else find r
             end) tbl
      | MUnion ms =>
          (fix alts (ms : list meth) (err : option verr) : res :=
             match ms with
             | [] => match err with Some e => RErr e | None => RCrash "AssertionError: empty union" end
             | m' :: r =>
                 match go m' d with
                 | RErr e => alts r (Some (merge_opt err e))
                 | other => other
                 end
             end) ms None
      end.

End Exec.

(* the public entry point: deserialize(tp, data, **options, schema=root) *)
Definition deserialize (u : univ) (o : dopts) (fuel : nat) (root : option constraints) (t : ty) (d : pyval) : res :=
  exec u o fuel (compile o root t) d.
