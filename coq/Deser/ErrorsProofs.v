(* C02: the error bookkeeping of the compiled methods is exact (no hiding, no spurious entry) and `errors` is ordered. *)
From Coq Require Import List String ZArith Bool Arith Lia Sorted Permutation.
From AV Require Import Core.Json Core.Errors Core.Text Deser.Model Deser.Unfold.
Import ListNotations.

(* ---------------------------------------------------------------- order of ValidationError.errors *)
Lemma ekey_leb_total a b : ekey_leb a b = true \/ ekey_leb b a = true.
Proof.
  destruct a as [x|x], b as [y|y]; simpl; auto.
  - destruct (Nat.leb_spec x y); [left; reflexivity|right; apply Nat.leb_le; lia].
  - rewrite (String.compare_antisym y x). destruct (String.compare x y); simpl; auto.
Qed.

Definition key_le {A} (a b : ekey * A) : Prop := ekey_leb (fst a) (fst b) = true.

Lemma insert_by_sorted {A} (x : ekey * A) l : LocallySorted key_le l -> LocallySorted key_le (insert_by A x l).
Proof.
  induction 1 as [|y|y z l Hs IH Hyz]; simpl.
  - constructor.
  - destruct (ekey_leb (fst x) (fst y)) eqn:E; repeat constructor; auto.
    destruct (ekey_leb_total (fst x) (fst y)) as [T|T]; [congruence|exact T].
  - destruct (ekey_leb (fst x) (fst y)) eqn:E.
    + repeat constructor; auto.
    + simpl in IH. destruct (ekey_leb (fst x) (fst z)) eqn:E2.
      * constructor; [exact IH|]. destruct (ekey_leb_total (fst x) (fst y)) as [T|T]; [congruence|exact T].
      * constructor; [exact IH|exact Hyz].
Qed.

Theorem sort_by_key_sorted {A} (l : list (ekey * A)) : LocallySorted key_le (sort_by_key l).
Proof. induction l as [|x l IH]; simpl; [constructor|apply insert_by_sorted; exact IH]. Qed.

Lemma insert_by_perm {A} (x : ekey * A) l : Permutation (insert_by A x l) (x :: l).
Proof.
  induction l as [|y l IH]; simpl; [reflexivity|]. destruct (ekey_leb _ _); [reflexivity|].
  rewrite IH. apply perm_swap.
Qed.

Theorem sort_by_key_perm {A} (l : list (ekey * A)) : Permutation (sort_by_key l) l.
Proof. induction l as [|x l IH]; simpl; [constructor|]. rewrite insert_by_perm. constructor. exact IH. Qed.

(* own messages first (at the empty loc), then the children: every other entry has a non-empty loc *)
Theorem flatten_own_messages_first msgs ch :
  exists rest, flatten (VE msgs ch) = (map (fun m => ([], m)) msgs ++ rest)%list /\ Forall (fun e : loc_err => fst e <> []) rest.
Proof.
  cbn [flatten]. eexists. split; [reflexivity|].
  apply Forall_forall. intros e He. apply in_flat_map in He. destruct He as [kf [_ He]].
  apply in_map_iff in He. destruct He as [pm [<- _]]. simpl. discriminate.
Qed.

(* ---------------------------------------------------------------- exact children of the array loop *)
Section Loops.
Variable g : pyval -> res.

Fixpoint errs_of (i : nat) (l : list pyval) : children :=
  match l with
  | [] => []
  | x :: r => (match g x with RErr e => [(KIdx i, e)] | _ => [] end ++ errs_of (S i) r)%list
  end.

Fixpoint oks_of (l : list pyval) : list value :=
  match l with
  | [] => []
  | x :: r => (match g x with ROk v => [v] | _ => [] end ++ oks_of r)%list
  end.

Theorem elts_children_exact l : forall i vs ch,
  elts_loop g i l = A3 vs ch None -> ch = errs_of i l /\ vs = oks_of l.
Proof.
  induction l as [|x l IH]; intros i vs ch E; simpl in E.
  - injection E as <- <-. split; reflexivity.
  - simpl. destruct (g x) eqn:G; try discriminate;
      destruct (elts_loop g (S i) l) as [vs' ch' [st|]] eqn:El; try discriminate;
      injection E as <- <-; destruct (IH (S i) vs' ch' El) as [-> ->]; split; reflexivity.
Qed.

(* every failing element is reported under its own index ... *)
Lemma errs_complete l : forall i j x e,
  nth_error l j = Some x -> g x = RErr e -> In (KIdx (i + j), e) (errs_of i l).
Proof.
  induction l as [|y l IH]; intros i j x e Hn Hg; [destruct j; discriminate|].
  simpl. apply in_or_app. destruct j as [|j]; simpl in Hn.
  - injection Hn as ->. left. rewrite Hg, Nat.add_0_r. left. reflexivity.
  - right. replace (i + S j) with (S i + j) by lia. eapply IH; eassumption.
Qed.

(* ... and only failing elements are *)
Lemma errs_sound l : forall i k e,
  In (k, e) (errs_of i l) -> exists j x, k = KIdx (i + j) /\ nth_error l j = Some x /\ g x = RErr e.
Proof.
  induction l as [|y l IH]; intros i k e H; [contradiction|].
  simpl in H. apply in_app_or in H. destruct H as [H|H].
  - destruct (g y) eqn:G; simpl in H; try contradiction. destruct H as [H|[]]. injection H as <- <-.
    exists 0, y. rewrite Nat.add_0_r. repeat split; auto.
  - destruct (IH (S i) k e H) as [j [x [-> [Hn Hg]]]]. exists (S j), x. repeat split; auto. f_equal. lia.
Qed.
End Loops.

(* the list method: a rejection carries the constraint messages of the array and exactly the failing elements *)
Section Methods.
Variable u : univ.
Variable o : dopts.

Lemma elts_stop_not_err (g : pyval -> res) l : forall i vs ch st e, elts_loop g i l = A3 vs ch (Some st) -> st <> RErr e.
Proof.
  induction l as [|x l IH]; intros i vs ch st e E; simpl in E; [discriminate|].
  destruct (g x) eqn:G; try (injection E as _ _ <-; discriminate);
    destruct (elts_loop g (S i) l) as [vs' ch' [st'|]] eqn:El; try discriminate;
    injection E as _ _ <-; eapply IH; exact El.
Qed.

Theorem list_errors_exact fuel cs vm l e :
  exec u o fuel (MList cs vm) (PList l) = RErr e ->
  e = VE (map cmsg (filter (fun k => negb (cvalid k (PList l))) cs)) (errs_of (exec u o fuel vm) 0 l).
Proof.
  rewrite exec_MList. destruct (elts_loop (exec u o fuel vm) 0 l) as [vs ch [st|]] eqn:E.
  - intros H. exfalso. exact (elts_stop_not_err _ _ _ _ _ _ e E H).
  - destruct (elts_children_exact _ _ _ _ _ E) as [-> ->]. unfold finish, validate_constraints.
    destruct (filter _ cs) eqn:F.
    + destruct (errs_of _ 0 l); [discriminate|]. intros H. injection H as <-. reflexivity.
    + intros H. injection H as <-. reflexivity.
Qed.

(* a violation in one element never hides a violation in a sibling: both are in the rejection *)
Corollary list_no_hiding fuel cs vm l e i j x y ei ej :
  exec u o fuel (MList cs vm) (PList l) = RErr e ->
  nth_error l i = Some x -> exec u o fuel vm x = RErr ei ->
  nth_error l j = Some y -> exec u o fuel vm y = RErr ej ->
  In (KIdx i, ei) (children_of e) /\ In (KIdx j, ej) (children_of e).
Proof.
  intros H Hi Gi Hj Gj. rewrite (list_errors_exact _ _ _ _ _ H). simpl. split.
  - exact (errs_complete _ l 0 i x ei Hi Gi).
  - exact (errs_complete _ l 0 j y ej Hj Gj).
Qed.

(* no entry points at a valid element *)
Corollary list_no_spurious fuel cs vm l e k ek :
  exec u o fuel (MList cs vm) (PList l) = RErr e -> In (k, ek) (children_of e) ->
  exists i x, k = KIdx i /\ nth_error l i = Some x /\ exec u o fuel vm x = RErr ek.
Proof.
  intros H Hin. rewrite (list_errors_exact _ _ _ _ _ H) in Hin. simpl in Hin.
  destruct (errs_sound _ l 0 k ek Hin) as [j [x [-> [Hn Hg]]]]. exists j, x. auto.
Qed.

Theorem tuple_length_error fuel cs ms l :
  List.length l <> List.length ms ->
  exists m, exec u o fuel (MTuple cs ms) (PList l) = RErr (err_msg m).
Proof.
  intros H. rewrite exec_MTuple. cbv zeta.
  destruct (Nat.ltb_spec (List.length l) (List.length ms)); [eexists; reflexivity|].
  destruct (Nat.ltb_spec (List.length ms) (List.length l)); [eexists; reflexivity|lia].
Qed.
End Methods.
