(* C14: what the default coercer does (coercion.py), stated on the model and against the regenerated word table. *)
From Coq Require Import List String ZArith Bool Arith Lia.
From AV Require Import Core.Json Core.Errors Core.Text Gen.Tables Deser.Model Deser.Spec Deser.Unfold Deser.Loops.
Import ListNotations.
Open Scope string_scope.

(* the documented table: case-insensitive words, as pairs (false word, true word) *)
Definition documented_bool_words : list (string * bool) :=
  [("0", false); ("1", true); ("f", false); ("t", true); ("n", false); ("y", true); ("no", false); ("yes", true);
   ("false", false); ("true", true); ("off", false); ("on", true); ("ko", false); ("ok", true)].

(* proved against the table regenerated from the source on every run *)
Theorem coerce_table_documented :
  str_to_bool = documented_bool_words /\ str_none_values = [""].
Proof. split; vm_compute; reflexivity. Qed.

Definition is_prim_data (d : pyval) : bool :=
  match d with PNone | PBool _ | PInt _ | PFloat _ | PStr _ => true | _ => false end.

(* a datum which already is an instance of the requested class is left alone *)
Lemma coerce_instance cls d : cls <> CNone -> isinstance d cls = true -> coerce cls d = inl d.
Proof. intros Hn Hi. unfold coerce. destruct cls; try congruence; rewrite Hi; reflexivity. Qed.

(* coercion only ever converts a primitive datum into a primitive of the requested class *)
Ltac break_coerce E :=
  repeat match type of E with
         | (if ?c then _ else _) = _ => destruct c eqn:?
         | match ?x with _ => _ end = _ => destruct x eqn:?
         end.

Theorem coerce_only_primitives cls d d' :
  coerce cls d = inl d' -> d' = d \/ (is_prim_data d = true /\ is_prim_data d' = true /\ isinstance d' cls = true).
Proof.
  unfold coerce. intros E. destruct cls; destruct d; cbn [isinstance] in E; break_coerce E;
    try discriminate; injection E as <-; auto; right; repeat split.
Qed.

(* a refused coercion is reported as a type mismatch (never a crash) *)
Theorem coerce_total cls d : (exists d', coerce cls d = inl d') \/ coerce cls d = inr (bad_type d [cls]).
Proof.
  unfold coerce. destruct cls; destruct d; cbn [isinstance]; eauto;
    repeat match goal with
           | |- context [if ?c then _ else _] => destruct c
           | |- context [match ?x with _ => _ end] => destruct x
           end; eauto.
Qed.

Section C.
Variable u : univ.
Variable o : dopts.

(* the coerced datum is still checked by the method of the expected type *)
Theorem coerced_result_is_checked fuel cls m d v :
  exec u o fuel (MCoerce cls m) d = ROk v -> exists d', coerce cls d = inl d' /\ exec u o fuel m d' = ROk v.
Proof. rewrite exec_MCoerce. destruct (coerce cls d) as [d'|e]; [eauto|discriminate]. Qed.

Theorem refused_coercion_is_a_validation_error fuel cls m d :
  (forall d', coerce cls d <> inl d') -> exec u o fuel (MCoerce cls m) d = RErr (bad_type d [cls]).
Proof.
  intros H. rewrite exec_MCoerce. destruct (coerce_total cls d) as [[d' E]|E]; [exfalso; exact (H d' E)|]. rewrite E. reflexivity.
Qed.

(* monotonicity on primitive types (with any constraints): whatever strict mode accepts, coercion accepts with the same value *)
Definition prim_ty (t : ty) : bool := match t with TNone | TBool | TInt | TFloat | TStr => true | _ => false end.

Theorem coerce_monotone_primitives fuel acc t d v :
  prim_ty t = true ->
  exec u (mkO (o_addprops o) false (o_fallback o) (o_nocopy o) (o_aliaser o)) fuel
       (compile (mkO (o_addprops o) false (o_fallback o) (o_nocopy o) (o_aliaser o)) acc t) d = ROk v ->
  exec u (mkO (o_addprops o) true (o_fallback o) (o_nocopy o) (o_aliaser o)) fuel
       (compile (mkO (o_addprops o) true (o_fallback o) (o_nocopy o) (o_aliaser o)) acc t) d = ROk v.
Proof.
  destruct t; try discriminate; intros _; cbn [compile]; unfold wrap_coerce; cbn [o_coerce];
    rewrite exec_MCoerce, ?exec_MNone, ?exec_MBool, ?exec_MInt, ?exec_MFloat, ?exec_MStr;
    destruct d; try discriminate; cbn [coerce isinstance existsb];
    rewrite ?exec_MNone, ?exec_MBool, ?exec_MInt, ?exec_MFloat, ?exec_MStr; auto.
  (* float <- int: the integer is converted first, with the same result *)
  unfold float_of_int. destruct (Z.ltb (Z.abs z) huge); [|discriminate]. rewrite exec_MFloat. auto.
Qed.
End C.
