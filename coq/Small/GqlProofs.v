From Coq Require Import List String Bool Arith.
From AV Require Import Small.Gql.
Import ListNotations.

Definition is_nonnull (t : gql) : bool := match t with QNonNull _ => true | _ => false end.

Lemma base_not_nonnull input t : is_nonnull (base input t) = false.
Proof. induction t; cbn [base]; try reflexivity; try assumption; destruct input; reflexivity. Qed.

(* an output field is non-null exactly when its type is neither Optional nor a union with UndefinedType *)
Theorem out_nonnull_iff t : is_nonnull (out_type t) = negb (nullable_ty t).
Proof. unfold out_type. destruct (nullable_ty t); [apply base_not_nonnull|reflexivity]. Qed.

(* an argument is non-null exactly when its type is not nullable and it is required or has a serializable default *)
Theorem in_nonnull_iff t d :
  is_nonnull (in_type t d) = negb (nullable_ty t) && match d with DRequired | DSerializable => true | _ => false end.
Proof.
  unfold in_type. destruct d; rewrite ?andb_false_r, ?andb_true_r; try apply base_not_nonnull;
    destruct (nullable_ty t); try reflexivity; apply base_not_nonnull.
Qed.

(* nullability never changes the named type underneath *)
Fixpoint named_of (t : gql) : string := match t with QNamed n => n | QList t' | QNonNull t' => named_of t' end.
Theorem out_name_ignores_optional t : named_of (out_type (GOpt t)) = named_of (out_type t).
Proof. unfold out_type. cbn [nullable_ty base]. destruct (nullable_ty t); reflexivity. Qed.
