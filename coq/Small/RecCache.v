(* C20: model of apischema/recursion.py RecursiveChecker (one analysis = one atomic step once serialized by the lock)
   and of the fill-if-absent caches (lru factories, RecMethod.method). *)
From Coq Require Import List Bool Arith.
Import ListNotations.

Definition graph := list (list nat).                 (* successors of node i *)
Definition succs (g : graph) (k : nat) : list nat := nth k g [].

Definition memn (k : nat) (l : list nat) : bool := existsb (Nat.eqb k) l.
Fixpoint addn (k : nat) (l : list nat) : list nat := if memn k l then l else l ++ [k].
Definition unionn (a b : list nat) : list nat := fold_left (fun acc k => addn k acc) b a.

Fixpoint assoc {A} (k : nat) (l : list (nat * A)) : option A :=
  match l with [] => None | (k', v) :: r => if Nat.eqb k k' then Some v else assoc k r end.
Fixpoint assoc_set {A} (k : nat) (v : A) (l : list (nat * A)) : list (nat * A) :=
  match l with
  | [] => [(k, v)]
  | (k', v') :: r => if Nat.eqb k k' then (k', v) :: r else (k', v') :: assoc_set k v r
  end.

(* ---------------------------------------------------------------- the analysis (Tarjan's strongly connected components) *)
Record cst := mkCS {
  cache : list (nat * bool);        (* the shared recursion cache *)
  indices : list (nat * nat);       (* self._indices *)
  lowlinks : list (nat * nat);      (* self._lowlinks *)
  stack : list nat;                 (* self._stack (oldest first) *)
  selfrec : list nat;               (* self._self_recursive *)
  guard : list nat }.               (* self._guard (oldest first) *)

Fixpoint from (k : nat) (l : list nat) : list nat :=
  match l with [] => [] | x :: r => if Nat.eqb k x then l else from k r end.

Definition low_of (k : nat) (l : list (nat * nat)) : nat := match assoc k l with Some x => x | None => 0 end.
Definition lower (parent : nat) (v : nat) (l : list (nat * nat)) : list (nat * nat) :=
  assoc_set parent (Nat.min (low_of parent l) v) l.

(* the component of root k is popped from the stack and cached *)
Definition close_component (k : nat) (s : cst) : cst :=
  let component := from k (stack s) in
  let recursive := Nat.ltb 1 (List.length component) || memn k (selfrec s) in
  mkCS (fold_left (fun c x => assoc_set x recursive c) component (cache s)) (indices s) (lowlinks s)
       (firstn (List.length (stack s) - List.length component) (stack s)) (selfrec s) (guard s).

(* RecursiveChecker.visit *)
Fixpoint visit (fuel : nat) (g : graph) (k : nat) (s : cst) : cst :=
  match fuel with
  | O => s
  | S f =>
      match assoc k (cache s) with
      | Some _ => s
      | None =>
          match assoc k (indices s) with
          | Some ik =>
              let parent := last (guard s) 0 in
              mkCS (cache s) (indices s) (lower parent ik (lowlinks s)) (stack s)
                   (if Nat.eqb parent k then addn k (selfrec s) else selfrec s) (guard s)
          | None =>
              let index := List.length (indices s) in
              let s1 := mkCS (cache s) (indices s ++ [(k, index)]) (assoc_set k index (lowlinks s)) (stack s ++ [k])
                             (selfrec s) (guard s ++ [k]) in
              let s2 := fold_left (fun st c => visit f g c st) (succs g k) s1 in
              let s3 := mkCS (cache s2) (indices s2) (lowlinks s2) (stack s2) (selfrec s2) (removelast (guard s2)) in
              let s4 := match guard s3 with
                        | [] => s3
                        | _ => mkCS (cache s3) (indices s3) (lower (last (guard s3) 0) (low_of k (lowlinks s3)) (lowlinks s3))
                                    (stack s3) (selfrec s3) (guard s3)
                        end in
              if Nat.eqb (low_of k (lowlinks s4)) index then close_component k s4 else s4
          end
      end
  end.

(* is_recursive(tp): a fresh checker (empty local state) over the shared cache *)
Definition analyse (g : graph) (c : list (nat * bool)) (root : nat) : list (nat * bool) :=
  cache (visit (S (S (List.length g)) * S (List.length g)) g root (mkCS c [] [] [] [] [])).

(* ---------------------------------------------------------------- the analysis before the fix (path marking) *)
Record ost := mkOS {
  ocache : list (nat * bool);
  recs : list (nat * list nat);     (* self._recursive *)
  allrec : list nat;                (* self._all_recursive *)
  oguard : list nat }.

Fixpoint visit_old (fuel : nat) (g : graph) (k : nat) (s : ost) : ost :=
  match fuel with
  | O => s
  | S f =>
      match assoc k (ocache s) with
      | Some _ => s
      | None =>
          if memn k (oguard s) then
            let recursive := from k (oguard s) in
            mkOS (ocache s)
                 (assoc_set k (unionn (match assoc k (recs s) with Some l => l | None => [] end) recursive) (recs s))
                 (unionn (allrec s) recursive) (oguard s)
          else
            let s1 := mkOS (ocache s) (recs s) (allrec s) (oguard s ++ [k]) in
            let s2 := fold_left (fun st c => visit_old f g c st) (succs g k) s1 in
            let s3 := mkOS (ocache s2) (recs s2) (allrec s2) (removelast (oguard s2)) in
            match assoc k (recs s3) with
            | Some ks => mkOS (fold_left (fun c x => assoc_set x true c) ks (ocache s3)) (recs s3) (allrec s3) (oguard s3)
            | None => if memn k (allrec s3) then s3
                      else mkOS (assoc_set k false (ocache s3)) (recs s3) (allrec s3) (oguard s3)
            end
      end
  end.
Definition analyse_old (g : graph) (c : list (nat * bool)) (root : nat) : list (nat * bool) :=
  ocache (visit_old (S (S (List.length g)) * S (List.length g)) g root (mkOS c [] [] [])).

(* ground truth: k lies on a cycle; reachability restricted to the nodes satisfying [ok] *)
Fixpoint reach (fuel : nat) (g : graph) (ok : nat -> bool) (from_ : nat) (target : nat) : bool :=
  match fuel with
  | O => false
  | S f => existsb (fun c => ok c && (Nat.eqb c target || reach f g ok c target)) (succs g from_)
  end.
Definition on_cycle (g : graph) (k : nat) : bool := reach (S (List.length g)) g (fun _ => true) k k.
Definition reachable (g : graph) (a b : nat) : bool := Nat.eqb a b || reach (S (List.length g)) g (fun _ => true) a b.

Definition cached (c : list (nat * bool)) (k : nat) : bool := match assoc k c with Some _ => true | None => false end.

(* what the visitors need from the analysis: a type that is not marked recursive is built by a separate (cached) factory
   call with a new visitor, so EVERY type on a cycle must be marked, or method building recurses forever:
   exact    - an entry is true exactly when the node lies on a cycle;
   complete - every node reachable from an analysed root has an entry (so cache[rec_key] cannot raise KeyError). *)
Definition exact (g : graph) (c : list (nat * bool)) : bool :=
  forallb (fun kb => Bool.eqb (snd kb) (on_cycle g (fst kb))) c.
Definition complete (g : graph) (c : list (nat * bool)) (roots : list nat) : bool :=
  forallb (fun r => forallb (fun k => implb (reachable g r k) (cached c k)) (seq 0 (List.length g))) roots.
Definition functional (c : list (nat * bool)) : bool :=
  forallb (fun kb => match assoc (fst kb) c with Some b => Bool.eqb b (snd kb) | None => false end) c.

(* any sequence of complete analyses, from an empty cache *)
Definition after (g : graph) (roots : list nat) : list (nat * bool) := fold_left (analyse g) roots [].
Definition after_old (g : graph) (roots : list nat) : list (nat * bool) := fold_left (analyse_old g) roots [].

Definition check (g : graph) (roots : list nat) : bool :=
  let c := after g roots in
  exact g c && complete g c roots && functional c.

(* ---- finite enumeration of all graphs on n nodes and all root sequences *)
Fixpoint sublists (l : list nat) : list (list nat) :=
  match l with [] => [[]] | x :: r => let s := sublists r in s ++ map (cons x) s end.

Fixpoint all_graphs_aux (n m : nat) : list graph :=       (* m rows over nodes 0..n-1 *)
  match m with
  | O => [[]]
  | S m' => flat_map (fun row => map (cons row) (all_graphs_aux n m')) (sublists (seq 0 n))
  end.
Definition all_graphs (n : nat) : list graph := all_graphs_aux n n.

Fixpoint seqs (n len : nat) : list (list nat) :=
  match len with
  | O => [[]]
  | S l => [] :: flat_map (fun r => map (cons r) (seqs n l)) (seq 0 n)
  end.

Definition all_ok (n len : nat) : bool :=
  forallb (fun g => forallb (check g) (seqs n len)) (all_graphs n).

(* ---- fill-if-absent caches (lru_cache'd factories, RecMethod.method): interleaved fills of a pure function *)
Section Fill.
  Variable K V : Type.
  Variable f : K -> V.
  Variable keqb : K -> K -> bool.
  Hypothesis keqb_eq : forall a b, keqb a b = true -> a = b.

  Fixpoint get (k : K) (c : list (K * V)) : option V :=
    match c with [] => None | (k', v) :: r => if keqb k k' then Some v else get k r end.

  (* a thread's fill: it computed f k (possibly long ago, possibly concurrently with others) and stores it *)
  Definition fill (c : list (K * V)) (k : K) : list (K * V) := (k, f k) :: c.

  Definition consistent (c : list (K * V)) : Prop := forall k v, get k c = Some v -> v = f k.

  Lemma fill_consistent c k : consistent c -> consistent (fill c k).
  Proof.
    intros H k' v. unfold fill. simpl. destruct (keqb k' k) eqn:E.
    - intros Hv. injection Hv as <-. apply keqb_eq in E. subst. reflexivity.
    - apply H.
  Qed.

  (* whatever the interleaving of the stores (any sequence of keys, repeated or not), every later read returns f k *)
  Theorem fills_never_change_reads : forall ks c, consistent c -> consistent (fold_left fill ks c).
  Proof. induction ks as [|k ks IH]; intros c H; simpl; [exact H|]. apply IH. apply fill_consistent. exact H. Qed.
End Fill.

Fixpoint list_eqb_nb (a b : list (nat * bool)) : bool :=
  match a, b with
  | [], [] => true
  | (k, x) :: a', (k', x') :: b' => Nat.eqb k k' && Bool.eqb x x' && list_eqb_nb a' b'
  | _, _ => false
  end.

(* ---- small-step machine: several checkers (each with its own indices/lowlinks/stack/guard) sharing the cache,
   interleaved at visit granularity by a schedule.  Used to exhibit what the lock of is_recursive prevents. *)
Record thr := mkT {
  t_frames : list (nat * list nat);    (* frames: node, successors still to visit (innermost last) *)
  t_indices : list (nat * nat);
  t_lowlinks : list (nat * nat);
  t_stack : list nat;
  t_selfrec : list nat }.

Definition start (g : graph) (c : list (nat * bool)) (root : nat) : thr :=
  match assoc root c with
  | Some _ => mkT [] [] [] [] []
  | None => mkT [(root, succs g root)] [(root, 0)] [(root, 0)] [root] []
  end.

Definition step (g : graph) (c : list (nat * bool)) (t : thr) : list (nat * bool) * thr :=
  match rev (t_frames t) with
  | [] => (c, t)
  | (k, ch :: rest) :: below =>
      let frames' := rev ((k, rest) :: below) in
      match assoc ch c with
      | Some _ => (c, mkT frames' (t_indices t) (t_lowlinks t) (t_stack t) (t_selfrec t))
      | None =>
          match assoc ch (t_indices t) with
          | Some ic => (c, mkT frames' (t_indices t) (lower k ic (t_lowlinks t)) (t_stack t)
                              (if Nat.eqb k ch then addn ch (t_selfrec t) else t_selfrec t))
          | None =>
              let index := List.length (t_indices t) in
              (c, mkT (frames' ++ [(ch, succs g ch)]) (t_indices t ++ [(ch, index)]) (assoc_set ch index (t_lowlinks t))
                      (t_stack t ++ [ch]) (t_selfrec t))
          end
      end
  | (k, []) :: below =>
      let low1 := match below with
                  | [] => t_lowlinks t
                  | (parent, _) :: _ => lower parent (low_of k (t_lowlinks t)) (t_lowlinks t)
                  end in
      if Nat.eqb (low_of k low1) (low_of k (t_indices t)) then
        let component := from k (t_stack t) in
        let recursive := Nat.ltb 1 (List.length component) || memn k (t_selfrec t) in
        (fold_left (fun c x => assoc_set x recursive c) component c,
         mkT (rev below) (t_indices t) low1 (firstn (List.length (t_stack t) - List.length component) (t_stack t)) (t_selfrec t))
      else (c, mkT (rev below) (t_indices t) low1 (t_stack t) (t_selfrec t))
  end.

Fixpoint finish (fuel : nat) (g : graph) (c : list (nat * bool)) (t : thr) : list (nat * bool) :=
  match fuel with
  | O => c
  | S f => match t_frames t with [] => c | _ => let '(c', t') := step g c t in finish f g c' t' end
  end.

Definition steps_bound (g : graph) : nat := 4 * S (List.length g) * S (List.length g) * S (List.length g).

(* the locked version: one analysis runs to completion before the next starts *)
Definition analyse_small (g : graph) (c : list (nat * bool)) (root : nat) : list (nat * bool) :=
  finish (steps_bound g) g c (start g c root).

(* two unlocked threads: both start on the same initial cache, then follow the schedule (false = thread 1, true = thread 2),
   then run to completion one after the other *)
Fixpoint sched (g : graph) (s : list bool) (c : list (nat * bool)) (t1 t2 : thr) : list (nat * bool) * thr * thr :=
  match s with
  | [] => (c, t1, t2)
  | false :: r => let '(c', t1') := step g c t1 in sched g r c' t1' t2
  | true :: r => let '(c', t2') := step g c t2 in sched g r c' t1 t2'
  end.

Definition unlocked (g : graph) (r1 r2 : nat) (s : list bool) : list (nat * bool) :=
  let '(c, t1, t2) := sched g s [] (start g [] r1) (start g [] r2) in
  let c1 := finish (steps_bound g) g c t1 in
  finish (steps_bound g) g c1 t2.

Definition small_eq_big (n : nat) : bool :=
  forallb (fun g => forallb (fun roots =>
      list_eqb_nb (fold_left (analyse_small g) roots []) (after g roots)) (seqs n 2)) (all_graphs n).
