(* C05, aggregate fields: serialization merges into one object the regular properties, the objects of the flattened fields,
   the dicts of the pattern-properties fields and of the additional-properties field; deserialization dispatches the keys of
   that object (Small/Aggregate.v, `dispatch`, which the run compares with apischema on every generated datum).  When the
   sources have the keys the declarations give them — no key claimed by two sources — the dispatch hands every source back
   exactly the keys it emitted: key by key, deserialize inverts serialize.  A collision is a refutation (below). *)
From Coq Require Import List String Bool Arith.
From AV Require Import Core.Text Small.Aggregate Small.AggregateProofs.
Import ListNotations.
Open Scope string_scope.

Record emitted := mkEm {
  own : list string;                   (* aliases of the regular fields present in the output *)
  kids : list (list string);           (* keys of the serialized object of each flattened field *)
  pkeys : list (list string);          (* keys of the dict of each pattern-properties field *)
  extra : list string }.               (* keys of the dict of the additional-properties field *)

Definition merged (e : emitted) : list string := (own e ++ List.concat (kids e) ++ List.concat (pkeys e) ++ extra e)%list.

Definition set_eq (a b : list string) : Prop := forall x, In x a <-> In x b.
Definition no_flat (a : agg) (k : string) : bool := negb (in_some_flat a k).
Definition any_pat (ps : list string) (k : string) : bool := existsb (fun q => prefixb q k) ps.

Fixpoint disjoint_flats (fl : list (list string)) : bool :=
  match fl with
  | [] => true
  | al :: r => forallb (fun x => negb (existsb (mem x) r)) al && disjoint_flats r
  end.
Fixpoint kids_ok (fl kd : list (list string)) : bool :=
  match fl, kd with
  | [], [] => true
  | al :: r, k :: s => forallb (fun x => mem x al) k && kids_ok r s
  | _, _ => false
  end.
Fixpoint pkeys_ok (a : agg) (earlier ps : list string) (pk : list (list string)) : bool :=
  match ps, pk with
  | [], [] => true
  | p :: r, ks :: s =>
      forallb (fun k => negb (mem k (known a)) && no_flat a k && prefixb p k && negb (any_pat earlier k)) ks
      && pkeys_ok a (earlier ++ [p])%list r s
  | _, _ => false
  end.

(* every source emits keys of its own: regular aliases are regular; a flattened object has (some of) the aliases of its
   field, which belong to no other flattened field and are no regular alias; a pattern dict has keys that match its
   pattern, no earlier pattern, and are no declared property; the additional dict has keys nothing else claims *)
Definition agg_rt_hyps (a : agg) (e : emitted) : bool :=
  forallb (fun k => mem k (known a)) (own e)
  && forallb (fun al => forallb (fun x => negb (mem x (known a))) al) (flats a)
  && disjoint_flats (flats a) && kids_ok (flats a) (kids e)
  && pkeys_ok a [] (pats a) (pkeys e)
  && forallb (fun k => negb (mem k (known a)) && no_flat a k && negb (any_pat (pats a) k)) (extra e).

Lemma mem_In k l : mem k l = true <-> In k l.
Proof.
  unfold mem. rewrite existsb_exists. split.
  - intros [x [Hx E]]. apply String.eqb_eq in E. now subst.
  - intros H. exists k. split; [exact H|apply String.eqb_refl].
Qed.

Lemma in_flat_exists fl x : existsb (mem x) fl = true <-> exists al, In al fl /\ In x al.
Proof.
  rewrite existsb_exists. split; intros [al [H1 H2]]; exists al; (split; [exact H1|]); now apply mem_In.
Qed.

Lemma kids_in_flats fl : forall kd x, kids_ok fl kd = true -> In x (List.concat kd) -> existsb (mem x) fl = true.
Proof.
  induction fl as [|al r IH]; intros [|k s] x H Hin; cbn [kids_ok] in H; try discriminate; [contradiction|].
  apply andb_prop in H as [Hk Hr]. cbn [List.concat] in Hin. apply in_app_or in Hin as [Hin|Hin]; cbn [existsb].
  - rewrite forallb_forall in Hk. now rewrite (Hk x Hin).
  - rewrite (IH s x Hr Hin). apply orb_true_r.
Qed.

Lemma flat_part keys : forall fl kd,
  kids_ok fl kd = true -> disjoint_flats fl = true ->
  (forall x, existsb (mem x) fl = true -> In x keys -> In x (List.concat kd)) ->
  (forall x, In x (List.concat kd) -> In x keys) ->
  Forall2 set_eq (map (spec_flat keys) fl) kd.
Proof.
  induction fl as [|al r IH]; intros [|k s] Hk Hd Hfrom Hto; cbn [kids_ok] in Hk; try discriminate; [constructor|].
  apply andb_prop in Hk as [Hk Hks]. cbn [disjoint_flats] in Hd. apply andb_prop in Hd as [Hd Hdr].
  rewrite forallb_forall in Hk, Hd. cbn [map]. constructor.
  - intros x. unfold spec_flat. rewrite filter_In. split.
    + intros [Hal Hm]. apply mem_In in Hm.
      assert (Hc : In x (List.concat (k :: s))) by (apply Hfrom; [cbn [existsb]; apply mem_In in Hal; now rewrite Hal|exact Hm]).
      cbn [List.concat] in Hc. apply in_app_or in Hc as [Hc|Hc]; [exact Hc|].
      pose proof (kids_in_flats r s x Hks Hc) as Hr. pose proof (Hd x Hal) as Hn. rewrite Hr in Hn. discriminate.
    + intros Hx. split; [apply mem_In; now apply Hk|]. apply mem_In. apply Hto. cbn [List.concat]. apply in_or_app. now left.
  - apply IH; [exact Hks|exact Hdr| |].
    + intros x Hr Hm. assert (Hc : In x (List.concat (k :: s))) by (apply Hfrom; [cbn [existsb]; rewrite Hr; apply orb_true_r|exact Hm]).
      cbn [List.concat] in Hc. apply in_app_or in Hc as [Hc|Hc]; [|exact Hc].
      pose proof (Hd x (proj1 (mem_In _ _) (Hk x Hc))) as Hn. rewrite Hr in Hn. discriminate.
    + intros x Hx. apply Hto. cbn [List.concat]. apply in_or_app. now right.
Qed.

Lemma any_pat_app E p k : any_pat (E ++ [p]) k = any_pat E k || prefixb p k.
Proof. unfold any_pat. rewrite existsb_app. cbn [existsb]. now rewrite orb_false_r. Qed.

(* what pkeys_ok gives for every key of the later dicts *)
Lemma pkeys_facts a : forall ps pk E k, pkeys_ok a E ps pk = true -> In k (List.concat pk) ->
  mem k (known a) = false /\ no_flat a k = true /\ any_pat ps k = true /\ any_pat E k = false.
Proof.
  induction ps as [|p r IH]; intros [|ks s] E k H Hin; cbn [pkeys_ok] in H; try discriminate; [contradiction|].
  apply andb_prop in H as [Hks Hr]. cbn [List.concat] in Hin. apply in_app_or in Hin as [Hin|Hin].
  - rewrite forallb_forall in Hks. pose proof (Hks k Hin) as Hc.
    apply andb_prop in Hc as [Hc H4]. apply andb_prop in Hc as [Hc H3]. apply andb_prop in Hc as [H1 H2].
    apply negb_true_iff in H1, H4. unfold any_pat at 1. cbn [existsb]. rewrite H3. repeat split; auto.
  - destruct (IH s (E ++ [p])%list k Hr Hin) as [H1 [H2 [H3 H4]]]. rewrite any_pat_app in H4. apply orb_false_iff in H4 as [H4 H5].
    unfold any_pat at 1. cbn [existsb]. fold (any_pat r k). rewrite H3, orb_true_r. repeat split; auto.
Qed.

Lemma pat_part a keys : forall ps pk E,
  pkeys_ok a E ps pk = true ->
  (forall k, In k (List.concat pk) -> In k keys) ->
  (forall k, In k keys -> mem k (known a) = false -> no_flat a k = true -> any_pat ps k = true -> any_pat E k = false -> In k (List.concat pk)) ->
  Forall2 set_eq (spec_pats a keys E ps) pk.
Proof.
  induction ps as [|p r IH]; intros [|ks s] E H Hto Hfrom; cbn [pkeys_ok] in H; try discriminate; [constructor|].
  apply andb_prop in H as [Hks Hr]. cbn [spec_pats]. constructor.
  - intros x. unfold spec_pat. rewrite filter_In. split.
    + intros [Hk Hc]. apply andb_prop in Hc as [Hc H4]. apply andb_prop in Hc as [Hc H3]. apply andb_prop in Hc as [H1 H2].
      apply negb_true_iff in H1, H4.
      assert (Hin : In x (List.concat (ks :: s))).
      { apply Hfrom; auto. unfold any_pat. cbn [existsb]. now rewrite H3. }
      cbn [List.concat] in Hin. apply in_app_or in Hin as [Hin|Hin]; [exact Hin|].
      destruct (pkeys_facts a r s _ x Hr Hin) as [_ [_ [_ H5]]]. rewrite any_pat_app, H3, orb_true_r in H5. discriminate.
    + intros Hx. split; [apply Hto; cbn [List.concat]; apply in_or_app; now left|]. rewrite forallb_forall in Hks. exact (Hks x Hx).
  - apply IH; [exact Hr| |].
    + intros k Hk. apply Hto. cbn [List.concat]. apply in_or_app. now right.
    + intros k Hk H1 H2 H3 H4. rewrite any_pat_app in H4. apply orb_false_iff in H4 as [H4 H5].
      assert (Hin : In k (List.concat (ks :: s))).
      { apply Hfrom; auto. unfold any_pat. cbn [existsb]. fold (any_pat r k). rewrite H3. apply orb_true_r. }
      cbn [List.concat] in Hin. apply in_app_or in Hin as [Hin|Hin]; [|exact Hin].
      rewrite forallb_forall in Hks. pose proof (Hks k Hin) as Hc.
      apply andb_prop in Hc as [Hc _]. apply andb_prop in Hc as [_ Hc]. rewrite Hc in H5. discriminate.
Qed.

Theorem aggregate_keys_round_trip a e : agg_rt_hyps a e = true ->
  let '(ts, ms, rest) := dispatch a (merged e) in
  Forall2 set_eq ts (kids e) /\ Forall2 set_eq ms (pkeys e) /\ set_eq rest (extra e).
Proof.
  intros H. rewrite dispatch_is_spec. unfold spec_dispatch. unfold agg_rt_hyps in H.
  apply andb_prop in H as [H Hx]. apply andb_prop in H as [H Hp]. apply andb_prop in H as [H Hk].
  apply andb_prop in H as [H Hd]. apply andb_prop in H as [Ho Hf].
  rewrite forallb_forall in Ho, Hx.
  assert (Hfk : forall x, existsb (mem x) (flats a) = true -> mem x (known a) = false).
  { intros x Hin. apply in_flat_exists in Hin as [al [Hal Hxa]]. rewrite forallb_forall in Hf. pose proof (Hf al Hal) as Hal'.
    rewrite forallb_forall in Hal'. apply negb_true_iff. now apply Hal'. }
  assert (Hex : forall k, In k (extra e) -> mem k (known a) = false /\ no_flat a k = true /\ any_pat (pats a) k = false).
  { intros k Hin. pose proof (Hx k Hin) as Hc. apply andb_prop in Hc as [Hc H3]. apply andb_prop in Hc as [H1 H2].
    apply negb_true_iff in H1, H3. auto. }
  (* where a key of the merged object comes from *)
  assert (Hsplit : forall k, In k (merged e) <-> In k (own e) \/ In k (List.concat (kids e)) \/ In k (List.concat (pkeys e)) \/ In k (extra e)).
  { intros k. unfold merged. rewrite !in_app_iff. tauto. }
  split; [|split].
  - apply flat_part; [exact Hk|exact Hd| |].
    + intros x Hfl Hm. apply Hsplit in Hm as [Hm|[Hm|[Hm|Hm]]]; [|exact Hm| |].
      * apply Ho in Hm. rewrite (Hfk x Hfl) in Hm. discriminate.
      * destruct (pkeys_facts a _ _ _ x Hp Hm) as [_ [H2 _]]. unfold no_flat, in_some_flat in H2. rewrite Hfl in H2. discriminate.
      * destruct (Hex x Hm) as [_ [H2 _]]. unfold no_flat, in_some_flat in H2. rewrite Hfl in H2. discriminate.
    + intros x Hx'. apply Hsplit. auto.
  - apply pat_part; [exact Hp| |].
    + intros k Hk'. apply Hsplit. auto.
    + intros k Hm H1 H2 H3 _. apply Hsplit in Hm as [Hm|[Hm|[Hm|Hm]]]; [| |exact Hm|].
      * apply Ho in Hm. rewrite H1 in Hm. discriminate.
      * pose proof (kids_in_flats _ _ k Hk Hm) as Hfl. unfold no_flat, in_some_flat in H2. rewrite Hfl in H2. discriminate.
      * destruct (Hex k Hm) as [_ [_ H5]]. rewrite H5 in H3. discriminate.
  - intros x. unfold spec_rest. rewrite filter_In. split.
    + intros [Hm Hc]. apply andb_prop in Hc as [Hc H3]. apply andb_prop in Hc as [H1 H2]. apply negb_true_iff in H1, H3.
      apply Hsplit in Hm as [Hm|[Hm|[Hm|Hm]]]; [| | |exact Hm].
      * apply Ho in Hm. rewrite H1 in Hm. discriminate.
      * pose proof (kids_in_flats _ _ x Hk Hm) as Hfl. unfold in_some_flat in H2. rewrite Hfl in H2. discriminate.
      * destruct (pkeys_facts a _ _ _ x Hp Hm) as [_ [_ [H5 _]]]. unfold any_pat in H5. rewrite H5 in H3. discriminate.
    + intros Hin. split; [apply Hsplit; auto|]. destruct (Hex x Hin) as [H1 [H2 H3]]. unfold no_flat in H2. unfold any_pat in H3.
      now rewrite H1, H2, H3.
Qed.

(* the regular properties come back too: every regular alias emitted is a key deserialization reads as a regular property *)
Theorem own_keys_are_regular a e k : agg_rt_hyps a e = true -> In k (own e) -> In k (merged e) /\ mem k (known a) = true.
Proof.
  intros H Hin. unfold agg_rt_hyps in H. repeat (apply andb_prop in H as [H _]). rewrite forallb_forall in H.
  split; [unfold merged; apply in_or_app; now left|now apply H].
Qed.

(* satisfiable, with every kind of source *)
Definition rt_ex_agg := mkAgg ["n0"; "n1"] [["f0"; "f1"]; ["y"]] ["x_a"; "x_"] true.
Definition rt_ex_em := mkEm ["n0"; "n1"] [["f0"]; ["y"]] [["x_ab"]; ["x_b"; "x_"]] ["zz"; "yy"].
Example agg_rt_ex : agg_rt_hyps rt_ex_agg rt_ex_em = true.
Proof. vm_compute. reflexivity. Qed.

(* a collision is a refutation: an additional-properties dict holding the alias of a flattened field (a value the
   constructor accepts) comes back in the flattened object instead *)
Example collision_refuted :
  let a := mkAgg ["n0"] [["f0"]] [] true in
  let e := mkEm ["n0"] [[]] [] ["f0"] in
  agg_rt_hyps a e = false /\ dispatch a (merged e) = ([["f0"]], [], []).
Proof. vm_compute. split; reflexivity. Qed.

(* ------------------------------------------------------------------ comparison with what serialize emitted *)
Definition merge_case_ok (c : agg * emitted * list string) : bool :=
  let '(_, e, observed) := c in same_set (merged e) observed.
Definition merge_case_hyps (c : agg * emitted * list string) : bool := let '(a, e, _) := c in agg_rt_hyps a e.
