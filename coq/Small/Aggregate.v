(* Model of the key dispatch of ObjectMethod.deserialize for aggregate fields (apischema/deserialization/methods.py):
   which keys of the datum go to a flattened field, to a pattern-properties field, to the additional-properties field, and
   which are unexpected.  Patterns are start-anchored literal prefixes, as everywhere in this development. *)
From Coq Require Import List String Bool Arith.
From AV Require Import Core.Text.
Import ListNotations.
Open Scope string_scope.

Definition mem (k : string) (l : list string) : bool := existsb (String.eqb k) l.
Definition minus (a b : list string) : list string := filter (fun k => negb (mem k b)) a.

Record agg := mkAgg {
  known : list string;                 (* all_aliases: the keys that are properties of regular fields *)
  flats : list (list string);          (* FlattenedField.aliases, in declaration order *)
  pats : list string;                  (* PatternField.pattern, in declaration order *)
  has_additional : bool }.             (* an additional-properties field *)

(* remain = data.keys() - all_aliases; each flattened field takes its aliases present in the data (from the data, not from
   remain) and removes them from remain; each pattern field takes the remaining keys it matches; the rest goes to the
   additional field, or is unexpected *)
Fixpoint run_flats (keys : list string) (fl : list (list string)) (remain : list string) : list (list string) * list string :=
  match fl with
  | [] => ([], remain)
  | al :: r => let taken := filter (fun a => mem a keys) al in
               let (ts, rem') := run_flats keys r (minus remain taken) in (taken :: ts, rem')
  end.

Fixpoint run_pats (ps : list string) (remain : list string) : list (list string) * list string :=
  match ps with
  | [] => ([], remain)
  | p :: r => let matched := filter (prefixb p) remain in
              let (ms, rem') := run_pats r (minus remain matched) in (matched :: ms, rem')
  end.

Definition dispatch (a : agg) (keys : list string) : list (list string) * list (list string) * list string :=
  let remain0 := minus keys (known a) in
  let (ts, rem1) := run_flats keys (flats a) remain0 in
  let (ms, rem2) := run_pats (pats a) rem1 in
  (ts, ms, rem2).

(* ------------------------------------------------------------------ what the documentation says *)
Definition in_some_flat (a : agg) (k : string) : bool := existsb (mem k) (flats a).

(* a flattened field receives exactly its aliases present in the data *)
Definition spec_flat (keys al : list string) : list string := filter (fun x => mem x keys) al.
(* the j-th pattern field receives the keys that are no property, belong to no flattened field, match its pattern and none
   of the earlier ones *)
Definition spec_pat (a : agg) (keys : list string) (earlier : list string) (p : string) : list string :=
  filter (fun k => negb (mem k (known a)) && negb (in_some_flat a k) && prefixb p k && negb (existsb (fun q => prefixb q k) earlier)) keys.
(* the rest: no property, no flattened alias, no pattern *)
Definition spec_rest (a : agg) (keys : list string) : list string :=
  filter (fun k => negb (mem k (known a)) && negb (in_some_flat a k) && negb (existsb (fun q => prefixb q k) (pats a))) keys.

Fixpoint spec_pats (a : agg) (keys : list string) (earlier ps : list string) : list (list string) :=
  match ps with
  | [] => []
  | p :: r => spec_pat a keys earlier p :: spec_pats a keys (earlier ++ [p])%list r
  end.

Definition spec_dispatch (a : agg) (keys : list string) : list (list string) * list (list string) * list string :=
  (map (spec_flat keys) (flats a), spec_pats a keys [] (pats a), spec_rest a keys).

(* before `fix: 2f36014`, all_aliases also held the names of the aggregate fields themselves *)
Definition old_known (a : agg) (own_names : list string) : list string := (known a ++ own_names)%list.

(* ------------------------------------------------------------------ comparison with what the implementation did *)
Definition same_set (a b : list string) : bool := forallb (fun k => mem k b) a && forallb (fun k => mem k a) b.
Fixpoint same_sets (a b : list (list string)) : bool :=
  match a, b with
  | [], [] => true
  | x :: r, y :: s => same_set x y && same_sets r s
  | _, _ => false
  end.

(* mode 0: accepted, the class has an additional-properties field (its keys are observed); 1: accepted, the rest is ignored
   (additional_properties=True); 2: accepted with additional_properties=False: nothing may be left; 3: rejected: the
   unexpected properties reported are what is left *)
Definition agg_case_ok (c : agg * list string * list (list string) * list (list string) * list string * nat) : bool :=
  let '(a, keys, ots, oms, orest, mode) := c in
  let '(ts, ms, rest) := dispatch a keys in
  match mode with
  | 0 => same_sets ts ots && same_sets ms oms && same_set rest orest
  | 1 => same_sets ts ots && same_sets ms oms
  | 2 => same_sets ts ots && same_sets ms oms && same_set rest []
  | _ => same_set rest orest
  end.
