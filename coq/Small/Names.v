(* C11: the external name of a field.  Model of aliases.py (alias metadata, class aliaser with override=False exemptions),
   objects/visitor.py (_override_alias) and of the dynamic aliaser applied by every view.  No proofs here. *)
From Coq Require Import List String Bool Arith Ascii.
Import ListNotations.
Open Scope string_scope.

Record nfield := mkNF {
  nf_name : string;
  nf_alias : option string;       (* alias("x") *)
  nf_override : bool;             (* false = alias(override=False) *)
  nf_required : bool }.

(* ObjectField.alias *)
Definition base_alias (f : nfield) : string := match nf_alias f with Some a => a | None => nf_name f end.

(* _override_alias: the class aliaser rewrites the alias of the overridable fields *)
Definition class_alias (ca : option (string -> string)) (f : nfield) : string :=
  match ca with
  | Some g => if nf_override f then g (base_alias f) else base_alias f
  | None => base_alias f
  end.

(* every view applies the dynamic (per-call or settings) aliaser last *)
Definition external (dyn : string -> string) (ca : option (string -> string)) (f : nfield) : string :=
  dyn (class_alias ca f).

(* the aliasers used by the generated cases *)
Definition is_lower_or_digit (c : ascii) : bool :=
  let n := nat_of_ascii c in (Nat.leb 97 n && Nat.leb n 122) || (Nat.leb 48 n && Nat.leb n 57).
Definition upper_char (c : ascii) : ascii :=
  let n := nat_of_ascii c in if Nat.leb 97 n && Nat.leb n 122 then ascii_of_nat (n - 32) else c.

(* utils.to_camel_case: re.sub(r"_([a-z\d])", upper) *)
Fixpoint camel (s : string) : string :=
  match s with
  | EmptyString => EmptyString
  | String c r =>
      if Ascii.eqb c "_"%char then
        match r with
        | String c' r' => if is_lower_or_digit c' then String (upper_char c') (camel r') else String c (camel r)
        | EmptyString => String c EmptyString
        end
      else String c (camel r)
  end.

Fixpoint upper (s : string) : string :=
  match s with EmptyString => EmptyString | String c r => String (upper_char c) (upper r) end.

Definition al_id (s : string) : string := s.
Definition al_prefix (s : string) : string := "p_" ++ s.
Definition al_custom (s : string) : string := s ++ "_x".

(* the views *)
Section Views.
  Variable dyn : string -> string.
  Variable ca : option (string -> string).
  Variable fields : list nfield.

  Definition view_properties : list string := map (external dyn ca) fields.
  Definition view_required : list string := map (external dyn ca) (filter nf_required fields).
  Definition view_serialized_keys : list string := map (external dyn ca) fields.
  Definition ext_of_name (n : string) : option string :=
    option_map (external dyn ca) (find (fun f => String.eqb (nf_name f) n) fields).
End Views.

(* ------------------------------------------------------------------ entry point of the generated cases *)
Definition mem_s (s : string) (l : list string) : bool := existsb (String.eqb s) l.
Definition same_set (a b : list string) : bool :=
  Nat.eqb (List.length a) (List.length b) && forallb (fun x => mem_s x b) a && forallb (fun x => mem_s x a) b.

Definition names_case
  (c : (string -> string) * option (string -> string) * option (string -> string) * list nfield * list nfield *
       list (string * list string) * option (string * list string * list (list string)) * option (string * string) *
       option (list string)) : bool :=
  let '(dyn, ca, cai, fields, inner, views, dr, val, gql) := c in
  forallb (fun v =>
    let '(name, observed) := v in
    if String.eqb name "drequired" then same_set observed (view_required dyn ca fields)
    else if String.eqb name "inner_keys" || String.eqb name "inner_err" then same_set observed (view_properties dyn cai inner)
    else same_set observed (view_properties dyn ca fields)) views
  && match dr with
     | None => true
     | Some (k, deps, rows) =>
         match ext_of_name dyn ca fields k with
         | Some ek =>
             let edeps := flat_map (fun d => match ext_of_name dyn ca fields d with Some e => [e] | None => [] end) deps in
             match rows with
             | [row] => match row with
                        | k' :: deps' => String.eqb k' ek && same_set deps' edeps
                        | [] => false end
             | _ => false
             end
         | None => false
         end
     end
  && match val with
     | None => true
     | Some (n, loc) => match ext_of_name dyn ca fields n with Some e => String.eqb e loc | None => false end
     end
  && match gql with
     | None => true
     | Some l => same_set l (view_properties dyn ca fields)
     end.
