From Coq Require Import List String Bool Arith Lia.
From AV Require Import Small.FieldsSet.
Import ListNotations.
Open Scope string_scope.

Lemma mem_In s l : mem s l = true <-> In s l.
Proof.
  unfold mem. rewrite existsb_exists. split.
  - intros [x [Hx E]]. apply String.eqb_eq in E. subst. exact Hx.
  - intros H. exists s. split; [exact H|apply String.eqb_refl].
Qed.

Lemma add_In s x l : In x (add s l) <-> x = s \/ In x l.
Proof.
  unfold add. destruct (mem s l) eqn:E.
  - apply mem_In in E. split; [auto|intros [->|H]; auto].
  - rewrite in_app_iff. simpl. split; [intros [H|[H|[]]]; auto|intros [->|H]; auto].
Qed.

Lemma union_In x a b : In x (union a b) <-> In x a \/ In x b.
Proof.
  unfold union. revert a. induction b as [|s b IH]; intros a; simpl; [tauto|].
  rewrite IH, add_In. intuition (subst; auto).
Qed.

Lemma diff_In x a b : In x (diff a b) <-> In x a /\ ~ In x b.
Proof.
  unfold diff. rewrite filter_In. split; intros [H1 H2]; split; auto.
  - intros H. apply mem_In in H. rewrite H in H2. discriminate.
  - destruct (mem x b) eqn:E; [apply mem_In in E; contradiction|reflexivity].
Qed.

Lemma nodup_snoc (s : string) l : NoDup l -> ~ In s l -> NoDup (l ++ [s]).
Proof.
  induction 1 as [|x l Hx Hn IH]; intros Hs; simpl; [repeat constructor; simpl; tauto|].
  constructor.
  - rewrite in_app_iff. simpl. intros [H|[H|[]]]; [contradiction|]. apply Hs. left. auto.
  - apply IH. intros H. apply Hs. right. exact H.
Qed.

Lemma add_nodup s l : NoDup l -> NoDup (add s l).
Proof.
  intros H. unfold add. destruct (mem s l) eqn:E; [exact H|].
  apply nodup_snoc; [exact H|]. intros Hin. apply mem_In in Hin. congruence.
Qed.

Lemma union_nodup a b : NoDup a -> NoDup (union a b).
Proof. unfold union. revert a. induction b as [|s b IH]; intros a H; simpl; [exact H|]. apply IH. apply add_nodup. exact H. Qed.

Lemma diff_nodup a b : NoDup a -> NoDup (diff a b).
Proof. intros H. unfold diff. apply NoDup_filter. exact H. Qed.

(* the implementation-shaped step and the documented step denote the same set, for every class and operation *)
Theorem step_is_documented c fs o x : In x (step c fs o) <-> In x (doc_step c fs o).
Proof.
  destruct o as [n kw|name|names ow|names|ch| |n kw]; simpl.
  - unfold init. rewrite !union_In, !diff_In, !union_In. simpl. tauto.
  - tauto.
  - destruct ow; tauto.
  - tauto.
  - rewrite !union_In, !diff_In. simpl. tauto.
  - tauto.
  - unfold init. rewrite !union_In, !diff_In, !union_In. tauto.
Qed.

(* after any sequence of operations the tracked set is the documented fold (as sets), and it is duplicate free *)
Theorem run_is_documented c ops : forall fs fs',
  (forall x, In x fs <-> In x fs') ->
  forall x, In x (fold_left (step c) ops fs) <-> In x (fold_left (doc_step c) ops fs').
Proof.
  induction ops as [|o ops IH]; intros fs fs' H x; simpl; [apply H|].
  apply IH. intros y. rewrite step_is_documented.
  destruct o as [n kw|name|names ow|names|ch| |n kw]; simpl;
    rewrite ?union_In, ?diff_In, ?add_In, ?H; try tauto.
  destruct ow; rewrite ?union_In, ?H; tauto.
Qed.

Theorem step_nodup c fs o : NoDup fs -> NoDup (step c fs o).
Proof.
  intros H. destruct o as [n kw|name|names ow|names|ch| |n kw]; simpl.
  - unfold init. apply union_nodup, union_nodup. constructor.
  - apply add_nodup. exact H.
  - apply union_nodup. destruct ow; [constructor|exact H].
  - apply diff_nodup. exact H.
  - apply union_nodup, union_nodup. constructor.
  - constructor.
  - unfold init. apply union_nodup, union_nodup. exact H.
Qed.

(* a subclass overriding __init__: whatever it assigns before delegating to the tracked __init__ stays in the set *)
Theorem init_keeps_previous c fs n kw x : In x fs -> In x (step c fs (OInit n kw)).
Proof. intros H. simpl. unfold init. rewrite !union_In. tauto. Qed.

Theorem subclass_constructor_spec c pre post n kw x :
  In x (fold_left (step c) ((OAlloc :: map OSetAttr pre) ++ OInit n kw :: map OSetAttr post) []) <->
  In x pre \/ In x post \/ (In x (firstn n (params c) ++ kw) /\ ~ In x (init_vars c)) \/ In x (post_init c).
Proof.
  rewrite fold_left_app. cbn [fold_left step].
  assert (A : forall l fs y, In y (fold_left (step c) (map OSetAttr l) fs) <-> In y fs \/ In y l).
  { induction l as [|a l IH]; intros fs y; simpl; [tauto|]. rewrite IH, add_In. intuition (subst; auto). }
  rewrite A. unfold init. rewrite !union_In, diff_In, union_In, A, in_app_iff. simpl. tauto.
Qed.

(* deserialize: fields_set = keys present in the data (minus InitVars) + default_as_set / init=False fields *)
Theorem after_deserialize_spec c present x :
  In x (after_deserialize c present) <-> (In x present /\ ~ In x (init_vars c)) \/ In x (post_init c).
Proof.
  unfold after_deserialize. simpl. unfold init. rewrite !union_In, diff_In, union_In. simpl. tauto.
Qed.

(* replace keeps what was set and adds the changed fields; unset removes exactly the named fields *)
Theorem replace_spec c fs ch x : In x (step c fs (OReplace ch)) <-> In x fs \/ (In x ch /\ ~ In x (init_vars c)).
Proof. simpl. rewrite !union_In, diff_In. simpl. tauto. Qed.

Theorem unset_spec c fs names x : In x (step c fs (OUnsetFields names)) <-> In x fs /\ ~ In x names.
Proof. simpl. apply diff_In. Qed.

Definition ex_cls : cls := mkFC ["a"; "b"; "iv"; "c"] ["iv"] ["ro"; "das"] ["a"; "b"; "c"; "ro"; "das"; "pi"].

Example ex_run :
  run ex_cls [ONew 1 ["c"; "iv"]; OSetAttr "b"; OUnsetFields ["a"]; OReplace ["a"]; OSetFields ["x"] false]
  = ["c"; "ro"; "das"; "b"; "a"; "x"].
Proof. vm_compute. reflexivity. Qed.
