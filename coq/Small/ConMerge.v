(* A constraint given at several levels (NewType / class schema, nested Annotated, field metadata, per-call schema=) is merged by
   apischema/constraints.py into one constraint.  The table of merge operations is regenerated from the source
   (Gen/Tables.v: constraint_merges); here: what each constraint means, and what each operation computes. *)
From Coq Require Import List String ZArith Bool Lia.
From AV Require Import Gen.Tables.
Import ListNotations.
Open Scope string_scope.

Inductive ckind :=
| Lower (strict : bool)      (* the value / length / count is at least (more than) the bound *)
| Upper (strict : bool)
| Mult                       (* the value is a multiple of the bound *)
| Flag                       (* uniqueItems *)
| Pat.                       (* pattern: cannot be given twice *)

Definition kind_of (name : string) : option ckind :=
  if name =? "min" then Some (Lower false) else if name =? "exc_min" then Some (Lower true)
  else if name =? "max" then Some (Upper false) else if name =? "exc_max" then Some (Upper true)
  else if name =? "mult_of" then Some Mult
  else if (name =? "min_len") || (name =? "min_items") || (name =? "min_props") then Some (Lower false)
  else if (name =? "max_len") || (name =? "max_items") || (name =? "max_props") then Some (Upper false)
  else if name =? "unique" then Some Flag
  else if name =? "pattern" then Some Pat
  else None.

(* does x satisfy the constraint of kind k with parameter b?  (for Flag: x = 1 iff the items are pairwise distinct) *)
Definition sat (k : ckind) (b x : Z) : bool :=
  match k with
  | Lower false => (b <=? x)%Z | Lower true => (b <? x)%Z
  | Upper false => (x <=? b)%Z | Upper true => (x <? b)%Z
  | Mult => (x mod b =? 0)%Z
  | Flag => if (b =? 0)%Z then true else (x =? 1)%Z
  | Pat => true
  end.

Definition merge_op (m : string) : option (Z -> Z -> Z) :=
  if m =? "max" then Some Z.max else if m =? "min" then Some Z.min
  else if m =? "lcm" then Some Z.lcm
  else if m =? "or" then Some (fun a b => if (a =? 0)%Z && (b =? 0)%Z then 0%Z else 1%Z)
  else None.

(* parameters a constraint of this kind may carry (multipleOf is positive) *)
Definition param_ok (k : ckind) (b : Z) : Prop := match k with Mult => (0 < b)%Z | _ => True end.

(* one row of the table is right when its operation computes the conjunction of the two levels -- or refuses to merge *)
Definition row_ok (row : string * string * string) : Prop :=
  let '(name, _, m) := row in
  match kind_of name with
  | None => False
  | Some Pat => m = "fail"
  | Some k => exists f, merge_op m = Some f /\
                forall a b x, param_ok k a -> param_ok k b -> param_ok k (f a b) /\ sat k (f a b) x = sat k a x && sat k b x
  end.

Definition boolean_rows_ok : bool :=
  forallb (fun row : string * string * string => let '(name, _, m) := row in
     match kind_of name with
     | Some (Lower _) => m =? "max" | Some (Upper _) => m =? "min" | Some Mult => m =? "lcm" | Some Flag => m =? "or"
     | Some Pat => m =? "fail" | None => false end) constraint_merges.

Definition expected_names : list string :=
  ["min"; "max"; "exc_min"; "exc_max"; "mult_of"; "min_len"; "max_len"; "pattern"; "min_items"; "max_items"; "unique"; "min_props"; "max_props"].
