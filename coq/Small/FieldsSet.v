(* Model of apischema/fields.py (with_fields_set, set_fields, unset_fields) and apischema.dataclasses.replace. *)
From Coq Require Import List String Bool Arith.
Import ListNotations.
Open Scope string_scope.

Definition mem (s : string) (l : list string) : bool := existsb (String.eqb s) l.

Definition add (s : string) (l : list string) : list string := if mem s l then l else (l ++ [s])%list.
Definition union (a b : list string) : list string := fold_left (fun acc s => add s acc) b a.
Definition diff (a b : list string) : list string := filter (fun s => negb (mem s b)) a.

(* what with_fields_set computes from the dataclass *)
Record cls := mkFC {
  params : list string;        (* parameters of __init__, in order (fields with init=True and InitVars) *)
  init_vars : list string;     (* InitVar pseudo-fields *)
  post_init : list string;     (* fields with init=False, and fields with default_as_set *)
  assigned_in_init : list string }.   (* attributes assigned while __init__ runs (every field; __post_init__ writes) *)

Inductive op :=
| ONew (nargs : nat) (kwargs : list string)      (* the constructor called with nargs positional and the named keyword arguments *)
| OSetAttr (name : string)                       (* obj.name = value *)
| OSetFields (names : list string) (overwrite : bool)
| OUnsetFields (names : list string)
| OReplace (changes : list string)               (* apischema.dataclasses.replace(obj, **changes) *)
| OAlloc                                         (* cls.__new__(cls): what a subclass overriding __init__ starts from *)
| OInit (nargs : nat) (kwargs : list string).    (* the tracked __init__ called on an existing object (super().__init__(...)
                                                    after the subclass assigned attributes, or obj.__init__(...) again) *)

(* new_init: FIELDS_SET_ATTR is emptied, old_init runs (each assignment goes through new_setattr and is recorded),
   then the attribute is overwritten by prev | arg_fields | post_init_fields *)
Definition init (c : cls) (prev : list string) (nargs : nat) (kwargs : list string) : list string :=
  let during := fold_left (fun acc s => add s acc) (assigned_in_init c) [] in   (* recorded, then discarded *)
  let arg_fields := diff (union (firstn nargs (params c)) kwargs) (init_vars c) in
  let _ := during in
  union (union prev arg_fields) (post_init c).

(* fields with init=True: what dataclasses.replace passes as keyword arguments *)
Definition init_fields (c : cls) : list string := diff (params c) (init_vars c).

Definition step (c : cls) (fs : list string) (o : op) : list string :=
  match o with
  | ONew nargs kwargs => init c [] nargs kwargs                  (* new_new resets the attribute to an empty set *)
  | OSetAttr name => add name fs
  | OSetFields names overwrite => union (if overwrite then [] else fs) names
  | OUnsetFields names => diff fs names
  | OReplace changes =>
      (* replace_ (obj, changes as keywords) builds a new object (all init fields + changes as kwargs, InitVars included),
         then set_fields (result, fields_set obj, changes, overwrite=True) *)
      let _new := init c [] 0 (union (init_fields c) changes) in
      union (union [] fs) (diff changes (init_vars c))
  | OAlloc => []                                                 (* new_new: FIELDS_SET_ATTR = set() *)
  | OInit nargs kwargs => init c fs nargs kwargs                 (* new_init: prev_fields_set = what was set before *)
  end.

Definition run (c : cls) (ops : list op) : list string := fold_left (step c) ops [].

(* the documented behaviour, op by op *)
Definition doc_step (c : cls) (fs : list string) (o : op) : list string :=
  match o with
  | ONew nargs kwargs => union (diff (union (firstn nargs (params c)) kwargs) (init_vars c)) (post_init c)
  | OSetAttr name => add name fs
  | OSetFields names true => union [] names
  | OSetFields names false => union fs names
  | OUnsetFields names => diff fs names
  | OReplace changes => union fs (diff changes (init_vars c))
  | OAlloc => []
  | OInit nargs kwargs => union fs (union (diff (union (firstn nargs (params c)) kwargs) (init_vars c)) (post_init c))
  end.

(* deserialize(T, d): the constructor is called with one keyword per key present in the data *)
Definition after_deserialize (c : cls) (present : list string) : list string := step c [] (ONew 0 present).

Definition same_set (a b : list string) : bool := forallb (fun s => mem s b) a && forallb (fun s => mem s a) b.
