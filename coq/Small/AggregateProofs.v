(* The key dispatch of aggregate fields computes the documented partition of the keys of the datum. *)
From Coq Require Import List String Bool Arith.
From AV Require Import Core.Text Small.Aggregate.
Import ListNotations.
Open Scope string_scope.

Lemma mem_filter k (f : string -> bool) l : mem k (filter f l) = mem k l && f k.
Proof.
  unfold mem. induction l as [|x r IH]; [reflexivity|]. cbn [filter existsb].
  destruct (String.eqb k x) eqn:E.
  - apply String.eqb_eq in E. subst x. destruct (f k) eqn:Ef; cbn [existsb]; rewrite ?String.eqb_refl, ?IH, ?Ef; cbn [orb andb].
    + reflexivity.
    + rewrite andb_false_r. reflexivity.
  - destruct (f x); cbn [existsb]; rewrite ?E, IH; reflexivity.
Qed.

Lemma filter_filter' {A} (f g : A -> bool) l : filter f (filter g l) = filter (fun x => g x && f x) l.
Proof. induction l as [|x r IH]; [reflexivity|]. cbn [filter]. destruct (g x); cbn [filter andb]; [destruct (f x)|]; now rewrite IH. Qed.

Lemma filter_ext_in' {A} (f g : A -> bool) l : (forall x, In x l -> f x = g x) -> filter f l = filter g l.
Proof.
  induction l as [|x r IH]; intros H; [reflexivity|]. cbn [filter]. rewrite (H x (or_introl eq_refl)).
  rewrite IH by (intros y Hy; apply H; now right). reflexivity.
Qed.

Lemma mem_in k l : In k l -> mem k l = true.
Proof. intros H. unfold mem. apply existsb_exists. exists k. split; [exact H|apply String.eqb_refl]. Qed.

Lemma minus_filter (P : string -> bool) keys B : minus (filter P keys) B = filter (fun k => P k && negb (mem k B)) keys.
Proof. unfold minus. apply filter_filter'. Qed.

(* flattened fields *)
Lemma run_flats_spec keys fl : forall P,
  run_flats keys fl (filter P keys) =
  (map (spec_flat keys) fl, filter (fun k => P k && negb (existsb (mem k) fl)) keys).
Proof.
  induction fl as [|al r IH]; intros P.
  - cbn [run_flats map existsb]. f_equal. apply filter_ext_in'. intros k _. now rewrite andb_true_r.
  - cbn [run_flats map existsb]. rewrite minus_filter, IH. fold (spec_flat keys al). f_equal.
    apply filter_ext_in'. intros k Hk. unfold spec_flat. rewrite mem_filter, (mem_in k keys Hk), andb_true_r.
    destruct (P k), (mem k al), (existsb (mem k) r); reflexivity.
Qed.

(* pattern fields, one after the other on what remains *)
Fixpoint spec_pats_gen (P : string -> bool) (keys ps : list string) : list (list string) :=
  match ps with
  | [] => []
  | p :: r => filter (fun k => P k && prefixb p k) keys :: spec_pats_gen (fun k => P k && negb (prefixb p k)) keys r
  end.

Lemma run_pats_spec keys ps : forall P,
  run_pats ps (filter P keys) =
  (spec_pats_gen P keys ps, filter (fun k => P k && negb (existsb (fun q => prefixb q k) ps)) keys).
Proof.
  induction ps as [|p r IH]; intros P.
  - cbn [run_pats spec_pats_gen existsb]. f_equal. apply filter_ext_in'. intros k _. now rewrite andb_true_r.
  - cbn [run_pats spec_pats_gen existsb]. rewrite filter_filter', minus_filter.
    rewrite (filter_ext_in' (fun k => P k && negb (mem k (filter (fun x => P x && prefixb p x) keys)))
                            (fun k => P k && negb (prefixb p k)) keys).
    + rewrite IH. f_equal. apply filter_ext_in'. intros k _. destruct (P k), (prefixb p k), (existsb (fun q => prefixb q k) r); reflexivity.
    + intros k Hk. rewrite mem_filter, (mem_in k keys Hk). destruct (P k), (prefixb p k); reflexivity.
Qed.

Lemma spec_pats_gen_ext P Q keys ps : (forall k, In k keys -> P k = Q k) -> spec_pats_gen P keys ps = spec_pats_gen Q keys ps.
Proof.
  revert P Q. induction ps as [|p r IH]; intros P Q H; [reflexivity|]. cbn [spec_pats_gen]. f_equal.
  - apply filter_ext_in'. intros k Hk. now rewrite (H k Hk).
  - apply IH. intros k Hk. now rewrite (H k Hk).
Qed.

Lemma spec_pats_as_gen a keys ps : forall earlier,
  spec_pats a keys earlier ps =
  spec_pats_gen (fun k => negb (mem k (known a)) && negb (in_some_flat a k) && negb (existsb (fun q => prefixb q k) earlier)) keys ps.
Proof.
  induction ps as [|p r IH]; intros earlier; [reflexivity|]. cbn [spec_pats spec_pats_gen]. f_equal.
  - unfold spec_pat. apply filter_ext_in'. intros k _.
    destruct (mem k (known a)), (in_some_flat a k), (prefixb p k), (existsb (fun q => prefixb q k) earlier); reflexivity.
  - rewrite IH. apply spec_pats_gen_ext. intros k _. rewrite existsb_app. cbn [existsb]. rewrite orb_false_r.
    destruct (mem k (known a)), (in_some_flat a k), (prefixb p k), (existsb (fun q => prefixb q k) earlier); reflexivity.
Qed.

(* THE STATEMENT: the dispatch as implemented is the documented partition, for every class and every set of keys *)
Theorem dispatch_is_spec a keys : dispatch a keys = spec_dispatch a keys.
Proof.
  unfold dispatch, spec_dispatch, minus. rewrite run_flats_spec. rewrite run_pats_spec.
  rewrite (spec_pats_as_gen a keys (pats a) []).
  rewrite (spec_pats_gen_ext (fun k => negb (mem k (known a)) && negb (in_some_flat a k) && negb (existsb (fun q => prefixb q k) []))
                             (fun k => negb (mem k (known a)) && negb (existsb (mem k) (flats a))) keys (pats a))
    by (intros k _; cbn [existsb]; unfold in_some_flat; now rewrite andb_true_r).
  reflexivity.
Qed.

(* no key is lost: a key of the datum is a property of a regular field, or belongs to a flattened field, or goes to
   exactly the first pattern field it matches, or is left (for the additional field / reported as unexpected) *)
Theorem dispatch_total a keys k : In k keys ->
  mem k (known a) = true \/ in_some_flat a k = true
  \/ (exists ms, In ms (snd (fst (spec_dispatch a keys))) /\ In k ms)
  \/ In k (snd (spec_dispatch a keys)).
Proof.
  intros Hk. destruct (mem k (known a)) eqn:E1; [now left|]. destruct (in_some_flat a k) eqn:E2; [right; now left|].
  right. right. cbn [spec_dispatch fst snd].
  destruct (existsb (fun q => prefixb q k) (pats a)) eqn:E3.
  - left. (* the first pattern that matches *)
    assert (Hgen : forall ps earlier, existsb (fun q => prefixb q k) earlier = false -> existsb (fun q => prefixb q k) ps = true ->
                     exists ms, In ms (spec_pats a keys earlier ps) /\ In k ms).
    { induction ps as [|p r IH]; intros earlier He Hp; [discriminate|]. cbn [existsb] in Hp. cbn [spec_pats].
      destruct (prefixb p k) eqn:Ep.
      - exists (spec_pat a keys earlier p). split; [now left|]. unfold spec_pat. apply filter_In. split; [exact Hk|].
        now rewrite E1, E2, Ep, He.
      - cbn [orb] in Hp. destruct (IH (earlier ++ [p])%list) as [ms [Hin Hkm]]; [|exact Hp|].
        + rewrite existsb_app, He. cbn [existsb]. now rewrite Ep.
        + exists ms. split; [now right|exact Hkm]. }
    apply (Hgen (pats a) []); [reflexivity|exact E3].
  - right. unfold spec_rest. apply filter_In. split; [exact Hk|]. now rewrite E1, E2, E3.
Qed.

(* and none is duplicated between the pattern fields and the rest *)
Theorem rest_exclusive a keys k : In k (snd (spec_dispatch a keys)) ->
  mem k (known a) = false /\ in_some_flat a k = false /\ existsb (fun q => prefixb q k) (pats a) = false.
Proof.
  cbn [spec_dispatch snd]. unfold spec_rest. intros H. apply filter_In in H. destruct H as [_ H].
  destruct (mem k (known a)), (in_some_flat a k), (existsb (fun q => prefixb q k) (pats a)); try discriminate; auto.
Qed.

(* before `fix: 2f36014` the names of the aggregate fields themselves were in all_aliases: such a key was lost *)
Theorem old_all_aliases_refuted :
  exists a own keys k,
    In k keys /\ mem k (known a) = false /\ in_some_flat a k = false
    /\ let '(ts, ms, rest) := dispatch (mkAgg (old_known a own) (flats a) (pats a) (has_additional a)) keys in
       ~ In k rest /\ (forall l, In l ts -> ~ In k l) /\ (forall l, In l ms -> ~ In k l).
Proof.
  exists (mkAgg ["name"] [["street"]] [] false), ["address"], ["name"; "address"], "address".
  vm_compute. split; [right; left; reflexivity|]. split; [reflexivity|]. split; [reflexivity|]. split; [tauto|]. split.
  - intros x [<-|[]] H. exact H.
  - intros x [].
Qed.
