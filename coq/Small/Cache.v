(* C09: a configuration store with a memo cache of observations; mutations that may change an observation reset it. *)
From Coq Require Import List Bool.
Import ListNotations.

Section Cache.
Variables config op query answer : Type.
Variable apply : config -> op -> config.          (* a registration / settings assignment *)
Variable observe : config -> query -> answer.     (* cold-start semantics of deserialize / serialize / schema calls *)
Variable resets : op -> bool.                     (* does the mutation path call cache.reset() *)
Variable qeqb : query -> query -> bool.
Hypothesis qeqb_eq : forall a b, qeqb a b = true -> a = b.

Inductive event := Mut (o : op) | Obs (q : query).

Record state := mkSt { cfg : config; cache : list (query * answer) }.

Fixpoint lookup (q : query) (c : list (query * answer)) : option answer :=
  match c with
  | [] => None
  | (q', a) :: r => if qeqb q q' then Some a else lookup q r
  end.

(* one event: the new state and, for an observation, the answer given to the caller *)
Definition step (s : state) (e : event) : state * option answer :=
  match e with
  | Mut o => (mkSt (apply (cfg s) o) (if resets o then [] else cache s), None)
  | Obs q => match lookup q (cache s) with
             | Some a => (s, Some a)
             | None => let a := observe (cfg s) q in (mkSt (cfg s) ((q, a) :: cache s), Some a)
             end
  end.

(* the run of a history: every answer paired with the configuration in force when it was given *)
Fixpoint run (s : state) (h : list event) : list (config * query * answer) :=
  match h with
  | [] => []
  | e :: r =>
      let '(s', out) := step s e in
      match e, out with
      | Obs q, Some a => (cfg s, q, a) :: run s' r
      | _, _ => run s' r
      end
  end.

Definition coherent (s : state) : Prop := forall q a, In (q, a) (cache s) -> a = observe (cfg s) q.

(* the wiring condition: a mutation that does not reset the caches cannot change any observation *)
Definition wiring_ok : Prop := forall o c q, resets o = false -> observe (apply c o) q = observe c q.

Lemma lookup_in q c a : lookup q c = Some a -> exists q', In (q', a) c /\ q = q'.
Proof.
  induction c as [|[q' a'] r IH]; simpl; [discriminate|].
  destruct (qeqb q q') eqn:E.
  - intros H. injection H as <-. exists q'. split; [left; reflexivity|apply qeqb_eq; exact E].
  - intros H. destruct (IH H) as [q'' [Hin Heq]]. exists q''. split; [right; exact Hin|exact Heq].
Qed.

Lemma step_coherent s e : wiring_ok -> coherent s -> coherent (fst (step s e)).
Proof.
  intros W C. destruct e as [o|q]; simpl.
  - destruct (resets o) eqn:R; intros q a Hin; simpl in *; [contradiction|].
    rewrite W by exact R. apply C. exact Hin.
  - destruct (lookup q (cache s)) eqn:L; simpl; [exact C|].
    intros q' a [H|H]; [injection H as <- <-; reflexivity|apply C; exact H].
Qed.

Lemma step_answer s q a : coherent s -> snd (step s (Obs q)) = Some a -> a = observe (cfg s) q.
Proof.
  intros C. simpl. destruct (lookup q (cache s)) eqn:L; simpl; intros H; injection H as <-; [|reflexivity].
  destruct (lookup_in _ _ _ L) as [q' [Hin ->]]. apply C. exact Hin.
Qed.

(* after ANY history every answer is the cold-start answer for the configuration in force *)
Theorem never_stale : wiring_ok -> forall h s, coherent s ->
  forall c q a, In (c, q, a) (run s h) -> a = observe c q.
Proof.
  intros W. induction h as [|e h IH]; intros s C c q a Hin; simpl in Hin; [contradiction|].
  pose proof (step_coherent s e W C) as C'.
  destruct (step s e) as [s' out] eqn:E. simpl in C'.
  destruct e as [o|q0].
  - eapply IH; eassumption.
  - destruct out as [a0|].
    + destruct Hin as [H|H].
      * injection H as <- <- <-. apply (step_answer s q0 a0 C). rewrite E. reflexivity.
      * eapply IH; eassumption.
    + eapply IH; eassumption.
Qed.

Theorem empty_cache_coherent c : coherent (mkSt c []).
Proof. intros q a []. Qed.

End Cache.

(* ---- the instance: the wiring found in the source, row by row (regenerated table in Gen/Tables.v) *)
From Coq Require Import String.
From AV Require Import Gen.Tables.

(* every registry mutation path and every settings class can change what deserialize / serialize / schemas return:
   the (reviewed) matrix is "every row affects some observation", so every row must reset *)
Definition row_ok (r : string * string * bool) : bool := snd r.

Definition wiring_table_sound : bool := forallb row_ok cache_wiring.

Definition cached_functions_registered : bool := forallb (fun r : string * bool => snd r) cached_functions.
