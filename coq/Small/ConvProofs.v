(* C12: laws of the conversion model. *)
From Coq Require Import List String ZArith Bool Arith.
From AV Require Import Small.Conv.
Import ListNotations.

Section Laws.
  Variable w : world.

  (* one registered deserializer f : S -> K, no dynamic conversion: deserialize(K, d) = f(deserialize(S, d)); it rejects
     exactly what S rejects, plus the values f refuses (ValidationError with catch_value_error, the exception otherwise) *)
  Theorem single_deserializer : forall f k c d,
    w_reg w (TK k) = [c] -> cv_identity c = false ->
    dexec w (S f) [] (CK k) d =
    match dexec w f [] (cv_source c) d with
    | COk v => if w_fails w (cv_fid c) v then (if cv_catch c then CErr else CRaise "ValueError") else COk (XApp (cv_fid c) v)
    | other => other
    end.
  Proof. intros f k c d Hr Hi. cbn [dexec matching filter]. rewrite Hr. cbn [filter]. rewrite Hi. reflexivity. Qed.

  (* several deserializers: tried in registration order; the first whose source accepts (and whose converter accepts) wins *)
  Theorem first_deserializer_wins : forall f k c1 c2 rest d v,
    w_reg w (TK k) = c1 :: c2 :: rest -> cv_identity c1 = false -> cv_identity c2 = false ->
    dexec w f [] (cv_source c1) d = COk v -> w_fails w (cv_fid c1) v = false ->
    dexec w (S f) [] (CK k) d = COk (XApp (cv_fid c1) v).
  Proof.
    intros f k c1 c2 rest d v Hr H1 H2 Hv Hf. cbn [dexec matching filter]. rewrite Hr. cbn [filter]. rewrite H1, H2. cbn [negb].
    destruct (filter (fun c => negb (cv_identity c)) rest); rewrite Hv, Hf; reflexivity.
  Qed.

  Theorem second_deserializer_after_rejection : forall f k c1 c2 d v,
    w_reg w (TK k) = [c1; c2] -> cv_identity c1 = false -> cv_identity c2 = false ->
    dexec w f [] (cv_source c1) d = CErr ->
    dexec w f [] (cv_source c2) d = COk v -> w_fails w (cv_fid c2) v = false ->
    dexec w (S f) [] (CK k) d = COk (XApp (cv_fid c2) v).
  Proof.
    intros f k c1 c2 d v Hr H1 H2 He Hv Hf. cbn [dexec matching filter]. rewrite Hr. cbn [filter]. rewrite H1, H2. cbn [negb].
    rewrite He, Hv, Hf. reflexivity.
  Qed.

  (* a dynamic conversion targeting the class replaces the registered ones *)
  Theorem dynamic_replaces_registered : forall f k c dyn d,
    matching (TK k) dyn = [c] -> cv_identity c = false ->
    dexec w (S f) dyn (CK k) d =
    match dexec w f [] (cv_source c) d with
    | COk v => if w_fails w (cv_fid c) v then (if cv_catch c then CErr else CRaise "ValueError") else COk (XApp (cv_fid c) v)
    | other => other
    end.
  Proof. intros f k c dyn d Hm Hi. cbn [dexec]. rewrite Hm. cbn [filter]. rewrite Hi. reflexivity. Qed.

  (* dynamic conversions do not reach the fields of an object they do not target: the result does not depend on them *)
  Theorem dynamic_stops_at_objects : forall f c dyn d,
    matching (TO c) dyn = [] -> dexec w (S f) dyn (CObj c) d = dexec w (S f) [] (CObj c) d.
  Proof. intros f c dyn d Hm. cbn [dexec]. rewrite Hm. reflexivity. Qed.

  (* ... but they are handed to the items of a collection and to the alternatives of a union *)
  Theorem dynamic_reaches_list_items : forall f dyn t x,
    existsb cv_identity dyn = false ->
    dexec w (S f) dyn (CList t) (DList [x]) =
    match dexec w f dyn t x with COk v => COk (XList [v]) | other => other end.
  Proof. intros f dyn t x Hi. cbn [dexec]. rewrite Hi. destruct (dexec w f dyn t x); reflexivity. Qed.

  Theorem dynamic_reaches_union_alternatives : forall f dyn t1 t2 d,
    supp w f dyn t1 = true -> supp w f dyn t2 = true ->
    dexec w (S f) dyn (CUnion [t1; t2]) d =
    match dexec w f dyn t1 d with CErr => (match dexec w f dyn t2 d with CErr => CErr | other => other end) | other => other end.
  Proof. intros f dyn t1 t2 d H1 H2. cbn [dexec filter]. rewrite H1, H2. reflexivity. Qed.

  (* `identity` bypasses the registered conversion of the class it is given for: whatever is registered, the result is
     the object itself (built from its fields), never the result of a converter *)
  Theorem identity_bypasses_registered : forall f c idc d v,
    cv_identity idc = true ->
    dexec w (S f) [idc] (CObj c) d = COk v -> exists fs, v = XObj c fs.
  Proof.
    intros f c idc d v Hi. cbn [dexec matching filter]. rewrite Hi. cbn [orb filter]. rewrite Hi. cbn [negb filter].
    destruct d as [z|s|l|kvs]; try discriminate.
    generalize (negb (Nat.eqb (List.length kvs) (List.length (w_fields w c)))) as failed.
    generalize (@nil (string * cval)) as acc.
    induction (w_fields w c) as [|[[n ft] fconv] r IH]; intros acc failed.
    - destruct failed; [discriminate|]. intros H. injection H as <-. eexists. reflexivity.
    - destruct (dict_get_c n kvs) as [x|]; [|apply IH].
      destruct (dexec w f fconv ft x); try discriminate; apply IH.
  Qed.
End Laws.
