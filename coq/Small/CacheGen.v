(* C09, apischema.cache.set_size: the caches are replaced by new cache objects ("generations"); callers reach one
   generation or another (the module attribute, or a name imported earlier).  reset() clears the registered generations.
   With every generation registered (fix 30cb10d) no answer is stale, through whichever generation it is asked; with only the
   first one registered (the code before) there is a stale answer. *)
From Coq Require Import List Bool Arith Lia.
Import ListNotations.

Section Gen.
Variables config op query answer : Type.
Variable apply : config -> op -> config.
Variable observe : config -> query -> answer.
Variable resets : op -> bool.
Variable qeqb : query -> query -> bool.
Hypothesis qeqb_eq : forall a b, qeqb a b = true -> a = b.
Variable registers_new : bool.        (* does set_size register the cache objects it installs *)

Inductive event := Mut (o : op) | SetSize | Obs (g : nat) (q : query).

Definition memo := list (query * answer).
Record state := mkSt { cfg : config; caches : list memo; registered : list nat }.

Fixpoint lookup (q : query) (c : memo) : option answer :=
  match c with
  | [] => None
  | (q', a) :: r => if qeqb q q' then Some a else lookup q r
  end.

Fixpoint clear_registered (reg : list nat) (g : nat) (cs : list memo) : list memo :=
  match cs with
  | [] => []
  | c :: r => (if existsb (Nat.eqb g) reg then [] else c) :: clear_registered reg (S g) r
  end.

Fixpoint set_nth (g : nat) (c : memo) (cs : list memo) : list memo :=
  match cs, g with
  | [], _ => []
  | _ :: r, O => c :: r
  | x :: r, S g' => x :: set_nth g' c r
  end.

Definition step (s : state) (e : event) : state * option answer :=
  match e with
  | Mut o => (mkSt (apply (cfg s) o) (if resets o then clear_registered (registered s) 0 (caches s) else caches s) (registered s), None)
  | SetSize => (mkSt (cfg s) (caches s ++ [[]]) (if registers_new then registered s ++ [List.length (caches s)] else registered s), None)
  | Obs g q =>
      match nth_error (caches s) g with
      | None => (s, None)                    (* no such generation *)
      | Some c => match lookup q c with
                  | Some a => (s, Some a)
                  | None => let a := observe (cfg s) q in
                            (mkSt (cfg s) (set_nth g ((q, a) :: c) (caches s)) (registered s), Some a)
                  end
      end
  end.

Fixpoint run (s : state) (h : list event) : list (config * query * answer) :=
  match h with
  | [] => []
  | e :: r =>
      let '(s', out) := step s e in
      match e, out with
      | Obs _ q, Some a => (cfg s, q, a) :: run s' r
      | _, _ => run s' r
      end
  end.

Definition coherent (s : state) : Prop :=
  forall g c, nth_error (caches s) g = Some c -> forall q a, In (q, a) c -> a = observe (cfg s) q.
Definition all_registered (s : state) : Prop := forall g, g < List.length (caches s) -> existsb (Nat.eqb g) (registered s) = true.
Definition wiring_ok : Prop := forall o c q, resets o = false -> observe (apply c o) q = observe c q.

Lemma lookup_in q c a : lookup q c = Some a -> exists q', In (q', a) c /\ q = q'.
Proof.
  induction c as [|[q' a'] r IH]; cbn [lookup]; [discriminate|]. destruct (qeqb q q') eqn:E.
  - intros [= <-]. exists q'. split; [now left|now apply qeqb_eq].
  - intros H. destruct (IH H) as [q'' [Hin ->]]. exists q''. split; [now right|reflexivity].
Qed.

Lemma clear_all reg : forall cs g0, (forall g, g0 <= g < g0 + List.length cs -> existsb (Nat.eqb g) reg = true) ->
  forall g c, nth_error (clear_registered reg g0 cs) g = Some c -> c = [].
Proof.
  induction cs as [|x r IH]; intros g0 H g c Hn; [destruct g; discriminate|]. cbn [clear_registered] in Hn.
  destruct g as [|g'].
  - cbn [nth_error] in Hn. rewrite H in Hn by (cbn [List.length]; lia). now injection Hn as <-.
  - cbn [nth_error] in Hn. apply (IH (S g0)) with (g := g'); [|exact Hn]. intros k Hk. apply H. cbn [List.length]. lia.
Qed.

Lemma nth_set_nth g c cs : forall k x, nth_error (set_nth g c cs) k = Some x ->
  (k = g /\ x = c /\ g < List.length cs) \/ (k <> g /\ nth_error cs k = Some x).
Proof.
  revert g. induction cs as [|y r IH]; intros g k x H; [destruct g, k; discriminate|].
  destruct g as [|g']; cbn [set_nth] in H.
  - destruct k; cbn [nth_error] in *; [left; injection H as <-; repeat split; cbn; lia | right; split; [lia|exact H]].
  - destruct k; cbn [nth_error] in *; [right; split; [lia|exact H]|].
    destruct (IH g' k x H) as [[-> [-> Hl]]|[Hne Hk]]; [left; repeat split; cbn [List.length]; lia | right; split; [lia|exact Hk]].
Qed.

Lemma set_nth_length g c cs : List.length (set_nth g c cs) = List.length cs.
Proof. revert g. induction cs as [|y r IH]; intros [|g]; cbn [set_nth List.length]; try reflexivity. now rewrite IH. Qed.

Lemma clear_length reg cs : forall g0, List.length (clear_registered reg g0 cs) = List.length cs.
Proof. induction cs as [|x r IH]; intros g0; cbn [clear_registered List.length]; [reflexivity|now rewrite IH]. Qed.

Lemma step_inv s e : registers_new = true -> wiring_ok -> coherent s -> all_registered s ->
  coherent (fst (step s e)) /\ all_registered (fst (step s e)).
Proof.
  intros Hr W C A. destruct e as [o| |g q]; cbn [step fst].
  - destruct (resets o) eqn:R; split.
    + intros g c Hn q a Hin. cbn [caches cfg] in *.
      rewrite (clear_all (registered s) (caches s) 0) with (g := g) (c := c) in Hin; [contradiction| |exact Hn].
      intros k Hk. apply A. lia.
    + intros g Hg. cbn [caches registered] in *. rewrite clear_length in Hg. now apply A.
    + intros g c Hn q a Hin. cbn [caches cfg] in *. rewrite W by exact R. now apply (C g c Hn).
    + exact A.
  - rewrite Hr. split.
    + intros g c Hn q a Hin. cbn [caches cfg] in *.
      destruct (Nat.lt_ge_cases g (List.length (caches s))) as [Hl|Hl].
      * rewrite nth_error_app1 in Hn by exact Hl. now apply (C g c Hn).
      * rewrite nth_error_app2 in Hn by exact Hl. destruct (g - List.length (caches s)) as [|k]; cbn in Hn; [injection Hn as <-; contradiction|].
        destruct k; discriminate.
    + intros g Hg. cbn [caches registered] in *. rewrite app_length in Hg. cbn [List.length] in Hg. rewrite existsb_app.
      destruct (Nat.eq_dec g (List.length (caches s))) as [->|Hne].
      * cbn [existsb]. rewrite Nat.eqb_refl. now rewrite orb_true_r.
      * rewrite A by lia. reflexivity.
  - destruct (nth_error (caches s) g) as [c|] eqn:En; [|split; assumption].
    destruct (lookup q c) eqn:L; [split; assumption|]. cbn [fst]. split.
    + intros k x Hn q' a' Hin. cbn [caches cfg] in *.
      destruct (nth_set_nth _ _ _ _ _ Hn) as [[-> [-> _]]|[_ Hk]].
      * destruct Hin as [[= <- <-]|Hin]; [reflexivity|now apply (C g c En)].
      * now apply (C k x Hk).
    + intros k Hk. cbn [caches registered] in *. rewrite set_nth_length in Hk. now apply A.
Qed.

Lemma step_answer s g q a : coherent s -> snd (step s (Obs g q)) = Some a -> a = observe (cfg s) q.
Proof.
  intros C. cbn [step]. destruct (nth_error (caches s) g) as [c|] eqn:En; [|discriminate].
  destruct (lookup q c) eqn:L; cbn [snd]; intros [= <-]; [|reflexivity].
  destruct (lookup_in _ _ _ L) as [q' [Hin ->]]. now apply (C g c En).
Qed.

(* with every generation registered, after ANY history of mutations, resizings and observations through any generation,
   every answer is the cold-start answer for the configuration in force *)
Theorem never_stale_after_set_size : registers_new = true -> wiring_ok -> forall h s, coherent s -> all_registered s ->
  forall c q a, In (c, q, a) (run s h) -> a = observe c q.
Proof.
  intros Hr W. induction h as [|e h IH]; intros s C A c q a Hin; cbn [run] in Hin; [contradiction|].
  destruct (step_inv s e Hr W C A) as [C' A'].
  destruct (step s e) as [s' out] eqn:E. cbn [fst] in C', A'.
  destruct e as [o| |g q0].
  - destruct out; now apply (IH s').
  - destruct out; now apply (IH s').
  - destruct out as [a0|]; [|now apply (IH s')].
    destruct Hin as [[= <- <- <-]|Hin]; [|now apply (IH s')].
    apply (step_answer s g q0); [exact C|]. now rewrite E.
Qed.
End Gen.

(* before the fix: set_size does not register the new generation.  A counter whose observation is its value: resize, ask
   through the new generation, increment (a mutation that resets), ask again: the first answer comes back *)
Example old_set_size_refuted :
  let run0 := run nat unit unit nat (fun c _ => S c) (fun c _ => c) (fun _ => true) (fun _ _ => true) false in
  run0 (mkSt nat unit nat 0 [[]] [0]) [SetSize unit unit; Obs unit unit 1 tt; Mut unit unit tt; Obs unit unit 1 tt]
  = [(0, tt, 0); (1, tt, 0)].
Proof. vm_compute. reflexivity. Qed.

Example new_set_size_ok :
  let run1 := run nat unit unit nat (fun c _ => S c) (fun c _ => c) (fun _ => true) (fun _ _ => true) true in
  run1 (mkSt nat unit nat 0 [[]] [0]) [SetSize unit unit; Obs unit unit 1 tt; Obs unit unit 0 tt; Mut unit unit tt; Obs unit unit 1 tt; Obs unit unit 0 tt]
  = [(0, tt, 0); (0, tt, 0); (1, tt, 1); (1, tt, 1)].
Proof. vm_compute. reflexivity. Qed.
