(* C12: model of the conversion resolution of conversions/visitor.py (ConversionsVisitor.visit, DeserializationVisitor) and of
   the conversion methods of deserialization/methods.py, over a small type language with opaque classes.  No proofs. *)
From Coq Require Import List String ZArith Bool Arith.
Import ListNotations.
Open Scope string_scope.

Inductive cty :=
| CInt | CStr
| CK (k : nat)                  (* an opaque class: only (de)serializable through a conversion *)
| CList (t : cty)
| CUnion (ts : list cty)
| CObj (c : nat).               (* a dataclass *)

Inductive cdata := DInt (z : Z) | DStr (s : string) | DList (l : list cdata) | DDict (kvs : list (string * cdata)).

Inductive cval :=
| XInt (z : Z) | XStr (s : string) | XList (l : list cval)
| XApp (f : nat) (v : cval)                       (* the result of converter f applied to v *)
| XObj (c : nat) (fs : list (string * cval)).

Inductive target := TK (k : nat) | TO (c : nat).
Definition target_eqb (a b : target) : bool :=
  match a, b with TK x, TK y | TO x, TO y => Nat.eqb x y | _, _ => false end.

(* a resolved conversion: converter f : source -> target; identity conversions have no converter *)
Record conv := mkConv { cv_target : target; cv_source : cty; cv_fid : nat; cv_catch : bool; cv_identity : bool }.

Record world := mkW {
  w_reg : target -> list conv;                                  (* registered deserializers, in registration order *)
  w_fields : nat -> list (string * cty * list conv);            (* fields of the dataclasses, with field-level conversions *)
  w_fails : nat -> cval -> bool }.                              (* converter f raises ValueError on that value *)

Inductive cres := COk (v : cval) | CErr | CRaise (what : string) | CFuel.

(* `identity` takes the type it meets as source and target: it matches every convertible type *)
Definition matching (t : target) (dyn : list conv) : list conv :=
  filter (fun c => cv_identity c || target_eqb (cv_target c) t) dyn.

Fixpoint dict_get_c (k : string) (kvs : list (string * cdata)) : option cdata :=
  match kvs with [] => None | (k', v) :: r => if String.eqb k k' then Some v else dict_get_c k r end.

Section Exec.
  Variable w : world.

  (* does the method compile: an opaque class without conversion is Unsupported; a union drops its unsupported alternatives *)
  Fixpoint supp (fuel : nat) (dyn : list conv) (t : cty) {struct fuel} : bool :=
    match fuel with
    | O => true
    | S f =>
        let alternatives (tg : target) (structural : bool) : bool :=
          let m := matching tg dyn in
          let convs := match m with [] => w_reg w tg | _ => m end in
          let real := filter (fun c => negb (cv_identity c)) convs in
          match convs, real with
          | [], _ => structural
          | _, [] => structural
          | _, _ => forallb (fun c => supp f [] (cv_source c)) real
          end in
        match t with
        | CInt | CStr => true
        | CList t' => supp f (if existsb cv_identity dyn then [] else dyn) t'
        | CUnion ts => existsb (supp f dyn) ts
        | CK k => alternatives (TK k) false
        | CObj c => alternatives (TO c) (forallb (fun fd => supp f (snd fd) (snd (fst fd))) (w_fields w c))
        end
    end.

  (* visit(tp) with the dynamic conversions `dyn` in force, then deserialize d *)
  Fixpoint dexec (fuel : nat) (dyn : list conv) (t : cty) (d : cdata) {struct fuel} : cres :=
    match fuel with
    | O => CFuel
    | S f =>
        (* the conversions applied to a convertible class: dynamic ones if any targets it, otherwise the registered ones *)
        let alternatives (tg : target) (structural : unit -> cres) : cres :=
          let m := matching tg dyn in
          let dynamic := match m with [] => false | _ => true end in
          let convs := if dynamic then m else w_reg w tg in
          let real := filter (fun c => negb (cv_identity c)) convs in
          match convs, real with
          | [], _ => structural tt
          | _, [] => structural tt            (* only identity: the registered conversion is bypassed *)
          | _, [c] =>
              (* ConversionMethod / ConversionWithValueErrorMethod *)
              match dexec f [] (cv_source c) d with
              | COk v => if w_fails w (cv_fid c) v then (if cv_catch c then CErr else CRaise "ValueError") else COk (XApp (cv_fid c) v)
              | other => other
              end
          | _, _ =>
              (* ConversionUnionMethod: the first alternative whose source accepts and whose converter does not fail *)
              (fix alts (cs : list conv) : cres :=
                 match cs with
                 | [] => CErr
                 | c :: r =>
                     match dexec f [] (cv_source c) d with
                     | COk v => if w_fails w (cv_fid c) v
                                then (if cv_catch c then alts r else CRaise "ValueError")
                                else COk (XApp (cv_fid c) v)
                     | CErr => alts r
                     | other => other
                     end
                 end) real
          end in
        match t with
        | CInt => match d with DInt z => COk (XInt z) | _ => CErr end
        | CStr => match d with DStr s => COk (XStr s) | _ => CErr end
        | CList t' =>
            (* a Collection: the dynamic conversions are handed to the elements *)
            (* `identity` matches the list type itself: nothing is handed to the elements then *)
            let dyn' := if existsb cv_identity dyn then [] else dyn in
            match d with
            | DList l =>
                (* every item is deserialized (errors are collected); an exception of a converter propagates at once *)
                (fix each (l : list cdata) (acc : list cval) (failed : bool) : cres :=
                   match l with
                   | [] => if failed then CErr else COk (XList (rev acc))
                   | x :: r => match dexec f dyn' t' x with
                               | COk v => each r (v :: acc) failed
                               | CErr => each r acc true
                               | other => other
                               end
                   end) l [] false
            | _ => CErr
            end
        | CUnion ts =>
            (fix first (ts : list cty) : cres :=
               match ts with
               | [] => CErr
               | t1 :: tr => match dexec f dyn t1 d with CErr => first tr | other => other end
               end) (filter (supp f dyn) ts)
        | CK k => alternatives (TK k) (fun _ => CRaise "Unsupported")
        | CObj c =>
            alternatives (TO c) (fun _ =>
              match d with
              | DDict kvs =>
                  (fix fields (fs : list (string * cty * list conv)) (acc : list (string * cval)) (failed : bool) : cres :=
                     match fs with
                     | [] => if failed then CErr else COk (XObj c (rev acc))
                     | (n, ft, fconv) :: r =>
                         match dict_get_c n kvs with
                         | None => fields r acc true
                         | Some x =>
                             (* the dynamic conversions do not reach the fields: only the field's own conversion *)
                             match dexec f fconv ft x with
                             | COk v => fields r ((n, v) :: acc) failed
                             | CErr => fields r acc true
                             | other => other
                             end
                         end
                     end) (w_fields w c) [] (negb (Nat.eqb (List.length kvs) (List.length (w_fields w c))))
              | _ => CErr
              end)
        end
    end.
End Exec.

(* elements of a list: an error anywhere is an error (used by the case files: the harness only observes ok / error) *)
Fixpoint cval_eqb (a b : cval) {struct a} : bool :=
  match a, b with
  | XInt x, XInt y => Z.eqb x y
  | XStr x, XStr y => String.eqb x y
  | XList l1, XList l2 => (fix go (l1 l2 : list cval) : bool :=
                             match l1, l2 with
                             | [], [] => true
                             | x :: r1, y :: r2 => cval_eqb x y && go r1 r2
                             | _, _ => false end) l1 l2
  | XApp f x, XApp g y => Nat.eqb f g && cval_eqb x y
  | XObj c1 f1, XObj c2 f2 =>
      Nat.eqb c1 c2 && (fix go (l1 l2 : list (string * cval)) : bool :=
                          match l1, l2 with
                          | [], [] => true
                          | (n, x) :: r1, (m, y) :: r2 => String.eqb n m && cval_eqb x y && go r1 r2
                          | _, _ => false end) f1 f2
  | _, _ => false
  end.

Inductive cobs := OVal (v : cval) | OErr | ORaise (what : string).

Definition cres_matches (r : cres) (o : cobs) : bool :=
  match r, o with
  | COk v, OVal v' => cval_eqb v v'
  | CErr, OErr => true
  | CRaise a, ORaise b => String.eqb a b
  | _, _ => false
  end.

(* deserialize(T, d, conversion=dyn): compilation first *)
Definition deserialize_c (w : world) (fuel : nat) (dyn : list conv) (t : cty) (d : cdata) : cres :=
  if supp w fuel dyn t then dexec w fuel dyn t d else CRaise "Unsupported".
