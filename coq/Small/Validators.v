(* Model of the validator gate of ObjectMethod.deserialize and of validation/validators.py `validate`. *)
From Coq Require Import List String Bool Arith.
Import ListNotations.
Open Scope string_scope.

Definition mem (s : string) (l : list string) : bool := existsb (String.eqb s) l.
Definition disjointb (a b : list string) : bool := forallb (fun s => negb (mem s b)) a.

Record vdef := mkV {
  v_id : nat;
  v_deps : list string;           (* attributes read on self (transitively) + init parameters *)
  v_discard : list string }.      (* fields discarded when the validator fails (its `field` by default) *)

Section V.
Variable fails : vdef -> bool.    (* outcome oracle of the validators' bodies *)

(* validate(obj, validators): the validators executed, in order.  A failing validator with a discard re-runs
   `validate` on the remaining validators that do not depend on a discarded field, then raises. *)
Fixpoint validate (fuel : nat) (vs : list vdef) : option (list vdef) :=
  match fuel with
  | O => None
  | S f =>
      (fix loop (vs : list vdef) : option (list vdef) :=
         match vs with
         | [] => Some []
         | v :: rest =>
             if (fails v && negb (match v_discard v with [] => true | _ => false end))%bool then
               match validate f (filter (fun w => disjointb (v_deps w) (v_discard v)) rest) with
               | Some ex => Some (v :: ex)
               | None => None
               end
             else option_map (cons v) (loop rest)
         end) vs
  end.

(* the documented behaviour: one pass in declaration order; a validator runs unless it depends on a field discarded
   by an earlier failing validator *)
Fixpoint pass (discarded : list string) (vs : list vdef) : list vdef :=
  match vs with
  | [] => []
  | v :: rest =>
      if disjointb (v_deps v) discarded
      then v :: pass (if fails v then (discarded ++ v_discard v)%list else discarded) rest
      else pass discarded rest
  end.

(* the gate in ObjectMethod.deserialize: `provided` = names of the fields deserialized from the data without error,
   `invalid` = names of the fields in error (invalid value / missing required) and fields modified by __post_init__ *)
Definition gate (provided invalid : list string) (vs : list vdef) : list vdef :=
  let with_input := filter (fun v => negb (disjointb (v_deps v) provided)) vs in
  match invalid with
  | [] => with_input
  | _ => filter (fun v => disjointb (v_deps v) invalid) with_input
  end.

Definition executed (provided invalid : list string) (vs : list vdef) : option (list vdef) :=
  validate (S (List.length vs)) (gate provided invalid vs).

(* the property's condition for one validator *)
Definition runnable (provided invalid : list string) (v : vdef) : bool :=
  (negb (disjointb (v_deps v) provided) && disjointb (v_deps v) invalid)%bool.

End V.
