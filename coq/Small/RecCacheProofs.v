From Coq Require Import List Bool Arith.
From AV Require Import Small.RecCache.
Import ListNotations.

(* every graph on at most 3 nodes (all 2^9 edge relations), every sequence of at most 3 complete analyses from an empty cache:
   every cache entry says exactly "the node lies on a cycle", every node reachable from an analysed root has an entry *)
Theorem sequential_analyses_correct_3 : all_ok 3 3 = true.
Proof. vm_compute. reflexivity. Qed.

Theorem sequential_analyses_correct_3_forall :
  forall g roots, In g (all_graphs 3) -> In roots (seqs 3 3) -> check g roots = true.
Proof.
  intros g roots Hg Hr. pose proof sequential_analyses_correct_3 as H. unfold all_ok in H.
  rewrite forallb_forall in H. specialize (H g Hg). rewrite forallb_forall in H. exact (H roots Hr).
Qed.

Theorem sequential_analyses_correct_2 : all_ok 2 4 = true.
Proof. vm_compute. reflexivity. Qed.

(* the mutual recursion X <-> Y plus a leaf, analysed from Y then X: both recursive, the leaf is not *)
Example ex_xy : after [[1]; [0; 2]; []] [1; 0] = [(2, false); (1, true); (0, true)].
Proof. vm_compute. reflexivity. Qed.

(* the analysis before the fix (marking the path of each back edge) is refuted: in 0->{1,2}, 1->{0,1}, 2->{1}, node 2 lies on
   the cycle 2->1->0->2 but is left unmarked when the analysis starts from 0 (1 is cached before 2 is visited).  On the
   implementation: dataclasses A(b: B, c: C), B(a: A, b: B), C(b: B) made deserialize(A, ...) raise RecursionError *)
Theorem old_analysis_refuted : exists g roots, exact g (after_old g roots) = false.
Proof. exists [[1; 2]; [0; 1]; [1]], [0]. vm_compute. reflexivity. Qed.

Example old_analysis_witness : after_old [[1; 2]; [0; 1]; [1]] [0] = [(1, true); (2, false); (0, true)]
                               /\ after [[1; 2]; [0; 1]; [1]] [0] = [(0, true); (1, true); (2, true)].
Proof. vm_compute. split; reflexivity. Qed.

(* the small-step machine run one analysis at a time (what the lock enforces) is the big-step visit *)
Theorem locked_small_step_is_visit_3 : small_eq_big 3 = true.
Proof. vm_compute. reflexivity. Qed.

(* without the lock: X <-> Y first used by two threads; thread 1 enters X, thread 2 completes its analysis (caches both as
   recursive), thread 1 finds Y cached, closes the component {X} and overwrites the entry with False *)
Theorem unlocked_interleaving_refuted :
  exists g r1 r2 s, exact g (unlocked g r1 r2 s) = false.
Proof. exists [[1]; [0]], 0, 0, [true; true; true; true; true; true]. vm_compute. reflexivity. Qed.

Example unlocked_witness_cache : unlocked [[1]; [0]] 0 0 [true; true; true; true; true; true] = [(0, false); (1, true)].
Proof. vm_compute. reflexivity. Qed.
