(* Model of apischema/ordering.py: sort_by_order and get_order_overriding.  No proofs here. *)
From Coq Require Import List String ZArith Bool Arith.
Import ListNotations.
Open Scope string_scope.

Inductive ordering :=
| OOrder (z : Z)          (* order(n) *)
| OAfter (x : string)     (* order(after=x) *)
| OBefore (x : string).   (* order(before=x) *)

Record elt := { ename : string; eord : option ordering }.

(* get_order_overriding: classes of the MRO from object down to cls; a later class wins (dict update order). *)
Definition overriding := list (string * ordering).

Fixpoint lookup (k : string) (l : overriding) : option ordering :=
  match l with
  | [] => None
  | (k', o) :: r => match lookup k r with Some o' => Some o' | None => if String.eqb k k' then Some o else None end
  end.
(* `lookup` returns the LAST binding, like successive dict assignments in get_order_overriding *)

Definition effective (ov : overriding) (e : elt) : elt :=
  match lookup (ename e) ov with
  | Some o => {| ename := ename e; eord := Some o |}
  | None => e
  end.

Definition names (es : list elt) : list string := map ename es.

Definition present (x : string) (es : list elt) : bool := existsb (String.eqb x) (names es).

(* classification performed by the loop of sort_by_order (after the fix: a missing target is treated as
   "no ordering", group 0) *)
Definition group_of (es : list elt) (e : elt) : option Z :=
  match eord e with
  | None => Some 0%Z
  | Some (OOrder z) => Some z
  | Some (OAfter x) => if present x es then None else Some 0%Z
  | Some (OBefore x) => if present x es then None else Some 0%Z
  end.

Definition is_after (es : list elt) (x : string) (e : elt) : bool :=
  match eord e with Some (OAfter y) => String.eqb x y && present y es | _ => false end.
Definition is_before (es : list elt) (x : string) (e : elt) : bool :=
  match eord e with Some (OBefore y) => String.eqb x y && present y es | _ => false end.

(* add_to_result; fuel bounds the depth of the attachment tree *)
Fixpoint add (fuel : nat) (es : list elt) (e : elt) : list elt :=
  match fuel with
  | O => []
  | S f =>
      flat_map (add f es) (filter (is_before es (ename e)) es)
      ++ [e]
      ++ flat_map (add f es) (filter (is_after es (ename e)) es)
  end.

Definition grouped (es : list elt) (e : elt) : bool :=
  match group_of es e with Some _ => true | None => false end.

Definition val (es : list elt) (e : elt) : Z :=
  match group_of es e with Some z => z | None => 0%Z end.

(* `for value in sorted(groups): for elt in groups[value]` = stable sort of the grouped elements by value *)
Fixpoint ins (es : list elt) (e : elt) (l : list elt) : list elt :=
  match l with
  | [] => [e]
  | y :: r => if Z.leb (val es e) (val es y) then e :: l else y :: ins es e r
  end.

Definition isort (es : list elt) (l : list elt) : list elt := fold_right (ins es) [] l.

Definition roots (es : list elt) : list elt := filter (grouped es) es.

Definition sort_core (es : list elt) : list elt :=
  flat_map (add (S (List.length es)) es) (isort es (roots es)).

(* the single-group shortcut of the implementation returns the group itself; equal to sort_core in that case.
   After the fix the implementation raises ValueError when an element was lost (a cycle of after/before). *)
Definition sort_by_order (ov : overriding) (es0 : list elt) : option (list elt) :=
  let es := map (effective ov) es0 in
  let r := sort_core es in
  if Nat.eqb (List.length r) (List.length es) then Some r else None.

(* ---- executable well-formedness predicates used by the theorems and by the harness *)

Fixpoint nodupb (l : list string) : bool :=
  match l with [] => true | x :: r => negb (existsb (String.eqb x) r) && nodupb r end.

Definition target (e : elt) : option string :=
  match eord e with Some (OAfter x) => Some x | Some (OBefore x) => Some x | _ => None end.

Fixpoint find_elt (x : string) (es : list elt) : option elt :=
  match es with [] => None | e :: r => if String.eqb x (ename e) then Some e else find_elt x r end.

(* following the chain of targets reaches a grouped element within `fuel` steps *)
Fixpoint anchored (fuel : nat) (es : list elt) (e : elt) : bool :=
  match group_of es e with
  | Some _ => true
  | None =>
      match fuel with
      | O => false
      | S f => match target e with
               | Some x => match find_elt x es with Some p => anchored f es p | None => false end
               | None => false
               end
      end
  end.

Definition all_anchored (es : list elt) : bool := forallb (anchored (List.length es) es) es.

Definition wf (es : list elt) : bool := nodupb (names es) && all_anchored es.

Definition names_of := names.
