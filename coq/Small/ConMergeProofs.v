From Coq Require Import List String ZArith Bool Lia Znumtheory.
From AV Require Import Gen.Tables Small.ConMerge.
Import ListNotations.
Open Scope string_scope.

Lemma lower_max s a b x : sat (Lower s) (Z.max a b) x = sat (Lower s) a x && sat (Lower s) b x.
Proof.
  destruct s; simpl.
  - destruct (Z.ltb_spec (Z.max a b) x), (Z.ltb_spec a x), (Z.ltb_spec b x); simpl; try reflexivity; lia.
  - destruct (Z.leb_spec (Z.max a b) x), (Z.leb_spec a x), (Z.leb_spec b x); simpl; try reflexivity; lia.
Qed.

Lemma upper_min s a b x : sat (Upper s) (Z.min a b) x = sat (Upper s) a x && sat (Upper s) b x.
Proof.
  destruct s; simpl.
  - destruct (Z.ltb_spec x (Z.min a b)), (Z.ltb_spec x a), (Z.ltb_spec x b); simpl; try reflexivity; lia.
  - destruct (Z.leb_spec x (Z.min a b)), (Z.leb_spec x a), (Z.leb_spec x b); simpl; try reflexivity; lia.
Qed.

Lemma mod0_divide b x : (0 < b)%Z -> ((x mod b =? 0)%Z = true <-> (b | x)%Z).
Proof.
  intros Hb. rewrite Z.eqb_eq. split.
  - intros H. apply Z.mod_divide; [lia|exact H].
  - intros H. apply Z.mod_divide in H; [exact H|lia].
Qed.

Lemma lcm_pos a b : (0 < a)%Z -> (0 < b)%Z -> (0 < Z.lcm a b)%Z.
Proof.
  intros Ha Hb. pose proof (Z.lcm_nonneg a b) as H0.
  destruct (Z.eq_dec (Z.lcm a b) 0) as [E|E]; [|lia].
  apply Z.lcm_eq_0 in E. lia.
Qed.

Lemma mult_lcm a b x : (0 < a)%Z -> (0 < b)%Z -> sat Mult (Z.lcm a b) x = sat Mult a x && sat Mult b x.
Proof.
  intros Ha Hb. simpl. pose proof (lcm_pos a b Ha Hb) as Hl.
  apply eq_true_iff_eq. rewrite andb_true_iff, !mod0_divide by assumption. split.
  - intros H. split; eapply Z.divide_trans; [apply Z.divide_lcm_l| exact H | apply Z.divide_lcm_r | exact H].
  - intros [H1 H2]. apply Z.lcm_least; assumption.
Qed.

Lemma flag_or a b x :
  sat Flag (if (a =? 0)%Z && (b =? 0)%Z then 0%Z else 1%Z) x = sat Flag a x && sat Flag b x.
Proof.
  simpl. destruct (a =? 0)%Z, (b =? 0)%Z; simpl; try reflexivity.
  - destruct (x =? 1)%Z; reflexivity.
  - destruct (x =? 1)%Z; reflexivity.
Qed.

(* the boolean reading of the table implies the semantic one, row by row *)
Lemma boolean_row_sound row :
  (let '(name, _, m) := row in
     match kind_of name with
     | Some (Lower _) => m =? "max" | Some (Upper _) => m =? "min" | Some Mult => m =? "lcm" | Some Flag => m =? "or"
     | Some Pat => m =? "fail" | None => false end) = true -> row_ok row.
Proof.
  destruct row as [[name al] m]. unfold row_ok. destruct (kind_of name) as [[s|s| | |]|]; intros H.
  - apply String.eqb_eq in H. subst m. exists Z.max. split; [reflexivity|]. intros a b x _ _. split; [exact I|apply lower_max].
  - apply String.eqb_eq in H. subst m. exists Z.min. split; [reflexivity|]. intros a b x _ _. split; [exact I|apply upper_min].
  - apply String.eqb_eq in H. subst m. exists Z.lcm. split; [reflexivity|]. intros a b x Ha Hb.
    split; [apply lcm_pos; assumption|apply mult_lcm; assumption].
  - apply String.eqb_eq in H. subst m. eexists. split; [reflexivity|]. intros a b x _ _. split; [exact I|apply flag_or].
  - apply String.eqb_eq in H. exact H.
  - discriminate.
Qed.

(* THE TABLE READ FROM THE SOURCE: every constraint is there, and every merge operation computes the conjunction of the levels *)
Theorem source_merges_conjoin :
  map (fun r : string * string * string => fst (fst r)) constraint_merges = expected_names /\ Forall row_ok constraint_merges.
Proof.
  split; [vm_compute; reflexivity|].
  assert (H : boolean_rows_ok = true) by (vm_compute; reflexivity).
  unfold boolean_rows_ok in H. rewrite forallb_forall in H. apply Forall_forall. intros row Hin.
  apply boolean_row_sound. specialize (H row Hin). destruct row as [[name al] m]. exact H.
Qed.

(* ... hence for any number of levels: folding the merge over the levels is satisfied exactly by the data every level accepts *)
Theorem merged_levels_are_the_conjunction name al m k f :
  In (name, al, m) constraint_merges -> kind_of name = Some k -> k <> Pat -> merge_op m = Some f ->
  forall (levels : list Z) (b0 x : Z), param_ok k b0 -> Forall (param_ok k) levels ->
  sat k (fold_left f levels b0) x = forallb (fun b => sat k b x) (b0 :: levels).
Proof.
  intros Hin Hk Hp Hf. destruct source_merges_conjoin as [_ Hall]. rewrite Forall_forall in Hall.
  specialize (Hall _ Hin). unfold row_ok in Hall. rewrite Hk in Hall.
  assert (Hrow : exists g, merge_op m = Some g /\ forall a b x, param_ok k a -> param_ok k b ->
                   param_ok k (g a b) /\ sat k (g a b) x = sat k a x && sat k b x).
  { destruct k; try exact Hall. congruence. }
  destruct Hrow as [g [Hg Hspec]]. rewrite Hf in Hg. injection Hg as <-.
  intros levels. induction levels as [|b levels IH]; intros b0 x H0 Hl; cbn [fold_left forallb].
  - rewrite andb_true_r. reflexivity.
  - inversion Hl as [|? ? Hb Hl']; subst. destruct (Hspec b0 b x H0 Hb) as [Hok _].
    rewrite IH by assumption. cbn [forallb]. destruct (Hspec b0 b x H0 Hb) as [_ E]. rewrite E.
    rewrite andb_assoc. reflexivity.
Qed.
