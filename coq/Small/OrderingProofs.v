(* Proofs about the model of sort_by_order (Small/Ordering.v). *)
From Coq Require Import List String ZArith Bool Arith Lia Permutation Sorted.
From AV Require Import Small.Ordering.
Import ListNotations.
Open Scope string_scope.

(* ---------- counting names *)
Definition b2n (b : bool) : nat := if b then 1 else 0.

Fixpoint cnt (s : string) (l : list string) : nat :=
  match l with [] => 0 | x :: r => b2n (String.eqb s x) + cnt s r end.

Fixpoint sumf {A} (g : A -> nat) (l : list A) : nat :=
  match l with [] => 0 | x :: r => g x + sumf g r end.

Lemma cnt_app s l1 l2 : cnt s (l1 ++ l2) = cnt s l1 + cnt s l2.
Proof. induction l1 as [|x l1 IH]; simpl; [reflexivity|]. rewrite IH. lia. Qed.

Lemma sumf_app {A} (g : A -> nat) l1 l2 : sumf g (l1 ++ l2) = sumf g l1 + sumf g l2.
Proof. induction l1 as [|x l1 IH]; simpl; [reflexivity|]. rewrite IH. lia. Qed.

Lemma sumf_ext {A} (g h : A -> nat) l : (forall x, In x l -> g x = h x) -> sumf g l = sumf h l.
Proof.
  induction l as [|x l IH]; simpl; intros H; [reflexivity|].
  rewrite (H x (or_introl eq_refl)), IH; [reflexivity|]. intros y Hy. apply H. right. exact Hy.
Qed.

Lemma sumf_plus {A} (g h : A -> nat) l : sumf (fun x => g x + h x) l = sumf g l + sumf h l.
Proof. induction l as [|x l IH]; simpl; [reflexivity|]. rewrite IH. lia. Qed.

Lemma sumf_zero {A} (l : list A) : sumf (fun _ => 0) l = 0.
Proof. induction l; simpl; auto. Qed.

Lemma sumf_perm {A} (g : A -> nat) l l' : Permutation l l' -> sumf g l = sumf g l'.
Proof. induction 1; simpl; lia. Qed.

Lemma cnt_names_flat_map {A} s (f : A -> list elt) l :
  cnt s (names (flat_map f l)) = sumf (fun x => cnt s (names (f x))) l.
Proof.
  induction l as [|x l IH]; simpl; [reflexivity|].
  unfold names in *. rewrite map_app, cnt_app, IH. reflexivity.
Qed.

Lemma cnt_count_occ s l : cnt s l = count_occ string_dec l s.
Proof.
  induction l as [|x l IH]; simpl; [reflexivity|].
  destruct (string_dec x s) as [E|E]; destruct (String.eqb_spec s x) as [E'|E']; subst; simpl; try congruence; lia.
Qed.

Lemma cnt_perm l l' : (forall s, cnt s l = cnt s l') -> Permutation l l'.
Proof.
  intros H. apply (Permutation_count_occ string_dec). intros s. rewrite <- !cnt_count_occ. apply H.
Qed.

Lemma existsb_eqb_In x l : existsb (String.eqb x) l = true <-> In x l.
Proof.
  rewrite existsb_exists. split.
  - intros [y [Hy E]]. apply String.eqb_eq in E. subst. exact Hy.
  - intros H. exists x. split; [exact H|apply String.eqb_refl].
Qed.

Lemma nodupb_NoDup l : nodupb l = true -> NoDup l.
Proof.
  induction l as [|x l IH]; simpl; intros H; [constructor|].
  apply andb_true_iff in H. destruct H as [H1 H2]. constructor; [|apply IH; exact H2].
  intros Hin. apply existsb_eqb_In in Hin. rewrite Hin in H1. discriminate.
Qed.

Lemma cnt_notin s l : ~ In s l -> cnt s l = 0.
Proof.
  induction l as [|x l IH]; simpl; intros H; [reflexivity|].
  destruct (String.eqb_spec s x) as [E|E]; [subst; exfalso; apply H; left; reflexivity|].
  simpl. apply IH. intros Hin. apply H. right. exact Hin.
Qed.

Lemma cnt_nodup_in s l : NoDup l -> In s l -> cnt s l = 1.
Proof.
  induction 1 as [|x l Hx Hnd IH]; simpl; intros Hin; [contradiction|].
  destruct (String.eqb_spec s x) as [E|E].
  - subst. simpl. rewrite cnt_notin; auto.
  - simpl. destruct Hin as [Hin|Hin]; [congruence|]. apply IH. exact Hin.
Qed.

(* ---------- parents by name *)
Section WithEs.
Variable es : list elt.
Hypothesis ND : NoDup (names es).

Definition parn (s : string) : option string :=
  match find_elt s es with
  | None => None
  | Some x =>
      match eord x with
      | Some (OAfter y) => if present y es then Some y else None
      | Some (OBefore y) => if present y es then Some y else None
      | _ => None
      end
  end.

Fixpoint N (f : nat) (os : option string) (t : string) : nat :=
  match os with
  | None => 0
  | Some s =>
      match f with
      | O => 0
      | S f' => b2n (String.eqb s t) + N f' (parn s) t
      end
  end.

Lemma N_none f t : N f None t = 0.
Proof. destruct f; reflexivity. Qed.

Definition child (e c : elt) : bool := is_before es (ename e) c || is_after es (ename e) c.

Lemma find_elt_in_gen (l : list elt) e : NoDup (names l) -> In e l -> find_elt (ename e) l = Some e.
Proof.
  induction l as [|x l IH]; simpl; intros Hnd Hin; [contradiction|].
  inversion Hnd as [|? ? Hx Hnd']; subst.
  destruct Hin as [E|Hin].
  - subst. rewrite String.eqb_refl. reflexivity.
  - destruct (String.eqb_spec (ename e) (ename x)) as [E|E].
    + exfalso. apply Hx. rewrite <- E. unfold names. apply in_map. exact Hin.
    + apply IH; assumption.
Qed.

Lemma find_elt_some_gen (l : list elt) s x : find_elt s l = Some x -> In x l /\ ename x = s.
Proof.
  induction l as [|y l IH]; simpl; intros H; [discriminate|].
  destruct (String.eqb_spec s (ename y)) as [E|E].
  - inversion H; subst. split; [left; reflexivity|reflexivity].
  - destruct (IH H) as [H1 H2]. split; [right; exact H1|exact H2].
Qed.

Lemma find_elt_none_gen (l : list elt) s : find_elt s l = None -> ~ In s (names l).
Proof.
  induction l as [|y l IH]; simpl; intros H; [tauto|].
  destruct (String.eqb_spec s (ename y)) as [E|E]; [discriminate|].
  intros [H1|H1]; [congruence|]. exact (IH H H1).
Qed.

(* (G) counting a name in a filtered sub-list *)
Lemma sum_filter_name (P : elt -> bool) s (l : list elt) :
  NoDup (names l) ->
  sumf (fun c => b2n (String.eqb s (ename c))) (filter P l)
  = match find_elt s l with Some c => b2n (P c) | None => 0 end.
Proof.
  induction l as [|x l IH]; simpl; intros Hnd; [reflexivity|].
  inversion Hnd as [|? ? Hx Hnd']; subst.
  destruct (String.eqb_spec s (ename x)) as [E|E].
  - subst. destruct (P x) eqn:HP; simpl.
    + rewrite String.eqb_refl. simpl. rewrite IH by assumption.
      destruct (find_elt (ename x) l) eqn:F; [|reflexivity].
      exfalso. apply Hx. destruct (find_elt_some_gen _ _ _ F) as [H1 H2]. rewrite <- H2. unfold names. apply in_map. exact H1.
    + rewrite IH by assumption.
      destruct (find_elt (ename x) l) eqn:F; [|reflexivity].
      exfalso. apply Hx. destruct (find_elt_some_gen _ _ _ F) as [H1 H2]. rewrite <- H2. unfold names. apply in_map. exact H1.
  - destruct (P x) eqn:HP; simpl.
    + destruct (String.eqb_spec s (ename x)); [congruence|]. simpl. apply IH. assumption.
    + apply IH. assumption.
Qed.

Lemma present_In y : present y es = true <-> In y (names es).
Proof. unfold present. apply existsb_eqb_In. Qed.

Lemma N_zero os t : N 0 os t = 0.
Proof. destruct os; reflexivity. Qed.

(* (K) *)
Lemma children_count s e :
  sumf (fun c => b2n (String.eqb s (ename c))) (filter (is_before es (ename e)) es ++ filter (is_after es (ename e)) es)
  = match parn s with Some p => b2n (String.eqb p (ename e)) | None => 0 end.
Proof.
  rewrite sumf_app, !sum_filter_name by exact ND.
  unfold parn. destruct (find_elt s es) as [c|] eqn:F; [|reflexivity].
  unfold is_before, is_after.
  destruct (eord c) as [[z|y|y]|]; simpl; try reflexivity.
  - destruct (present y es); rewrite ?andb_true_r, ?andb_false_r; simpl; [|reflexivity].
    rewrite String.eqb_sym. lia.
  - destruct (present y es); rewrite ?andb_true_r, ?andb_false_r; simpl; [|reflexivity].
    rewrite String.eqb_sym. lia.
Qed.

(* (dagger) *)
Lemma children_N f os e :
  sumf (fun c => N f os (ename c)) (filter (is_before es (ename e)) es ++ filter (is_after es (ename e)) es)
  = N f (match os with Some s => parn s | None => None end) (ename e).
Proof.
  revert os. induction f as [|f IH]; intros os.
  - rewrite (sumf_ext _ (fun _ => 0)) by (intros; apply N_zero). rewrite sumf_zero, N_zero. reflexivity.
  - destruct os as [s|]; [|simpl; rewrite sumf_zero; reflexivity].
    cbn [N]. rewrite sumf_plus, children_count, (IH (parn s)).
    destruct (parn s) as [p|]; [reflexivity|]. rewrite N_none. reflexivity.
Qed.

Lemma add_count f e s : cnt s (names (add f es e)) = N f (Some s) (ename e).
Proof.
  revert e s. induction f as [|f IH]; intros e s; [reflexivity|].
  cbn [add]. unfold names. rewrite !map_app, !cnt_app. fold (names (flat_map (add f es) (filter (is_before es (ename e)) es))).
  fold (names (flat_map (add f es) (filter (is_after es (ename e)) es))).
  rewrite !cnt_names_flat_map.
  rewrite (sumf_ext _ (fun c => N f (Some s) (ename c))) by (intros; apply IH).
  rewrite (sumf_ext (fun x => cnt s (names (add f es x))) (fun c => N f (Some s) (ename c))) by (intros; apply IH).
  pose proof (children_N f (Some s) e) as H. rewrite sumf_app in H.
  cbn [N map cnt]. lia.
Qed.

(* ---------- roots *)
Definition groupedn (s : string) : bool :=
  match find_elt s es with Some c => grouped es c | None => false end.

Lemma grouped_parn_none s : groupedn s = true -> parn s = None.
Proof.
  unfold groupedn, parn, grouped, group_of. destruct (find_elt s es) as [c|]; [|discriminate].
  destruct (eord c) as [[z|y|y]|]; try reflexivity; destruct (present y es); try reflexivity; discriminate.
Qed.

Lemma ins_perm e l : Permutation (ins es e l) (e :: l).
Proof.
  induction l as [|y l IH]; simpl; [reflexivity|].
  destruct (Z.leb _ _); [reflexivity|].
  rewrite IH. apply perm_swap.
Qed.

Lemma isort_perm l : Permutation (isort es l) l.
Proof.
  induction l as [|x l IH]; simpl; [constructor|].
  rewrite ins_perm. constructor. exact IH.
Qed.

Definition R (f : nat) (os : option string) : nat := sumf (fun r => N f os (ename r)) (roots es).

Lemma R_none f : R f None = 0.
Proof. unfold R. rewrite (sumf_ext _ (fun _ => 0)); [apply sumf_zero|]. intros. apply N_none. Qed.

Lemma R_zero os : R 0 os = 0.
Proof. unfold R. rewrite (sumf_ext _ (fun _ => 0)); [apply sumf_zero|]. intros. apply N_zero. Qed.

Lemma R_step f s : R (S f) (Some s) = b2n (groupedn s) + R f (parn s).
Proof.
  unfold R. cbn [N]. rewrite sumf_plus. f_equal.
  unfold roots. rewrite sum_filter_name by exact ND. unfold groupedn. destruct (find_elt s es); reflexivity.
Qed.

Lemma sort_core_count s : cnt s (names (sort_core es)) = R (S (List.length es)) (Some s).
Proof.
  unfold sort_core. rewrite cnt_names_flat_map.
  rewrite (sumf_ext _ (fun r => N (S (List.length es)) (Some s) (ename r))) by (intros; apply add_count).
  unfold R. apply sumf_perm. apply isort_perm.
Qed.

Lemma anchored_R f e : In e es -> anchored f es e = true -> R (S f) (Some (ename e)) = 1.
Proof.
  revert e. induction f as [|f IH]; intros e Hin H.
  - simpl in H. rewrite R_step, R_zero. unfold groupedn. rewrite (find_elt_in_gen es e ND Hin). unfold grouped.
    destruct (group_of es e); [reflexivity|discriminate].
  - rewrite R_step. unfold groupedn. rewrite (find_elt_in_gen es e ND Hin). unfold grouped.
    cbn [anchored] in H. destruct (group_of es e) eqn:G.
    + simpl. rewrite grouped_parn_none; [rewrite R_none; reflexivity|].
      unfold groupedn, grouped. rewrite (find_elt_in_gen es e ND Hin), G. reflexivity.
    + simpl. unfold target in H. unfold parn. rewrite (find_elt_in_gen es e ND Hin).
      unfold group_of in G.
      destruct (eord e) as [[z|y|y]|]; try discriminate.
      * destruct (present y es); [|discriminate].
        destruct (find_elt y es) as [p|] eqn:F; [|discriminate].
        destruct (find_elt_some_gen _ _ _ F) as [Hp En]. rewrite <- En. apply IH; assumption.
      * destruct (present y es); [|discriminate].
        destruct (find_elt y es) as [p|] eqn:F; [|discriminate].
        destruct (find_elt_some_gen _ _ _ F) as [Hp En]. rewrite <- En. apply IH; assumption.
Qed.

Lemma N_absent f s t : ~ In s (names es) -> In t (names es) -> N f (Some s) t = 0.
Proof.
  intros Hs Ht. destruct f; [reflexivity|]. cbn [N].
  destruct (String.eqb_spec s t); [subst; contradiction|].
  unfold parn. destruct (find_elt s es) eqn:F.
  - destruct (find_elt_some_gen _ _ _ F) as [H1 H2]. exfalso. apply Hs. rewrite <- H2. unfold names. apply in_map. exact H1.
  - rewrite N_none. reflexivity.
Qed.

Lemma roots_incl r : In r (roots es) -> In r es.
Proof. unfold roots. intros H. apply filter_In in H. tauto. Qed.

Theorem names_perm : all_anchored es = true -> Permutation (names (sort_core es)) (names es).
Proof.
  intros HA. apply cnt_perm. intros s. rewrite sort_core_count.
  destruct (in_dec string_dec s (names es)) as [Hin|Hout].
  - rewrite (cnt_nodup_in _ _ ND Hin).
    unfold names in Hin. apply in_map_iff in Hin. destruct Hin as [e [En He]]. subst s.
    apply anchored_R; [exact He|].
    unfold all_anchored in HA. rewrite forallb_forall in HA. apply HA. exact He.
  - rewrite (cnt_notin _ _ Hout). unfold R. rewrite (sumf_ext _ (fun _ => 0)); [apply sumf_zero|].
    intros r Hr. apply N_absent; [exact Hout|]. unfold names. apply in_map. apply roots_incl. exact Hr.
Qed.

Lemma add_incl f e x : In e es -> In x (add f es e) -> In x es.
Proof.
  revert e. induction f as [|f IH]; intros e He H; [contradiction|].
  cbn [add] in H. apply in_app_or in H. destruct H as [H|H].
  - apply in_flat_map in H. destruct H as [c [Hc Hx]]. apply filter_In in Hc. eapply IH; [apply Hc|exact Hx].
  - apply in_app_or in H. destruct H as [H|H].
    + destruct H as [H|[]]. subst. exact He.
    + apply in_flat_map in H. destruct H as [c [Hc Hx]]. apply filter_In in Hc. eapply IH; [apply Hc|exact Hx].
Qed.

Lemma sort_core_incl x : In x (sort_core es) -> In x es.
Proof.
  unfold sort_core. intros H. apply in_flat_map in H. destruct H as [r [Hr Hx]].
  eapply add_incl; [|exact Hx]. apply roots_incl. eapply Permutation_in; [apply isort_perm|exact Hr].
Qed.

Theorem sort_core_perm : all_anchored es = true -> Permutation (sort_core es) es.
Proof.
  intros HA. pose proof (names_perm HA) as HP.
  apply NoDup_Permutation_bis.
  - apply (NoDup_map_inv ename). fold (names (sort_core es)).
    eapply Permutation_NoDup; [apply Permutation_sym; exact HP|exact ND].
  - apply Permutation_length in HP. unfold names in HP. rewrite !map_length in HP. lia.
  - intros x. apply sort_core_incl.
Qed.

(* ---------- the grouped elements come out in ascending order value, declaration order within a value *)
Lemma child_not_grouped e c : child e c = true -> grouped es c = false.
Proof.
  unfold child, is_before, is_after, grouped, group_of.
  destruct (eord c) as [[z|y|y]|]; simpl; try discriminate.
  - destruct (present y es); [reflexivity|]. rewrite andb_false_r. discriminate.
  - destruct (present y es); [reflexivity|]. rewrite andb_false_r. discriminate.
Qed.

Lemma filter_grouped_add f e :
  filter (grouped es) (add f es e) = match f with O => [] | S _ => if grouped es e then [e] else [] end.
Proof.
  revert e. induction f as [|f IH]; intros e; [reflexivity|].
  cbn [add]. rewrite !filter_app.
  assert (HB : forall P (l : list elt), (forall c, P c = true -> child e c = true) ->
                         filter (grouped es) (flat_map (add f es) (filter P l)) = []).
  { intros P l HP. induction l as [|x l IHl]; [reflexivity|]. simpl.
    destruct (P x) eqn:Px; [|exact IHl]. simpl. rewrite filter_app, IHl, IH.
    destruct f; [reflexivity|]. rewrite (child_not_grouped e x (HP x Px)). reflexivity. }
  rewrite !HB.
  - simpl. destruct (grouped es e); reflexivity.
  - intros c Hc. unfold child. rewrite Hc. apply orb_true_r.
  - intros c Hc. unfold child. rewrite Hc. reflexivity.
Qed.

Theorem roots_subsequence : filter (grouped es) (sort_core es) = isort es (roots es).
Proof.
  unfold sort_core.
  assert (H : forall l, (forall r, In r l -> grouped es r = true) ->
                        filter (grouped es) (flat_map (add (S (List.length es)) es) l) = l).
  { induction l as [|r l IH]; intros Hl; [reflexivity|]. cbn [flat_map]. rewrite filter_app, filter_grouped_add.
    rewrite (Hl r (or_introl eq_refl)). simpl. f_equal. apply IH. intros. apply Hl. right. assumption. }
  apply H. intros r Hr. eapply Permutation_in in Hr; [|apply isort_perm].
  unfold roots in Hr. apply filter_In in Hr. tauto.
Qed.

Definition le_val (a b : elt) : Prop := (val es a <= val es b)%Z.

Lemma ins_sorted e l : StronglySorted le_val l -> StronglySorted le_val (ins es e l).
Proof.
  induction 1 as [|y l Hs IH Hall]; simpl; [repeat constructor|].
  destruct (Z.leb_spec (val es e) (val es y)) as [Hle|Hgt].
  - constructor; [constructor; assumption|]. constructor; [exact Hle|].
    rewrite Forall_forall in *. intros z Hz. unfold le_val in *. specialize (Hall z Hz). lia.
  - constructor; [exact IH|]. rewrite Forall_forall in *. intros z Hz.
    eapply Permutation_in in Hz; [|apply ins_perm]. destruct Hz as [E|Hz]; [subst; unfold le_val; lia|auto].
Qed.

Theorem isort_sorted l : StronglySorted le_val (isort es l).
Proof. induction l as [|x l IH]; simpl; [constructor|apply ins_sorted; exact IH]. Qed.

(* stability: the elements of one order value keep their declaration order *)
Lemma ins_filter z e l :
  StronglySorted le_val l ->
  filter (fun x => Z.eqb (val es x) z) (ins es e l) = filter (fun x => Z.eqb (val es x) z) (e :: l).
Proof.
  induction 1 as [|y l Hs IH Hall]; [reflexivity|]. cbn [ins].
  destruct (Z.leb_spec (val es e) (val es y)) as [Hle|Hgt]; [reflexivity|].
  cbn [filter] in *. rewrite IH.
  destruct (Z.eqb_spec (val es y) z) as [Ey|Ey]; destruct (Z.eqb_spec (val es e) z) as [Ee|Ee]; try reflexivity.
  lia.
Qed.

Theorem isort_stable z l :
  filter (fun x => Z.eqb (val es x) z) (isort es l) = filter (fun x => Z.eqb (val es x) z) l.
Proof.
  induction l as [|x l IH]; [reflexivity|]. cbn [isort fold_right].
  rewrite ins_filter by apply isort_sorted. cbn [filter]. fold (isort es l). rewrite IH. reflexivity.
Qed.

End WithEs.

(* ---------- packaged statements *)
Theorem sort_by_order_total_perm ov es0 :
  wf (map (effective ov) es0) = true ->
  exists r, sort_by_order ov es0 = Some r /\ Permutation r (map (effective ov) es0).
Proof.
  intros H. unfold wf in H. apply andb_true_iff in H. destruct H as [H1 H2].
  pose proof (sort_core_perm _ (nodupb_NoDup _ H1) H2) as HP.
  unfold sort_by_order. rewrite (Permutation_length HP), Nat.eqb_refl. eexists. split; [reflexivity|exact HP].
Qed.

Theorem sort_by_order_never_loses ov es0 r :
  nodupb (names (map (effective ov) es0)) = true ->
  sort_by_order ov es0 = Some r -> Permutation r (map (effective ov) es0).
Proof.
  intros Hnd H. unfold sort_by_order in H.
  destruct (Nat.eqb_spec (List.length (sort_core (map (effective ov) es0))) (List.length (map (effective ov) es0))) as [E|E];
    [|discriminate].
  inversion H; subst. clear H.
  set (es := map (effective ov) es0) in *.
  (* every element of the output is an element of the input; the name counts are at most one *)
  apply Permutation_sym. apply NoDup_Permutation_bis.
  - apply (NoDup_map_inv ename). apply nodupb_NoDup. exact Hnd.
  - lia.
  - (* incl es (sort_core es): by counting, via pigeonhole on lengths *)
    assert (Hinc : incl (sort_core es) es) by (intros x; apply sort_core_incl).
    assert (Hnd' : NoDup es) by (apply (NoDup_map_inv ename); apply nodupb_NoDup; exact Hnd).
    (* names of the output have multiplicity <= 1 *)
    assert (Hle : forall s, cnt s (names (sort_core es)) <= 1).
    { intros s. rewrite (sort_core_count es (nodupb_NoDup _ Hnd)).
      assert (HR : forall f os, R es f os <= 1).
      { induction f as [|f IH]; intros os.
        - rewrite R_zero. lia.
        - destruct os as [s'|]; [|rewrite R_none; lia].
          rewrite (R_step es (nodupb_NoDup _ Hnd)). destruct (groupedn es s') eqn:G.
          + rewrite (grouped_parn_none es s' G), R_none. simpl. lia.
          + simpl. apply IH. }
      apply HR. }
    assert (HndO : NoDup (sort_core es)).
    { apply (NoDup_map_inv ename). fold (names (sort_core es)).
      apply (NoDup_count_occ string_dec). intros s. rewrite <- cnt_count_occ. apply Hle. }
    apply NoDup_length_incl; [exact HndO|lia|exact Hinc].
Qed.

Theorem effective_override_wins ov e o :
  lookup (ename e) ov = Some o -> eord (effective ov e) = Some o /\ ename (effective ov e) = ename e.
Proof. intros H. unfold effective. rewrite H. split; reflexivity. Qed.

Theorem effective_no_override ov e : lookup (ename e) ov = None -> effective ov e = e.
Proof. intros H. unfold effective. rewrite H. reflexivity. Qed.

(* attachment shape: directly before / after, with their own attachments *)
Theorem add_shape f es e :
  add (S f) es e =
  (flat_map (add f es) (filter (is_before es (ename e)) es) ++ [e] ++ flat_map (add f es) (filter (is_after es (ename e)) es))%list.
Proof. reflexivity. Qed.

(* non-vacuity and the refuted complement *)
Definition ex_es : list elt :=
  [ {| ename := "a"; eord := Some (OAfter "c") |};
    {| ename := "b"; eord := None |};
    {| ename := "c"; eord := Some (OOrder (-1)) |};
    {| ename := "d"; eord := Some (OBefore "a") |};
    {| ename := "e"; eord := Some (OOrder 999) |};
    {| ename := "f"; eord := Some (OAfter "zz") |} ].

Example ex_wf : wf ex_es = true.
Proof. vm_compute. reflexivity. Qed.

Example ex_sorted : option_map names (sort_by_order [] ex_es) = Some ["c"; "d"; "a"; "b"; "f"; "e"].
Proof. vm_compute. reflexivity. Qed.

Definition cyc_es : list elt :=
  [ {| ename := "a"; eord := Some (OAfter "b") |};
    {| ename := "b"; eord := Some (OAfter "a") |};
    {| ename := "c"; eord := None |} ].

(* a cycle of after/before is refused (None = ValueError) instead of silently dropping fields *)
Example cycle_refused : sort_by_order [] cyc_es = None /\ names (sort_core cyc_es) = ["c"].
Proof. vm_compute. split; reflexivity. Qed.
