(* C19: model of the GraphQL type mapping of graphql/schema.py (output and input builders): named types, lists,
   nullability.  No proofs here. *)
From Coq Require Import List String Bool Arith.
Import ListNotations.
Open Scope string_scope.

(* the GraphQL-compatible part of the type space *)
Inductive gty :=
| GInt | GFloat | GStr | GBool
| GId                          (* a type selected by id_types / is_id *)
| GEnum (name : string)
| GObj (name : string)
| GList (t : gty)
| GOpt (t : gty)               (* Optional[t] *)
| GUndef (t : gty).            (* Union[t, UndefinedType] *)

Inductive gql := QNamed (n : string) | QList (t : gql) | QNonNull (t : gql).

Fixpoint strip (t : gty) : gty := match t with GOpt t' | GUndef t' => strip t' | other => other end.
Definition nullable_ty (t : gty) : bool := match t with GOpt _ | GUndef _ => true | _ => false end.

(* the named / list type, without the outer NonNull *)
Fixpoint base (input : bool) (t : gty) : gql :=
  match t with
  | GInt => QNamed "Int" | GFloat => QNamed "Float" | GStr => QNamed "String" | GBool => QNamed "Boolean"
  | GId => QNamed "ID"
  | GEnum n => QNamed n
  | GObj n => QNamed (if input then n ++ "Input" else n)
  | GList t' => QList (if nullable_ty t' then base input t' else QNonNull (base input t'))
  | GOpt t' | GUndef t' => base input t'
  end.

(* the type of an output field / of a resolver result *)
Definition out_type (t : gty) : gql := if nullable_ty t then base false t else QNonNull (base false t).

Inductive gdefault := DRequired | DNone | DUndefined | DSerializable | DUnserializable.

(* the type of an argument / input field: nullable also when the default is None, Undefined or cannot be serialized *)
Definition in_type (t : gty) (d : gdefault) : gql :=
  match d with
  | DNone | DUndefined | DUnserializable => base true t
  | _ => if nullable_ty t then base true t else QNonNull (base true t)
  end.

Fixpoint show_gql (t : gql) : string :=
  match t with
  | QNamed n => n
  | QList t' => "[" ++ show_gql t' ++ "]"
  | QNonNull t' => show_gql t' ++ "!"
  end.
