(* C11: properties of the external name. *)
From Coq Require Import List String Bool Arith.
From AV Require Import Small.Names.
Import ListNotations.

(* every view is the same function of the field: properties, required and serialized keys are built from `external` *)
Lemma required_subset dyn ca fields x : In x (view_required dyn ca fields) -> In x (view_properties dyn ca fields).
Proof.
  unfold view_required, view_properties. intros H. apply in_map_iff in H. destruct H as [f [<- Hf]].
  apply filter_In in Hf. apply in_map. exact (proj1 Hf).
Qed.

Lemma serialized_keys_are_properties dyn ca fields : view_serialized_keys dyn ca fields = view_properties dyn ca fields.
Proof. reflexivity. Qed.

(* override=False exempts a field from the class aliaser, and only from it *)
Lemma no_override_keeps_alias dyn ca f : nf_override f = false -> external dyn ca f = dyn (base_alias f).
Proof. unfold external, class_alias. intros H. destruct ca; rewrite ?H; reflexivity. Qed.

Lemma no_class_aliaser dyn f : external dyn None f = dyn (base_alias f).
Proof. reflexivity. Qed.

(* distinct external names: with injective aliasers, fields with distinct aliases keep distinct external names *)
Lemma external_injective dyn g f1 f2 :
  (forall a b, dyn a = dyn b -> a = b) -> (forall a b, g a = g b -> a = b) ->
  nf_override f1 = true -> nf_override f2 = true ->
  external dyn (Some g) f1 = external dyn (Some g) f2 -> base_alias f1 = base_alias f2.
Proof. unfold external, class_alias. intros Hd Hg -> -> H. apply Hg, Hd, H. Qed.
