From Coq Require Import List String Bool Arith Lia.
From AV Require Import Small.Validators.
Import ListNotations.
Open Scope string_scope.

Section P.
Variable fails : vdef -> bool.

Lemma mem_app s a b : mem s (a ++ b) = (mem s a || mem s b)%bool.
Proof. unfold mem. apply existsb_app. Qed.

Lemma disjointb_app a b c : disjointb a (b ++ c) = (disjointb a b && disjointb a c)%bool.
Proof.
  unfold disjointb. induction a as [|x a IH]; simpl; [reflexivity|].
  rewrite IH, mem_app. destruct (mem x b), (mem x c); simpl; try reflexivity;
    destruct (forallb _ a); destruct (forallb _ a); reflexivity.
Qed.

Lemma filter_length_le {A} (f : A -> bool) l : List.length (filter f l) <= List.length l.
Proof. induction l as [|x l IH]; simpl; [lia|]. destruct (f x); simpl; lia. Qed.

Lemma disjointb_nil a : disjointb a [] = true.
Proof. unfold disjointb. apply forallb_forall. intros; reflexivity. Qed.

(* filtering the remaining validators by the discarded fields = carrying the discarded set along *)
Lemma pass_filter d l : forall D,
  pass fails D (filter (fun w => disjointb (v_deps w) d) l) = pass fails (D ++ d) l.
Proof.
  induction l as [|w l IH]; intros D; simpl; [reflexivity|].
  rewrite disjointb_app. destruct (disjointb (v_deps w) d) eqn:E1; simpl.
  - rewrite andb_true_r. destruct (disjointb (v_deps w) D); [|apply IH].
    f_equal. destruct (fails w).
    + rewrite IH. rewrite <- !app_assoc.
      (* the order in which discarded fields were accumulated does not matter *)
      assert (Hperm : forall l' A B C, pass fails (A ++ B ++ C) l' = pass fails (A ++ C ++ B) l').
      { clear. induction l' as [|x l' IH]; intros A B C; simpl; [reflexivity|].
        rewrite !disjointb_app. rewrite (andb_comm (disjointb (v_deps x) B)).
        destruct (disjointb (v_deps x) A && (disjointb (v_deps x) C && disjointb (v_deps x) B))%bool; [|apply IH].
        f_equal. destruct (fails x); [|apply IH].
        rewrite <- !app_assoc. rewrite (app_assoc B C), (app_assoc C B).
        specialize (IH A B (C ++ v_discard x)%list). rewrite <- !app_assoc in IH. rewrite <- !app_assoc.
        replace (A ++ C ++ B ++ v_discard x)%list with (A ++ (C ++ B) ++ v_discard x)%list by (rewrite <- !app_assoc; reflexivity).
        clear IH. revert A. generalize (v_discard x). intros E A.
        (* swap B and C in the middle: prove by a general permutation-insensitivity of pass *)
        assert (G : forall l'' X Y, (forall s, mem s X = mem s Y) -> pass fails X l'' = pass fails Y l'').
        { clear. induction l'' as [|y l'' IH]; intros X Y H; simpl; [reflexivity|].
          assert (Hd : forall a, disjointb a X = disjointb a Y).
          { intros a. unfold disjointb. induction a as [|z a IHa]; simpl; [reflexivity|]. rewrite H, IHa. reflexivity. }
          rewrite Hd. destruct (disjointb (v_deps y) Y); [|apply IH; exact H].
          f_equal. destruct (fails y); apply IH; [|exact H]. intros s. rewrite !mem_app, H. reflexivity. }
        apply G. intros s. rewrite !mem_app. destruct (mem s A), (mem s B), (mem s C), (mem s E); reflexivity. }
      rewrite <- (Hperm l D d (v_discard w)). reflexivity.
    + apply IH.
  - rewrite andb_false_r. apply IH.
Qed.

(* `validate` terminates within |validators| + 1 nested calls and executes exactly the documented pass *)
Theorem validate_is_pass : forall fuel vs, List.length vs < fuel -> validate fails fuel vs = Some (pass fails [] vs).
Proof.
  induction fuel as [|f IH]; intros vs Hlen; [lia|].
  cbn [validate].
  assert (Hloop : forall l, List.length l <= List.length vs ->
            (fix loop (vs0 : list vdef) : option (list vdef) :=
               match vs0 with
               | [] => Some []
               | v :: rest =>
                   if (fails v && negb (match v_discard v with [] => true | _ => false end))%bool
                   then match validate fails f (filter (fun w => disjointb (v_deps w) (v_discard v)) rest) with
                        | Some ex => Some (v :: ex) | None => None end
                   else option_map (cons v) (loop rest)
               end) l = Some (pass fails [] l)).
  { induction l as [|v rest IHl]; intros Hl; [reflexivity|].
    simpl in Hl. cbn [pass]. rewrite disjointb_nil.
    destruct (fails v) eqn:Fv; cbn [andb].
    - destruct (v_discard v) as [|d0 dr] eqn:Ed; cbn [negb].
      + rewrite IHl by lia. rewrite app_nil_r. reflexivity.
      + rewrite IH.
        * rewrite pass_filter. reflexivity.
        * pose proof (filter_length_le (fun w => disjointb (v_deps w) (d0 :: dr)) rest). lia.
    - rewrite IHl by lia. reflexivity. }
  apply Hloop. lia.
Qed.

Lemma gate_length provided invalid vs : List.length (gate provided invalid vs) <= List.length vs.
Proof.
  unfold gate. pose proof (filter_length_le (fun v => negb (disjointb (v_deps v) provided)) vs) as H1.
  destruct invalid; [exact H1|].
  pose proof (filter_length_le (fun v => disjointb (v_deps v) (s :: invalid))
                               (filter (fun v => negb (disjointb (v_deps v) provided)) vs)) as H2.
  lia.
Qed.

Corollary validation_terminates provided invalid vs :
  executed fails provided invalid vs = Some (pass fails [] (gate provided invalid vs)).
Proof.
  unfold executed. apply validate_is_pass. pose proof (gate_length provided invalid vs). lia.
Qed.

(* which validators pass the gate: exactly those with some provided input and no invalid input; declaration order kept *)
Lemma gate_spec provided invalid vs : gate provided invalid vs = filter (runnable provided invalid) vs.
Proof.
  unfold gate, runnable. destruct invalid as [|i inv].
  - apply filter_ext. intros v. rewrite disjointb_nil, andb_true_r. reflexivity.
  - induction vs as [|v vs IH]; simpl; [reflexivity|].
    destruct (negb (disjointb (v_deps v) provided)); simpl; [|exact IH].
    destruct (disjointb (v_deps v) (i :: inv)); simpl; rewrite IH; reflexivity.
Qed.

(* membership in `pass`: runs iff no dependency was discarded by an earlier failing executed validator *)
Lemma pass_in_gate D vs v : In v (pass fails D vs) -> In v vs.
Proof.
  revert D. induction vs as [|w vs IH]; intros D H; simpl in *; [contradiction|].
  destruct (disjointb (v_deps w) D); [destruct H as [<-|H]; [left; reflexivity|right; eapply IH; exact H]|right; eapply IH; exact H].
Qed.

Theorem executed_only_if_runnable provided invalid vs ex v :
  executed fails provided invalid vs = Some ex -> In v ex -> In v vs /\ runnable provided invalid v = true.
Proof.
  rewrite validation_terminates. intros H Hin. injection H as <-.
  apply pass_in_gate in Hin. rewrite gate_spec in Hin. apply filter_In in Hin. exact Hin.
Qed.

(* an unrelated invalid field is irrelevant: if no failing validator discards anything, every runnable validator runs *)
Theorem all_runnable_execute_without_discard provided invalid vs :
  (forall v, In v vs -> fails v = true -> v_discard v = []) ->
  executed fails provided invalid vs = Some (filter (runnable provided invalid) vs).
Proof.
  intros Hnd. rewrite validation_terminates, gate_spec. f_equal.
  assert (G : forall l, (forall v, In v l -> fails v = true -> v_discard v = []) -> pass fails [] l = l).
  { induction l as [|v l IH]; intros H; cbn [pass]; [reflexivity|]. rewrite disjointb_nil.
    f_equal. destruct (fails v) eqn:F; [rewrite (H v (or_introl eq_refl) F)|]; apply IH; intros; apply H; auto; right; auto. }
  apply G. intros v Hv. apply Hnd. apply filter_In in Hv. tauto.
Qed.

End P.

Definition ex_vs : list vdef := [mkV 0 ["a"] ["a"]; mkV 1 ["a"; "b"] []; mkV 2 ["b"] []; mkV 3 ["c"] []].

(* v0 fails and discards a: v1 (reads a) is skipped, v2 runs, v3 has only defaulted inputs *)
Example ex_exec :
  option_map (map v_id) (executed (fun v => Nat.eqb (v_id v) 0) ["a"; "b"] [] ex_vs) = Some [0; 2].
Proof. vm_compute. reflexivity. Qed.
