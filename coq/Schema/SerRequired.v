(* C07, for every class (skip options, defaults of every kind, none_as_undefined, Undefined unions, serialized methods,
   TypedDicts, exclude_none / exclude_defaults, any order()): `required` of the serialization schema against the omission
   rule of the serializer.  Every key the schema requires is emitted; every emitted key is a declared property (or an
   additional property of a TypedDict).  The two are computed in two places of the code - ObjectField.skippable in the
   schema builder (Schema/BuildSer.v: elem_required), field by field in the serializer (Ser/Spec.v: omitted). *)
From Coq Require Import List String ZArith Bool Arith Lia.
From AV Require Import Core.Json Core.Errors Core.Text Small.Ordering Deser.Model Ser.Model Ser.Spec Ser.RoundTrip Ser.RoundTripInd
  Schema.Json Schema.Unfold Schema.BuildSer.
Import ListNotations.

(* ------------------------------------------------------------------ keys of a result under construction *)
Definition has_key (k : string) (acc : list (value * value)) : bool :=
  existsb (fun kv => match fst kv with VStr k' => String.eqb k k' | _ => false end) acc.

Lemma py_eq_str a k' : py_eq (VStr a) k' = match k' with VStr y => String.eqb a y | _ => false end.
Proof. destruct k'; reflexivity. Qed.

Lemma has_key_dict_set acc a y k : has_key k (dict_set acc (VStr a) y) = has_key k acc || String.eqb k a.
Proof.
  unfold has_key. induction acc as [|[k' v'] r IH]; cbn [dict_set existsb fst]; [now rewrite orb_false_r|].
  rewrite py_eq_str.
  destruct k'; cbn [existsb fst]; rewrite ?IH; try reflexivity.
  destruct (String.eqb a s) eqn:E; cbn [existsb fst]; rewrite ?IH.
  - apply String.eqb_eq in E. subst s. destruct (String.eqb k a), (existsb _ r); reflexivity.
  - now rewrite orb_assoc.
Qed.

Lemma has_key_result_set acc a y k : has_key k (result_set acc a y) = has_key k acc || String.eqb k a.
Proof. apply has_key_dict_set. Qed.

Section Req.
Variable u : univ.
Variable o : sopts.

(* ------------------------------------------------------------------ one field: required => never omitted *)
(* the only typing fact used: a dataclass field holds Undefined only if its type is a union with UndefinedType *)
Lemma required_field_never_omitted cd obj fd xv :
  (so_excl_unset o && cd_fields_set cd) = false ->
  elem_required o cd (EField fd) = true ->
  (is_typed_dict cd = false -> xv = VUndefined -> fs_undefined (fd_ser fd) = true) ->
  omitted o cd obj fd (Some xv) = false.
Proof.
  intros Hun Hreq Hty. unfold omitted. rewrite Hun. cbn [orb].
  cbn [elem_required] in Hreq. unfold skippable_x in Hreq.
  destruct (is_typed_dict cd) eqn:Etd.
  - (* TypedDict: required key, nothing may skip it *)
    apply andb_true_iff in Hreq. destruct Hreq as [Hr Hs]. rewrite Hr. apply negb_true_iff in Hs.
    repeat (apply orb_false_iff in Hs; destruct Hs as [Hs ?]).
    destruct (fs_skip_if (fd_ser fd)); try discriminate. cbn [skip_if_holds].
    repeat match goal with H : _ = false |- _ => rewrite H end.
    cbn [orb andb]. rewrite !andb_false_r. reflexivity.
  - apply negb_true_iff in Hreq.
    repeat (apply orb_false_iff in Hreq; destruct Hreq as [Hreq ?]).
    destruct (fs_skip_if (fd_ser fd)); try discriminate. cbn [skip_if_holds].
    match goal with H : fs_undefined _ = false |- _ => rename H into Hu end.
    match goal with H : fs_none_undef _ = false |- _ => rename H into Hnu end.
    match goal with H : (so_excl_none o && _)%bool = false |- _ => rename H into Hen end.
    match goal with H : (negb (fd_required fd) && _)%bool = false |- _ => rename H into Hd end.
    rewrite Hu, Hnu, Hen. cbn [orb].
    destruct (is_vundef xv) eqn:Exu.
    { destruct xv; try discriminate. specialize (Hty eq_refl eq_refl). congruence. }
    cbn [andb orb].
    destruct (fd_required fd); cbn [negb andb] in Hd |- *.
    + rewrite !andb_false_r. reflexivity.
    + rewrite Hd. cbn [andb]. rewrite ?andb_false_r, ?orb_false_r. reflexivity.
Qed.

(* a serialized method the schema requires is never left out *)
Lemma required_method_never_omitted cd sm :
  elem_required o cd (EMethod sm) = true ->
  ((sm_undefined sm && is_vundef (sm_result sm)) || (so_excl_none o && ty_has_none (sm_ty sm) && is_vnone (sm_result sm)))%bool = false.
Proof.
  cbn [elem_required]. intros H. apply andb_true_iff in H. destruct H as [H1 H2].
  apply negb_true_iff in H1. apply negb_true_iff in H2. now rewrite H1, H2.
Qed.

(* ------------------------------------------------------------------ the field loop *)
Lemma img_fields_keys g cd v es : forall acc out,
  (so_excl_unset o && cd_fields_set cd) = false ->
  (forall fd xv, In (EField fd) es -> is_typed_dict cd = false -> getattr v (fd_name fd) = Some xv -> xv = VUndefined ->
                 fs_undefined (fd_ser fd) = true) ->
  img_fields o g cd (is_typed_dict cd) v es acc = inl out ->
  (forall k, has_key k acc = true -> has_key k out = true)
  /\ (forall e, In e es -> elem_required o cd e = true -> has_key (elem_alias o e) out = true)
  /\ (forall k, has_key k out = true -> has_key k acc = true \/ exists e, In e es /\ k = elem_alias o e).
Proof.
  induction es as [|e r IH]; intros acc out Hun Hty H.
  - cbn [img_fields] in H. injection H as <-. split; [auto|]. split; [intros e []|]. intros k Hk. now left.
  - assert (Hty' : forall fd xv, In (EField fd) r -> is_typed_dict cd = false -> getattr v (fd_name fd) = Some xv -> xv = VUndefined ->
                                 fs_undefined (fd_ser fd) = true) by (intros fd xv Hin; apply Hty; now right).
    destruct e as [fd|sm]; cbn [img_fields] in H.
    + set (x := if is_typed_dict cd then match v with VDict kvs => vdict_get (fd_name fd) kvs | _ => None end
                else getattr v (fd_name fd)) in *.
      destruct (is_typed_dict cd && fd_required fd && match x with None => true | _ => false end)%bool eqn:E1; [discriminate|].
      destruct (negb (is_typed_dict cd) && match x with None => true | _ => false end)%bool eqn:E2; [discriminate|].
      destruct (omitted o cd v fd x) eqn:Eo.
      * (* omitted: then not required *)
        destruct (IH acc out Hun Hty' H) as [K1 [K2 K3]]. repeat split.
        -- exact K1.
        -- intros e [<-|Hin] Hreq; [|now apply K2]. exfalso.
           destruct x as [xv|] eqn:Ex.
           ++ rewrite (required_field_never_omitted cd v fd xv Hun Hreq) in Eo; [discriminate|].
              intros Htd Hxv. apply (Hty fd xv); auto; [now left|]. unfold x in Ex. rewrite Htd in Ex. exact Ex.
           ++ (* absent: a required TypedDict key raises KeyError, an absent attribute AttributeError *)
              destruct (is_typed_dict cd) eqn:Etd; cbn [negb andb] in E1, E2; [|discriminate].
              cbn [elem_required] in Hreq. rewrite Etd in Hreq. apply andb_true_iff in Hreq. destruct Hreq as [Hr _].
              rewrite Hr in E1. discriminate.
        -- intros k Hk. destruct (K3 k Hk) as [Ha|[e [Hin ->]]]; [now left|]. right. exists e. split; [now right|reflexivity].
      * destruct x as [xv|] eqn:Ex.
        -- destruct (g (fd_ty fd) xv) as [y| | |] eqn:Eg; try discriminate.
           destruct (IH _ out Hun Hty' H) as [K1 [K2 K3]]. repeat split.
           ++ intros k Hk. apply K1. rewrite has_key_result_set, Hk. reflexivity.
           ++ intros e [<-|Hin] Hreq; [|now apply K2]. apply K1. rewrite has_key_result_set. cbn [elem_alias].
              rewrite String.eqb_refl. apply orb_true_r.
           ++ intros k Hk. destruct (K3 k Hk) as [Ha|[e [Hin ->]]].
              ** rewrite has_key_result_set in Ha. apply orb_true_iff in Ha. destruct Ha as [Ha|Ha]; [now left|].
                 right. exists (EField fd). split; [now left|]. apply String.eqb_eq in Ha. exact Ha.
              ** right. exists e. split; [now right|reflexivity].
        -- destruct (IH acc out Hun Hty' H) as [K1 [K2 K3]]. repeat split.
           ++ exact K1.
           ++ intros e [<-|Hin] Hreq; [|now apply K2]. exfalso.
              destruct (is_typed_dict cd) eqn:Etd; cbn [negb andb] in E1, E2; [|discriminate].
              cbn [elem_required] in Hreq. rewrite Etd in Hreq. apply andb_true_iff in Hreq. destruct Hreq as [Hr _].
              rewrite Hr in E1. discriminate.
           ++ intros k Hk. destruct (K3 k Hk) as [Ha|[e [Hin ->]]]; [now left|]. right. exists e. split; [now right|reflexivity].
    + destruct ((sm_undefined sm && is_vundef (sm_result sm)) || (so_excl_none o && ty_has_none (sm_ty sm) && is_vnone (sm_result sm)))%bool eqn:Es.
      * destruct (IH acc out Hun Hty' H) as [K1 [K2 K3]]. repeat split.
        -- exact K1.
        -- intros e [<-|Hin] Hreq; [|now apply K2]. rewrite (required_method_never_omitted cd sm Hreq) in Es. discriminate.
        -- intros k Hk. destruct (K3 k Hk) as [Ha|[e [Hin ->]]]; [now left|]. right. exists e. split; [now right|reflexivity].
      * destruct (g (sm_ty sm) (sm_result sm)) as [y| | |] eqn:Eg; try discriminate.
        destruct (IH _ out Hun Hty' H) as [K1 [K2 K3]]. repeat split.
        -- intros k Hk. apply K1. rewrite has_key_result_set, Hk. reflexivity.
        -- intros e [<-|Hin] Hreq; [|now apply K2]. apply K1. rewrite has_key_result_set. cbn [elem_alias].
           rewrite String.eqb_refl. apply orb_true_r.
        -- intros k Hk. destruct (K3 k Hk) as [Ha|[e [Hin ->]]].
           ++ rewrite has_key_result_set in Ha. apply orb_true_iff in Ha. destruct Ha as [Ha|Ha]; [now left|].
              right. exists (EMethod sm). split; [now left|]. apply String.eqb_eq in Ha. exact Ha.
           ++ right. exists e. split; [now right|reflexivity].
Qed.

(* the loop fails with the failure of an element, never with a value *)
Lemma img_fields_inr g cd td v es : forall acc x, img_fields o g cd td v es acc = inr x -> forall y, x <> SROk y.
Proof.
  induction es as [|e r IH]; intros acc x H y; cbn [img_fields] in H; [discriminate|].
  destruct e as [fd|sm].
  - destruct (td && fd_required fd && _)%bool; [injection H as <-; discriminate|].
    destruct (negb td && _)%bool; [injection H as <-; discriminate|].
    destruct (omitted o cd v fd _); [now apply (IH acc x H)|].
    destruct (if td then _ else _) as [xv|]; [|now apply (IH acc x H)].
    destruct (g (fd_ty fd) xv) eqn:Eg; try (injection H as <-; discriminate). now apply (IH _ x H).
  - destruct (_ || _)%bool; [now apply (IH acc x H)|].
    destruct (g (sm_ty sm) (sm_result sm)) eqn:Eg; try (injection H as <-; discriminate). now apply (IH _ x H).
Qed.

(* additional properties of a TypedDict only add keys *)
Lemma img_extra_keys g cd kvs : forall acc out,
  img_extra g cd kvs acc = SROk (VDict out) -> forall k, has_key k acc = true -> has_key k out = true.
Proof.
  induction kvs as [|[k' x] rest IH]; intros acc out H k Hk; cbn [img_extra] in H.
  - injection H as <-. exact Hk.
  - destruct k'; try (now apply (IH acc out H)).
    destruct (existsb (String.eqb s) (map fd_name (cd_fields cd)) || existsb _ acc)%bool; [now apply (IH acc out H)|].
    destruct (g TAny x) as [y| | |]; try discriminate.
    apply (IH _ out H). rewrite has_key_result_set, Hk. reflexivity.
Qed.

(* ------------------------------------------------------------------ the whole object *)
Lemma ordered_elems_sub cd es e : ordered_elems cd = Some es -> In e es ->
  In e (map EField (cd_fields cd) ++ map EMethod (cd_methods cd))%list.
Proof.
  unfold ordered_elems. destruct (sort_by_order _ _) as [sorted|]; [|discriminate]. intros [= <-] Hin.
  apply in_flat_map in Hin. destruct Hin as [x [_ Hx]].
  destruct (find _ _) as [e'|] eqn:Ef; [|contradiction]. destruct Hx as [<-|[]]. now apply find_some in Ef.
Qed.

Lemma field_of_elems cd es fd : ordered_elems cd = Some es -> In (EField fd) es -> In fd (cd_fields cd).
Proof.
  intros H Hin. apply (ordered_elems_sub cd es _ H) in Hin. apply in_app_or in Hin. destruct Hin as [Hin|Hin].
  - apply in_map_iff in Hin. destruct Hin as [fd' [[= ->] Hf]]. exact Hf.
  - apply in_map_iff in Hin. destruct Hin as [sm [Hsm _]]. discriminate.
Qed.

(* what typing says about Undefined in a dataclass / NamedTuple field *)
Lemma typed_undefined n c v fd :
  has_type u (S n) (TObj c) v = true -> is_typed_dict (get_cls u c) = false -> In fd (cd_fields (get_cls u c)) ->
  getattr v (fd_name fd) = Some VUndefined -> fs_undefined (fd_ser fd) = true.
Proof.
  rewrite (ht_TObj_S u n c v). cbv zeta. unfold is_typed_dict. intros H Htd Hin Hget.
  destruct (cd_kind (get_cls u c)) eqn:Ek; try discriminate; destruct v; try discriminate;
    (apply andb_true_iff in H; destruct H as [H _]; apply andb_true_iff in H; destruct H as [_ H];
     rewrite forallb_forall in H; specialize (H fd Hin); unfold ht_field in H; cbn [getattr] in Hget; rewrite Hget in H; exact H).
Qed.

Section Obj.
  Variables (n m c : nat) (v : value) (out : list (value * value)).
  Let cd := get_cls u c.
  Hypothesis Himg : image u o (S m) (TObj c) v = SROk (VDict out).
  Hypothesis Hty : has_type u (S n) (TObj c) v = true.
  (* no field is dropped by unset-tracking (the statement's proviso) *)
  Hypothesis Hun : (so_excl_unset o && cd_fields_set cd)%bool = false.

  Lemma obj_elems : exists es, ordered_elems cd = Some es /\ elems_of cd = es.
  Proof.
    pose proof Himg as Hi. rewrite (image_TObj_S u o m c v) in Hi. cbv zeta in Hi. fold cd in Hi. unfold elems_of.
    destruct (ordered_elems cd) as [es|]; [|discriminate]. eauto.
  Qed.

  Lemma obj_keys :
    (forall e, In e (elems_of cd) -> elem_required o cd e = true -> has_key (elem_alias o e) out = true)
    /\ ((is_typed_dict cd && so_addprops o)%bool = false ->
        forall k, has_key k out = true -> exists e, In e (elems_of cd) /\ k = elem_alias o e).
  Proof.
    destruct obj_elems as [es [Hes Hel]]. rewrite Hel.
    pose proof Himg as Hi. rewrite (image_TObj_S u o m c v) in Hi. cbv zeta in Hi. fold cd in Hi. rewrite Hes in Hi.
    destruct (img_fields o (image u o m) cd (is_typed_dict cd) v es []) as [acc|x] eqn:Ef; [|].
    - destruct (img_fields_keys (image u o m) cd v es [] acc Hun) as [K1 [K2 K3]]; [|exact Ef|].
      { intros fd xv Hin Htd Hget ->. apply (typed_undefined n c v fd Hty Htd); [|exact Hget].
        now apply (field_of_elems cd es). }
      destruct (is_typed_dict cd && so_addprops o)%bool eqn:Eap.
      + destruct v; try discriminate. split; [|discriminate].
        intros e Hin Hreq. eapply img_extra_keys; [exact Hi|]. now apply K2.
      + injection Hi as Hacc. rewrite <- Hacc. split; [exact K2|]. intros _ k Hk. destruct (K3 k Hk) as [Ha|He]; [discriminate|exact He].
    - exfalso. exact (img_fields_inr _ _ _ _ _ _ _ Ef _ Hi).
  Qed.

  (* every `required` key is always emitted *)
  Theorem required_keys_emitted e : In e (elems_of cd) -> elem_required o cd e = true -> has_key (elem_alias o e) out = true.
  Proof. exact (proj1 obj_keys e). Qed.

  (* every emitted key is declared (additional properties of a TypedDict apart) *)
  Theorem emitted_keys_declared k : (is_typed_dict cd && so_addprops o)%bool = false -> has_key k out = true ->
    exists e, In e (elems_of cd) /\ k = elem_alias o e.
  Proof. intros Hap. exact (proj2 obj_keys Hap k). Qed.
End Obj.
End Req.

(* ------------------------------------------------------------------ in terms of the schema keywords *)
Lemma has_key_unembed k out ds : unembed_items out = Some ds -> has_key k out = dict_has k ds.
Proof.
  revert ds. induction out as [|[k' x] r IH]; intros ds H; cbn [unembed_items] in H.
  - injection H as <-. reflexivity.
  - destruct k'; try discriminate. destruct (unembed x) as [d|]; [|discriminate].
    destruct (unembed_items r) as [ds'|] eqn:Er; [|discriminate]. injection H as <-.
    unfold has_key, dict_has. cbn [existsb fst dict_get]. fold (has_key k r). rewrite (IH ds' eq_refl). unfold dict_has.
    destruct (String.eqb k s); reflexivity.
Qed.

(* the `required` keyword of the model of SerializationSchemaBuilder holds of what serialization produces; the keys of the
   output are among the `properties` (so `additionalProperties: false` holds) *)
Theorem serialization_required_and_additional_hold u o n m c v out ds :
  image u o (S m) (TObj c) v = SROk (VDict out) -> unembed_items out = Some ds ->
  has_type u (S n) (TObj c) v = true ->
  (so_excl_unset o && cd_fields_set (get_cls u c))%bool = false ->
  let cd := get_cls u c in
  let es := elems_of cd in
  required_ok (map (elem_alias o) (filter (elem_required o cd) es)) (PDict ds) = true
  /\ ((is_typed_dict cd && so_addprops o)%bool = false ->
      forallb (fun kd => existsb (String.eqb (fst kd)) (map (elem_alias o) es)) ds = true).
Proof.
  intros Himg Hu Hty Hun cd es. split.
  - cbn [required_ok]. apply forallb_forall. intros r Hr. apply in_map_iff in Hr. destruct Hr as [e [<- He]].
    apply filter_In in He. destruct He as [Hin Hreq].
    rewrite <- (has_key_unembed _ out ds Hu). exact (required_keys_emitted u o n m c v out Himg Hty Hun e Hin Hreq).
  - intros Hap. apply forallb_forall. intros [k d] Hin. cbn [fst].
    assert (Hk : has_key k out = true).
    { rewrite (has_key_unembed k out ds Hu). unfold dict_has. clear - Hin.
      induction ds as [|[k' d'] r IH]; [contradiction|]. cbn [dict_get]. destruct (String.eqb k k') eqn:E; [reflexivity|].
      destruct Hin as [[= -> ->]|Hin]; [rewrite String.eqb_refl in E; discriminate|]. now apply IH. }
    destruct (emitted_keys_declared u o n m c v out Himg Hty Hun k Hap Hk) as [e [He ->]].
    apply existsb_exists. exists (elem_alias o e). split; [now apply in_map|apply String.eqb_refl].
Qed.

(* the hypotheses are satisfiable: a recursive dataclass with a skipped default, a serialized method and a dynamic aliaser
   under exclude_defaults; some of its properties are required, some are not *)
From AV Require Import Ser.CompileProofs.
Example required_ex :
  exists out ds,
    image cc_ex_univ cc_ex_opts 5 (TObj 0) cc_ex_value = SROk (VDict out) /\ unembed_items out = Some ds
    /\ has_type cc_ex_univ 5 (TObj 0) cc_ex_value = true
    /\ (so_excl_unset cc_ex_opts && cd_fields_set (get_cls cc_ex_univ 0))%bool = false
    /\ map (elem_alias cc_ex_opts) (filter (elem_required cc_ex_opts (get_cls cc_ex_univ 0)) (elems_of (get_cls cc_ex_univ 0)))
       = ["p_v"; "p_pos"; "p_extra"; "p_size"]%string
    /\ map (elem_alias cc_ex_opts) (elems_of (get_cls cc_ex_univ 0)) = ["p_v"; "p_nextNode"; "p_tags"; "p_pos"; "p_extra"; "p_size"]%string
    /\ map fst ds = ["p_v"; "p_nextNode"; "p_tags"; "p_pos"; "p_extra"; "p_size"]%string.
Proof. eexists. eexists. vm_compute. repeat split; reflexivity. Qed.
