(* C06: the generated schema accepts exactly what the specification of deserialization accepts. *)
From Coq Require Import List String ZArith Bool Arith Lia.
From AV Require Import Core.Json Core.Text Small.Ordering Deser.Model Deser.Spec Schema.Json Schema.Build Schema.Unfold.
Import ListNotations.
Open Scope string_scope.

Lemma memt_dedup t ts : memt t (dedup_types ts) = memt t ts.
Proof.
  unfold dedup_types.
  assert (H : forall acc, memt t (fold_left (fun acc t0 => if memt t0 acc then acc else (acc ++ [t0])%list) ts acc)
                          = memt t acc || memt t ts).
  { induction ts as [|x r IH]; intros acc; simpl.
    - now rewrite orb_false_r.
    - rewrite IH. destruct (memt x acc) eqn:E.
      + destruct (jtype_eqb t x) eqn:E2; [|reflexivity].
        assert (t = x) by (destruct t, x; simpl in E2; congruence). subst. rewrite E. reflexivity.
      + unfold memt at 1. rewrite existsb_app. simpl. rewrite orb_false_r.
        fold (memt t acc). now rewrite orb_assoc. }
  rewrite H. reflexivity.
Qed.

Lemma prim_type_ok p d : json_eq (prim_data p) d = true -> in_domain d = true -> type_ok [prim_type p] d = true.
Proof.
  destruct p as [|b|z|s], d as [|b'|z'|f|s'|l|l|tg]; cbn [prim_data json_eq]; try discriminate; try reflexivity.
  destruct f as [q| |]; try discriminate. intros H Hd. apply Z.eqb_eq in H. subst q.
  cbn [in_domain] in Hd. apply negb_true_iff in Hd. rewrite Z.mul_comm, Z_mod_mult in Hd. discriminate.
Qed.

Lemma type_ok_mem ts d t : memt t ts = true -> type_ok [t] d = true -> type_ok ts d = true.
Proof.
  intros Hm H. unfold type_ok in *.
  destruct d as [|b|z|f|s|l|l|tg]; try destruct f as [q| |]; destruct t; simpl in H; try discriminate H;
    rewrite ?Hm; rewrite ?H; rewrite ?orb_true_r; auto.
Qed.

Lemma literal_schema_valid vs d : in_domain d = true ->
  jvalid false [] 0 (literal_schema vs) d = existsb (fun p => json_eq (prim_data p) d) vs.
Proof.
  intros Hd.
  assert (Ht : existsb (fun p => json_eq (prim_data p) d) vs = true -> type_ok (dedup_types (map prim_type vs)) d = true).
  { intros H. apply existsb_exists in H. destruct H as [p [Hin Hp]].
    apply type_ok_mem with (t := prim_type p); [|now apply prim_type_ok].
    rewrite memt_dedup. unfold memt. apply existsb_exists. exists (prim_type p). split.
    - now apply in_map.
    - destruct (prim_type p); reflexivity. }
  unfold literal_schema. destruct vs as [|v [|v' r]]; rewrite jvalid_JS; cbn [nullable existsb andb orb forallb kw_valid flat_kw].
  - now rewrite andb_false_r.
  - rewrite andb_true_r.
    destruct (existsb (fun p => json_eq (prim_data p) d) [v]) eqn:E.
    + rewrite Ht by reflexivity. simpl in E. rewrite orb_false_r in E. now rewrite E.
    + simpl in E. rewrite orb_false_r in E. rewrite E. apply andb_false_r.
  - rewrite andb_true_r.
    destruct (existsb (fun p => json_eq (prim_data p) d) (v :: v' :: r)) eqn:E.
    + rewrite Ht by reflexivity. cbn [existsb] in E. now rewrite E.
    + cbn [existsb] in E. rewrite E. apply andb_false_r.
Qed.

(* ------------------------------------------------------------------ _visited_union *)
Lemma memt_app t a b : memt t (a ++ b) = memt t a || memt t b.
Proof. unfold memt. apply existsb_app. Qed.

Lemma type_ok_app a b d : type_ok (a ++ b) d = type_ok a d || type_ok b d.
Proof.
  destruct d as [|x|z|f|s|l|l|tg]; try destruct f as [q| |]; cbn [type_ok]; rewrite ?memt_app; try reflexivity;
    repeat match goal with |- context [memt ?t ?l] => destruct (memt t l) end;
    try reflexivity; destruct (Z.eqb _ _); reflexivity.
Qed.

Lemma memt_filter t u ts : jtype_eqb t u = false -> memt t (filter (fun x => negb (jtype_eqb x u)) ts) = memt t ts.
Proof.
  intros H. induction ts as [|x r IH]; [reflexivity|]. cbn [filter memt existsb].
  destruct (jtype_eqb x u) eqn:E; cbn [negb].
  - assert (x = u) by (destruct x, u; simpl in E; congruence). subst.
    fold (memt t (filter (fun x => negb (jtype_eqb x u)) r)). rewrite IH. fold (memt t r). now rewrite H.
  - cbn [existsb]. fold (memt t (filter (fun x => negb (jtype_eqb x u)) r)) (memt t r). now rewrite IH.
Qed.

Lemma type_ok_norm ts d : type_ok (norm_types ts) d = type_ok ts d.
Proof.
  unfold norm_types. destruct (memt JInteger ts && memt JNumber ts) eqn:E; [|reflexivity].
  apply andb_true_iff in E. destruct E as [Hi Hn].
  assert (Hn' : memt JNumber (filter (fun t => negb (jtype_eqb t JInteger)) ts) = true)
    by (rewrite memt_filter; auto).
  destruct d as [|x|z|f|s|l|l|tg]; try destruct f as [q| |]; cbn [type_ok];
    rewrite ?Hn', ?Hn, ?Hi, ?orb_true_r; try reflexivity; rewrite memt_filter; auto.
Qed.

Lemma type_ok_dedup ts d : type_ok (dedup_types ts) d = type_ok ts d.
Proof. destruct d as [|x|z|f|s|l|l|tg]; try destruct f as [q| |]; cbn [type_ok]; now rewrite ?memt_dedup. Qed.

Lemma forallb_ext' {A} (f g : A -> bool) l : (forall x, f x = g x) -> forallb f l = forallb g l.
Proof. intros H. induction l as [|x r IH]; [reflexivity|]. cbn [forallb]. now rewrite H, IH. Qed.

(* keywords that hold vacuously of null *)
Definition null_vacuous (k : kw) : bool :=
  match k with
  | KwCon _ | KwSetUnique | KwItems _ | KwPrefixItems _ | KwProperties _ | KwRequired _ | KwAddProps _
  | KwPatternProps _ | KwPropertyNames _ | KwDepReq _ => true
  | _ => false
  end.

(* the shape of a schema having a "type" among the builder's outputs: one type keyword, then only such keywords,
   or const / enum *)
Definition typed_shape (s : js) : bool :=
  match s with
  | JS (KwType _ :: rest) =>
      forallb (fun k => null_vacuous k || match k with KwConst _ | KwEnum _ => true | _ => false end) rest
  | _ => false
  end.

Lemma null_vacuous_valid ss ds fuel kws k : null_vacuous k = true -> kw_valid ss ds fuel kws k PNone = true.
Proof. destruct k; try discriminate; try reflexivity; try (destruct c; reflexivity); destruct ss; reflexivity. Qed.

Lemma kw_valid_siblings ss ds fuel kws kws' k d :
  prefix_len kws = prefix_len kws' -> prop_names kws = prop_names kws' -> prop_patterns kws = prop_patterns kws' ->
  kw_valid ss ds fuel kws k d = kw_valid ss ds fuel kws' k d.
Proof.
  intros H1 H2 H3. destruct k; try reflexivity; cbn [kw_valid]; rewrite ?H1; try reflexivity.
  unfold additional. now rewrite H2, H3.
Qed.

Lemma add_null_valid ss ds fuel s d :
  typed_shape s = true -> has_const_enum s = false ->
  jvalid ss ds fuel (add_null s) d = jvalid ss ds fuel s d || is_null d.
Proof.
  destruct s as [b|[|k rest]]; try discriminate. destruct k; try discriminate.
  cbn [typed_shape]. intros Hs Hc. unfold has_const_enum in Hc. cbn [kws_of existsb] in Hc.
  assert (Hrest : map (fun k => match k with KwType ts0 => if memt JNull ts0 then k else KwType (ts0 ++ [JNull]) | _ => k end) rest = rest).
  { clear Hc. induction rest as [|k r IH]; [reflexivity|]. cbn [forallb] in Hs. apply andb_true_iff in Hs. destruct Hs as [Hk Hr].
    cbn [map]. rewrite IH by exact Hr. destruct k; try reflexivity. discriminate. }
  assert (Hnn : forall k0 l, forallb (fun k => null_vacuous k || match k with KwConst _ | KwEnum _ => true | _ => false end) l = true ->
                 nullable (k0 :: l) = nullable [k0]).
  { intros k0 l Hl. unfold nullable. cbn [existsb]. rewrite orb_false_r.
    assert (existsb (fun k => match k with KwNullable => true | _ => false end) l = false).
    { induction l as [|x r IH]; [reflexivity|]. cbn [forallb] in Hl. apply andb_true_iff in Hl. destruct Hl as [Hx Hr].
      cbn [existsb]. rewrite IH by exact Hr. destruct x; try reflexivity; discriminate. }
    rewrite H. apply orb_false_r. }
  assert (Hvac : is_null d = true -> forallb (fun k => kw_valid ss ds fuel (KwType ts :: rest) k d) rest = true).
  { intros Hd. destruct d; try discriminate. apply forallb_forall. intros k Hk.
    rewrite forallb_forall in Hs. specialize (Hs k Hk). apply orb_true_iff in Hs. destruct Hs as [Hs|Hs].
    - now apply null_vacuous_valid.
    - exfalso. assert (existsb (fun k => match k with KwConst _ | KwEnum _ => true | _ => false end) rest = true).
      { apply existsb_exists. exists k. split; auto. }
      simpl in Hc. congruence. }
  unfold add_null. cbn [map]. rewrite Hrest.
  rewrite !jvalid_JS. rewrite !(Hnn _ rest Hs). cbn [nullable existsb orb andb forallb].
  cbn [orb andb].
  destruct (memt JNull ts) eqn:Hm.
  - (* already nullable type *)
    destruct (is_null d) eqn:Hd; [|rewrite !orb_false_r; reflexivity].
    rewrite orb_true_r. cbn [kw_valid flat_kw]. destruct d; try discriminate. cbn [type_ok]. rewrite Hm.
    now rewrite Hvac.
  - cbn [kw_valid flat_kw]. rewrite type_ok_app.
    assert (Hsib : forallb (fun k => kw_valid ss ds fuel (KwType (ts ++ [JNull]) :: rest) k d) rest
                   = forallb (fun k => kw_valid ss ds fuel (KwType ts :: rest) k d) rest).
    { apply forallb_ext'. intros k. apply kw_valid_siblings; reflexivity. }
    rewrite Hsib.
    destruct (is_null d) eqn:Hd.
    + destruct d; try discriminate. cbn [type_ok memt existsb jtype_eqb orb]. rewrite Hm. cbn [orb].
      rewrite Hvac by reflexivity. reflexivity.
    + rewrite orb_false_r.
      assert (type_ok [JNull] d = false) by (destruct d as [|x|z|f|s|l|l|tg]; try destruct f; try reflexivity; discriminate).
      rewrite H. rewrite !orb_false_r. reflexivity.
Qed.

Lemma jvalid_empty ss ds fuel d : jvalid ss ds fuel (JS []) d = true.
Proof. rewrite jvalid_JS. reflexivity. Qed.

Lemma jvalid_only_type ss ds fuel ts d : jvalid ss ds fuel (JS [KwType ts]) d = type_ok ts d.
Proof. rewrite jvalid_JS. cbn. now rewrite andb_true_r. Qed.

Lemma jvalid_anyof ss ds fuel rs d :
  jvalid ss ds fuel (JS [KwAnyOf rs]) d = existsb (fun r => jvalid ss ds fuel r d) rs.
Proof.
  rewrite jvalid_JS. cbn [nullable existsb andb orb forallb kw_valid]. rewrite andb_true_r.
  induction rs as [|r rs IH]; [reflexivity|]. cbn [any_valid existsb]. now rewrite IH.
Qed.

Lemma only_type_some s ts : only_type s = Some ts -> s = JS [KwType ts].
Proof. destruct s as [b|[|k [|k' r]]]; try discriminate; destruct k; try discriminate. cbn. congruence. Qed.

Lemma is_null_schema_inv r : is_null_schema r = true -> r = JS [KwType [JNull]].
Proof.
  destruct r as [b|[|k [|k' kl]]]; try discriminate; destruct k; try discriminate;
    destruct ts as [|t [|t' tl]]; try discriminate; destruct t; try discriminate; reflexivity.
Qed.

(* the schema of a union accepts exactly the data accepted by one of the alternatives' schemas;
   the hypothesis describes the builder's outputs having a "type" (see typed_shape) *)
Theorem visited_union_valid ss ds fuel rs d :
  rs <> [] ->
  (forall r, In r rs -> get_type r <> None -> typed_shape r = true) ->
  jvalid ss ds fuel (visited_union rs) d = existsb (fun r => jvalid ss ds fuel r d) rs.
Proof.
  intros Hne Hshape. unfold visited_union.
  destruct rs as [|r1 [|r2 rest]]; [congruence | cbn [existsb]; now rewrite orb_false_r |].
  set (rs := r1 :: r2 :: rest) in *.
  destruct (existsb is_empty rs) eqn:He.
  { rewrite jvalid_empty. symmetry. apply existsb_exists. apply existsb_exists in He. destruct He as [r [Hin Hr]].
    exists r. split; [exact Hin|]. destruct r as [b|[|k l]]; try discriminate. apply jvalid_empty. }
  destruct (forallb (fun r => match only_type r with Some _ => true | None => false end) rs) eqn:Ho.
  { rewrite jvalid_only_type, type_ok_norm, type_ok_dedup.
    clear - Ho. induction rs as [|r l IH]; [destruct d as [|x|z|f|s|l|l|tg]; try destruct f; reflexivity|].
    cbn [forallb] in Ho. apply andb_true_iff in Ho. destruct Ho as [Hr Hl].
    cbn [flat_map existsb]. rewrite type_ok_app, IH by exact Hl.
    destruct (only_type r) as [ts|] eqn:E; [|discriminate]. apply only_type_some in E. subst r.
    now rewrite jvalid_only_type. }
  assert (Hany : jvalid ss ds fuel (JS [KwAnyOf rs]) d = existsb (fun r => jvalid ss ds fuel r d) rs) by apply jvalid_anyof.
  destruct rest as [|r3 rest']; [|exact Hany].
  destruct (forallb (fun r => match get_type r with Some _ => true | None => false end) rs
            && (is_null_schema r1 || is_null_schema r2) && negb (has_const_enum r1 || has_const_enum r2)) eqn:Hc; [|exact Hany].
  apply andb_true_iff in Hc. destruct Hc as [Hc Hce]. apply andb_true_iff in Hc. destruct Hc as [Hty Hnull].
  apply negb_true_iff, orb_false_iff in Hce. destruct Hce as [Hce1 Hce2].
  subst rs. cbn [forallb] in Hty. rewrite andb_true_r in Hty. apply andb_true_iff in Hty. destruct Hty as [Ht1 Ht2].
  assert (Hn : forall r, is_null_schema r = true -> jvalid ss ds fuel r d = is_null d).
  { intros r Hr. apply is_null_schema_inv in Hr. subst r.
    rewrite jvalid_only_type. destruct d as [|x|z|fl0|s|l|l|tg]; try destruct fl0; reflexivity. }
  cbn [existsb]. rewrite orb_false_r.
  assert (S1 : typed_shape r1 = true).
  { apply Hshape; [left; reflexivity|]. intros Hg. rewrite Hg in Ht1. discriminate. }
  assert (S2 : typed_shape r2 = true).
  { apply Hshape; [right; left; reflexivity|]. intros Hg. rewrite Hg in Ht2. discriminate. }
  destruct (is_null_schema r1) eqn:N1.
  - rewrite (add_null_valid _ _ _ _ _ S2 Hce2). rewrite (Hn r1 N1). apply orb_comm.
  - cbn [orb] in Hnull. rewrite (add_null_valid _ _ _ _ _ S1 Hce1). now rewrite (Hn r2 Hnull).
Qed.

(* the merge performed before the fix (null added to the types of any typed schema, const / enum included) is refuted:
   Optional[Literal[1]] gave {"type": ["integer", "null"], "const": 1}, which rejects null *)
Definition old_optional_merge (a b : js) : js := add_null (if is_null_schema a then b else a).

Theorem old_optional_merge_refuted :
  exists a b d, typed_shape a = true /\ typed_shape b = true /\
    jvalid false [] 0 (old_optional_merge a b) d <> (jvalid false [] 0 a d || jvalid false [] 0 b d).
Proof.
  exists (literal_schema [LInt 1]), (JS [KwType [JNull]]), PNone. repeat split. vm_compute. discriminate.
Qed.

(* ------------------------------------------------------------------ C17: the references of a generated schema are closed *)
(* names referenced by a schema *)
Fixpoint refs_in (s : js) : list string :=
  match s with
  | JBoolS _ => []
  | JS kws =>
      flat_map (fun k =>
        match k with
        | KwRef _ n => [n]
        | KwItems s' | KwAddItems s' | KwAddProps s' | KwPropertyNames s' => refs_in s'
        | KwPrefixItems l | KwItemsArr l | KwAnyOf l | KwAllOf l | KwOneOf l => flat_map refs_in l
        | KwProperties ps | KwPatternProps ps => flat_map (fun p => refs_in (snd p)) ps
        | _ => []
        end) kws
  end.

From AV Require Import Deser.Loops.

Lemma refs_in_merge_kw c kws : refs_in (JS (merge_kw c kws)) = refs_in (JS kws).
Proof.
  unfold merge_kw.
  destruct (match c with KUnique => has_set_unique kws | _ => false end).
  - cbn [refs_in]. induction kws as [|k r IH]; [reflexivity|]. cbn [map flat_map]. rewrite IH. destruct k; reflexivity.
  - destruct (has_kind c kws).
    + cbn [refs_in]. induction kws as [|k r IH]; [reflexivity|]. cbn [map flat_map]. rewrite IH.
      destruct k; try reflexivity. destruct (same_kind c c0); reflexivity.
    + cbn [refs_in]. rewrite flat_map_app. cbn [flat_map]. now rewrite !app_nil_r.
Qed.

Lemma refs_in_apply_con c s : refs_in (apply_con c s) = refs_in s.
Proof.
  destruct c as [c|]; [|reflexivity]. destruct s as [b|kws]; [reflexivity|]. cbn [apply_con].
  generalize (all_cons c) as l. intros l. revert kws. induction l as [|k r IH]; intros kws; [reflexivity|].
  cbn [fold_left]. rewrite IH. apply refs_in_merge_kw.
Qed.

Lemma refs_in_add_null s : refs_in (add_null s) = refs_in s.
Proof.
  destruct s as [b|kws]; [reflexivity|]. cbn [add_null refs_in].
  induction kws as [|k r IH]; [reflexivity|]. cbn [map flat_map]. rewrite IH. destruct k; try reflexivity.
  destruct (memt JNull ts); reflexivity.
Qed.

Lemma refs_in_visited_union rs n :
  In n (refs_in (visited_union rs)) -> exists r, In r rs /\ In n (refs_in r).
Proof.
  unfold visited_union. destruct rs as [|r1 [|r2 rest]]; [intros []| intros H; exists r1; split; [left; reflexivity|exact H] |].
  set (rs := r1 :: r2 :: rest).
  assert (Hany : In n (refs_in (JS [KwAnyOf rs])) -> exists r, In r rs /\ In n (refs_in r)).
  { cbn [refs_in flat_map]. rewrite app_nil_r. intros H. apply in_flat_map in H. exact H. }
  destruct (existsb is_empty rs); [intros []|].
  destruct (forallb _ rs); [cbn; intros []|].
  destruct rest as [|r3 rest']; [|exact Hany].
  destruct (_ && _ && _); [|exact Hany].
  rewrite refs_in_add_null. intros H. destruct (is_null_schema r1).
  - exists r2. split; [right; left; reflexivity|exact H].
  - exists r1. split; [left; reflexivity|exact H].
Qed.

Lemma refs_in_literal vs : refs_in (literal_schema vs) = [].
Proof. unfold literal_schema. destruct vs as [|v [|v' r]]; reflexivity. Qed.

Lemma names_refs key m :
  In m (refs_in (JS match key with JS [KwType _] => [] | _ => [KwPropertyNames key] end)) -> In m (refs_in key).
Proof.
  destruct key as [b|[|k0 [|k1 kr]]]; try (cbn; rewrite ?app_nil_r; tauto).
  all: destruct k0; cbn; rewrite ?app_nil_r; tauto.
Qed.

Section Closed.
  Variable u : univ.
  Variable o : dopts.
  Variable refs : string -> bool.

  Lemma In_elems_sorted cd f : In f (elems_sorted cd) -> In f (cd_fields cd).
  Proof.
    unfold elems_sorted. destruct (sort_by_order _ _) as [sorted|]; [|auto].
    intros H. apply in_flat_map in H. destruct H as [x [_ Hx]].
    destruct (find _ (cd_fields cd)) as [f'|] eqn:E; [|destruct Hx].
    destruct Hx as [<-|[]]. apply find_some in E. exact (proj1 E).
  Qed.

  (* unfolding equations of the builder *)
  Lemma build_prim fuel ign t :
    match t with TNone | TBool | TInt | TFloat | TStr | TAny | TLit _ => True | _ => False end ->
    refs_in (build u o refs fuel ign t) = [].
  Proof. destruct fuel; destruct t; try contradiction; intros _; try reflexivity; apply refs_in_literal. Qed.

  Lemma build_TColl fuel ign k t' :
    build u o refs fuel ign (TColl k t') =
    let items := build u o refs fuel false t' in
    JS ([KwType [JArray]] ++ (if is_empty items then [] else [KwItems items])
        ++ match norm_kind k with KSet | KFrozenSet => [KwSetUnique] | _ => [] end).
  Proof. destruct fuel; reflexivity. Qed.

  Lemma build_TTuple fuel ign ts :
    build u o refs fuel ign (TTuple ts) =
    let ss := map (build u o refs fuel false) ts in
    JS ([KwType [JArray]] ++ (match ss with [] => [] | _ => [KwPrefixItems ss] end)
        ++ [KwItems (JBoolS false); KwCon (KMinItems (List.length ts)); KwCon (KMaxItems (List.length ts))]).
  Proof.
    assert (H : forall l, (fix all (ts : list ty) : list js :=
                       match ts with [] => [] | t1 :: tr => build u o refs fuel false t1 :: all tr end) l
                    = map (build u o refs fuel false) l).
    { induction l as [|x r IH]; [reflexivity|]. now rewrite IH. }
    cbv zeta. rewrite <- H. destruct fuel; reflexivity.
  Qed.

  Lemma build_TMap fuel ign kt vt :
    build u o refs fuel ign (TMap kt vt) =
    let key := build u o refs fuel true kt in
    let value := build u o refs fuel false vt in
    let names := match key with JS [KwType _] => [] | _ => [KwPropertyNames key] end in
    match get_pattern key with
    | Some p => JS ([KwType [JObject]; KwPatternProps [(p, value)]] ++ names)
    | None => JS ([KwType [JObject]] ++ (if is_empty value then [] else [KwAddProps value]) ++ names)
    end.
  Proof. destruct fuel; reflexivity. Qed.

  Lemma build_TEnum fuel ign e :
    build u o refs fuel ign (TEnum e) =
    if (refs (ename_ e) && negb ign)%bool then JS [KwRef true (ename_ e)] else literal_schema (get_enum u e).
  Proof. destruct fuel; reflexivity. Qed.

  Lemma build_TCon fuel ign c t' : build u o refs fuel ign (TCon c t') = apply_con (Some c) (build u o refs fuel ign t').
  Proof. destruct fuel; reflexivity. Qed.

  Lemma build_TUnion fuel ign ts :
    build u o refs fuel ign (TUnion ts) = visited_union (map (build u o refs fuel false) ts).
  Proof.
    assert (H : forall l, (fix all (ts : list ty) : list js :=
                       match ts with [] => [] | t1 :: tr => build u o refs fuel false t1 :: all tr end) l
                    = map (build u o refs fuel false) l).
    { induction l as [|x r IH]; [reflexivity|]. now rewrite IH. }
    rewrite <- H. destruct fuel; reflexivity.
  Qed.

  Definition object_schema (f : nat) (c : nat) : js :=
    let cd := get_cls u c in
    let fields := elems_sorted cd in
    let props := map (fun fd => (o_aliaser o (fd_alias fd), apply_con (fd_con fd) (build u o refs f false (fd_ty fd)))) fields in
    let required := map (fun fd => o_aliaser o (fd_alias fd)) (filter fd_required fields) in
    let dr := depreq_schema o cd in
    JS ([KwType [JObject]]
        ++ (match props with [] => [] | _ => [KwProperties props] end)
        ++ (match required with [] => [] | _ => [KwRequired required] end)
        ++ (if o_addprops o then [] else [KwAddProps (JBoolS false)])
        ++ (match dr with [] => [] | _ => [KwDepReq dr] end)).

  Lemma build_TObj fuel ign c :
    build u o refs fuel ign (TObj c) =
    if (refs (cname c) && negb ign)%bool then JS [KwRef false (cname c)]
    else match fuel with O => JBoolS true | S f => object_schema f c end.
  Proof. destruct fuel; reflexivity. Qed.

  Lemma in_refs_flat (l : list js) n : In n (flat_map refs_in l) -> exists s, In s l /\ In n (refs_in s).
  Proof. intros H. apply in_flat_map in H. exact H. Qed.

  (* every "$ref" the builder emits names a reference of the extracted set *)
  Theorem build_refs_in_refs : forall fuel t ign n, In n (refs_in (build u o refs fuel ign t)) -> refs n = true.
  Proof.
    assert (Inner : forall fuel,
      (forall c ign n, In n (refs_in (build u o refs fuel ign (TObj c))) -> refs n = true) ->
      forall t ign n, In n (refs_in (build u o refs fuel ign t)) -> refs n = true).
    { intros fuel Hobj. induction t using ty_ind'; intros ign n;
        try (rewrite build_prim by exact I; intros []).
      - (* coll *) rewrite build_TColl. cbv zeta. cbn [refs_in]. rewrite !flat_map_app. intros H.
        apply in_app_or in H. destruct H as [H|H]; [cbn in H; tauto|].
        apply in_app_or in H. destruct H as [H|H].
        + destruct (is_empty _); [destruct H|]. cbn [flat_map] in H. rewrite app_nil_r in H. eapply IHt; exact H.
        + destruct (norm_kind k); cbn in H; tauto.
      - (* tuple *) rewrite build_TTuple. cbv zeta. cbn [refs_in]. rewrite !flat_map_app. intros Hn.
        apply in_app_or in Hn. destruct Hn as [Hn|Hn]; [cbn in Hn; tauto|].
        apply in_app_or in Hn. destruct Hn as [Hn|Hn]; [|cbn in Hn; tauto].
        destruct (map _ ts) as [|s0 sr] eqn:E; [destruct Hn|]. rewrite <- E in Hn. cbn [flat_map] in Hn. rewrite app_nil_r in Hn.
        apply in_refs_flat in Hn. destruct Hn as [s [Hs Hn]]. apply in_map_iff in Hs. destruct Hs as [t0 [<- Ht0]].
        rewrite Forall_forall in H. eapply H; eassumption.
      - (* map *) rewrite build_TMap. cbv zeta.
        set (key := build u o refs fuel true t1). set (value := build u o refs fuel false t2).
        assert (Hnames : forall m, In m (refs_in (JS match key with JS [KwType _] => [] | _ => [KwPropertyNames key] end)) -> refs m = true).
        { intros m Hm. apply names_refs in Hm. eapply IHt1; exact Hm. }
        destruct (get_pattern key).
        + cbn [refs_in]. rewrite flat_map_app. intros Hn. apply in_app_or in Hn. destruct Hn as [Hn|Hn].
          * cbn in Hn. rewrite !app_nil_r in Hn. eapply IHt2; exact Hn.
          * apply Hnames. exact Hn.
        + cbn [refs_in]. rewrite !flat_map_app. intros Hn. apply in_app_or in Hn. destruct Hn as [Hn|Hn]; [cbn in Hn; tauto|].
          apply in_app_or in Hn. destruct Hn as [Hn|Hn].
          * destruct (is_empty value); [destruct Hn|]. cbn in Hn. rewrite app_nil_r in Hn. eapply IHt2; exact Hn.
          * apply Hnames. exact Hn.
      - (* enum *) rewrite build_TEnum. destruct (refs (ename_ e) && negb ign)%bool eqn:E.
        + cbn. intros [<-|[]]. apply andb_true_iff in E. tauto.
        + rewrite refs_in_literal. intros [].
      - (* con *) rewrite build_TCon, refs_in_apply_con. apply IHt.
      - (* union *) rewrite build_TUnion. intros Hn. apply refs_in_visited_union in Hn. destruct Hn as [r [Hr Hn]].
        apply in_map_iff in Hr. destruct Hr as [t0 [<- Ht0]]. rewrite Forall_forall in H. eapply H; eassumption.
      - (* obj *) apply Hobj. }
    induction fuel as [|f IHf]; apply Inner; intros c ign n; rewrite build_TObj;
      (destruct (refs (cname c) && negb ign)%bool eqn:E; [cbn; intros [<-|[]]; apply andb_true_iff in E; tauto|]).
    - intros [].
    - unfold object_schema. cbn [refs_in]. rewrite !flat_map_app. intros Hn.
      repeat (apply in_app_or in Hn; destruct Hn as [Hn|Hn]); try (cbn in Hn; tauto).
      + destruct (map _ (elems_sorted (get_cls u c))) as [|p0 pr] eqn:Ep; [destruct Hn|]. rewrite <- Ep in Hn.
        cbn [flat_map] in Hn. rewrite app_nil_r in Hn. apply in_flat_map in Hn. destruct Hn as [p [Hp Hn]].
        apply in_map_iff in Hp. destruct Hp as [fd [<- Hfd]]. cbn [snd] in Hn. rewrite refs_in_apply_con in Hn.
        eapply IHf; exact Hn.
      + destruct (map _ (filter fd_required _)); cbn in Hn; tauto.
      + destruct (o_addprops o); cbn in Hn; tauto.
      + destruct (depreq_schema o (get_cls u c)); cbn in Hn; tauto.
  Qed.
End Closed.

Lemma def_lookup_app n (a b : defs) : def_lookup n (a ++ b)%list = match def_lookup n a with Some s => Some s | None => def_lookup n b end.
Proof. induction a as [|[m s] r IH]; [reflexivity|]. cbn [app def_lookup]. destruct (String.eqb m n); [reflexivity|exact IH]. Qed.

Lemma def_lookup_map_in {A} (name : A -> string) (body : A -> js) (l : list A) x :
  In x l -> def_lookup (name x) (map (fun y => (name y, body y)) l) <> None.
Proof.
  induction l as [|y r IH]; [intros []|]. intros [->|H]; cbn [map def_lookup].
  - now rewrite String.eqb_refl.
  - destruct (String.eqb (name y) (name x)); [discriminate|]. now apply IH.
Qed.

(* the definitions emitted next to the schema define every extracted reference (of the listed classes / enums) *)
Theorem defs_define_refs u o refs fuel classes enums n :
  refs n = true ->
  (exists c, In c classes /\ n = cname c) \/ (exists e, In e enums /\ n = ename_ e) ->
  def_lookup n (defs_for u o refs fuel classes enums) <> None.
Proof.
  intros Hr H. unfold defs_for. rewrite def_lookup_app.
  destruct H as [[c [Hc ->]]|[e [He ->]]].
  - assert (H : def_lookup (cname c) (map (fun c0 => (cname c0, build u o refs fuel true (TObj c0)))
                                          (filter (fun c0 => refs (cname c0)) classes)) <> None).
    { apply (def_lookup_map_in cname). apply filter_In. split; assumption. }
    destruct (def_lookup (cname c) _); [discriminate|contradiction].
  - destruct (def_lookup (ename_ e) (map _ (filter _ classes))); [discriminate|].
    apply (def_lookup_map_in ename_). apply filter_In. split; assumption.
Qed.
