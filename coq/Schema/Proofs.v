(* C06: the generated schema accepts exactly what the specification of deserialization accepts. *)
From Coq Require Import List String ZArith Bool Arith Lia.
From AV Require Import Core.Json Core.Text Small.Ordering Deser.Model Deser.Spec Schema.Json Schema.Build.
Import ListNotations.
Open Scope string_scope.

Lemma memt_dedup t ts : memt t (dedup_types ts) = memt t ts.
Proof.
  unfold dedup_types.
  assert (H : forall acc, memt t (fold_left (fun acc t0 => if memt t0 acc then acc else (acc ++ [t0])%list) ts acc)
                          = memt t acc || memt t ts).
  { induction ts as [|x r IH]; intros acc; simpl.
    - now rewrite orb_false_r.
    - rewrite IH. destruct (memt x acc) eqn:E.
      + destruct (jtype_eqb t x) eqn:E2; [|reflexivity].
        assert (t = x) by (destruct t, x; simpl in E2; congruence). subst. rewrite E. reflexivity.
      + unfold memt at 1. rewrite existsb_app. simpl. rewrite orb_false_r.
        fold (memt t acc). now rewrite orb_assoc. }
  rewrite H. reflexivity.
Qed.

Lemma prim_type_ok p d : json_eq (prim_data p) d = true -> in_domain d = true -> type_ok [prim_type p] d = true.
Proof.
  destruct p as [|b|z|s], d as [|b'|z'|f|s'|l|l|tg]; cbn [prim_data json_eq]; try discriminate; try reflexivity.
  destruct f as [q| |]; try discriminate. intros H Hd. apply Z.eqb_eq in H. subst q.
  cbn [in_domain] in Hd. apply negb_true_iff in Hd. rewrite Z.mul_comm, Z_mod_mult in Hd. discriminate.
Qed.

Lemma type_ok_mem ts d t : memt t ts = true -> type_ok [t] d = true -> type_ok ts d = true.
Proof.
  intros Hm H. unfold type_ok in *.
  destruct d as [|b|z|f|s|l|l|tg]; try destruct f as [q| |]; destruct t; simpl in H; try discriminate H;
    rewrite ?Hm; rewrite ?H; rewrite ?orb_true_r; auto.
Qed.

Lemma literal_schema_valid vs d : in_domain d = true ->
  jvalid false [] 0 (literal_schema vs) d = existsb (fun p => json_eq (prim_data p) d) vs.
Proof.
  intros Hd.
  assert (Ht : existsb (fun p => json_eq (prim_data p) d) vs = true -> type_ok (dedup_types (map prim_type vs)) d = true).
  { intros H. apply existsb_exists in H. destruct H as [p [Hin Hp]].
    apply type_ok_mem with (t := prim_type p); [|now apply prim_type_ok].
    rewrite memt_dedup. unfold memt. apply existsb_exists. exists (prim_type p). split.
    - now apply in_map.
    - destruct (prim_type p); reflexivity. }
  unfold literal_schema. destruct vs as [|v [|v' r]].
  - simpl. now rewrite andb_false_r.
  - cbn [jvalid nullable existsb orb flat_kw andb]. rewrite andb_true_r.
    destruct (existsb (fun p => json_eq (prim_data p) d) [v]) eqn:E.
    + rewrite Ht by reflexivity. simpl in E. rewrite orb_false_r in E. now rewrite E.
    + simpl in E. rewrite orb_false_r in E. rewrite E. apply andb_false_r.
  - cbn [jvalid nullable existsb orb flat_kw andb]. rewrite andb_true_r.
    destruct (existsb (fun p => json_eq (prim_data p) d) (v :: v' :: r)) eqn:E.
    + rewrite Ht by reflexivity. cbn [existsb] in E. now rewrite E.
    + cbn [existsb] in E. rewrite E. apply andb_false_r.
Qed.
