(* C06: the generated schema accepts exactly what the specification of deserialization accepts. *)
From Coq Require Import List String ZArith Bool Arith Lia.
From AV Require Import Core.Json Core.Text Small.Ordering Deser.Model Deser.Spec Schema.Json Schema.Build Schema.Unfold.
Import ListNotations.
Open Scope string_scope.

Lemma memt_dedup t ts : memt t (dedup_types ts) = memt t ts.
Proof.
  unfold dedup_types.
  assert (H : forall acc, memt t (fold_left (fun acc t0 => if memt t0 acc then acc else (acc ++ [t0])%list) ts acc)
                          = memt t acc || memt t ts).
  { induction ts as [|x r IH]; intros acc; simpl.
    - now rewrite orb_false_r.
    - rewrite IH. destruct (memt x acc) eqn:E.
      + destruct (jtype_eqb t x) eqn:E2; [|reflexivity].
        assert (t = x) by (destruct t, x; simpl in E2; congruence). subst. rewrite E. reflexivity.
      + unfold memt at 1. rewrite existsb_app. simpl. rewrite orb_false_r.
        fold (memt t acc). now rewrite orb_assoc. }
  rewrite H. reflexivity.
Qed.

Lemma prim_type_ok p d : json_eq (prim_data p) d = true -> in_domain d = true -> type_ok [prim_type p] d = true.
Proof.
  destruct p as [|b|z|s], d as [|b'|z'|f|s'|l|l|tg]; cbn [prim_data json_eq]; try discriminate; try reflexivity.
  destruct f as [q| |]; try discriminate. intros H Hd. apply Z.eqb_eq in H. subst q.
  cbn [in_domain] in Hd. apply negb_true_iff in Hd. rewrite Z.mul_comm, Z_mod_mult in Hd. discriminate.
Qed.

Lemma type_ok_mem ts d t : memt t ts = true -> type_ok [t] d = true -> type_ok ts d = true.
Proof.
  intros Hm H. unfold type_ok in *.
  destruct d as [|b|z|f|s|l|l|tg]; try destruct f as [q| |]; destruct t; simpl in H; try discriminate H;
    rewrite ?Hm; rewrite ?H; rewrite ?orb_true_r; auto.
Qed.

Lemma literal_schema_valid vs d : in_domain d = true ->
  jvalid false [] 0 (literal_schema vs) d = existsb (fun p => json_eq (prim_data p) d) vs.
Proof.
  intros Hd.
  assert (Ht : existsb (fun p => json_eq (prim_data p) d) vs = true -> type_ok (dedup_types (map prim_type vs)) d = true).
  { intros H. apply existsb_exists in H. destruct H as [p [Hin Hp]].
    apply type_ok_mem with (t := prim_type p); [|now apply prim_type_ok].
    rewrite memt_dedup. unfold memt. apply existsb_exists. exists (prim_type p). split.
    - now apply in_map.
    - destruct (prim_type p); reflexivity. }
  unfold literal_schema. destruct vs as [|v [|v' r]]; rewrite jvalid_JS; cbn [nullable existsb andb orb forallb kw_valid flat_kw].
  - now rewrite andb_false_r.
  - rewrite andb_true_r.
    destruct (existsb (fun p => json_eq (prim_data p) d) [v]) eqn:E.
    + rewrite Ht by reflexivity. simpl in E. rewrite orb_false_r in E. now rewrite E.
    + simpl in E. rewrite orb_false_r in E. rewrite E. apply andb_false_r.
  - rewrite andb_true_r.
    destruct (existsb (fun p => json_eq (prim_data p) d) (v :: v' :: r)) eqn:E.
    + rewrite Ht by reflexivity. cbn [existsb] in E. now rewrite E.
    + cbn [existsb] in E. rewrite E. apply andb_false_r.
Qed.

(* ------------------------------------------------------------------ _visited_union *)
Lemma memt_app t a b : memt t (a ++ b) = memt t a || memt t b.
Proof. unfold memt. apply existsb_app. Qed.

Lemma type_ok_app a b d : type_ok (a ++ b) d = type_ok a d || type_ok b d.
Proof.
  destruct d as [|x|z|f|s|l|l|tg]; try destruct f as [q| |]; cbn [type_ok]; rewrite ?memt_app; try reflexivity;
    repeat match goal with |- context [memt ?t ?l] => destruct (memt t l) end;
    try reflexivity; destruct (Z.eqb _ _); reflexivity.
Qed.

Lemma memt_filter t u ts : jtype_eqb t u = false -> memt t (filter (fun x => negb (jtype_eqb x u)) ts) = memt t ts.
Proof.
  intros H. induction ts as [|x r IH]; [reflexivity|]. cbn [filter memt existsb].
  destruct (jtype_eqb x u) eqn:E; cbn [negb].
  - assert (x = u) by (destruct x, u; simpl in E; congruence). subst.
    fold (memt t (filter (fun x => negb (jtype_eqb x u)) r)). rewrite IH. fold (memt t r). now rewrite H.
  - cbn [existsb]. fold (memt t (filter (fun x => negb (jtype_eqb x u)) r)) (memt t r). now rewrite IH.
Qed.

Lemma type_ok_norm ts d : type_ok (norm_types ts) d = type_ok ts d.
Proof.
  unfold norm_types. destruct (memt JInteger ts && memt JNumber ts) eqn:E; [|reflexivity].
  apply andb_true_iff in E. destruct E as [Hi Hn].
  assert (Hn' : memt JNumber (filter (fun t => negb (jtype_eqb t JInteger)) ts) = true)
    by (rewrite memt_filter; auto).
  destruct d as [|x|z|f|s|l|l|tg]; try destruct f as [q| |]; cbn [type_ok];
    rewrite ?Hn', ?Hn, ?Hi, ?orb_true_r; try reflexivity; rewrite memt_filter; auto.
Qed.

Lemma forallb_ext' {A} (f g : A -> bool) l : (forall x, f x = g x) -> forallb f l = forallb g l.
Proof. intros H. induction l as [|x r IH]; [reflexivity|]. cbn [forallb]. now rewrite H, IH. Qed.

(* keywords that hold vacuously of null *)
Definition null_vacuous (k : kw) : bool :=
  match k with
  | KwCon _ | KwSetUnique | KwItems _ | KwPrefixItems _ | KwProperties _ | KwRequired _ | KwAddProps _
  | KwPatternProps _ | KwPropertyNames _ | KwDepReq _ => true
  | _ => false
  end.

(* the shape of a schema having a "type" among the builder's outputs: one type keyword, then only such keywords,
   or const / enum *)
Definition typed_shape (s : js) : bool :=
  match s with
  | JS (KwType _ :: rest) =>
      forallb (fun k => null_vacuous k || match k with KwConst _ | KwEnum _ => true | _ => false end) rest
  | _ => false
  end.

Lemma null_vacuous_valid ss ds fuel kws k : null_vacuous k = true -> kw_valid ss ds fuel kws k PNone = true.
Proof. destruct k; try discriminate; try reflexivity; try (destruct c; reflexivity); destruct ss; reflexivity. Qed.

Lemma kw_valid_siblings ss ds fuel kws kws' k d :
  prefix_len kws = prefix_len kws' -> prop_names kws = prop_names kws' -> prop_patterns kws = prop_patterns kws' ->
  kw_valid ss ds fuel kws k d = kw_valid ss ds fuel kws' k d.
Proof.
  intros H1 H2 H3. destruct k; try reflexivity; cbn [kw_valid]; rewrite ?H1; try reflexivity.
  unfold additional. now rewrite H2, H3.
Qed.

Lemma add_null_valid ss ds fuel s d :
  typed_shape s = true -> has_const_enum s = false ->
  jvalid ss ds fuel (add_null s) d = jvalid ss ds fuel s d || is_null d.
Proof.
  destruct s as [b|[|k rest]]; try discriminate. destruct k; try discriminate.
  cbn [typed_shape]. intros Hs Hc. unfold has_const_enum in Hc. cbn [kws_of existsb] in Hc.
  assert (Hrest : map (fun k => match k with KwType ts0 => if memt JNull ts0 then k else KwType (ts0 ++ [JNull]) | _ => k end) rest = rest).
  { clear Hc. induction rest as [|k r IH]; [reflexivity|]. cbn [forallb] in Hs. apply andb_true_iff in Hs. destruct Hs as [Hk Hr].
    cbn [map]. rewrite IH by exact Hr. destruct k; try reflexivity. discriminate. }
  assert (Hnn : forall k0 l, forallb (fun k => null_vacuous k || match k with KwConst _ | KwEnum _ => true | _ => false end) l = true ->
                 nullable (k0 :: l) = nullable [k0]).
  { intros k0 l Hl. unfold nullable. cbn [existsb]. rewrite orb_false_r.
    assert (existsb (fun k => match k with KwNullable => true | _ => false end) l = false).
    { induction l as [|x r IH]; [reflexivity|]. cbn [forallb] in Hl. apply andb_true_iff in Hl. destruct Hl as [Hx Hr].
      cbn [existsb]. rewrite IH by exact Hr. destruct x; try reflexivity; discriminate. }
    rewrite H. apply orb_false_r. }
  assert (Hvac : is_null d = true -> forallb (fun k => kw_valid ss ds fuel (KwType ts :: rest) k d) rest = true).
  { intros Hd. destruct d; try discriminate. apply forallb_forall. intros k Hk.
    rewrite forallb_forall in Hs. specialize (Hs k Hk). apply orb_true_iff in Hs. destruct Hs as [Hs|Hs].
    - now apply null_vacuous_valid.
    - exfalso. assert (existsb (fun k => match k with KwConst _ | KwEnum _ => true | _ => false end) rest = true).
      { apply existsb_exists. exists k. split; auto. }
      simpl in Hc. congruence. }
  unfold add_null. cbn [map]. rewrite Hrest.
  rewrite !jvalid_JS. rewrite !(Hnn _ rest Hs). cbn [nullable existsb orb andb forallb].
  cbn [orb andb].
  destruct (memt JNull ts) eqn:Hm.
  - (* already nullable type *)
    destruct (is_null d) eqn:Hd; [|rewrite !orb_false_r; reflexivity].
    rewrite orb_true_r. cbn [kw_valid flat_kw]. destruct d; try discriminate. cbn [type_ok]. rewrite Hm.
    now rewrite Hvac.
  - cbn [kw_valid flat_kw]. rewrite type_ok_app.
    assert (Hsib : forallb (fun k => kw_valid ss ds fuel (KwType (ts ++ [JNull]) :: rest) k d) rest
                   = forallb (fun k => kw_valid ss ds fuel (KwType ts :: rest) k d) rest).
    { apply forallb_ext'. intros k. apply kw_valid_siblings; reflexivity. }
    rewrite Hsib.
    destruct (is_null d) eqn:Hd.
    + destruct d; try discriminate. cbn [type_ok memt existsb jtype_eqb orb]. rewrite Hm. cbn [orb].
      rewrite Hvac by reflexivity. reflexivity.
    + rewrite orb_false_r.
      assert (type_ok [JNull] d = false) by (destruct d as [|x|z|f|s|l|l|tg]; try destruct f; try reflexivity; discriminate).
      rewrite H. rewrite !orb_false_r. reflexivity.
Qed.

Lemma jvalid_empty ss ds fuel d : jvalid ss ds fuel (JS []) d = true.
Proof. rewrite jvalid_JS. reflexivity. Qed.

Lemma jvalid_only_type ss ds fuel ts d : jvalid ss ds fuel (JS [KwType ts]) d = type_ok ts d.
Proof. rewrite jvalid_JS. cbn. now rewrite andb_true_r. Qed.

Lemma jvalid_anyof ss ds fuel rs d :
  jvalid ss ds fuel (JS [KwAnyOf rs]) d = existsb (fun r => jvalid ss ds fuel r d) rs.
Proof.
  rewrite jvalid_JS. cbn [nullable existsb andb orb forallb kw_valid]. rewrite andb_true_r.
  induction rs as [|r rs IH]; [reflexivity|]. cbn [any_valid existsb]. now rewrite IH.
Qed.

Lemma only_type_some s ts : only_type s = Some ts -> s = JS [KwType ts].
Proof. destruct s as [b|[|k [|k' r]]]; try discriminate; destruct k; try discriminate. cbn. congruence. Qed.

Lemma is_null_schema_inv r : is_null_schema r = true -> r = JS [KwType [JNull]].
Proof.
  destruct r as [b|[|k [|k' kl]]]; try discriminate; destruct k; try discriminate;
    destruct ts as [|t [|t' tl]]; try discriminate; destruct t; try discriminate; reflexivity.
Qed.

(* the schema of a union accepts exactly the data accepted by one of the alternatives' schemas;
   the hypothesis describes the builder's outputs having a "type" (see typed_shape) *)
Theorem visited_union_valid ss ds fuel rs d :
  rs <> [] ->
  (forall r, In r rs -> get_type r <> None -> typed_shape r = true) ->
  jvalid ss ds fuel (visited_union rs) d = existsb (fun r => jvalid ss ds fuel r d) rs.
Proof.
  intros Hne Hshape. unfold visited_union.
  destruct rs as [|r1 [|r2 rest]]; [congruence | cbn [existsb]; now rewrite orb_false_r |].
  set (rs := r1 :: r2 :: rest) in *.
  destruct (existsb is_empty rs) eqn:He.
  { rewrite jvalid_empty. symmetry. apply existsb_exists. apply existsb_exists in He. destruct He as [r [Hin Hr]].
    exists r. split; [exact Hin|]. destruct r as [b|[|k l]]; try discriminate. apply jvalid_empty. }
  destruct (forallb (fun r => match only_type r with Some _ => true | None => false end) rs) eqn:Ho.
  { rewrite jvalid_only_type, type_ok_norm.
    clear - Ho. induction rs as [|r l IH]; [destruct d as [|x|z|f|s|l|l|tg]; try destruct f; reflexivity|].
    cbn [forallb] in Ho. apply andb_true_iff in Ho. destruct Ho as [Hr Hl].
    cbn [flat_map existsb]. rewrite type_ok_app, IH by exact Hl.
    destruct (only_type r) as [ts|] eqn:E; [|discriminate]. apply only_type_some in E. subst r.
    now rewrite jvalid_only_type. }
  assert (Hany : jvalid ss ds fuel (JS [KwAnyOf rs]) d = existsb (fun r => jvalid ss ds fuel r d) rs) by apply jvalid_anyof.
  destruct rest as [|r3 rest']; [|exact Hany].
  destruct (forallb (fun r => match get_type r with Some _ => true | None => false end) rs
            && (is_null_schema r1 || is_null_schema r2) && negb (has_const_enum r1 || has_const_enum r2)) eqn:Hc; [|exact Hany].
  apply andb_true_iff in Hc. destruct Hc as [Hc Hce]. apply andb_true_iff in Hc. destruct Hc as [Hty Hnull].
  apply negb_true_iff, orb_false_iff in Hce. destruct Hce as [Hce1 Hce2].
  subst rs. cbn [forallb] in Hty. rewrite andb_true_r in Hty. apply andb_true_iff in Hty. destruct Hty as [Ht1 Ht2].
  assert (Hn : forall r, is_null_schema r = true -> jvalid ss ds fuel r d = is_null d).
  { intros r Hr. apply is_null_schema_inv in Hr. subst r.
    rewrite jvalid_only_type. destruct d as [|x|z|fl0|s|l|l|tg]; try destruct fl0; reflexivity. }
  cbn [existsb]. rewrite orb_false_r.
  assert (S1 : typed_shape r1 = true).
  { apply Hshape; [left; reflexivity|]. intros Hg. rewrite Hg in Ht1. discriminate. }
  assert (S2 : typed_shape r2 = true).
  { apply Hshape; [right; left; reflexivity|]. intros Hg. rewrite Hg in Ht2. discriminate. }
  destruct (is_null_schema r1) eqn:N1.
  - rewrite (add_null_valid _ _ _ _ _ S2 Hce2). rewrite (Hn r1 N1). apply orb_comm.
  - cbn [orb] in Hnull. rewrite (add_null_valid _ _ _ _ _ S1 Hce1). now rewrite (Hn r2 Hnull).
Qed.

(* the merge performed before the fix (null added to the types of any typed schema, const / enum included) is refuted:
   Optional[Literal[1]] gave {"type": ["integer", "null"], "const": 1}, which rejects null *)
Definition old_optional_merge (a b : js) : js := add_null (if is_null_schema a then b else a).

Theorem old_optional_merge_refuted :
  exists a b d, typed_shape a = true /\ typed_shape b = true /\
    jvalid false [] 0 (old_optional_merge a b) d <> (jvalid false [] 0 a d || jvalid false [] 0 b d).
Proof.
  exists (literal_schema [LInt 1]), (JS [KwType [JNull]]), PNone. repeat split. vm_compute. discriminate.
Qed.
