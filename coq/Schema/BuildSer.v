(* Model of SerializationSchemaBuilder (json_schema/schema.py) and SerializationRefsExtractor (refs.py): the same visitor as for
   deserialization, except for objects -- properties also hold the serialized methods, a property is required unless the
   serializer may skip it, dependentRequired only keeps the required ones.  No proofs here. *)
From Coq Require Import List String ZArith Bool Arith.
From AV Require Import Core.Json Core.Text Small.Ordering Deser.Model Ser.Model Ser.Spec Schema.Json Schema.Build.
Import ListNotations.
Open Scope string_scope.

(* ObjectField.skippable(default, none) *)
Definition skippable_x (excl_defaults excl_none : bool) (f : fdef) : bool :=
  (match fs_skip_if (fd_ser f) with SkipNever => false | _ => true end
   || fs_undefined (fd_ser f)
   || (negb (fd_required f) && (fs_skip_default (fd_ser f) || excl_defaults))
   || fs_none_undef (fd_ser f)
   || (excl_none && ty_has_none (fd_ty f)))%bool.

Definition elem_alias (so : sopts) (e : elem) : string :=
  so_aliaser so (match e with EField f => fd_alias f | EMethod m => sm_alias m end).

Definition elem_required (so : sopts) (cd : cdef) (e : elem) : bool :=
  match e with
  | EField f =>
      if is_typed_dict cd then fd_required f && negb (skippable_x false (so_excl_none so) f)
      else negb (skippable_x (so_excl_defaults so) (so_excl_none so) f)
  | EMethod m => negb (sm_undefined m) && negb (so_excl_none so && ty_has_none (sm_ty m))
  end.

Section BuildSer.
  Variable u : univ.
  Variable so : sopts.               (* exclude_none / exclude_defaults are the global settings *)
  Variable refs : string -> bool.

  Definition elems_of (cd : cdef) : list elem :=
    match ordered_elems cd with
    | Some es => es
    | None => (map EField (cd_fields cd) ++ map EMethod (cd_methods cd))%list
    end.

  Definition alias_of_name_s (cd : cdef) (n : string) : string :=
    match find (fun f => String.eqb (fd_name f) n) (cd_fields cd) with
    | Some f => so_aliaser so (fd_alias f)
    | None => n
    end.

  (* dependentRequired: the dependencies the serializer always emits; entries left without dependency are dropped *)
  Definition depreq_schema_s (cd : cdef) : list (string * list string) :=
    let emitted := map fd_name (filter (fun f => elem_required so cd (EField f)) (cd_fields cd)) in
    let kept := flat_map (fun fr : string * list string =>
                            match filter (fun d => existsb (String.eqb d) emitted) (snd fr) with
                            | [] => []
                            | deps => [(fst fr, deps)]
                            end) (cd_depreq cd) in
    let entries := map (fun fr => (alias_of_name_s cd (fst fr), sort_strings (map (alias_of_name_s cd) (snd fr)))) kept in
    fold_right (fun e acc =>
                  (fix ins (l : list (string * list string)) : list (string * list string) :=
                     match l with
                     | [] => [e]
                     | y :: r' => if str_leb (fst e) (fst y) then e :: l else y :: ins r'
                     end) acc) [] entries.

  Fixpoint build_ser (fuel : nat) : bool -> ty -> js :=
    fix go (ign : bool) (t : ty) {struct t} : js :=
      match t with
      | TNone => JS [KwType [JNull]]
      | TBool => JS [KwType [JBoolean]]
      | TInt => JS [KwType [JInteger]]
      | TFloat => JS [KwType [JNumber]]
      | TStr => JS [KwType [JString]]
      | TAny => JS []
      | TColl k t' =>
          let items := go false t' in
          JS ([KwType [JArray]] ++ (if is_empty items then [] else [KwItems items])
              ++ match norm_kind k with KSet | KFrozenSet => [KwSetUnique] | _ => [] end)%list
      | TTuple ts =>
          let ss := (fix all (ts : list ty) : list js :=
                       match ts with [] => [] | t1 :: tr => go false t1 :: all tr end) ts in
          JS ([KwType [JArray]] ++ (match ss with [] => [] | _ => [KwPrefixItems ss] end)
              ++ [KwItems (JBoolS false); KwCon (KMinItems (List.length ts)); KwCon (KMaxItems (List.length ts))])%list
      | TMap kt vt =>
          let key := go true kt in
          let value := go false vt in
          let names := match key with JS [KwType _] => [] | _ => [KwPropertyNames key] end in
          match get_pattern key with
          | Some p => JS ([KwType [JObject]; KwPatternProps [(p, value)]] ++ names)%list
          | None => JS ([KwType [JObject]] ++ (if is_empty value then [] else [KwAddProps value]) ++ names)%list
          end
      | TLit vs => literal_schema vs
      | TEnum e =>
          if (refs (ename_ e) && negb ign)%bool then JS [KwRef true (ename_ e)]
          else literal_schema (get_enum u e)
      | TCon c t' => apply_con (Some c) (go ign t')
      | TUnion ts =>
          visited_union ((fix all (ts : list ty) : list js :=
                            match ts with [] => [] | t1 :: tr => go false t1 :: all tr end) ts)
      | TObj c =>
          if (refs (cname c) && negb ign)%bool then JS [KwRef false (cname c)]
          else match fuel with
               | O => JBoolS true
               | S f =>
                   let cd := get_cls u c in
                   let es := elems_of cd in
                   let props := map (fun e => (elem_alias so e,
                                               match e with
                                               | EField fd => apply_con (fd_con fd) (build_ser f false (fd_ty fd))
                                               | EMethod sm => build_ser f false (sm_ty sm)
                                               end)) es in
                   let required := map (elem_alias so) (filter (elem_required so cd) es) in
                   let dr := depreq_schema_s cd in
                   JS ([KwType [JObject]]
                       ++ (match props with [] => [] | _ => [KwProperties props] end)
                       ++ (match required with [] => [] | _ => [KwRequired required] end)
                       ++ (if so_addprops so then [] else [KwAddProps (JBoolS false)])
                       ++ (match dr with [] => [] | _ => [KwDepReq dr] end))%list
               end
      end.

  Definition defs_for_ser (fuel : nat) (classes enums : list nat) : defs :=
    (map (fun c => (cname c, build_ser fuel true (TObj c))) (filter (fun c => refs (cname c)) classes)
     ++ map (fun e => (ename_ e, build_ser fuel true (TEnum e))) (filter (fun e => refs (ename_ e)) enums))%list.
End BuildSer.

(* SerializationRefsExtractor: the return types of the serialized methods are visited after the fields *)
Fixpoint count_refs_ser (u : univ) (fuel : nat) : ty -> counts -> counts :=
  fix go (t : ty) (cs : counts) {struct t} : counts :=
    match t with
    | TColl _ t' | TCon _ t' => go t' cs
    | TTuple ts | TUnion ts => (fix all (ts : list ty) (cs : counts) : counts :=
                                  match ts with [] => cs | t1 :: tr => all tr (go t1 cs) end) ts cs
    | TMap kt vt => go vt (go kt cs)
    | TEnum e => incr (ename_ e) cs
    | TObj c =>
        let seen := Nat.ltb 0 (count_of (cname c) cs) in
        let cs' := incr (cname c) cs in
        if seen then cs'
        else match fuel with
             | O => cs'
             | S f =>
                 let cd := get_cls u c in
                 fold_left (fun acc sm => count_refs_ser u f (sm_ty sm) acc) (cd_methods cd)
                           (fold_left (fun acc fd => count_refs_ser u f (fd_ty fd) acc) (cd_fields cd) cs')
             end
    | _ => cs
    end.

Definition refs_of_ser (u : univ) (all_refs : bool) (t : ty) : list string :=
  map fst (filter (fun c => all_refs || Nat.ltb 1 (snd c)) (count_refs_ser u (S (List.length (u_classes u))) t [])).

Definition ser_fuel : nat := 12.

(* serialization_schema(T, additional_properties, aliaser, all_refs) under the global exclude settings, as (schema, $defs) *)
Definition model_ser_schema (u : univ) (so : sopts) (all_refs : bool) (t : ty) : js * defs :=
  let refs := refs_pred (refs_of_ser u all_refs t) in
  (build_ser u so refs ser_fuel false t,
   defs_for_ser u so refs ser_fuel (seq 0 (List.length (u_classes u))) (seq 0 (List.length (u_enums u)))).
