(* C07 with classes: what serialization produces for a well-typed value validates against the schema the model of
   SerializationSchemaBuilder generates (Schema/BuildSer.v), classes included -- by instantiating the image invariant
   (Ser/ImageInv.v) with "validates against build_ser". *)
From Coq Require Import List String ZArith Bool Arith Lia.
From AV Require Import Core.Json Core.Errors Core.Text Core.Util Small.Ordering Deser.Model Deser.Spec Deser.Unfold Deser.Loops
  Ser.Model Ser.Spec Ser.RoundTrip Ser.RoundTripInd Ser.ImageInv
  Schema.Json Schema.Unfold Schema.Build Schema.Proofs Schema.ConProofs Schema.ShapeProofs Schema.AgreeProofs Schema.ObjAgree Schema.RefAgree Schema.BuildSer.
Import ListNotations.
Open Scope string_scope.

Section SC.
  Variable u : univ.
  Variable so : sopts.
  Variable refs : string -> bool.
  Variable ds : defs.
  Variable jf : nat.
  Hypothesis Henum : forall e, refs (ename_ e) = true -> def_lookup (ename_ e) ds = Some (literal_schema (get_enum u e)).
  Hypothesis Hinline : forall c, refs (cname c) = false.       (* classes given inline *)
  Hypothesis Hen : so_excl_none so = false.
  Hypothesis Hed : so_excl_defaults so = false.
  Notation BS := (build_ser u so refs).

  Lemma bs_prim fuel ign t : match t with TNone | TBool | TInt | TFloat | TStr | TAny => True | _ => False end ->
    BS fuel ign t = match t with
                    | TNone => JS [KwType [JNull]] | TBool => JS [KwType [JBoolean]] | TInt => JS [KwType [JInteger]]
                    | TFloat => JS [KwType [JNumber]] | TStr => JS [KwType [JString]] | _ => JS [] end.
  Proof. destruct fuel, t; intros H; try contradiction; reflexivity. Qed.

  Lemma bs_TColl fuel ign k t' :
    BS fuel ign (TColl k t') =
    let items := BS fuel false t' in
    JS ([KwType [JArray]] ++ (if is_empty items then [] else [KwItems items])
        ++ match norm_kind k with KSet | KFrozenSet => [KwSetUnique] | _ => [] end)%list.
  Proof. destruct fuel; reflexivity. Qed.

  Lemma bs_TTuple fuel ign ts :
    BS fuel ign (TTuple ts) =
    let ss := map (BS fuel false) ts in
    JS ([KwType [JArray]] ++ (match ss with [] => [] | _ => [KwPrefixItems ss] end)
        ++ [KwItems (JBoolS false); KwCon (KMinItems (List.length ts)); KwCon (KMaxItems (List.length ts))])%list.
  Proof.
    assert (H : forall l, (fix all (ts : list ty) : list js :=
                             match ts with [] => [] | t1 :: tr => BS fuel false t1 :: all tr end) l = map (BS fuel false) l).
    { induction l as [|x r IH]; [reflexivity|]. now rewrite IH. }
    cbv zeta. rewrite <- H. destruct fuel; reflexivity.
  Qed.

  Lemma bs_TMap fuel ign kt vt :
    BS fuel ign (TMap kt vt) =
    let key := BS fuel true kt in
    let value := BS fuel false vt in
    let names := match key with JS [KwType _] => [] | _ => [KwPropertyNames key] end in
    match get_pattern key with
    | Some p => JS ([KwType [JObject]; KwPatternProps [(p, value)]] ++ names)%list
    | None => JS ([KwType [JObject]] ++ (if is_empty value then [] else [KwAddProps value]) ++ names)%list
    end.
  Proof. destruct fuel; reflexivity. Qed.

  Lemma bs_TLit fuel ign vs : BS fuel ign (TLit vs) = literal_schema vs.
  Proof. destruct fuel; reflexivity. Qed.

  Lemma bs_TEnum fuel ign e :
    BS fuel ign (TEnum e) = if (refs (ename_ e) && negb ign)%bool then JS [KwRef true (ename_ e)] else literal_schema (get_enum u e).
  Proof. destruct fuel; reflexivity. Qed.

  Lemma bs_TCon fuel ign c t' : BS fuel ign (TCon c t') = apply_con (Some c) (BS fuel ign t').
  Proof. destruct fuel; reflexivity. Qed.

  Lemma bs_TUnion fuel ign ts : BS fuel ign (TUnion ts) = visited_union (map (BS fuel false) ts).
  Proof.
    assert (H : forall l, (fix all (ts : list ty) : list js :=
                             match ts with [] => [] | t1 :: tr => BS fuel false t1 :: all tr end) l = map (BS fuel false) l).
    { induction l as [|x r IH]; [reflexivity|]. now rewrite IH. }
    rewrite <- H. destruct fuel; reflexivity.
  Qed.

  Definition ser_object_schema (f : nat) (c : nat) : js :=
    let cd := get_cls u c in
    let es := elems_of cd in
    let props := map (fun e => (elem_alias so e,
                                match e with
                                | EField fd => apply_con (fd_con fd) (BS f false (fd_ty fd))
                                | EMethod sm => BS f false (sm_ty sm)
                                end)) es in
    let required := map (elem_alias so) (filter (elem_required so cd) es) in
    let dr := depreq_schema_s so cd in
    JS ([KwType [JObject]]
        ++ (match props with [] => [] | _ => [KwProperties props] end)
        ++ (match required with [] => [] | _ => [KwRequired required] end)
        ++ (if so_addprops so then [] else [KwAddProps (JBoolS false)])
        ++ (match dr with [] => [] | _ => [KwDepReq dr] end)).

  Lemma bs_TObj fuel ign c :
    BS fuel ign (TObj c) =
    if (refs (cname c) && negb ign)%bool then JS [KwRef false (cname c)]
    else match fuel with O => JBoolS true | S f => ser_object_schema f c end.
  Proof. destruct fuel; reflexivity. Qed.

  (* the schemas have the shapes the union merge relies on *)
  Theorem bs_shape : forall fuel t ign, shape_ok (BS fuel ign t).
  Proof.
    intros fuel. induction t using ty_ind'; intros ign.
    1-5: destruct fuel; intros _; reflexivity.
    - destruct fuel; intros Hg; cbn in Hg; congruence.
    - rewrite bs_TColl. cbv zeta. intros _. cbn [typed_shape app].
      destruct (is_empty _); destruct (norm_kind k); reflexivity.
    - rewrite bs_TTuple. cbv zeta. intros _. cbn [typed_shape app]. destruct (map _ ts); reflexivity.
    - rewrite bs_TMap. cbv zeta. intros _.
      set (key := BS fuel true t1).
      destruct (get_pattern key); cbn [typed_shape app forallb];
        destruct key as [b|[|k0 [|k1 kr]]]; try destruct k0; try (destruct (is_empty _)); reflexivity.
    - rewrite bs_TLit. apply literal_shape.
    - rewrite bs_TEnum. destruct (refs (ename_ e) && negb ign)%bool; [intros Hg; cbn in Hg; congruence | apply literal_shape].
    - rewrite bs_TCon. apply shape_apply_con. apply IHt.
    - rewrite bs_TUnion. apply shape_visited_union. rewrite Forall_forall in *. intros s Hs.
      apply in_map_iff in Hs. destruct Hs as [t0 [<- Ht0]]. apply H. exact Ht0.
    - rewrite bs_TObj. destruct (refs (cname c) && negb ign)%bool; [intros Hg; cbn in Hg; congruence|].
      destruct fuel; [intros Hg; cbn in Hg; congruence|]. intros _. unfold ser_object_schema. cbn [typed_shape app].
      destruct (map _ (elems_of _)); destruct (map _ (filter _ _)); destruct (so_addprops so); destruct (depreq_schema_s _ _); reflexivity.
  Qed.

  (* the builder fuel covers the inline nesting of classes *)
  Fixpoint fits (bf : nat) : ty -> bool :=
    fix go (t : ty) : bool :=
      match t with
      | TObj c => match bf with O => false | S f => forallb (fun fd => fits f (fd_ty fd)) (cd_fields (get_cls u c)) end
      | TColl _ t' | TCon _ t' => go t'
      | TTuple ts | TUnion ts => forallb go ts
      | TMap kt vt => go kt && go vt
      | _ => true
      end.

  Lemma fits_TColl bf k t : fits bf (TColl k t) = fits bf t. Proof. destruct bf; reflexivity. Qed.
  Lemma fits_TTuple bf ts : fits bf (TTuple ts) = forallb (fits bf) ts. Proof. destruct bf; reflexivity. Qed.
  Lemma fits_TUnion bf ts : fits bf (TUnion ts) = forallb (fits bf) ts. Proof. destruct bf; reflexivity. Qed.
  Lemma fits_TMap bf kt vt : fits bf (TMap kt vt) = fits bf kt && fits bf vt. Proof. destruct bf; reflexivity. Qed.
  Lemma fits_TObj_S f c : fits (S f) (TObj c) = forallb (fun fd => fits f (fd_ty fd)) (cd_fields (get_cls u c)).
  Proof. reflexivity. Qed.
  Lemma fits_TObj_O c : fits O (TObj c) = false. Proof. reflexivity. Qed.

  (* THE INVARIANT: the produced datum validates against the serialization schema, whatever fuel the builder had *)
  Definition QV (t : ty) (d : pyval) : Prop :=
    forall bf ign, fits bf t = true -> in_domain d = true -> jvalid false ds jf (BS bf ign t) d = true.

  Lemma in_domain_list l x : in_domain (PList l) = true -> In x l -> in_domain x = true.
  Proof. cbn [in_domain]. intros H Hin. rewrite forallb_forall in H. auto. Qed.

  Lemma QV_none : QV TNone PNone.
  Proof. intros bf ign _ _. rewrite bs_prim by exact I. rewrite jvalid_only_type. reflexivity. Qed.
  Lemma QV_bool b : QV TBool (PBool b).
  Proof. intros bf ign _ _. rewrite bs_prim by exact I. rewrite jvalid_only_type. reflexivity. Qed.
  Lemma QV_int z : QV TInt (PInt z).
  Proof. intros bf ign _ _. rewrite bs_prim by exact I. rewrite jvalid_only_type. reflexivity. Qed.
  Lemma QV_float f : QV TFloat (PFloat f).
  Proof.
    intros bf ign _ Hd. rewrite bs_prim by exact I. rewrite jvalid_only_type. destruct f; try discriminate; reflexivity.
  Qed.
  Lemma QV_str s : QV TStr (PStr s).
  Proof. intros bf ign _ _. rewrite bs_prim by exact I. rewrite jvalid_only_type. reflexivity. Qed.

  Lemma QV_coll k t dl : k = KList \/ k = KVarTuple -> Forall (QV t) dl -> QV (TColl k t) (PList dl).
  Proof.
    intros Hk HF bf ign Hfit Hd. rewrite bs_TColl. cbv zeta. rewrite coll_schema_valid. rewrite fits_TColl in Hfit.
    apply forallb_forall. intros x Hx. rewrite Forall_forall in HF. apply (HF x Hx bf false Hfit). eapply in_domain_list; eassumption.
  Qed.

  Lemma QV_tuple ts dl : Forall2 QV ts dl -> QV (TTuple ts) (PList dl).
  Proof.
    intros HF bf ign Hfit Hd. rewrite bs_TTuple. cbv zeta. rewrite <- (map_length (BS bf false) ts) at 1 2.
    rewrite tuple_schema_valid, map_length. rewrite fits_TTuple in Hfit.
    assert (Hlen : List.length dl = List.length ts) by (symmetry; eapply Forall2_len; exact HF).
    rewrite Hlen, Nat.eqb_refl. cbn [andb].
    assert (Hdl : forall x, In x dl -> in_domain x = true) by (intros x Hx; eapply in_domain_list; eassumption).
    clear Hd Hlen. induction HF as [|t d ts dl Hq _ IH]; [reflexivity|].
    cbn [map zip_valid]. cbn [forallb] in Hfit. apply andb_true_iff in Hfit. destruct Hfit as [Hf1 Hf2].
    rewrite (Hq bf false Hf1 (Hdl d (or_introl eq_refl))). cbn [andb]. apply IH; [exact Hf2|]. intros x Hx. apply Hdl. right. exact Hx.
  Qed.

  Lemma QV_map vt (dk : list (string * pyval)) : Forall (fun kd => QV vt (snd kd)) dk -> QV (TMap TStr vt) (PDict dk).
  Proof.
    intros HF bf ign Hfit Hd. rewrite bs_TMap. cbv zeta. rewrite (bs_prim bf true TStr I).
    cbn [get_pattern kws_of fold_right app].
    rewrite fits_TMap in Hfit. apply andb_true_iff in Hfit. destruct Hfit as [_ Hfv].
    assert (Hvals : forallb (fun kv : string * pyval => jvalid false ds jf (BS bf false vt) (snd kv)) dk = true).
    { apply forallb_forall. intros kv Hkv. rewrite Forall_forall in HF. apply (HF kv Hkv bf false Hfv).
      eapply in_domain_dict; eassumption. }
    rewrite jvalid_JS. destruct (is_empty (BS bf false vt)); cbn [app nullable existsb orb andb forallb kw_valid flat_kw type_ok memt jtype_eqb].
    - reflexivity.
    - rewrite andb_true_r. apply forallb_forall. intros kv Hkv. rewrite forallb_forall in Hvals. rewrite (Hvals kv Hkv). apply orb_true_r.
  Qed.

  Lemma prim_data_eq d p : prim_of d = Some p -> in_domain d = true -> json_eq (prim_data p) d = true.
  Proof.
    intros Hp Hd. rewrite prim_json_eq by exact Hd. rewrite Hp. destruct p; cbn [prim_eqb]; auto using Bool.eqb_reflx, Z.eqb_refl, String.eqb_refl.
  Qed.

  Lemma literal_holds vs d p : prim_of d = Some p -> existsb (prim_eqb p) vs = true -> in_domain d = true ->
    jvalid false ds jf (literal_schema vs) d = true.
  Proof.
    intros Hp He Hd. rewrite literal_schema_valid' by exact Hd. apply existsb_exists in He. destruct He as [q [Hq Epq]].
    apply existsb_exists. exists q. split; [exact Hq|]. rewrite prim_json_eq by exact Hd. rewrite Hp. exact Epq.
  Qed.

  Lemma QV_lit vs d p : prim_of d = Some p -> existsb (prim_eqb p) vs = true -> rt_ty u (TLit vs) = true -> QV (TLit vs) d.
  Proof. intros Hp He _ bf ign _ Hd. rewrite bs_TLit. eapply literal_holds; eassumption. Qed.

  Lemma QV_enum e d p : prim_of d = Some p -> existsb (prim_eqb p) (get_enum u e) = true -> QV (TEnum e) d.
  Proof.
    intros Hp He bf ign _ Hd. rewrite bs_TEnum. destruct (refs (ename_ e) && negb ign)%bool eqn:Er.
    - apply andb_true_iff in Er. destruct Er as [Er _]. rewrite jvalid_JS. cbn [nullable existsb orb andb forallb kw_valid].
      rewrite (Henum e Er), andb_true_r. rewrite (leaf_valid_literal false ds jf). eapply literal_holds; eassumption.
    - eapply literal_holds; eassumption.
  Qed.

  Lemma QV_union ts t d : In t ts -> QV t d -> QV (TUnion ts) d.
  Proof.
    intros Hin Hq bf ign Hfit Hd. rewrite bs_TUnion. rewrite fits_TUnion in Hfit.
    rewrite visited_union_valid.
    - apply existsb_exists. exists (BS bf false t). split; [apply in_map; exact Hin|].
      rewrite forallb_forall in Hfit. apply (Hq bf false (Hfit t Hin) Hd).
    - destruct ts; [contradiction|discriminate].
    - intros r Hr Hg. apply in_map_iff in Hr. destruct Hr as [t0 [<- _]]. now apply bs_shape.
  Qed.

  (* ---- objects *)
  Lemma plain_required cd fd : is_typed_dict cd = false -> plain_field u fd = true -> elem_required so cd (EField fd) = true.
  Proof.
    intros Htd Hp. unfold elem_required. rewrite Htd. unfold skippable_x. rewrite Hen, Hed.
    unfold plain_field in Hp. repeat (apply andb_true_iff in Hp; destruct Hp as [Hp ?]).
    destruct (fs_skip_default (fd_ser fd)); [discriminate|]. destruct (fs_skip_if (fd_ser fd)); try discriminate.
    destruct (fs_none_undef (fd_ser fd)); [discriminate|]. destruct (fs_undefined (fd_ser fd)); [discriminate|].
    cbn. rewrite andb_false_r. reflexivity.
  Qed.

  Lemma Forall2_fst_map (fields : list fdef) (dk : list (string * pyval)) (R : fdef -> pyval -> Prop) :
    Forall2 (fun fd kd => fst kd = alias_of so fd /\ R fd (snd kd)) fields dk -> map fst dk = map (alias_of so) fields.
  Proof. induction 1 as [|fd kd fields dk [E _] _ IH]; [reflexivity|]. cbn [map]. rewrite E, IH. reflexivity. Qed.

  Lemma props_valid_all f (DK : list (string * pyval)) : forall fields dks,
    Forall2 (fun fd kd => fst kd = alias_of so fd /\ QV (fd_ty fd) (snd kd) /\ dict_get (fst kd) DK = Some (snd kd)
                          /\ in_domain (snd kd) = true) fields dks ->
    forallb (plain_field u) fields = true -> forallb (fun fd => fits f (fd_ty fd)) fields = true ->
    props_valid (jvalid false ds jf)
                (map (fun fd => (elem_alias so (EField fd), apply_con (fd_con fd) (BS f false (fd_ty fd)))) fields) DK = true.
  Proof.
    induction 1 as [|fd kd fields dks [E [Hq [Hg Hdm]]] _ IH]; intros Hplain Hfit; [reflexivity|].
    cbn [forallb] in Hplain, Hfit. apply andb_true_iff in Hplain. destruct Hplain as [Hp Hpl].
    apply andb_true_iff in Hfit. destruct Hfit as [Hf1 Hf2].
    cbn [map props_valid]. unfold elem_alias at 1. fold (alias_of so fd). rewrite <- E, Hg.
    assert (Hc : fd_con fd = None).
    { unfold plain_field in Hp. repeat (apply andb_true_iff in Hp; destruct Hp as [Hp ?]). destruct (fd_con fd); [discriminate|reflexivity]. }
    rewrite Hc. cbn [apply_con]. rewrite (Hq f false Hf1 Hdm). cbn [andb]. apply IH; assumption.
  Qed.

  Lemma required_all (DK : list (string * pyval)) : forall fields dks,
    Forall2 (fun fd kd => fst kd = alias_of so fd /\ QV (fd_ty fd) (snd kd) /\ dict_get (fst kd) DK = Some (snd kd)
                          /\ in_domain (snd kd) = true) fields dks ->
    forallb (fun r => dict_has r DK) (map (fun fd => elem_alias so (EField fd)) fields) = true.
  Proof.
    induction 1 as [|fd kd fields dks [E [_ [Hg _]]] _ IH]; [reflexivity|].
    cbn [map forallb]. unfold elem_alias at 1. fold (alias_of so fd). rewrite <- E. unfold dict_has at 1. rewrite Hg. exact IH.
  Qed.

  Lemma QV_obj c (dk : list (string * pyval)) :
    rt_cls u so (get_cls u c) ->
    Forall2 (fun fd kd => fst kd = alias_of so fd /\ QV (fd_ty fd) (snd kd)) (cd_fields (get_cls u c)) dk ->
    QV (TObj c) (PDict dk).
  Proof.
    intros [Htd [Hfs [Hmeth [Hdep [Hord [Hplain [Hnames Haliases]]]]]]] HF bf ign Hfit Hd.
    rewrite bs_TObj, Hinline. cbn [andb]. destruct bf as [|f]; [rewrite fits_TObj_O in Hfit; discriminate|].
    rewrite fits_TObj_S in Hfit. unfold ser_object_schema. cbv zeta.
    set (cd := get_cls u c) in *.
    assert (Hes : elems_of cd = map EField (cd_fields cd)) by (unfold elems_of; rewrite Hord; reflexivity).
    rewrite Hes. unfold depreq_schema_s. rewrite Hdep. cbn [flat_map map fold_right]. rewrite app_nil_r.
    assert (Hreq : filter (elem_required so cd) (map EField (cd_fields cd)) = map EField (cd_fields cd)).
    { clear - Htd Hplain Hen Hed. induction (cd_fields cd) as [|fd l IH]; [reflexivity|].
      cbn [forallb] in Hplain. apply andb_true_iff in Hplain. destruct Hplain as [Hp Hl].
      cbn [map filter]. rewrite (plain_required cd fd Htd Hp), (IH Hl). reflexivity. }
    rewrite Hreq, !map_map.
    set (props := map (fun fd => (elem_alias so (EField fd), apply_con (fd_con fd) (BS f false (fd_ty fd)))) (cd_fields cd)).
    set (required := map (fun fd => elem_alias so (EField fd)) (cd_fields cd)).
    set (kws := ([KwType [JObject]] ++ match props with [] => [] | _ :: _ => [KwProperties props] end
                 ++ match required with [] => [] | _ :: _ => [KwRequired required] end
                 ++ (if so_addprops so then [] else [KwAddProps (JBoolS false)]))%list).
    assert (Hnull : nullable kws = false).
    { unfold kws, nullable. rewrite !existsb_app. destruct props, required, (so_addprops so); reflexivity. }
    assert (Hpn : prop_names kws = map fst props).
    { unfold kws, prop_names. rewrite !flat_map_app. destruct props as [|p0 pr] eqn:Ep, required, (so_addprops so); cbn; rewrite ?app_nil_r; reflexivity. }
    assert (Hpats : prop_patterns kws = []).
    { unfold kws, prop_patterns. rewrite !flat_map_app. destruct props, required, (so_addprops so); reflexivity. }
    (* the produced object holds every field, under its external name, once *)
    pose proof (Forall2_fst_map _ _ (fun fd x => QV (fd_ty fd) x) HF) as Hkeys.
    assert (Hsd : sd [] (map fst dk) = true) by (rewrite Hkeys; exact Haliases).
    pose proof (dict_get_distinct dk [] Hsd) as Hgets.
    assert (Hall : Forall2 (fun fd kd => fst kd = alias_of so fd /\ QV (fd_ty fd) (snd kd) /\ dict_get (fst kd) dk = Some (snd kd)
                                         /\ in_domain (snd kd) = true) (cd_fields cd) dk).
    { assert (Hdom : Forall (fun kd : string * pyval => in_domain (snd kd) = true) dk).
      { apply Forall_forall. intros kd Hkd. eapply in_domain_dict; eassumption. }
      pose proof (Forall2_Forall_r _ _ _ _ (Forall2_Forall_r _ _ _ _ HF Hgets) Hdom) as H3.
      eapply Forall2_imp; [|exact H3]. intros fd kd [[[E Hq] Hg] Hdm]. repeat split; assumption. }
    rewrite jvalid_JS, Hnull. cbn [andb orb]. unfold kws at 2. rewrite !forallb_app.
    cbn [forallb kw_valid flat_kw type_ok memt existsb jtype_eqb orb andb].
    (* properties *)
    assert (HP : forallb (fun k => kw_valid false ds jf kws k (PDict dk)) match props with [] => [] | _ :: _ => [KwProperties props] end = true).
    { assert (Hpv : props_valid (jvalid false ds jf) props dk = true).
      { unfold props. apply (props_valid_all f dk _ _ Hall Hplain Hfit). }
      destruct props; [reflexivity|]. cbn [forallb kw_valid] in *. rewrite Hpv. reflexivity. }
    (* required *)
    assert (HR : forallb (fun k => kw_valid false ds jf kws k (PDict dk)) match required with [] => [] | _ :: _ => [KwRequired required] end = true).
    { assert (Hrq : forallb (fun r => dict_has r dk) required = true).
      { unfold required. apply (required_all dk _ _ Hall). }
      destruct required; [reflexivity|]. cbn [forallb kw_valid flat_kw required_ok] in *. rewrite Hrq. reflexivity. }
    rewrite HP, HR. cbn [andb].
    destruct (so_addprops so); [reflexivity|]. cbn [forallb kw_valid]. rewrite andb_true_r.
    apply forallb_forall. intros kv Hkv. rewrite jvalid_bool, orb_false_r. unfold additional. rewrite Hpn, Hpats.
    cbn [existsb negb]. rewrite andb_true_r, negb_involutive. unfold props. rewrite map_map. cbn [fst].
    apply existsb_exists. exists (fst kv). split; [|apply String.eqb_refl].
    replace (map (fun x : fdef => elem_alias so (EField x)) (cd_fields cd)) with (map (alias_of so) (cd_fields cd)) by reflexivity.
    rewrite <- Hkeys. apply in_map. exact Hkv.
  Qed.

  (* ---- THE STATEMENT with classes *)
  Theorem serialized_output_validates_with_classes n t v :
    rt_ty u t = true -> ctx_ok u so t -> has_type u n t v = true -> canonical u v = true ->
    exists j d, image u so (S n) t v = SROk j /\ unembed j = Some d /\
                forall bf ign, fits bf t = true -> in_domain d = true -> jvalid false ds jf (BS bf ign t) d = true.
  Proof.
    intros Hrt Hctx Hht Hcan.
    exact (image_invariant u so QV QV_none QV_bool QV_int QV_float QV_str QV_coll QV_tuple QV_map QV_lit QV_enum QV_union QV_obj
                           n t v Hrt Hctx Hht Hcan).
  Qed.
End SC.

(* ------------------------------------------------------------------ classes given by reference as well *)
Section SCR.
  Variable u : univ.
  Variable so : sopts.
  Variable refs : string -> bool.
  Variable ds : defs.
  Variable mD : nat.
  Hypothesis Henum : forall e, refs (ename_ e) = true -> def_lookup (ename_ e) ds = Some (literal_schema (get_enum u e)).
  Hypothesis Hen : so_excl_none so = false.
  Hypothesis Hed : so_excl_defaults so = false.
  Notation BS := (build_ser u so refs).

  (* the builder fuel covers the inline nesting; a referenced class stops the descent *)
  Fixpoint fitsr (bf : nat) : ty -> bool :=
    fix go (t : ty) : bool :=
      match t with
      | TObj c => refs (cname c) || match bf with O => false | S f => forallb (fun fd => fitsr f (fd_ty fd)) (cd_fields (get_cls u c)) end
      | TColl _ t' | TCon _ t' => go t'
      | TTuple ts | TUnion ts => forallb go ts
      | TMap kt vt => go kt && go vt
      | _ => true
      end.

  Lemma fitsr_TColl bf k t : fitsr bf (TColl k t) = fitsr bf t. Proof. destruct bf; reflexivity. Qed.
  Lemma fitsr_TTuple bf ts : fitsr bf (TTuple ts) = forallb (fitsr bf) ts. Proof. destruct bf; reflexivity. Qed.
  Lemma fitsr_TUnion bf ts : fitsr bf (TUnion ts) = forallb (fitsr bf) ts. Proof. destruct bf; reflexivity. Qed.
  Lemma fitsr_TMap bf kt vt : fitsr bf (TMap kt vt) = fitsr bf kt && fitsr bf vt. Proof. destruct bf; reflexivity. Qed.
  Lemma fitsr_TObj bf c :
    fitsr bf (TObj c) = refs (cname c) || match bf with O => false | S f => forallb (fun fd => fitsr f (fd_ty fd)) (cd_fields (get_cls u c)) end.
  Proof. destruct bf; reflexivity. Qed.

  Hypothesis Hdefs : forall c, refs (cname c) = true ->
    def_lookup (cname c) ds = Some (BS (S mD) true (TObj c))
    /\ forallb (fun fd => fitsr mD (fd_ty fd)) (cd_fields (get_cls u c)) = true.

  (* THE INVARIANT: the validator's fuel only has to exceed the nesting of objects in the produced datum *)
  Definition QR (t : ty) (d : pyval) : Prop :=
    forall bf jf, fitsr bf t = true -> dd d <= jf -> in_domain d = true -> jvalid false ds jf (BS bf false t) d = true.

  Lemma QR_none : QR TNone PNone.
  Proof. intros bf jf _ _ _. rewrite bs_prim by exact I. rewrite jvalid_only_type. reflexivity. Qed.
  Lemma QR_bool b : QR TBool (PBool b).
  Proof. intros bf jf _ _ _. rewrite bs_prim by exact I. rewrite jvalid_only_type. reflexivity. Qed.
  Lemma QR_int z : QR TInt (PInt z).
  Proof. intros bf jf _ _ _. rewrite bs_prim by exact I. rewrite jvalid_only_type. reflexivity. Qed.
  Lemma QR_float f : QR TFloat (PFloat f).
  Proof. intros bf jf _ _ Hd. rewrite bs_prim by exact I. rewrite jvalid_only_type. destruct f; try discriminate; reflexivity. Qed.
  Lemma QR_str s : QR TStr (PStr s).
  Proof. intros bf jf _ _ _. rewrite bs_prim by exact I. rewrite jvalid_only_type. reflexivity. Qed.

  Lemma QR_coll k t dl : k = KList \/ k = KVarTuple -> Forall (QR t) dl -> QR (TColl k t) (PList dl).
  Proof.
    intros Hk HF bf jf Hfit Hdd Hd. rewrite bs_TColl. cbv zeta. rewrite coll_schema_valid. rewrite fitsr_TColl in Hfit.
    apply forallb_forall. intros x Hx. rewrite Forall_forall in HF. apply (HF x Hx bf jf Hfit).
    - pose proof (dd_list dl x Hx). lia.
    - eapply in_domain_list; eassumption.
  Qed.

  Lemma QR_tuple ts dl : Forall2 QR ts dl -> QR (TTuple ts) (PList dl).
  Proof.
    intros HF bf jf Hfit Hdd Hd. rewrite bs_TTuple. cbv zeta. rewrite <- (map_length (BS bf false) ts) at 1 2.
    rewrite tuple_schema_valid, map_length. rewrite fitsr_TTuple in Hfit.
    assert (Hlen : List.length dl = List.length ts) by (symmetry; eapply Forall2_len; exact HF).
    rewrite Hlen, Nat.eqb_refl. cbn [andb].
    assert (Hdl : forall x, In x dl -> in_domain x = true /\ dd x <= jf).
    { intros x Hx. split; [eapply in_domain_list; eassumption|]. pose proof (dd_list dl x Hx). lia. }
    clear Hd Hlen Hdd. induction HF as [|t d ts dl Hq _ IH]; [reflexivity|].
    cbn [map zip_valid]. cbn [forallb] in Hfit. apply andb_true_iff in Hfit. destruct Hfit as [Hf1 Hf2].
    destruct (Hdl d (or_introl eq_refl)) as [Hd1 Hd2].
    rewrite (Hq bf jf Hf1 Hd2 Hd1). cbn [andb]. apply IH; [exact Hf2|]. intros x Hx. apply Hdl. right. exact Hx.
  Qed.

  Lemma QR_map vt (dk : list (string * pyval)) : Forall (fun kd => QR vt (snd kd)) dk -> QR (TMap TStr vt) (PDict dk).
  Proof.
    intros HF bf jf Hfit Hdd Hd. rewrite bs_TMap. cbv zeta. rewrite (bs_prim u so refs bf true TStr I).
    cbn [get_pattern kws_of fold_right app].
    rewrite fitsr_TMap in Hfit. apply andb_true_iff in Hfit. destruct Hfit as [_ Hfv].
    assert (Hvals : forallb (fun kv : string * pyval => jvalid false ds jf (BS bf false vt) (snd kv)) dk = true).
    { apply forallb_forall. intros kv Hkv. rewrite Forall_forall in HF. apply (HF kv Hkv bf jf Hfv).
      - pose proof (dd_dict dk (snd kv) (in_map snd _ _ Hkv)). lia.
      - eapply in_domain_dict; eassumption. }
    rewrite jvalid_JS. destruct (is_empty (BS bf false vt)); cbn [app nullable existsb orb andb forallb kw_valid flat_kw type_ok memt jtype_eqb].
    - reflexivity.
    - rewrite andb_true_r. apply forallb_forall. intros kv Hkv. rewrite forallb_forall in Hvals. rewrite (Hvals kv Hkv). apply orb_true_r.
  Qed.

  Lemma QR_lit vs d p : prim_of d = Some p -> existsb (prim_eqb p) vs = true -> rt_ty u (TLit vs) = true -> QR (TLit vs) d.
  Proof. intros Hp He _ bf jf _ _ Hd. rewrite bs_TLit. eapply (literal_holds ds jf); eassumption. Qed.

  Lemma QR_enum e d p : prim_of d = Some p -> existsb (prim_eqb p) (get_enum u e) = true -> QR (TEnum e) d.
  Proof.
    intros Hp He bf jf _ _ Hd. rewrite bs_TEnum. cbn [negb]. rewrite andb_true_r. destruct (refs (ename_ e)) eqn:Er.
    - rewrite jvalid_JS. cbn [nullable existsb orb andb forallb kw_valid].
      rewrite (Henum e Er), andb_true_r. rewrite (leaf_valid_literal false ds jf). eapply (literal_holds ds jf); eassumption.
    - eapply (literal_holds ds jf); eassumption.
  Qed.

  Lemma QR_union ts t d : In t ts -> QR t d -> QR (TUnion ts) d.
  Proof.
    intros Hin Hq bf jf Hfit Hdd Hd. rewrite bs_TUnion. rewrite fitsr_TUnion in Hfit.
    rewrite visited_union_valid.
    - apply existsb_exists. exists (BS bf false t). split; [apply in_map; exact Hin|].
      rewrite forallb_forall in Hfit. apply (Hq bf jf (Hfit t Hin) Hdd Hd).
    - destruct ts; [contradiction|discriminate].
    - intros r Hr Hg. apply in_map_iff in Hr. destruct Hr as [t0 [<- _]]. now apply bs_shape.
  Qed.

  (* the keywords of the object schema of a plain class, evaluated on a datum holding every field once *)
  Lemma plain_object_valid c f jf ign (dk : list (string * pyval)) :
    (refs (cname c) && negb ign)%bool = false ->
    rt_cls u so (get_cls u c) ->
    forallb (fun fd => fitsr f (fd_ty fd)) (cd_fields (get_cls u c)) = true ->
    Forall2 (fun fd kd => fst kd = alias_of so fd /\ jvalid false ds jf (BS f false (fd_ty fd)) (snd kd) = true)
            (cd_fields (get_cls u c)) dk ->
    jvalid false ds jf (BS (S f) ign (TObj c)) (PDict dk) = true.
  Proof.
    intros Href [Htd [Hfs [Hmeth [Hdep [Hord [Hplain [Hnames Haliases]]]]]]] Hfit HF.
    rewrite bs_TObj, Href. unfold ser_object_schema. cbv zeta.
    set (cd := get_cls u c) in *.
    assert (Hes : elems_of cd = map EField (cd_fields cd)) by (unfold elems_of; rewrite Hord; reflexivity).
    rewrite Hes. unfold depreq_schema_s. rewrite Hdep. cbn [flat_map map fold_right]. rewrite app_nil_r.
    assert (Hreq : filter (elem_required so cd) (map EField (cd_fields cd)) = map EField (cd_fields cd)).
    { clear - Htd Hplain Hen Hed. induction (cd_fields cd) as [|fd l IH]; [reflexivity|].
      cbn [forallb] in Hplain. apply andb_true_iff in Hplain. destruct Hplain as [Hp Hl].
      cbn [map filter]. rewrite (plain_required u so Hen Hed cd fd Htd Hp), (IH Hl). reflexivity. }
    rewrite Hreq, !map_map.
    set (props := map (fun fd => (elem_alias so (EField fd), apply_con (fd_con fd) (BS f false (fd_ty fd)))) (cd_fields cd)).
    set (required := map (fun fd => elem_alias so (EField fd)) (cd_fields cd)).
    set (kws := ([KwType [JObject]] ++ match props with [] => [] | _ :: _ => [KwProperties props] end
                 ++ match required with [] => [] | _ :: _ => [KwRequired required] end
                 ++ (if so_addprops so then [] else [KwAddProps (JBoolS false)]))%list).
    assert (Hnull : nullable kws = false).
    { unfold kws, nullable. rewrite !existsb_app. destruct props, required, (so_addprops so); reflexivity. }
    assert (Hpn : prop_names kws = map fst props).
    { unfold kws, prop_names. rewrite !flat_map_app. destruct props as [|p0 pr] eqn:Ep, required, (so_addprops so); cbn; rewrite ?app_nil_r; reflexivity. }
    assert (Hpats : prop_patterns kws = []).
    { unfold kws, prop_patterns. rewrite !flat_map_app. destruct props, required, (so_addprops so); reflexivity. }
    pose proof (Forall2_fst_map so _ _ (fun fd x => jvalid false ds jf (BS f false (fd_ty fd)) x = true) HF) as Hkeys.
    assert (Hsd : sd [] (map fst dk) = true) by (rewrite Hkeys; exact Haliases).
    pose proof (dict_get_distinct dk [] Hsd) as Hgets.
    rewrite jvalid_JS, Hnull. cbn [andb orb]. unfold kws at 2. rewrite !forallb_app.
    cbn [forallb kw_valid flat_kw type_ok memt existsb jtype_eqb orb andb].
    assert (Hpv : forall DK, Forall (fun kd : string * pyval => dict_get (fst kd) DK = Some (snd kd)) dk ->
                       props_valid (jvalid false ds jf) props DK = true).
    { intros DK HG. unfold props. clear - HF HG Hplain. revert HG. induction HF as [|fd kd fields dks [E Hv] _ IH]; intros HG; [reflexivity|].
      inversion HG as [|? ? Hg1 Hg2]; subst. cbn [forallb] in Hplain. apply andb_true_iff in Hplain. destruct Hplain as [Hp Hpl].
      cbn [map props_valid]. unfold elem_alias at 1. fold (alias_of so fd). rewrite <- E, Hg1.
      assert (Hc : fd_con fd = None).
      { unfold plain_field in Hp. repeat (apply andb_true_iff in Hp; destruct Hp as [Hp ?]). destruct (fd_con fd); [discriminate|reflexivity]. }
      rewrite Hc. cbn [apply_con]. rewrite Hv. cbn [andb]. apply IH; assumption. }
    assert (Hrq : forall DK, Forall (fun kd : string * pyval => dict_get (fst kd) DK = Some (snd kd)) dk ->
                       forallb (fun r => dict_has r DK) required = true).
    { intros DK HG. unfold required. clear - HF HG. revert HG. induction HF as [|fd kd fields dks [E _] _ IH]; intros HG; [reflexivity|].
      inversion HG as [|? ? Hg1 Hg2]; subst. cbn [map forallb]. unfold elem_alias at 1. fold (alias_of so fd). rewrite <- E.
      unfold dict_has at 1. rewrite Hg1. apply IH. exact Hg2. }
    assert (HP : forallb (fun k => kw_valid false ds jf kws k (PDict dk)) match props with [] => [] | _ :: _ => [KwProperties props] end = true).
    { pose proof (Hpv dk Hgets) as H1. destruct props; [reflexivity|]. cbn [forallb kw_valid] in *. rewrite H1. reflexivity. }
    assert (HR : forallb (fun k => kw_valid false ds jf kws k (PDict dk)) match required with [] => [] | _ :: _ => [KwRequired required] end = true).
    { pose proof (Hrq dk Hgets) as H1. destruct required; [reflexivity|]. cbn [forallb kw_valid flat_kw required_ok] in *. rewrite H1. reflexivity. }
    rewrite HP, HR. cbn [andb].
    destruct (so_addprops so); [reflexivity|]. cbn [forallb kw_valid]. rewrite andb_true_r.
    apply forallb_forall. intros kv Hkv. rewrite jvalid_bool, orb_false_r. unfold additional. rewrite Hpn, Hpats.
    cbn [existsb negb]. rewrite andb_true_r, negb_involutive. unfold props. rewrite map_map. cbn [fst].
    apply existsb_exists. exists (fst kv). split; [|apply String.eqb_refl].
    replace (map (fun x : fdef => elem_alias so (EField x)) (cd_fields cd)) with (map (alias_of so) (cd_fields cd)) by reflexivity.
    rewrite <- Hkeys. apply in_map. exact Hkv.
  Qed.

  Lemma QR_obj c (dk : list (string * pyval)) :
    rt_cls u so (get_cls u c) ->
    Forall2 (fun fd kd => fst kd = alias_of so fd /\ QR (fd_ty fd) (snd kd)) (cd_fields (get_cls u c)) dk ->
    QR (TObj c) (PDict dk).
  Proof.
    intros Hcls HF bf jf Hfit Hdd Hd. rewrite fitsr_TObj in Hfit.
    assert (Hsub : forall jf' f, dd (PDict dk) <= S jf' \/ dd (PDict dk) <= jf' ->
               forallb (fun fd => fitsr f (fd_ty fd)) (cd_fields (get_cls u c)) = true ->
               (forall kd, In kd dk -> dd (snd kd) <= jf') ->
               Forall2 (fun fd kd => fst kd = alias_of so fd /\ jvalid false ds jf' (BS f false (fd_ty fd)) (snd kd) = true)
                       (cd_fields (get_cls u c)) dk).
    { intros jf' f _ Hf Hle. clear Hfit Hdd. revert Hf Hle. induction HF as [|fd kd fields dks [E Hq] _ IH]; intros Hf Hle; constructor.
      - split; [exact E|]. cbn [forallb] in Hf. apply andb_true_iff in Hf. destruct Hf as [Hf1 _].
        apply (Hq f jf' Hf1); [apply Hle; left; reflexivity|].
        eapply in_domain_dict; [exact Hd|]. left. reflexivity.
      - apply IH.
        + clear - Hd. destruct kd as [k0 x0]. cbn [in_domain] in *. apply andb_true_iff in Hd. destruct Hd as [_ Hd]. exact Hd.
        + cbn [forallb] in Hf. apply andb_true_iff in Hf. tauto.
        + intros kd' Hin. apply Hle. right. exact Hin. }
    destruct (refs (cname c)) eqn:Er.
    - (* through the reference *)
      rewrite bs_TObj, Er. cbn [negb andb]. rewrite jvalid_JS. cbn [nullable existsb orb andb forallb kw_valid].
      destruct (Hdefs c Er) as [Hlook Hfd]. rewrite Hlook, andb_true_r.
      destruct jf as [|jf']; [cbn [dd] in Hdd; lia|].
      apply (plain_object_valid c mD jf' true dk); auto.
      + rewrite andb_false_r. reflexivity.
      + apply (Hsub jf' mD); auto. intros kd Hin. pose proof (dd_dict dk (snd kd) (in_map snd _ _ Hin)). lia.
    - (* inline *)
      cbn [orb] in Hfit. destruct bf as [|f]; [discriminate|].
      apply (plain_object_valid c f jf false dk); auto.
      + rewrite Er. reflexivity.
      + apply (Hsub jf f); auto. intros kd Hin. pose proof (dd_dict dk (snd kd) (in_map snd _ _ Hin)). lia.
  Qed.

  Theorem serialized_output_validates_with_refs n t v :
    rt_ty u t = true -> ctx_ok u so t -> has_type u n t v = true -> canonical u v = true ->
    exists j d, image u so (S n) t v = SROk j /\ unembed j = Some d /\
                forall bf jf, fitsr bf t = true -> dd d <= jf -> in_domain d = true -> jvalid false ds jf (BS bf false t) d = true.
  Proof.
    intros Hrt Hctx Hht Hcan.
    exact (image_invariant u so QR QR_none QR_bool QR_int QR_float QR_str QR_coll QR_tuple QR_map QR_lit QR_enum QR_union QR_obj
                           n t v Hrt Hctx Hht Hcan).
  Qed.
End SCR.

(* ------------------------------------------------------------------ with the schema and definitions of the builder model *)
Section SCModel.
  Variable u : univ.
  Variable so : sopts.
  Variable t0 : ty.
  Let names := refs_of_ser u false t0.
  Let refs := refs_pred names.
  Let classes := seq 0 (List.length (u_classes u)).
  Let enums := seq 0 (List.length (u_enums u)).
  Let ds := defs_for_ser u so refs ser_fuel classes enums.
  Let mD := Nat.pred ser_fuel.

  (* every extracted reference names a class or an enum of the universe; the referenced classes fit the fuel of the definitions *)
  Definition ser_names_ok : bool :=
    forallb (fun nm => existsb (String.eqb nm) (map cname classes) || existsb (String.eqb nm) (map ename_ enums)) names.
  Definition ser_ref_classes_ok : bool :=
    forallb (fun c => negb (refs (cname c)) || forallb (fun fd => fitsr u refs mD (fd_ty fd)) (cd_fields (get_cls u c))) classes.

  Lemma ser_ref_listed nm : ser_names_ok = true -> refs nm = true ->
    (exists c, In c classes /\ nm = cname c) \/ (exists e, In e enums /\ nm = ename_ e).
  Proof.
    unfold ser_names_ok, refs, refs_pred. intros Hn Hr. apply existsb_exists in Hr. destruct Hr as [x [Hx E]].
    apply String.eqb_eq in E. subst x. rewrite forallb_forall in Hn. specialize (Hn nm Hx).
    apply orb_true_iff in Hn. destruct Hn as [H|H]; apply existsb_exists in H; destruct H as [y [Hy E]]; apply String.eqb_eq in E; subst y;
      apply in_map_iff in Hy; destruct Hy as [i [<- Hi]]; [left|right]; exists i; auto.
  Qed.

  Lemma ser_enum_defs : ser_names_ok = true ->
    forall e, refs (ename_ e) = true -> def_lookup (ename_ e) ds = Some (literal_schema (get_enum u e)).
  Proof.
    intros Hn e Hr. destruct (ser_ref_listed _ Hn Hr) as [[c [_ E]]|[e' [He' E]]].
    - pose proof (cname_ename c e) as Hne. rewrite <- E, String.eqb_refl in Hne. discriminate.
    - apply ename_inj in E. subst e'. unfold ds, defs_for_ser. rewrite def_lookup_app.
      rewrite (def_lookup_map_none cname) by (intros c; apply cname_ename).
      rewrite (def_lookup_map_found ename_ (fun e0 => build_ser u so refs ser_fuel true (TEnum e0)) _ e).
      + rewrite bs_TEnum, andb_false_r. reflexivity.
      + intros y Hy. apply ename_inj. exact Hy.
      + apply filter_In. split; assumption.
  Qed.

  Lemma ser_class_defs : ser_names_ok = true -> ser_ref_classes_ok = true ->
    forall c, refs (cname c) = true ->
    def_lookup (cname c) ds = Some (build_ser u so refs (S mD) true (TObj c))
    /\ forallb (fun fd => fitsr u refs mD (fd_ty fd)) (cd_fields (get_cls u c)) = true.
  Proof.
    intros Hn Hc c Hr. destruct (ser_ref_listed _ Hn Hr) as [[c' [Hc' E]]|[e [_ E]]].
    - apply cname_inj in E. subst c'. split.
      + unfold ds, defs_for_ser. rewrite def_lookup_app.
        rewrite (def_lookup_map_found cname (fun c0 => build_ser u so refs ser_fuel true (TObj c0)) _ c); [reflexivity| |].
        * intros y Hy. apply cname_inj. exact Hy.
        * apply filter_In. split; assumption.
      + unfold ser_ref_classes_ok in Hc. rewrite forallb_forall in Hc. specialize (Hc c Hc'). rewrite Hr in Hc. exact Hc.
    - pose proof (cname_ename c e) as Hne. rewrite E, String.eqb_refl in Hne. discriminate.
  Qed.

  Definition ser_hyps (n jf : nat) (v : value) : bool :=
    negb (so_excl_none so) && negb (so_excl_defaults so) && ser_names_ok && ser_ref_classes_ok
    && fitsr u refs ser_fuel t0 && rt_hyps u so n t0 v.

  (* the validator's fuel jf only has to exceed the nesting of objects in the produced datum *)
  Theorem serialized_output_validates_checked n jf v :
    ser_hyps n jf v = true ->
    exists j d, image u so (S n) t0 v = SROk j /\ unembed j = Some d /\
                (dd d <= jf -> in_domain d = true ->
                 jvalid false (snd (model_ser_schema u so false t0)) jf (fst (model_ser_schema u so false t0)) d = true).
  Proof.
    unfold ser_hyps. intros H. apply andb_true_iff in H. destruct H as [H Hrt]. apply andb_true_iff in H. destruct H as [H Hfit].
    apply andb_true_iff in H. destruct H as [H Hcls]. apply andb_true_iff in H. destruct H as [H Hnames].
    apply andb_true_iff in H. destruct H as [Hen Hed]. apply negb_true_iff in Hen. apply negb_true_iff in Hed.
    unfold rt_hyps in Hrt. repeat (apply andb_true_iff in Hrt; destruct Hrt as [Hrt ?]).
    assert (Hctx : ctx_ok u so t0).
    { match goal with Hx : (no_obj t0 || rt_univ_b u so)%bool = true |- _ => apply orb_true_iff in Hx; destruct Hx as [Hx|Hx] end;
        [left; assumption|right; apply rt_univ_b_ok; assumption]. }
    destruct (serialized_output_validates_with_refs u so refs ds mD (ser_enum_defs Hnames) Hen Hed (ser_class_defs Hnames Hcls) n t0 v)
      as [j [d [Hi [Hu Hv]]]]; try assumption.
    exists j, d. split; [exact Hi|]. split; [exact Hu|]. intros Hdd Hd. cbn [model_ser_schema fst snd]. apply Hv; assumption.
  Qed.
End SCModel.

(* satisfiable: an order with a customer and lines -- the customer class is used twice, hence given by reference, like the enum *)
Definition ser_ex_univ : univ := mkU
  [ mkCls KData [ mkF "name" "name" TStr true VNone false None no_fser;
                  mkF "tier" "tier" (TEnum 0) true VNone false None no_fser ] [] [] [] false;
    mkCls KData [ mkF "sku" "sku" TStr true VNone false None no_fser;
                  mkF "qty" "quantity" TInt true VNone false None no_fser;
                  mkF "tier" "tier" (TEnum 0) true VNone false None no_fser ] [] [] [] false;
    mkCls KData [ mkF "customer" "customer" (TObj 0) true VNone false None no_fser;
                  mkF "payer" "payer" (TUnion [TObj 0; TNone]) true VNone false None no_fser;
                  mkF "lines" "lines" (TColl KList (TObj 1)) true VNone false None no_fser;
                  mkF "note" "note" (TUnion [TStr; TNone]) true VNone false None no_fser ] [] [] [] false ]
  [ [LStr "gold"; LStr "basic"] ].
Definition ser_ex_opts : sopts := mkSO false false false true false false false false false false (fun s => s).
Definition ser_ex_value : value :=
  VObj 2 [("customer", VObj 0 [("name", VStr "a"); ("tier", VEnum 0 (LStr "gold"))]);
          ("payer", VObj 0 [("name", VStr "b"); ("tier", VEnum 0 (LStr "basic"))]);
          ("lines", VList [VObj 1 [("sku", VStr "x"); ("qty", VInt 2); ("tier", VEnum 0 (LStr "basic"))]]);
          ("note", VNone)].

Example ser_ex :
  refs_of_ser ser_ex_univ false (TObj 2) = ["C0"; "E0"] /\ ser_hyps ser_ex_univ ser_ex_opts (TObj 2) 3 12 ser_ex_value = true.
Proof. vm_compute. split; reflexivity. Qed.
