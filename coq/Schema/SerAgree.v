(* C07 on the object-free fragment: what serialization produces for a well-typed value validates against the schema built for
   the type -- composition of the round-trip theorem (Ser/RoundTripInd.v) with the schema / deserializer agreement
   (Schema/AgreeProofs.v). *)
From Coq Require Import List String ZArith Bool.
From AV Require Import Core.Json Deser.Model Deser.Spec Ser.Model Ser.Spec Ser.RoundTrip Ser.RoundTripInd
  Schema.Json Schema.Build Schema.Proofs Schema.AgreeProofs.
Import ListNotations.

Theorem serialized_output_validates :
  forall u (so : sopts) refs ds,
  (forall e, refs (ename_ e) = true -> def_lookup (ename_ e) ds = Some (literal_schema (get_enum u e))) ->
  forall n bf ign t v,
  rt_ty u t = true -> no_obj t = true -> has_type u n t v = true -> canonical u v = true ->
  obj_free t = true -> wf_con t = true -> con_mergeable u (dopts_of so) refs bf ign t = true -> keys_ok u t = true ->
  exists j d, image u so (S n) t v = SROk j /\ unembed j = Some d /\
              (in_domain d = true -> jvalid false ds 0 (build u (dopts_of so) refs bf ign t) d = true).
Proof.
  intros u so refs ds Henum n bf ign t v Hrt Hno Hht Hcan Hof Hwf Hcm Hk.
  destruct (container_round_trip u so n t v Hrt Hno Hht Hcan) as [j [d [Hi [Hu Hs]]]].
  exists j, d. split; [exact Hi|]. split; [exact Hu|]. intros Hd.
  rewrite (frag_agree u (dopts_of so) refs ds Henum 0 (S n) bf t ign d Hof Hwf Hcm Hk Hd), Hs. reflexivity.
Qed.

(* the hypotheses are satisfiable *)
Example serialized_output_validates_ex :
  let u := mkU [] [[LInt 1; LStr "x"]] in
  let so := mkSO false false false true false false false false false false (fun s => s) in
  let t := TColl KList (TUnion [TInt; TMap TStr (TTuple [TEnum 0; TBool]); TNone]) in
  let v := VList [VInt 3; VDict [(VStr "k", VTuple [VEnum 0 (LStr "x"); VBool true])]; VNone] in
  rt_ty u t = true /\ no_obj t = true /\ has_type u 1 t v = true /\ canonical u v = true /\ obj_free t = true /\ wf_con t = true
  /\ con_mergeable u (dopts_of so) (fun _ => false) 0 false t = true /\ keys_ok u t = true.
Proof. vm_compute. repeat split. Qed.
