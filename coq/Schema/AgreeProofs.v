(* C06: the schema built for a type accepts exactly what the specification of deserialization accepts. *)
From Coq Require Import List String ZArith Bool Arith Lia.
From AV Require Import Core.Json Core.Text Deser.Model Deser.Spec Deser.Loops Deser.Unfold
                       Schema.Json Schema.Build Schema.Unfold Schema.Proofs Schema.ConProofs Schema.ShapeProofs.
Import ListNotations.

(* all the constraints of `acc`, each under the applicability rule of its keyword *)
Definition cons_ok (acc : option constraints) (d : pyval) : bool :=
  match acc with None => true | Some c => forallb (fun k => con_valid k d) (all_cons c) end.

Lemma forallb_vacuous {A} (f : A -> bool) l : (forall x, In x l -> f x = true) -> forallb f l = true.
Proof. intros H. apply forallb_forall. exact H. Qed.

Lemma in_cons_num c k : In k (cons_num c) -> match k with KMin _ | KMax _ | KExcMin _ | KExcMax _ | KMultOf _ => True | _ => False end.
Proof.
  unfold cons_num, opt_list. intros H. repeat (apply in_app_or in H; destruct H as [H|H]);
    repeat match goal with H : In _ (match ?o with Some _ => _ | None => _ end) |- _ => destruct o; cbn in H end;
    intuition; subst; exact I.
Qed.
Lemma in_cons_str c k : In k (cons_str c) -> match k with KMinLen _ | KMaxLen _ | KPattern _ => True | _ => False end.
Proof.
  unfold cons_str, opt_list. intros H. repeat (apply in_app_or in H; destruct H as [H|H]);
    repeat match goal with H : In _ (match ?o with Some _ => _ | None => _ end) |- _ => destruct o; cbn in H end;
    intuition; subst; exact I.
Qed.
Lemma in_cons_list c k : In k (cons_list c) -> match k with KMinItems _ | KMaxItems _ | KUnique => True | _ => False end.
Proof.
  unfold cons_list, opt_list. intros H. repeat (apply in_app_or in H; destruct H as [H|H]);
    repeat match goal with H : In _ (match ?o with Some _ => _ | None => _ end) |- _ => destruct o; cbn in H end;
    try (destruct (c_unique c); cbn in H); intuition; subst; exact I.
Qed.
Lemma in_cons_dict c k : In k (cons_dict c) -> match k with KMinProps _ | KMaxProps _ => True | _ => False end.
Proof.
  unfold cons_dict, opt_list. intros H. repeat (apply in_app_or in H; destruct H as [H|H]);
    repeat match goal with H : In _ (match ?o with Some _ => _ | None => _ end) |- _ => destruct o; cbn in H end;
    intuition; subst; exact I.
Qed.

(* which constraints matter for a datum of each class *)
Lemma cons_all_split c d :
  forallb (fun k => con_valid k d) (all_cons c)
  = forallb (fun k => con_valid k d) (cons_num c) && forallb (fun k => con_valid k d) (cons_str c)
    && forallb (fun k => con_valid k d) (cons_list c) && forallb (fun k => con_valid k d) (cons_dict c).
Proof. unfold all_cons. rewrite !forallb_app. now rewrite !andb_assoc. Qed.

Lemma forallb_in_ext {A} (f g : A -> bool) l : (forall x, In x l -> f x = g x) -> forallb f l = forallb g l.
Proof.
  intros H. induction l as [|x r IH]; [reflexivity|]. cbn [forallb].
  rewrite H by (left; reflexivity). rewrite IH; [reflexivity|]. intros y Hy. apply H. right. exact Hy.
Qed.

Ltac vac L d := apply forallb_vacuous; let k := fresh "k" in let Hk := fresh "Hk" in
                intros k Hk; apply L in Hk; destruct k; try contradiction; destruct d; try contradiction; reflexivity.

Lemma cons_ok_num c d : (match d with PInt _ | PFloat _ => True | _ => False end) ->
  forallb (fun k => con_valid k d) (all_cons c) = all_valid (cons_num c) d.
Proof.
  intros Hd. rewrite cons_all_split.
  assert (H2 : forallb (fun k => con_valid k d) (cons_str c) = true) by vac in_cons_str d.
  assert (H3 : forallb (fun k => con_valid k d) (cons_list c) = true) by vac in_cons_list d.
  assert (H4 : forallb (fun k => con_valid k d) (cons_dict c) = true) by vac in_cons_dict d.
  rewrite H2, H3, H4, !andb_true_r. unfold all_valid. apply forallb_in_ext.
  intros k Hk. apply in_cons_num in Hk. destruct k; try contradiction; destruct d; try contradiction; reflexivity.
Qed.

Lemma cons_ok_str c d : (match d with PStr _ => True | _ => False end) ->
  forallb (fun k => con_valid k d) (all_cons c) = all_valid (cons_str c) d.
Proof.
  intros Hd. rewrite cons_all_split.
  assert (H1 : forallb (fun k => con_valid k d) (cons_num c) = true) by vac in_cons_num d.
  assert (H3 : forallb (fun k => con_valid k d) (cons_list c) = true) by vac in_cons_list d.
  assert (H4 : forallb (fun k => con_valid k d) (cons_dict c) = true) by vac in_cons_dict d.
  rewrite H1, H3, H4, !andb_true_r. cbn [andb]. unfold all_valid. apply forallb_in_ext.
  intros k Hk. apply in_cons_str in Hk. destruct k; try contradiction; destruct d; try contradiction; reflexivity.
Qed.

Lemma cons_ok_list c d : (match d with PList _ => True | _ => False end) ->
  forallb (fun k => con_valid k d) (all_cons c) = all_valid (cons_list c) d.
Proof.
  intros Hd. rewrite cons_all_split.
  assert (H1 : forallb (fun k => con_valid k d) (cons_num c) = true) by vac in_cons_num d.
  assert (H2 : forallb (fun k => con_valid k d) (cons_str c) = true) by vac in_cons_str d.
  assert (H4 : forallb (fun k => con_valid k d) (cons_dict c) = true) by vac in_cons_dict d.
  rewrite H1, H2, H4, !andb_true_r. cbn [andb]. unfold all_valid. apply forallb_in_ext.
  intros k Hk. apply in_cons_list in Hk. destruct k; try contradiction; destruct d; try contradiction; reflexivity.
Qed.

Lemma cons_ok_dict c d : (match d with PDict _ => True | _ => False end) ->
  forallb (fun k => con_valid k d) (all_cons c) = all_valid (cons_dict c) d.
Proof.
  intros Hd. rewrite cons_all_split.
  assert (H1 : forallb (fun k => con_valid k d) (cons_num c) = true) by vac in_cons_num d.
  assert (H2 : forallb (fun k => con_valid k d) (cons_str c) = true) by vac in_cons_str d.
  assert (H3 : forallb (fun k => con_valid k d) (cons_list c) = true) by vac in_cons_list d.
  rewrite H1, H2, H3. cbn [andb]. unfold all_valid. apply forallb_in_ext.
  intros k Hk. apply in_cons_dict in Hk. destruct k; try contradiction; destruct d; try contradiction; reflexivity.
Qed.

Lemma cons_ok_other c d : (match d with PNone | PBool _ | POther _ => True | _ => False end) ->
  forallb (fun k => con_valid k d) (all_cons c) = true.
Proof.
  intros Hd. rewrite cons_all_split.
  assert (H1 : forallb (fun k => con_valid k d) (cons_num c) = true) by vac in_cons_num d.
  assert (H2 : forallb (fun k => con_valid k d) (cons_str c) = true) by vac in_cons_str d.
  assert (H3 : forallb (fun k => con_valid k d) (cons_list c) = true) by vac in_cons_list d.
  assert (H4 : forallb (fun k => con_valid k d) (cons_dict c) = true) by vac in_cons_dict d.
  now rewrite H1, H2, H3, H4.
Qed.

(* ------------------------------------------------------------------ merged constraints are conjoined *)
From Coq Require Import Btauto.

Definition ov {A} (f : A -> constr) (o : option A) (d : pyval) : bool :=
  match o with Some x => con_valid (f x) d | None => true end.

Lemma forallb_opt_list {A} (f : A -> constr) o d : forallb (fun k => con_valid k d) (opt_list f o) = ov f o d.
Proof. destruct o; cbn; [apply andb_true_r|reflexivity]. Qed.

Lemma all_cons_ov c d :
  forallb (fun k => con_valid k d) (all_cons c)
  = ov KMin (c_min c) d && ov KMax (c_max c) d && ov KExcMin (c_excmin c) d && ov KExcMax (c_excmax c) d
    && ov KMultOf (c_multof c) d && ov KMinLen (c_minlen c) d && ov KMaxLen (c_maxlen c) d && ov KPattern (c_pattern c) d
    && ov KMinItems (c_minitems c) d && ov KMaxItems (c_maxitems c) d && (if c_unique c then con_valid KUnique d else true)
    && ov KMinProps (c_minprops c) d && ov KMaxProps (c_maxprops c) d.
Proof.
  unfold all_cons, cons_num, cons_str, cons_list, cons_dict. rewrite !forallb_app, !forallb_opt_list.
  destruct (c_unique c); cbn [forallb]; rewrite ?andb_true_r; btauto.
Qed.

Lemma ov_merge {A} (f : A -> constr) (m : A -> A -> A) a b d :
  (forall x y, con_valid (f (m x y)) d = con_valid (f x) d && con_valid (f y) d) ->
  ov f (omerge m a b) d = ov f a d && ov f b d.
Proof. intros H. destruct a, b; cbn; rewrite ?andb_true_r; auto. Qed.

(* multipleOf and pattern are not merged: at most one side carries them *)
Definition compat (a b : constraints) : bool :=
  negb (match c_multof a, c_multof b with Some _, Some _ => true | _, _ => false end)
  && negb (match c_pattern a, c_pattern b with Some _, Some _ => true | _, _ => false end).

Lemma ov_merge_first {A} (f : A -> constr) a b d :
  match a, b with Some _, Some _ => false | _, _ => true end = true ->
  ov f (omerge (fun x _ => x) a b) d = ov f a d && ov f b d.
Proof. destruct a, b; cbn; try discriminate; intros _; rewrite ?andb_true_r; reflexivity. Qed.

Lemma cons_merge_valid a b d : compat a b = true ->
  forallb (fun k => con_valid k d) (all_cons (merge_c a b))
  = forallb (fun k => con_valid k d) (all_cons a) && forallb (fun k => con_valid k d) (all_cons b).
Proof.
  intros Hc. unfold compat in Hc. apply andb_true_iff in Hc. destruct Hc as [Hm Hp].
  apply negb_true_iff in Hm. apply negb_true_iff in Hp.
  rewrite !all_cons_ov. unfold merge_c. cbn [c_min c_max c_excmin c_excmax c_multof c_minlen c_maxlen c_pattern c_minitems c_maxitems c_unique c_minprops c_maxprops].
  rewrite (ov_merge KMin cmax) by (intros; apply (merge_con_valid (KMin x) (KMin y)); reflexivity).
  rewrite (ov_merge KMax cmin) by (intros; apply (merge_con_valid (KMax x) (KMax y)); reflexivity).
  rewrite (ov_merge KExcMin cmax) by (intros; apply (merge_con_valid (KExcMin x) (KExcMin y)); reflexivity).
  rewrite (ov_merge KExcMax cmin) by (intros; apply (merge_con_valid (KExcMax x) (KExcMax y)); reflexivity).
  rewrite (ov_merge KMinLen Nat.max) by (intros; apply (merge_con_valid (KMinLen x) (KMinLen y)); reflexivity).
  rewrite (ov_merge KMaxLen Nat.min) by (intros; apply (merge_con_valid (KMaxLen x) (KMaxLen y)); reflexivity).
  rewrite (ov_merge KMinItems Nat.max) by (intros; apply (merge_con_valid (KMinItems x) (KMinItems y)); reflexivity).
  rewrite (ov_merge KMaxItems Nat.min) by (intros; apply (merge_con_valid (KMaxItems x) (KMaxItems y)); reflexivity).
  rewrite (ov_merge KMinProps Nat.max) by (intros; apply (merge_con_valid (KMinProps x) (KMinProps y)); reflexivity).
  rewrite (ov_merge KMaxProps Nat.min) by (intros; apply (merge_con_valid (KMaxProps x) (KMaxProps y)); reflexivity).
  rewrite (ov_merge_first KMultOf) by (destruct (c_multof a), (c_multof b); try reflexivity; discriminate).
  rewrite (ov_merge_first KPattern) by (destruct (c_pattern a), (c_pattern b); try reflexivity; discriminate).
  destruct (c_unique a), (c_unique b); cbn [orb]; btauto.
Qed.

Definition compat_o (a b : option constraints) : bool :=
  match a, b with Some x, Some y => compat x y | _, _ => true end.

Lemma cons_ok_merge a b d : compat_o a b = true -> cons_ok (merge_oc a b) d = cons_ok a d && cons_ok b d.
Proof.
  destruct a as [a|], b as [b|]; cbn [merge_oc omerge cons_ok compat_o]; intros H; rewrite ?andb_true_r; try reflexivity.
  now apply cons_merge_valid.
Qed.

(* ------------------------------------------------------------------ the object-free fragment *)
Fixpoint obj_free (t : ty) : bool :=
  match t with
  | TObj _ => false
  | TColl _ t' | TCon _ t' => obj_free t'
  | TTuple ts | TUnion ts => forallb obj_free ts
  | TMap kt vt => obj_free kt && obj_free vt
  | _ => true
  end.

(* positions reached by the constraints of an enclosing Annotated: no Literal / Enum there (deserialization ignores the
   constraints on them, the generated types never constrain them) *)
Fixpoint plain (t : ty) : bool :=
  match t with
  | TLit _ | TEnum _ => false
  | TCon _ t' => plain t'
  | TUnion ts => forallb plain ts
  | _ => true
  end.

(* multipleOf / pattern are not stacked along a chain of Annotated *)
Fixpoint chain_ok (acc : option constraints) (t : ty) : bool :=
  match t with
  | TCon c t' => compat_o acc (Some c) && chain_ok (merge_oc acc (Some c)) t'
  | TUnion ts => forallb (chain_ok acc) ts
  | _ => true
  end.

Fixpoint wf_con (t : ty) : bool :=
  match t with
  | TCon c t' => plain t' && chain_ok (Some c) t' && wf_con t'
  | TColl _ t' => wf_con t'
  | TTuple ts | TUnion ts => forallb wf_con ts
  | TMap kt vt => wf_con kt && wf_con vt
  | _ => true
  end.

Definition accepts (r : sres) : bool := match r with SOk _ => true | _ => false end.

Lemma all_ok_map_no_fuel {A} (h : A -> sres) l : (forall x, In x l -> h x <> SFuel) -> all_ok (map h l) <> None.
Proof.
  induction l as [|x r IH]; intros H; [discriminate|]. cbn [map all_ok].
  assert (Hx : h x <> SFuel) by (apply H; left; reflexivity).
  assert (Hr : all_ok (map h r) <> None) by (apply IH; intros y Hy; apply H; right; exact Hy).
  destruct (h x); try congruence; destruct (all_ok (map h r)) as [[?|]|]; try congruence; discriminate.
Qed.

Section Frag.
  Variable u : univ.
  Variable o : dopts.
  Notation sp := (spec u o).

  Lemma obj_free_no_fuel fuel : forall t acc d, obj_free t = true -> sp fuel acc t d <> SFuel.
  Proof.
    induction t using ty_ind'; intros acc d Hf.
    - rewrite spec_TNone. destruct d; discriminate.
    - rewrite spec_TBool. destruct d; discriminate.
    - rewrite spec_TInt. destruct d; try discriminate. unfold accept. destruct (all_valid _ _); discriminate.
    - rewrite spec_TFloat. destruct d; try discriminate; unfold accept.
      + destruct (Z.ltb _ _); [destruct (all_valid _ _)|]; discriminate.
      + destruct (all_valid _ _); discriminate.
    - rewrite spec_TStr. destruct d; try discriminate. unfold accept. destruct (all_valid _ _); discriminate.
    - rewrite spec_TAny. unfold accept. destruct (all_valid _ _); discriminate.
    - rewrite spec_TColl. destruct d; try discriminate. cbn [obj_free] in Hf.
      assert (H : all_ok (map (sp fuel None t) l) <> None) by (apply all_ok_map_no_fuel; intros x _; now apply IHt).
      destruct (all_ok _) as [[vs|]|]; try congruence; try discriminate. unfold accept. destruct (all_valid _ _); discriminate.
    - rewrite spec_TTuple. destruct d; try discriminate. destruct (negb _); [discriminate|]. cbn [obj_free] in Hf.
      assert (Hz : all_ok (zip_spec (sp fuel None) ts l) <> None).
      { revert l. induction ts as [|t1 tr IHts]; intros l; [destruct l; discriminate|]. destruct l as [|x r]; [discriminate|].
        cbn [zip_spec all_ok]. inversion H as [|? ? H1 Hr]; subst. cbn [forallb] in Hf. apply andb_true_iff in Hf. destruct Hf as [Hf1 Hfr].
        specialize (H1 None x Hf1). specialize (IHts Hr Hfr r).
        destruct (sp fuel None t1 x); try congruence; destruct (all_ok (zip_spec (sp fuel None) tr r)) as [[?|]|]; try congruence; discriminate. }
      destruct (all_ok _) as [[vs|]|]; try congruence; try discriminate. unfold accept. destruct (all_valid _ _); discriminate.
    - rewrite spec_TMap. destruct d; try discriminate. cbn [obj_free] in Hf. apply andb_true_iff in Hf. destruct Hf as [Hk Hv].
      assert (H1 : all_ok (map (fun kv => sp fuel None t1 (PStr (fst kv))) l) <> None) by (apply all_ok_map_no_fuel; intros x _; now apply IHt1).
      assert (H2 : all_ok (map (fun kv => sp fuel None t2 (snd kv)) l) <> None) by (apply all_ok_map_no_fuel; intros x _; now apply IHt2).
      destruct (all_ok _) as [[ks|]|]; try congruence; destruct (all_ok _) as [[vs|]|]; try congruence; try discriminate.
      unfold accept. destruct (all_valid _ _); discriminate.
    - rewrite spec_TLit. destruct (prim_of d); [destruct (existsb _ _)|]; discriminate.
    - rewrite spec_TEnum. destruct (prim_of d); [destruct (existsb _ _)|]; discriminate.
    - rewrite spec_TCon. apply IHt. exact Hf.
    - rewrite spec_TUnion. cbn [obj_free] in Hf. induction ts as [|t1 tr IHts]; [discriminate|].
      inversion H as [|? ? H1 Hr]; subst. cbn [forallb] in Hf. apply andb_true_iff in Hf. destruct Hf as [Hf1 Hfr].
      cbn [first_spec]. specialize (H1 acc d Hf1). destruct (sp fuel acc t1 d); try congruence. now apply IHts.
    - discriminate.
  Qed.

  Lemma accepts_accept cs d v : accepts (accept cs d v) = all_valid cs d.
  Proof. unfold accept. destruct (all_valid cs d); reflexivity. Qed.

  Lemma cvalid_int_float k z : cvalid k (PFloat (FQ (4 * z))) = cvalid k (PInt z).
  Proof. destruct k; reflexivity. Qed.

  Lemma all_valid_int_float cs z : all_valid cs (PFloat (FQ (4 * z))) = all_valid cs (PInt z).
  Proof. unfold all_valid. apply forallb_in_ext. intros k _. apply cvalid_int_float. Qed.

  Lemma ocons_ok (f : constraints -> list constr) acc d :
    (forall c, forallb (fun k => con_valid k d) (all_cons c) = all_valid (f c) d) ->
    all_valid (ocons f acc) d = cons_ok acc d.
  Proof. intros H. destruct acc as [c|]; cbn [ocons cons_ok]; [symmetry; apply H | reflexivity]. Qed.

  Lemma accepts_first h ts : (forall t, In t ts -> h t <> SFuel) ->
    accepts (first_spec h ts) = existsb (fun t => accepts (h t)) ts.
  Proof.
    induction ts as [|t1 tr IH]; intros H; [reflexivity|]. cbn [first_spec existsb].
    assert (H1 : h t1 <> SFuel) by (apply H; left; reflexivity).
    destruct (h t1) eqn:E; try congruence; cbn [accepts orb]; [reflexivity|].
    apply IH. intros t Ht. apply H. right. exact Ht.
  Qed.

  (* the constraints of the enclosing Annotated factor out of the specification *)
  Lemma spec_factor fuel : forall t acc d,
    obj_free t = true -> (acc = None \/ plain t = true) -> chain_ok acc t = true -> wf_con t = true ->
    accepts (sp fuel acc t d) = accepts (sp fuel None t d) && cons_ok acc d.
  Proof.
    induction t using ty_ind'; intros acc d Hf Hp Hc Hw.
    - rewrite !spec_TNone. destruct d; try reflexivity. destruct acc as [c|]; [|reflexivity]. cbn [cons_ok accepts andb]. now rewrite cons_ok_other.
    - rewrite !spec_TBool. destruct d; try reflexivity. destruct acc as [c|]; [|reflexivity]. cbn [cons_ok accepts andb]. now rewrite cons_ok_other.
    - rewrite !spec_TInt. destruct d; try reflexivity. rewrite !accepts_accept. cbn [ocons all_valid forallb andb].
      apply ocons_ok. intros c. now apply cons_ok_num.
    - rewrite !spec_TFloat. destruct d; try reflexivity.
      + destruct (Z.ltb _ _); [|reflexivity]. rewrite !accepts_accept. cbn [ocons all_valid forallb andb].
        rewrite all_valid_int_float. apply ocons_ok. intros c. now apply cons_ok_num.
      + rewrite !accepts_accept. cbn [ocons all_valid forallb andb]. apply ocons_ok. intros c. now apply cons_ok_num.
    - rewrite !spec_TStr. destruct d; try reflexivity. rewrite !accepts_accept. cbn [ocons all_valid forallb andb].
      apply ocons_ok. intros c. now apply cons_ok_str.
    - rewrite !spec_TAny, !accepts_accept. destruct acc as [c|]; [|destruct d; reflexivity].
      destruct d; cbn [any_cons ocons cons_ok all_valid forallb andb].
      all: try (symmetry; apply cons_ok_other; exact I).
      + symmetry. now apply cons_ok_num.
      + symmetry. now apply cons_ok_num.
      + symmetry. now apply cons_ok_str.
      + symmetry. now apply cons_ok_list.
      + symmetry. now apply cons_ok_dict.
    - rewrite !spec_TColl. destruct d; try reflexivity.
      destruct (all_ok _) as [[vs|]|]; try reflexivity. rewrite !accepts_accept. cbn [ocons all_valid forallb andb].
      apply ocons_ok. intros c. now apply cons_ok_list.
    - rewrite !spec_TTuple. destruct d; try reflexivity. destruct (negb _); [reflexivity|].
      destruct (all_ok _) as [[vs|]|]; try reflexivity. rewrite !accepts_accept. cbn [ocons all_valid forallb andb].
      apply ocons_ok. intros c. now apply cons_ok_list.
    - rewrite !spec_TMap. destruct d; try reflexivity.
      destruct (all_ok (map (fun kv => sp fuel None t1 (PStr (fst kv))) l)) as [[ks|]|];
        destruct (all_ok (map (fun kv => sp fuel None t2 (snd kv)) l)) as [[vs|]|]; try reflexivity.
      rewrite !accepts_accept. cbn [ocons all_valid forallb andb]. apply ocons_ok. intros c. now apply cons_ok_dict.
    - destruct Hp as [->|Hp]; [cbn [cons_ok]; now rewrite andb_true_r | discriminate].
    - destruct Hp as [->|Hp]; [cbn [cons_ok]; now rewrite andb_true_r | discriminate].
    - (* Annotated *)
      cbn [obj_free chain_ok wf_con] in *. apply andb_true_iff in Hc. destruct Hc as [Hcc Hch].
      apply andb_true_iff in Hw. destruct Hw as [Hw Hww]. apply andb_true_iff in Hw. destruct Hw as [Hpl Hcs].
      rewrite !spec_TCon.
      rewrite (IHt (merge_oc acc (Some c)) d Hf (or_intror Hpl) Hch Hww).
      cbn [merge_oc omerge].
      rewrite (IHt (Some c) d Hf (or_intror Hpl) Hcs Hww).
      rewrite cons_ok_merge by exact Hcc. btauto.
    - (* Union *)
      cbn [obj_free chain_ok wf_con] in *. rewrite !spec_TUnion.
      rewrite !accepts_first by (intros t Ht; apply obj_free_no_fuel; rewrite forallb_forall in Hf; auto).
      assert (Hp' : forall t, In t ts -> acc = None \/ plain t = true).
      { intros t Ht. destruct Hp as [Hn|Hp]; [left; exact Hn|right]. cbn [plain] in Hp. rewrite forallb_forall in Hp. auto. }
      clear Hp. induction ts as [|t1 tr IHts]; [reflexivity|].
      inversion H as [|? ? H1 Hr]; subst. cbn [forallb existsb] in *.
      apply andb_true_iff in Hf. destruct Hf as [Hf1 Hfr]. apply andb_true_iff in Hc. destruct Hc as [Hc1 Hcr].
      apply andb_true_iff in Hw. destruct Hw as [Hw1 Hwr].
      rewrite (H1 acc d Hf1 (Hp' t1 (or_introl eq_refl)) Hc1 Hw1).
      rewrite (IHts Hr Hfr Hcr Hwr) by (intros t Ht; apply Hp'; right; exact Ht).
      btauto.
    - discriminate.
  Qed.
End Frag.

(* ------------------------------------------------------------------ helpers for the main induction *)
Lemma accepts_all_ok {A} (h : A -> sres) l : (forall x, In x l -> h x <> SFuel) ->
  match all_ok (map h l) with Some (Some _) => true | _ => false end = forallb (fun x => accepts (h x)) l.
Proof.
  induction l as [|x r IH]; intros H; [reflexivity|]. cbn [map all_ok forallb].
  assert (Hx : h x <> SFuel) by (apply H; left; reflexivity).
  assert (Hr := IH (fun y Hy => H y (or_intror Hy))).
  destruct (h x) eqn:E; try congruence; cbn [accepts andb].
  - destruct (all_ok (map h r)) as [[vs|]|]; cbn in *; congruence.
  - destruct (all_ok (map h r)) as [[vs|]|]; reflexivity.
Qed.

Lemma all_ok_not_fuel {A} (h : A -> sres) l : (forall x, In x l -> h x <> SFuel) -> all_ok (map h l) <> None.
Proof. apply all_ok_map_no_fuel. Qed.

Lemma jvalid_in_con ss ds fuel kws c d :
  nullable kws = false -> In (KwCon c) kws -> jvalid ss ds fuel (JS kws) d = true -> con_valid c d = true.
Proof.
  intros Hn Hin Hv. rewrite jvalid_JS, Hn in Hv. cbn [andb orb] in Hv. rewrite forallb_forall in Hv.
  specialize (Hv _ Hin). exact Hv.
Qed.

Lemma leaf_valid_literal ss ds fuel vs d : leaf_valid ss (literal_schema vs) d = jvalid ss ds fuel (literal_schema vs) d.
Proof.
  unfold literal_schema. destruct vs as [|v [|v' r]]; rewrite jvalid_JS; cbn [leaf_valid nullable existsb andb orb forallb kw_valid flat_kw]; reflexivity.
Qed.

Lemma prim_json_eq p d : in_domain d = true ->
  json_eq (prim_data p) d = match prim_of d with Some p' => prim_eqb p' p | None => false end.
Proof.
  intros Hd. destruct p as [|b|z|s], d as [|b'|z'|f|s'|l|l|tg]; cbn [prim_data json_eq prim_of prim_eqb]; try reflexivity.
  - destruct b, b'; reflexivity.
  - apply Z.eqb_sym.
  - destruct f as [q| |]; try reflexivity. cbn [in_domain] in Hd. apply negb_true_iff in Hd.
    destruct (Z.eqb_spec (4 * z) q); [|reflexivity]. subst q. rewrite Z.mul_comm, Z_mod_mult in Hd. discriminate.
  - apply String.eqb_sym.
Qed.

Lemma literal_agree vs d : in_domain d = true ->
  existsb (fun p => json_eq (prim_data p) d) vs = match prim_of d with Some p' => existsb (prim_eqb p') vs | None => false end.
Proof.
  intros Hd. induction vs as [|v r IH]; [destruct (prim_of d); reflexivity|].
  cbn [existsb]. rewrite IH, prim_json_eq by exact Hd. destruct (prim_of d); reflexivity.
Qed.

(* ------------------------------------------------------------------ the builder never emits "nullable" *)
Definition nn (s : js) : Prop := match s with JS kws => nullable kws = false | JBoolS _ => False end.

Lemma nullable_merge_kw c kws : nullable (merge_kw c kws) = nullable kws.
Proof.
  unfold merge_kw. destruct (match c with KUnique => has_set_unique kws | _ => false end).
  - unfold nullable. induction kws as [|k r IH]; [reflexivity|]. cbn [map existsb]. rewrite IH. destruct k; reflexivity.
  - destruct (has_kind c kws).
    + unfold nullable. induction kws as [|k r IH]; [reflexivity|]. cbn [map existsb]. rewrite IH.
      destruct k; try reflexivity. destruct (same_kind c c0); reflexivity.
    + unfold nullable. rewrite existsb_app. cbn. now rewrite orb_false_r.
Qed.

Lemma nn_apply_con c s : nn s -> nn (apply_con c s).
Proof.
  destruct c as [c|]; [|auto]. destruct s as [b|kws]; [auto|]. cbn [apply_con nn].
  generalize (all_cons c) as cs. intros cs. revert kws. induction cs as [|x r IH]; intros kws H; [exact H|].
  cbn [fold_left]. apply IH. now rewrite nullable_merge_kw.
Qed.

Lemma nn_add_null s : nn s -> nn (add_null s).
Proof.
  destruct s as [b|kws]; [auto|]. cbn [add_null nn]. intros H. unfold nullable in *.
  induction kws as [|k r IH]; [reflexivity|]. cbn [map existsb] in *. apply orb_false_iff in H. destruct H as [Hk Hr].
  rewrite (IH Hr), orb_false_r. destruct k; try exact Hk. destruct (memt JNull ts); reflexivity.
Qed.

Lemma nn_visited_union rs : Forall nn rs -> nn (visited_union rs).
Proof.
  intros H. unfold visited_union. destruct rs as [|r1 [|r2 rest]]; [reflexivity | now inversion H |].
  destruct (existsb is_empty _); [reflexivity|]. destruct (forallb _ _); [reflexivity|].
  destruct rest as [|r3 rest']; [|reflexivity].
  destruct (_ && _ && _); [|reflexivity].
  inversion H as [|? ? N1 H']; subst. inversion H' as [|? ? N2 _]; subst.
  apply nn_add_null. destruct (is_null_schema r1); assumption.
Qed.

Section BuildNN.
  Variable u : univ.
  Variable o : dopts.
  Variable refs : string -> bool.

  Lemma nn_literal vs : nn (literal_schema vs).
  Proof. unfold literal_schema. destruct vs as [|v [|v' r]]; reflexivity. Qed.

  Lemma build_nn fuel : forall t ign, obj_free t = true -> nn (build u o refs fuel ign t).
  Proof.
    induction t using ty_ind'; intros ign Hf.
    1-6: destruct fuel; reflexivity.
    - rewrite build_TColl. cbv zeta. cbn [nn]. unfold nullable. rewrite !existsb_app.
      destruct (is_empty _); destruct (norm_kind k); reflexivity.
    - rewrite build_TTuple. cbv zeta. cbn [nn]. unfold nullable. rewrite !existsb_app. destruct (map _ ts); reflexivity.
    - rewrite build_TMap. cbv zeta. set (key := build u o refs fuel true t1).
      destruct (get_pattern key); cbn [nn]; unfold nullable; rewrite !existsb_app;
        destruct key as [b|[|k0 [|k1 kr]]]; try destruct k0; try (destruct (is_empty _)); reflexivity.
    - destruct fuel; apply nn_literal.
    - rewrite build_TEnum. destruct (refs (ename_ e) && negb ign)%bool; [reflexivity | apply nn_literal].
    - rewrite build_TCon. apply nn_apply_con. apply IHt. exact Hf.
    - rewrite build_TUnion. apply nn_visited_union. cbn [obj_free] in Hf. rewrite forallb_forall in Hf.
      rewrite Forall_forall in *. intros s Hs. apply in_map_iff in Hs. destruct Hs as [t0 [<- Ht0]]. apply H; auto.
    - discriminate.
  Qed.
End BuildNN.

(* ------------------------------------------------------------------ the main induction on the object-free fragment *)
Lemma forallb_and {A} (f g : A -> bool) l : forallb f l && forallb g l = forallb (fun x => f x && g x) l.
Proof. induction l as [|x r IH]; [reflexivity|]. cbn [forallb]. rewrite <- IH. btauto. Qed.

Lemma get_pattern_in s p : get_pattern s = Some p -> In (KwCon (KPattern p)) (kws_of s).
Proof.
  unfold get_pattern. induction (kws_of s) as [|k r IH]; [discriminate|]. cbn [fold_right].
  destruct k; try (intros H; right; apply IH; exact H).
  destruct c; try (intros H; right; apply IH; exact H). intros H. injection H as <-. left. reflexivity.
Qed.

Lemma dedup_all_string (vs : list prim) : vs <> [] -> forallb (fun p => match p with LStr _ => true | _ => false end) vs = true ->
  dedup_types (map prim_type vs) = [JString].
Proof.
  intros Hne H. unfold dedup_types.
  assert (G : forall acc, (acc = [] \/ acc = [JString]) ->
              fold_left (fun acc t => if memt t acc then acc else (acc ++ [t])%list) (map prim_type vs) acc = [JString] \/
              (vs = [] /\ fold_left (fun acc t => if memt t acc then acc else (acc ++ [t])%list) (map prim_type vs) acc = acc)).
  { clear Hne. induction vs as [|v r IH]; intros acc Ha; [right; split; reflexivity|].
    cbn [forallb] in H. apply andb_true_iff in H. destruct H as [Hv Hr]. destruct v; try discriminate.
    cbn [map fold_left prim_type]. left.
    destruct Ha as [->| ->]; cbn [memt existsb jtype_eqb orb app];
      (destruct (IH Hr [JString] (or_intror eq_refl)) as [G|[-> G]]; [exact G | exact G]). }
  destruct (G [] (or_introl eq_refl)) as [G'|[E _]]; [exact G'|congruence].
Qed.

Lemma is_empty_eq s : is_empty s = true -> s = JS [].
Proof. destruct s as [b|[|k r]]; try discriminate. reflexivity. Qed.

Lemma forallb_true {A} (f : A -> bool) l : (forall x, f x = true) -> forallb f l = true.
Proof. intros H. induction l as [|x r IH]; [reflexivity|]. cbn [forallb]. now rewrite H, IH. Qed.

Lemma coll_schema_valid ds jf items k l :
  jvalid false ds jf (JS ([KwType [JArray]] ++ (if is_empty items then [] else [KwItems items])
                         ++ match norm_kind k with KSet | KFrozenSet => [KwSetUnique] | _ => [] end)) (PList l)
  = forallb (jvalid false ds jf items) l.
Proof.
  destruct (is_empty items) eqn:E.
  - apply is_empty_eq in E. subst items.
    rewrite (forallb_true (jvalid false ds jf (JS []))) by (intros; apply jvalid_empty).
    destruct (norm_kind k); rewrite jvalid_JS; reflexivity.
  - destruct (norm_kind k); rewrite jvalid_JS; cbn [app nullable existsb orb andb forallb kw_valid flat_kw type_ok memt jtype_eqb prefix_len fold_left skipn];
      rewrite ?andb_true_r; reflexivity.
Qed.

Lemma nullable_coll items k :
  nullable ([KwType [JArray]] ++ (if is_empty items then [] else [KwItems items])
            ++ match norm_kind k with KSet | KFrozenSet => [KwSetUnique] | _ => [] end) = false.
Proof. destruct (is_empty items); destruct (norm_kind k); reflexivity. Qed.

Lemma jvalid_type_fail ss ds fuel ts kws d :
  nullable (KwType ts :: kws) = false -> type_ok ts d = false -> jvalid ss ds fuel (JS (KwType ts :: kws)) d = false.
Proof. intros Hn Ht. rewrite jvalid_JS, Hn. cbn [andb orb forallb kw_valid flat_kw]. now rewrite Ht. Qed.

Lemma tuple_schema_valid ds jf (ss : list js) l :
  jvalid false ds jf (JS ([KwType [JArray]] ++ (match ss with [] => [] | _ => [KwPrefixItems ss] end)
                         ++ [KwItems (JBoolS false); KwCon (KMinItems (List.length ss)); KwCon (KMaxItems (List.length ss))])) (PList l)
  = Nat.eqb (List.length l) (List.length ss) && zip_valid (jvalid false ds jf) ss l.
Proof.
  assert (Hfalse : forall l', forallb (jvalid false ds jf (JBoolS false)) l' = match l' with [] => true | _ => false end).
  { intros l'. destruct l' as [|x r]; [reflexivity|]. cbn [forallb]. now rewrite jvalid_bool. }
  assert (Hskip : forall n, forallb (jvalid false ds jf (JBoolS false)) (skipn n l) && Nat.leb n (List.length l) && Nat.leb (List.length l) n
                            = Nat.eqb (List.length l) n).
  { intros n. rewrite Hfalse. destruct (Nat.eqb_spec (List.length l) n) as [E|E].
    - subst n. rewrite skipn_all, !Nat.leb_refl. reflexivity.
    - destruct (Nat.leb_spec n (List.length l)), (Nat.leb_spec (List.length l) n); try lia; now rewrite ?andb_false_r. }
  destruct ss as [|s0 sr].
  - rewrite jvalid_JS. cbn [app nullable existsb orb andb forallb kw_valid flat_kw type_ok memt jtype_eqb prefix_len fold_left con_valid cvalid data_len List.length zip_valid].
    rewrite andb_true_r. specialize (Hskip 0). rewrite <- Hskip. btauto.
  - rewrite jvalid_JS. cbn [app nullable existsb orb andb forallb kw_valid flat_kw type_ok memt jtype_eqb prefix_len fold_left con_valid cvalid data_len].
    rewrite andb_true_r. rewrite <- (Hskip (List.length (s0 :: sr))). btauto.
Qed.

Lemma nullable_tuple (ss : list js) :
  nullable ([KwType [JArray]] ++ (match ss with [] => [] | _ => [KwPrefixItems ss] end)
            ++ [KwItems (JBoolS false); KwCon (KMinItems (List.length ss)); KwCon (KMaxItems (List.length ss))]) = false.
Proof. destruct ss; reflexivity. Qed.

Lemma zip_agree (jv : js -> pyval -> bool) (Bf : ty -> js) (h : ty -> pyval -> sres) ts : forall l,
  (forall t, In t ts -> forall x, In x l -> jv (Bf t) x = accepts (h t x)) ->
  (forall t, In t ts -> forall x, h t x <> SFuel) ->
  zip_valid jv (map Bf ts) l = match all_ok (zip_spec h ts l) with Some (Some _) => true | _ => false end.
Proof.
  induction ts as [|t1 tr IH]; intros l H Hnf; [destruct l; reflexivity|]. destruct l as [|x r]; [reflexivity|].
  cbn [map zip_valid zip_spec all_ok].
  rewrite (H t1 (or_introl eq_refl) x (or_introl eq_refl)).
  assert (IHr : zip_valid jv (map Bf tr) r = match all_ok (zip_spec h tr r) with Some (Some _) => true | _ => false end).
  { apply IH.
    - intros t Ht y Hy. apply H; right; assumption.
    - intros t Ht y. apply Hnf. right. exact Ht. }
  rewrite IHr.
  assert (H1 := Hnf t1 (or_introl eq_refl) x).
  destruct (h t1 x); try congruence; cbn [accepts andb];
    destruct (all_ok (zip_spec h tr r)) as [[vs|]|]; reflexivity.
Qed.

Lemma existsb_in_ext {A} (f g : A -> bool) l : (forall x, In x l -> f x = g x) -> existsb f l = existsb g l.
Proof.
  intros H. induction l as [|x r IH]; [reflexivity|]. cbn [existsb].
  rewrite H by (left; reflexivity). rewrite IH; [reflexivity|]. intros y Hy. apply H. right. exact Hy.
Qed.

Lemma literal_schema_valid' ds jf vs d : in_domain d = true ->
  jvalid false ds jf (literal_schema vs) d = existsb (fun p => json_eq (prim_data p) d) vs.
Proof.
  intros Hd. rewrite <- (literal_schema_valid vs d Hd).
  unfold literal_schema. destruct vs as [|v [|v' r]]; rewrite !jvalid_JS; reflexivity.
Qed.

Lemma in_domain_dict kvs : in_domain (PDict kvs) = true -> forall kv, In kv kvs -> in_domain (snd kv) = true.
Proof.
  cbn [in_domain]. induction kvs as [|[k x] r IH]; intros H kv Hin; [destruct Hin|].
  apply andb_true_iff in H. destruct H as [Hx Hr]. destruct Hin as [<-|Hin]; [exact Hx|]. now apply IH.
Qed.

Definition names_of (key : js) : list kw := match key with JS [KwType _] => [] | _ => [KwPropertyNames key] end.

Lemma names_valid ds jf key kws kvs :
  get_type key = Some [JString] ->
  forallb (fun k => kw_valid false ds jf kws k (PDict kvs)) (names_of key)
  = forallb (fun kv => jvalid false ds jf key (PStr (fst kv))) kvs.
Proof.
  intros Ht. unfold names_of.
  destruct key as [b|[|k0 [|k1 kr]]]; try destruct k0; try (cbn [forallb kw_valid]; now rewrite andb_true_r).
  cbn [get_type fold_right] in Ht. injection Ht as ->. cbn [forallb]. symmetry. apply forallb_true. intros kv.
  now rewrite jvalid_only_type.
Qed.

Lemma map_schema_valid ds jf key value kvs :
  nn key -> get_type key = Some [JString] ->
  jvalid false ds jf (match get_pattern key with
                     | Some p => JS ([KwType [JObject]; KwPatternProps [(p, value)]] ++ names_of key)
                     | None => JS ([KwType [JObject]] ++ (if is_empty value then [] else [KwAddProps value]) ++ names_of key)
                     end) (PDict kvs)
  = forallb (fun kv => jvalid false ds jf key (PStr (fst kv))) kvs && forallb (fun kv => jvalid false ds jf value (snd kv)) kvs.
Proof.
  intros Hnn Ht.
  assert (Hnames_null : nullable (names_of key) = false).
  { unfold names_of. destruct key as [b|[|k0 [|k1 kr]]]; try destruct k0; reflexivity. }
  destruct (get_pattern key) as [p|] eqn:Ep.
  - rewrite jvalid_JS. unfold nullable in *. rewrite existsb_app, Hnames_null. cbn [existsb orb andb].
    rewrite forallb_app. cbn [forallb kw_valid flat_kw type_ok memt existsb jtype_eqb orb pats_valid]. rewrite !andb_true_r.
    rewrite names_valid by exact Ht. rewrite andb_comm. cbn [andb]. rewrite !forallb_and. apply forallb_in_ext. intros kv _.
    destruct (jvalid false ds jf key (PStr (fst kv))) eqn:Ek; [|reflexivity]. cbn [andb].
    assert (Hp : prefixb p (fst kv) = true).
    { destruct key as [b|kws]; [destruct Hnn|]. apply (jvalid_in_con false ds jf kws (KPattern p) (PStr (fst kv)) Hnn); [|exact Ek].
      now apply (get_pattern_in (JS kws)). }
    now rewrite Hp.
  - destruct (is_empty value) eqn:Ev.
    + apply is_empty_eq in Ev. subst value.
      rewrite (forallb_true (fun kv => jvalid false ds jf (JS []) (snd kv))) by (intros; apply jvalid_empty). rewrite andb_true_r.
      rewrite jvalid_JS. unfold nullable in *. cbn [app existsb orb]. rewrite Hnames_null. cbn [andb orb forallb kw_valid flat_kw type_ok memt existsb jtype_eqb].
      now apply names_valid.
    + rewrite jvalid_JS. unfold nullable in *. cbn [app existsb orb]. rewrite Hnames_null. cbn [andb orb forallb kw_valid flat_kw type_ok memt existsb jtype_eqb].
      rewrite names_valid by exact Ht. rewrite andb_comm. f_equal.
      apply forallb_in_ext. intros kv _.
      assert (Ha : additional (KwType [JObject] :: KwAddProps value :: names_of key) (fst kv) = true).
      { unfold additional, prop_names, prop_patterns, names_of.
        destruct key as [b|[|k0 [|k1 kr]]]; try destruct k0; reflexivity. }
      now rewrite Ha.
Qed.

Lemma nullable_map_schema key value :
  nullable (kws_of (match get_pattern key with
                    | Some p => JS ([KwType [JObject]; KwPatternProps [(p, value)]] ++ names_of key)
                    | None => JS ([KwType [JObject]] ++ (if is_empty value then [] else [KwAddProps value]) ++ names_of key)
                    end)) = false.
Proof.
  assert (Hn : nullable (names_of key) = false).
  { unfold names_of. destruct key as [b|[|k0 [|k1 kr]]]; try destruct k0; reflexivity. }
  unfold nullable in *. destruct (get_pattern key); cbn [kws_of]; rewrite ?existsb_app; cbn [existsb orb]; rewrite ?Hn;
    try reflexivity. destruct (is_empty value); cbn [existsb orb app]; rewrite ?existsb_app, ?Hn; reflexivity.
Qed.

Section Main.
  Variable u : univ.
  Variable o : dopts.
  Variable refs : string -> bool.
  Variable ds : defs.
  Hypothesis Henum : forall e, refs (ename_ e) = true -> def_lookup (ename_ e) ds = Some (literal_schema (get_enum u e)).
  Variable jf : nat.      (* fuel of the validator: only followed by non-leaf references *)
  Notation sp := (spec u o).
  Notation B := (build u o refs).

  Lemma get_type_literal vs : get_type (literal_schema vs) = Some (dedup_types (map prim_type vs)).
  Proof. unfold literal_schema. destruct vs as [|v [|v' r]]; reflexivity. Qed.

  Lemma key_type bf : forall kt, key_ok u kt = true -> get_type (B bf true kt) = Some [JString].
  Proof.
    induction kt; cbn [key_ok]; try discriminate; intros Hk.
    - destruct bf; reflexivity.
    - assert (E : B bf true (TLit vs) = literal_schema vs) by (destruct bf; reflexivity). rewrite E, get_type_literal.
      destruct vs as [|v r]; [discriminate|]. rewrite dedup_all_string; [reflexivity | discriminate | exact Hk].
    - rewrite build_TEnum. cbn [negb andb]. rewrite andb_false_r, get_type_literal.
      destruct (get_enum u eid) as [|v r]; [discriminate|]. rewrite dedup_all_string; [reflexivity | discriminate | exact Hk].
    - rewrite build_TCon, get_type_apply_con. now apply IHkt.
  Qed.

  Lemma key_keys_ok : forall kt, key_ok u kt = true -> keys_ok u kt = true.
  Proof. induction kt; cbn [key_ok keys_ok]; try discriminate; auto. Qed.

  Lemma key_obj_free : forall kt, key_ok u kt = true -> obj_free kt = true.
  Proof. induction kt; cbn [key_ok obj_free]; try discriminate; auto. Qed.

  (* schema-side side condition: at each Annotated the constraints can be merged (no second multipleOf / pattern) *)
  Fixpoint con_mergeable (bf : nat) (ign : bool) (t : ty) : bool :=
    match t with
    | TCon c t' => mergeable_into (all_cons c) (kws_of (B bf ign t')) && con_mergeable bf ign t'
    | TColl _ t' => con_mergeable bf false t'
    | TTuple ts | TUnion ts => forallb (con_mergeable bf false) ts
    | TMap kt vt => con_mergeable bf true kt && con_mergeable bf false vt
    | _ => true
    end.

  Theorem frag_agree fuel bf : forall t ign d,
    obj_free t = true -> wf_con t = true -> con_mergeable bf ign t = true -> keys_ok u t = true -> in_domain d = true ->
    jvalid false ds jf (B bf ign t) d = accepts (sp fuel None t d).
  Proof.
    induction t using ty_ind'; intros ign d Hf Hw Hm Hk Hd.
    - (* None *) assert (E : B bf ign TNone = JS [KwType [JNull]]) by (destruct bf; reflexivity).
      rewrite E, jvalid_only_type, spec_TNone. destruct d as [|x|z|f|s|l|l|tg]; try destruct f; reflexivity.
    - assert (E : B bf ign TBool = JS [KwType [JBoolean]]) by (destruct bf; reflexivity).
      rewrite E, jvalid_only_type, spec_TBool. destruct d as [|x|z|f|s|l|l|tg]; try destruct f; reflexivity.
    - assert (E : B bf ign TInt = JS [KwType [JInteger]]) by (destruct bf; reflexivity).
      rewrite E, jvalid_only_type, spec_TInt. destruct d as [|x|z|f|s|l|l|tg]; try reflexivity.
      destruct f as [q| |]; try reflexivity. cbn [in_domain] in Hd. cbn [type_ok memt existsb jtype_eqb orb andb]. now rewrite (proj1 (negb_true_iff _) Hd).
    - assert (E : B bf ign TFloat = JS [KwType [JNumber]]) by (destruct bf; reflexivity).
      rewrite E, jvalid_only_type, spec_TFloat. destruct d as [|x|z|f|s|l|l|tg]; try reflexivity.
      + cbn [in_domain] in Hd. now rewrite Hd.
      + destruct f; try reflexivity; discriminate.
    - assert (E : B bf ign TStr = JS [KwType [JString]]) by (destruct bf; reflexivity).
      rewrite E, jvalid_only_type, spec_TStr. destruct d as [|x|z|f|s|l|l|tg]; try destruct f; reflexivity.
    - assert (E : B bf ign TAny = JS []) by (destruct bf; reflexivity).
      rewrite E, jvalid_empty, spec_TAny. destruct d; reflexivity.
    - (* collection *)
      cbn [obj_free wf_con con_mergeable keys_ok] in *. rewrite build_TColl, spec_TColl. cbv zeta.
      destruct d as [|x|z|f|s|l|kvs|tg];
        try (apply jvalid_type_fail; [apply nullable_coll | reflexivity]).
      + apply jvalid_type_fail; [apply nullable_coll | destruct f; reflexivity].
      + rewrite coll_schema_valid.
        assert (Hl : forall x, In x l -> jvalid false ds jf (B bf false t) x = accepts (sp fuel None t x)).
        { intros x Hx. apply IHt; auto. cbn [in_domain] in Hd. rewrite forallb_forall in Hd. auto. }
        rewrite (forallb_in_ext _ _ _ Hl).
        assert (Hnf : forall x, In x l -> sp fuel None t x <> SFuel) by (intros; now apply obj_free_no_fuel).
        rewrite <- (accepts_all_ok (sp fuel None t) l Hnf).
        destruct (all_ok (map (sp fuel None t) l)) as [[vs|]|]; reflexivity.
    - (* tuple *)
      cbn [obj_free wf_con con_mergeable keys_ok] in *. rewrite build_TTuple, spec_TTuple. cbv zeta.
      rewrite <- (map_length (B bf false) ts) at 1 2.
      destruct d as [|x|z|f|s|l|kvs|tg]; try (apply jvalid_type_fail; [apply nullable_tuple | reflexivity]).
      + apply jvalid_type_fail; [apply nullable_tuple | destruct f; reflexivity].
      + rewrite tuple_schema_valid, map_length.
        destruct (Nat.eqb (List.length l) (List.length ts)) eqn:El; cbn [negb andb]; [|reflexivity].
        rewrite (zip_agree (jvalid false ds jf) (B bf false) (sp fuel None) ts l).
        * destruct (all_ok (zip_spec (sp fuel None) ts l)) as [[vs|]|]; reflexivity.
        * intros t Ht x Hx. rewrite Forall_forall in H. apply H; auto.
          -- rewrite forallb_forall in Hf. auto.
          -- rewrite forallb_forall in Hw. auto.
          -- rewrite forallb_forall in Hm. auto.
          -- rewrite forallb_forall in Hk. auto.
          -- cbn [in_domain] in Hd. rewrite forallb_forall in Hd. auto.
        * intros t Ht x. apply obj_free_no_fuel. rewrite forallb_forall in Hf. auto.
    - (* mapping *)
      cbn [obj_free wf_con con_mergeable keys_ok] in *.
      apply andb_true_iff in Hf. destruct Hf as [Hf1 Hf2]. apply andb_true_iff in Hw. destruct Hw as [Hw1 Hw2].
      apply andb_true_iff in Hm. destruct Hm as [Hm1 Hm2]. apply andb_true_iff in Hk. destruct Hk as [Hk1 Hk2].
      rewrite build_TMap, spec_TMap. cbv zeta.
      set (key := B bf true t1). set (value := B bf false t2).
      change (match key with JS [KwType _] => [] | _ => [KwPropertyNames key] end) with (names_of key).
      pose proof (build_nn u o refs bf t1 true Hf1) as Hnn. fold key in Hnn.
      pose proof (key_type bf t1 Hk1) as Hkt. fold key in Hkt.
      destruct d as [|x|z|f|s|l|kvs|tg].
      1-6,8: (pose proof (nullable_map_schema key value) as Hnull;
              destruct (get_pattern key); cbn [kws_of] in Hnull; (apply jvalid_type_fail; [exact Hnull | try destruct f; reflexivity])).
      rewrite map_schema_valid by assumption.
      assert (HK : forall kv, In kv kvs -> jvalid false ds jf key (PStr (fst kv)) = accepts (sp fuel None t1 (PStr (fst kv)))).
      { intros kv _. apply IHt1; auto. now apply key_keys_ok. }
      assert (HV : forall kv, In kv kvs -> jvalid false ds jf value (snd kv) = accepts (sp fuel None t2 (snd kv))).
      { intros kv Hkv. apply IHt2; auto. eapply in_domain_dict; eassumption. }
      rewrite (forallb_in_ext _ _ _ HK), (forallb_in_ext _ _ _ HV).
      assert (N1 : forall kv, In kv kvs -> sp fuel None t1 (PStr (fst kv)) <> SFuel) by (intros; now apply obj_free_no_fuel).
      assert (N2 : forall kv, In kv kvs -> sp fuel None t2 (snd kv) <> SFuel) by (intros; now apply obj_free_no_fuel).
      rewrite <- (accepts_all_ok (fun kv => sp fuel None t1 (PStr (fst kv))) kvs N1).
      rewrite <- (accepts_all_ok (fun kv => sp fuel None t2 (snd kv)) kvs N2).
      destruct (all_ok (map (fun kv => sp fuel None t1 (PStr (fst kv))) kvs)) as [[ks|]|];
        destruct (all_ok (map (fun kv => sp fuel None t2 (snd kv)) kvs)) as [[vs|]|]; reflexivity.
    - (* literal *)
      assert (E : B bf ign (TLit vs) = literal_schema vs) by (destruct bf; reflexivity).
      rewrite E, spec_TLit, literal_schema_valid' by exact Hd. rewrite literal_agree by exact Hd.
      destruct (prim_of d); [destruct (existsb _ vs)|]; reflexivity.
    - (* enum *)
      rewrite build_TEnum, spec_TEnum.
      assert (G : jvalid false ds jf (literal_schema (get_enum u e)) d
                  = accepts match prim_of d with Some p => if existsb (prim_eqb p) (get_enum u e) then SOk (VEnum e p) else SRej | None => SRej end).
      { rewrite literal_schema_valid' by exact Hd. rewrite literal_agree by exact Hd.
        destruct (prim_of d); [destruct (existsb _ _)|]; reflexivity. }
      destruct (refs (ename_ e) && negb ign)%bool eqn:Er; [|exact G].
      apply andb_true_iff in Er. destruct Er as [Er _].
      rewrite jvalid_JS. cbn [nullable existsb orb andb forallb kw_valid]. rewrite (Henum e Er), andb_true_r.
      rewrite (leaf_valid_literal false ds jf). exact G.
    - (* Annotated *)
      cbn [obj_free wf_con con_mergeable keys_ok] in *.
      apply andb_true_iff in Hw. destruct Hw as [Hw Hww]. apply andb_true_iff in Hw. destruct Hw as [Hpl Hcs].
      apply andb_true_iff in Hm. destruct Hm as [Hmg Hmm].
      rewrite build_TCon, spec_TCon. cbn [merge_oc omerge].
      pose proof (build_nn u o refs bf t ign Hf) as Hnn.
      destruct (B bf ign t) as [b|kws] eqn:Eb; [destruct Hnn|]. cbn [nn] in Hnn. cbn [kws_of] in Hmg.
      rewrite apply_con_valid by assumption. rewrite <- Eb.
      rewrite (IHt ign d Hf Hww Hmm Hk Hd).
      rewrite (spec_factor u o fuel t (Some c) d Hf (or_intror Hpl) Hcs Hww). reflexivity.
    - (* Union *)
      cbn [obj_free wf_con con_mergeable keys_ok] in *. rewrite spec_TUnion.
      rewrite accepts_first by (intros t Ht; apply obj_free_no_fuel; rewrite forallb_forall in Hf; auto).
      destruct ts as [|t0 tr].
      + rewrite build_TUnion. cbn [map visited_union existsb forallb flat_map norm_types dedup_types fold_left memt jtype_eqb app].
        rewrite jvalid_only_type. destruct d as [|x|z|f|s|l|l|tg]; try destruct f; reflexivity.
      + rewrite union_type_schema by discriminate.
        apply existsb_in_ext. intros t Ht. rewrite Forall_forall in H. apply H; auto.
        * rewrite forallb_forall in Hf. auto.
        * rewrite forallb_forall in Hw. auto.
        * rewrite forallb_forall in Hm. auto.
        * rewrite forallb_forall in Hk. auto.
    - discriminate.
  Qed.
End Main.
