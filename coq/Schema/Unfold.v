(* jvalid, keyword by keyword. *)
From Coq Require Import List String ZArith Bool Arith.
From AV Require Import Core.Json Core.Text Deser.Model Schema.Json.
Import ListNotations.

Lemma jvalid_bool ss ds fuel b d : jvalid ss ds fuel (JBoolS b) d = b.
Proof. destruct fuel; reflexivity. Qed.

Lemma jvalid_JS ss ds fuel kws d :
  jvalid ss ds fuel (JS kws) d = (nullable kws && is_null d) || forallb (fun k => kw_valid ss ds fuel kws k d) kws.
Proof. destruct fuel; reflexivity. Qed.
