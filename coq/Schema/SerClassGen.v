(* C07 for classes with every serialization option (skip(...), defaults, none_as_undefined, Undefined unions, exclude_none,
   exclude_defaults, any order(), serialized methods returning primitives), given inline: what serialization produces
   validates against the schema of the model of SerializationSchemaBuilder.  Instance of Schema/ImageInvGen.v. *)
From Coq Require Import List String ZArith Bool Arith Lia.
From AV Require Import Core.Json Core.Errors Core.Text Core.Util Small.Ordering Deser.Model Deser.Spec Deser.Unfold Deser.Loops
  Ser.Model Ser.Spec Ser.RoundTrip Ser.RoundTripInd Ser.ImageInv
  Schema.Json Schema.Unfold Schema.Build Schema.Proofs Schema.ConProofs Schema.ShapeProofs Schema.AgreeProofs Schema.ObjAgree Schema.RefAgree
  Schema.BuildSer Schema.SerClassProofs Schema.SerRequired Schema.ImageInvGen.
Import ListNotations.
Open Scope string_scope.

Lemma dict_get_in {A} k (l : list (string * A)) x : dict_get k l = Some x -> In (k, x) l.
Proof.
  induction l as [|[k' x'] r IH]; cbn [dict_get]; [discriminate|].
  destruct (String.eqb k k') eqn:E; [intros [= ->]; apply String.eqb_eq in E; subst; now left | intros H; right; now apply IH].
Qed.

Lemma sd_inj {A} (f : A -> string) l : forall seen, sd seen (map f l) = true ->
  forall a b, In a l -> In b l -> f a = f b -> a = b.
Proof.
  induction l as [|x r IH]; intros seen H a b Ha Hb E; [contradiction|].
  cbn [map sd] in H. apply andb_true_iff in H. destruct H as [_ Hr].
  destruct Ha as [<-|Ha], Hb as [<-|Hb]; try reflexivity.
  - exfalso. pose proof (sd_fresh _ _ (f b) Hr (in_map f r b Hb)) as Hf. rewrite existsb_app in Hf. apply orb_false_iff in Hf.
    destruct Hf as [_ Hf]. cbn in Hf. rewrite <- E, String.eqb_refl in Hf. discriminate.
  - exfalso. pose proof (sd_fresh _ _ (f a) Hr (in_map f r a Ha)) as Hf. rewrite existsb_app in Hf. apply orb_false_iff in Hf.
    destruct Hf as [_ Hf]. cbn in Hf. rewrite E, String.eqb_refl in Hf. discriminate.
  - exact (IH _ Hr a b Ha Hb E).
Qed.

Section SCG.
  Variable u : univ.
  Variable so : sopts.
  Variable refs : string -> bool.
  Variable ds : defs.
  Variable jf : nat.
  Hypothesis Henum : forall e, refs (ename_ e) = true -> def_lookup (ename_ e) ds = Some (literal_schema (get_enum u e)).
  Hypothesis Hinline : forall c, refs (cname c) = false.       (* classes given inline *)
  Notation BS := (build_ser u so refs).
  Notation QV := (SerClassProofs.QV u so refs ds jf).
  Notation fits := (SerClassProofs.fits u).

  Lemma fits_prim_method f sm : prim_method sm = true -> fits f (sm_ty sm) = true.
  Proof. unfold prim_method. destruct (sm_ty sm); try discriminate; destruct f; reflexivity. Qed.

  Lemma QVG_obj c (dk : list (string * pyval)) :
    gcls u so (get_cls u c) ->
    sd [] (map fst dk) = true ->
    (forall k d, In (k, d) dk -> exists e, In e (elems_of (get_cls u c)) /\ k = elem_alias so e /\ QV (elem_ty e) d) ->
    (forall e, In e (elems_of (get_cls u c)) -> elem_required so (get_cls u c) e = true -> dict_has (elem_alias so e) dk = true) ->
    QV (TObj c) (PDict dk).
  Proof.
    intros [Htd [Hfs [[es0 Hes] [Hal [Hnames [Hftys [Hmeths Hdep]]]]]]] Hsd Hall Hreq bf ign Hfit Hd.
    rewrite (bs_TObj u so refs), Hinline. cbn [andb]. destruct bf as [|f]; [rewrite fits_TObj_O in Hfit; discriminate|].
    rewrite fits_TObj_S in Hfit. unfold ser_object_schema. cbv zeta.
    set (cd := get_cls u c) in *. set (es := elems_of cd) in *.
    unfold depreq_schema_s. rewrite Hdep. cbn [flat_map map fold_right]. rewrite app_nil_r.
    set (sch := fun e => match e with
                         | EField fd => apply_con (fd_con fd) (BS f false (fd_ty fd))
                         | EMethod sm => BS f false (sm_ty sm) end).
    set (props := map (fun e => (elem_alias so e, sch e)) es).
    set (required := map (elem_alias so) (filter (elem_required so cd) es)).
    set (kws := ([KwType [JObject]] ++ match props with [] => [] | _ :: _ => [KwProperties props] end
                 ++ match required with [] => [] | _ :: _ => [KwRequired required] end
                 ++ (if so_addprops so then [] else [KwAddProps (JBoolS false)]))%list).
    assert (Hnull : nullable kws = false).
    { unfold kws, nullable. rewrite !existsb_app. destruct props, required, (so_addprops so); reflexivity. }
    assert (Hpn : prop_names kws = map fst props).
    { unfold kws, prop_names. rewrite !flat_map_app. destruct props as [|p0 pr] eqn:Ep, required, (so_addprops so); cbn; rewrite ?app_nil_r; reflexivity. }
    assert (Hpats : prop_patterns kws = []).
    { unfold kws, prop_patterns. rewrite !flat_map_app. destruct props, required, (so_addprops so); reflexivity. }
    (* the schema of an element accepts what Q says of its type *)
    assert (Helem : forall e x, In e es -> QV (elem_ty e) x -> in_domain x = true -> jvalid false ds jf (sch e) x = true).
    { intros e x Hin Hq Hdx. pose proof (ordered_elems_sub cd es0 e Hes) as Hsub.
      assert (Hin0 : In e es0) by (unfold es, elems_of in Hin; rewrite Hes in Hin; exact Hin).
      specialize (Hsub Hin0). apply in_app_or in Hsub. destruct e as [fd|sm]; cbn [sch elem_ty] in *.
      - assert (Hfd : In fd (cd_fields cd)).
        { destruct Hsub as [Hs|Hs]; apply in_map_iff in Hs; destruct Hs as [y [Hy Hyin]]; [injection Hy as ->; exact Hyin|discriminate]. }
        rewrite forallb_forall in Hftys, Hfit. pose proof (Hftys fd Hfd) as Hft. apply andb_true_iff in Hft. destruct Hft as [_ Hcon].
        destruct (fd_con fd); [discriminate|]. cbn [apply_con]. apply (Hq f false (Hfit fd Hfd) Hdx).
      - assert (Hsm : In sm (cd_methods cd)).
        { destruct Hsub as [Hs|Hs]; apply in_map_iff in Hs; destruct Hs as [y [Hy Hyin]]; [discriminate|injection Hy as ->; exact Hyin]. }
        rewrite forallb_forall in Hmeths. apply (Hq f false (fits_prim_method f sm (Hmeths sm Hsm)) Hdx). }
    change (jvalid false ds jf (JS kws) (PDict dk) = true).
    rewrite jvalid_JS, Hnull. cbn [andb orb]. unfold kws at 2. rewrite !forallb_app.
    cbn [forallb kw_valid flat_kw type_ok memt existsb jtype_eqb orb andb].
    (* properties: a key present in the output belongs to exactly one element *)
    assert (HP : forallb (fun k => kw_valid false ds jf kws k (PDict dk)) match props with [] => [] | _ :: _ => [KwProperties props] end = true).
    { assert (Hpv : props_valid (jvalid false ds jf) props dk = true).
      { unfold props.
        assert (Hgen : forall l, (forall e, In e l -> In e es) ->
                                 props_valid (jvalid false ds jf) (map (fun e => (elem_alias so e, sch e)) l) dk = true);
          [|apply Hgen; auto].
        induction l as [|e r IH]; intros Hsub; [reflexivity|]. cbn [map props_valid].
        rewrite IH by (intros e' He'; apply Hsub; now right). rewrite andb_true_r.
        destruct (dict_get (elem_alias so e) dk) as [x|] eqn:Eg; [|reflexivity].
        apply dict_get_in in Eg. destruct (Hall _ _ Eg) as [e' [He' [Ea Hq]]].
        assert (Ee : e = e') by (apply (sd_inj (elem_alias so) es [] Hal); auto; apply Hsub; now left). subst e'.
        apply Helem; [apply Hsub; now left | exact Hq | exact (in_domain_dict dk Hd _ Eg)]. }
      destruct props; [reflexivity|]. cbn [forallb kw_valid] in *. rewrite Hpv. reflexivity. }
    assert (HR : forallb (fun k => kw_valid false ds jf kws k (PDict dk)) match required with [] => [] | _ :: _ => [KwRequired required] end = true).
    { assert (Hrq : forallb (fun r => dict_has r dk) required = true).
      { unfold required. apply forallb_forall. intros r Hr. apply in_map_iff in Hr. destruct Hr as [e [<- He]].
        apply filter_In in He. destruct He as [Hin Hq]. now apply Hreq. }
      destruct required; [reflexivity|]. cbn [forallb kw_valid flat_kw required_ok] in *. rewrite Hrq. reflexivity. }
    rewrite HP, HR. cbn [andb].
    destruct (so_addprops so); [reflexivity|]. cbn [forallb kw_valid]. rewrite andb_true_r.
    apply forallb_forall. intros [k x] Hkv. rewrite jvalid_bool, orb_false_r. unfold additional. rewrite Hpn, Hpats.
    cbn [existsb negb fst]. rewrite andb_true_r, negb_involutive. unfold props. rewrite map_map. cbn [fst].
    destruct (Hall k x Hkv) as [e [He [-> _]]].
    apply existsb_exists. exists (elem_alias so e). split; [now apply in_map | apply String.eqb_refl].
  Qed.

  (* ---- THE STATEMENT for classes with every serialization option *)
  Theorem serialized_output_validates_all_options n t v :
    rt_ty u t = true -> ctxg u so t -> has_type u n t v = true -> canonical u v = true ->
    exists j d, image u so (S n) t v = SROk j /\ unembed j = Some d /\
                forall bf ign, fits bf t = true -> in_domain d = true -> jvalid false ds jf (BS bf ign t) d = true.
  Proof.
    intros Hrt Hctx Hht Hcan.
    exact (image_invariant_gen u so QV (QV_none u so refs ds jf) (QV_bool u so refs ds jf) (QV_int u so refs ds jf)
             (QV_float u so refs ds jf) (QV_str u so refs ds jf) (QV_coll u so refs ds jf) (QV_tuple u so refs ds jf)
             (QV_map u so refs ds jf) (QV_lit u so refs ds jf) (QV_enum u so refs ds jf Henum) (QV_union u so refs ds jf)
             QVG_obj n t v Hrt Hctx Hht Hcan).
  Qed.
End SCG.

(* ------------------------------------------------------------------ classes given by reference as well *)
Section SCGR.
  Variable u : univ.
  Variable so : sopts.
  Variable refs : string -> bool.
  Variable ds : defs.
  Variable mD : nat.
  Hypothesis Henum : forall e, refs (ename_ e) = true -> def_lookup (ename_ e) ds = Some (literal_schema (get_enum u e)).
  Notation BS := (build_ser u so refs).
  Notation QR := (SerClassProofs.QR u so refs ds).
  Notation fitsr := (SerClassProofs.fitsr u refs).
  Hypothesis Hdefs : forall c, refs (cname c) = true ->
    def_lookup (cname c) ds = Some (BS (S mD) true (TObj c))
    /\ forallb (fun fd => fitsr mD (fd_ty fd)) (cd_fields (get_cls u c)) = true.

  Definition elem_schema (f : nat) (e : elem) : js :=
    match e with
    | EField fd => apply_con (fd_con fd) (BS f false (fd_ty fd))
    | EMethod sm => BS f false (sm_ty sm)
    end.

  (* the keywords of the object schema, evaluated on a datum holding a subset of the properties *)
  Lemma gen_object_valid c f jf ign (dk : list (string * pyval)) :
    (refs (cname c) && negb ign)%bool = false ->
    gcls u so (get_cls u c) ->
    sd [] (map fst dk) = true ->
    (forall k d, In (k, d) dk -> exists e, In e (elems_of (get_cls u c)) /\ k = elem_alias so e
                                           /\ jvalid false ds jf (elem_schema f e) d = true) ->
    (forall e, In e (elems_of (get_cls u c)) -> elem_required so (get_cls u c) e = true -> dict_has (elem_alias so e) dk = true) ->
    jvalid false ds jf (BS (S f) ign (TObj c)) (PDict dk) = true.
  Proof.
    intros Href [Htd [Hfs [[es0 Hes] [Hal [Hnames [Hftys [Hmeths Hdep]]]]]]] Hsd Hall Hreq.
    rewrite (bs_TObj u so refs), Href. unfold ser_object_schema. cbv zeta.
    set (cd := get_cls u c) in *. set (es := elems_of cd) in *.
    unfold depreq_schema_s. rewrite Hdep. cbn [flat_map map fold_right]. rewrite app_nil_r.
    set (props := map (fun e => (elem_alias so e, elem_schema f e)) es).
    set (required := map (elem_alias so) (filter (elem_required so cd) es)).
    set (kws := ([KwType [JObject]] ++ match props with [] => [] | _ :: _ => [KwProperties props] end
                 ++ match required with [] => [] | _ :: _ => [KwRequired required] end
                 ++ (if so_addprops so then [] else [KwAddProps (JBoolS false)]))%list).
    assert (Hnull : nullable kws = false).
    { unfold kws, nullable. rewrite !existsb_app. destruct props, required, (so_addprops so); reflexivity. }
    assert (Hpn : prop_names kws = map fst props).
    { unfold kws, prop_names. rewrite !flat_map_app. destruct props as [|p0 pr] eqn:Ep, required, (so_addprops so); cbn; rewrite ?app_nil_r; reflexivity. }
    assert (Hpats : prop_patterns kws = []).
    { unfold kws, prop_patterns. rewrite !flat_map_app. destruct props, required, (so_addprops so); reflexivity. }
    change (jvalid false ds jf (JS kws) (PDict dk) = true).
    rewrite jvalid_JS, Hnull. cbn [andb orb]. unfold kws at 2. rewrite !forallb_app.
    cbn [forallb kw_valid flat_kw type_ok memt existsb jtype_eqb orb andb].
    assert (HP : forallb (fun k => kw_valid false ds jf kws k (PDict dk)) match props with [] => [] | _ :: _ => [KwProperties props] end = true).
    { assert (Hpv : props_valid (jvalid false ds jf) props dk = true).
      { unfold props.
        assert (Hgen : forall l, (forall e, In e l -> In e es) ->
                                 props_valid (jvalid false ds jf) (map (fun e => (elem_alias so e, elem_schema f e)) l) dk = true);
          [|apply Hgen; auto].
        induction l as [|e r IH]; intros Hsub; [reflexivity|]. cbn [map props_valid].
        rewrite IH by (intros e' He'; apply Hsub; now right). rewrite andb_true_r.
        destruct (dict_get (elem_alias so e) dk) as [x|] eqn:Eg; [|reflexivity].
        apply dict_get_in in Eg. destruct (Hall _ _ Eg) as [e' [He' [Ea Hv]]].
        assert (Ee : e = e') by (apply (sd_inj (elem_alias so) es [] Hal); auto; apply Hsub; now left). subst e'. exact Hv. }
      destruct props; [reflexivity|]. cbn [forallb kw_valid] in *. rewrite Hpv. reflexivity. }
    assert (HR : forallb (fun k => kw_valid false ds jf kws k (PDict dk)) match required with [] => [] | _ :: _ => [KwRequired required] end = true).
    { assert (Hrq : forallb (fun r => dict_has r dk) required = true).
      { unfold required. apply forallb_forall. intros r Hr. apply in_map_iff in Hr. destruct Hr as [e [<- He]].
        apply filter_In in He. destruct He as [Hin Hq]. now apply Hreq. }
      destruct required; [reflexivity|]. cbn [forallb kw_valid flat_kw required_ok] in *. rewrite Hrq. reflexivity. }
    rewrite HP, HR. cbn [andb].
    destruct (so_addprops so); [reflexivity|]. cbn [forallb kw_valid]. rewrite andb_true_r.
    apply forallb_forall. intros [k x] Hkv. rewrite jvalid_bool, orb_false_r. unfold additional. rewrite Hpn, Hpats.
    cbn [existsb negb fst]. rewrite andb_true_r, negb_involutive. unfold props. rewrite map_map. cbn [fst].
    destruct (Hall k x Hkv) as [e [He [-> _]]].
    apply existsb_exists. exists (elem_alias so e). split; [now apply in_map | apply String.eqb_refl].
  Qed.

  Lemma fitsr_prim_method f sm : prim_method sm = true -> fitsr f (sm_ty sm) = true.
  Proof. unfold prim_method. destruct (sm_ty sm); try discriminate; destruct f; reflexivity. Qed.

  Lemma QRG_obj c (dk : list (string * pyval)) :
    gcls u so (get_cls u c) ->
    sd [] (map fst dk) = true ->
    (forall k d, In (k, d) dk -> exists e, In e (elems_of (get_cls u c)) /\ k = elem_alias so e /\ QR (elem_ty e) d) ->
    (forall e, In e (elems_of (get_cls u c)) -> elem_required so (get_cls u c) e = true -> dict_has (elem_alias so e) dk = true) ->
    QR (TObj c) (PDict dk).
  Proof.
    intros Hg Hsd Hall Hreq bf jf Hfit Hdd Hd. rewrite fitsr_TObj in Hfit.
    pose proof Hg as [Htd [Hfs [[es0 Hes] [Hal [Hnames [Hftys [Hmeths Hdep]]]]]]].
    assert (Hsub : forall jf' f, forallb (fun fd => fitsr f (fd_ty fd)) (cd_fields (get_cls u c)) = true ->
               (forall kd, In kd dk -> dd (snd kd) <= jf') ->
               forall k d, In (k, d) dk -> exists e, In e (elems_of (get_cls u c)) /\ k = elem_alias so e
                                                     /\ jvalid false ds jf' (elem_schema f e) d = true).
    { intros jf' f Hf Hle k d Hin. destruct (Hall k d Hin) as [e [He [Ek Hq]]]. exists e. split; [exact He|]. split; [exact Ek|].
      assert (Hin0 : In e es0) by (unfold elems_of in He; rewrite Hes in He; exact He).
      pose proof (ordered_elems_sub (get_cls u c) es0 e Hes Hin0) as Hs. apply in_app_or in Hs.
      assert (Hdx : in_domain d = true) by (exact (in_domain_dict dk Hd _ Hin)).
      assert (Hddx : dd d <= jf') by (exact (Hle _ Hin)).
      destruct e as [fd|sm]; cbn [elem_schema elem_ty] in *.
      - assert (Hfd : In fd (cd_fields (get_cls u c))).
        { destruct Hs as [Hs|Hs]; apply in_map_iff in Hs; destruct Hs as [y [Hy Hyin]]; [injection Hy as ->; exact Hyin|discriminate]. }
        rewrite forallb_forall in Hftys, Hf. pose proof (Hftys fd Hfd) as Hft. apply andb_true_iff in Hft. destruct Hft as [_ Hcon].
        destruct (fd_con fd); [discriminate|]. cbn [apply_con]. apply (Hq f jf' (Hf fd Hfd) Hddx Hdx).
      - assert (Hsm : In sm (cd_methods (get_cls u c))).
        { destruct Hs as [Hs|Hs]; apply in_map_iff in Hs; destruct Hs as [y [Hy Hyin]]; [discriminate|injection Hy as ->; exact Hyin]. }
        rewrite forallb_forall in Hmeths. apply (Hq f jf' (fitsr_prim_method f sm (Hmeths sm Hsm)) Hddx Hdx). }
    destruct (refs (cname c)) eqn:Er.
    - (* through the reference *)
      rewrite (bs_TObj u so refs), Er. cbn [negb andb]. rewrite jvalid_JS. cbn [nullable existsb orb andb forallb kw_valid].
      destruct (Hdefs c Er) as [Hlook Hfd]. rewrite Hlook, andb_true_r.
      destruct jf as [|jf']; [cbn [dd] in Hdd; lia|].
      apply (gen_object_valid c mD jf' true dk); auto.
      + rewrite andb_false_r. reflexivity.
      + apply (Hsub jf' mD); auto. intros kd Hin. pose proof (dd_dict dk (snd kd) (in_map snd _ _ Hin)). lia.
    - (* inline *)
      cbn [orb] in Hfit. destruct bf as [|f]; [discriminate|].
      apply (gen_object_valid c f jf false dk); auto.
      + rewrite Er. reflexivity.
      + apply (Hsub jf f); auto. intros kd Hin. pose proof (dd_dict dk (snd kd) (in_map snd _ _ Hin)). lia.
  Qed.

  Theorem serialized_output_validates_all_options_with_refs n t v :
    rt_ty u t = true -> ctxg u so t -> has_type u n t v = true -> canonical u v = true ->
    exists j d, image u so (S n) t v = SROk j /\ unembed j = Some d /\
                forall bf jf, fitsr bf t = true -> dd d <= jf -> in_domain d = true -> jvalid false ds jf (BS bf false t) d = true.
  Proof.
    intros Hrt Hctx Hht Hcan.
    exact (image_invariant_gen u so QR (QR_none u so refs ds) (QR_bool u so refs ds) (QR_int u so refs ds)
             (QR_float u so refs ds) (QR_str u so refs ds) (QR_coll u so refs ds) (QR_tuple u so refs ds)
             (QR_map u so refs ds) (QR_lit u so refs ds) (QR_enum u so refs ds Henum) (QR_union u so refs ds)
             QRG_obj n t v Hrt Hctx Hht Hcan).
  Qed.
End SCGR.

(* ------------------------------------------------------------------ executable hypotheses *)
Definition gcls_b (u : univ) (o : sopts) (cd : cdef) : bool :=
  negb (is_typed_dict cd) && negb (cd_fields_set cd)
  && match ordered_elems cd with Some _ => true | None => false end
  && sd [] (map (elem_alias o) (elems_of cd))
  && sd [] (map fd_name (cd_fields cd))
  && forallb (fun fd => rt_ty u (fd_ty fd) && match fd_con fd with None => true | Some _ => false end) (cd_fields cd)
  && forallb prim_method (cd_methods cd)
  && match cd_depreq cd with [] => true | _ => false end.

Lemma gcls_b_ok u o cd : gcls_b u o cd = true -> gcls u o cd.
Proof.
  unfold gcls_b, gcls. intros H. repeat (apply andb_true_iff in H; destruct H as [H ?]).
  apply negb_true_iff in H. repeat match goal with Hx : negb _ = true |- _ => apply negb_true_iff in Hx end.
  repeat split; try assumption.
  - destruct (ordered_elems cd) as [es|]; [eauto|discriminate].
  - destruct (cd_depreq cd); [reflexivity|discriminate].
Qed.

Definition guniv_b (u : univ) (o : sopts) : bool := forallb (gcls_b u o) (u_classes u).

Lemma guniv_b_ok u o : guniv_b u o = true -> guniv u o.
Proof.
  unfold guniv_b, guniv. intros Hall c. apply gcls_b_ok. unfold get_cls.
  destruct (nth_in_or_default c (u_classes u) empty_cls) as [Hin|Hdef].
  - rewrite forallb_forall in Hall. apply Hall. exact Hin.
  - rewrite Hdef. reflexivity.
Qed.

Section SCGModel.
  Variable u : univ.
  Variable so : sopts.
  Variable t0 : ty.
  Let names := refs_of_ser u false t0.
  Let refs := refs_pred names.
  Let classes := seq 0 (List.length (u_classes u)).
  Let enums := seq 0 (List.length (u_enums u)).
  Let ds := defs_for_ser u so refs ser_fuel classes enums.

  (* no class is extracted: every class is given inline *)
  Definition all_inline : bool := forallb (fun c => negb (refs (cname c))) classes.

  Lemma inline_all : ser_names_ok u t0 = true -> all_inline = true -> forall c, refs (cname c) = false.
  Proof.
    intros Hn Ha c. destruct (refs (cname c)) eqn:Er; [|reflexivity]. exfalso.
    destruct (ser_ref_listed u t0 _ Hn Er) as [[c' [Hc' E]]|[e [_ E]]].
    - apply cname_inj in E. subst c'. unfold all_inline in Ha. rewrite forallb_forall in Ha. specialize (Ha c Hc').
      fold names refs in Ha. rewrite Er in Ha. discriminate.
    - pose proof (cname_ename c e) as Hne. rewrite E, String.eqb_refl in Hne. discriminate.
  Qed.

  Definition gen_hyps (n : nat) (v : value) : bool :=
    ser_names_ok u t0 && all_inline && SerClassProofs.fits u ser_fuel t0
    && rt_ty u t0 && (no_obj t0 || guniv_b u so) && has_type u n t0 v && canonical u v.

  Theorem serialized_output_validates_all_options_checked n jf v :
    gen_hyps n v = true ->
    exists j d, image u so (S n) t0 v = SROk j /\ unembed j = Some d /\
                (in_domain d = true ->
                 jvalid false (snd (model_ser_schema u so false t0)) jf (fst (model_ser_schema u so false t0)) d = true).
  Proof.
    unfold gen_hyps. intros H. repeat (apply andb_true_iff in H; destruct H as [H ?]).
    match goal with Hx : (no_obj t0 || guniv_b u so)%bool = true |- _ => rename Hx into Hctx end.
    match goal with Hx : all_inline = true |- _ => rename Hx into Hinl end.
    assert (Hc : ctxg u so t0).
    { apply orb_true_iff in Hctx. destruct Hctx as [Hx|Hx]; [left; exact Hx|right; apply guniv_b_ok; exact Hx]. }
    destruct (serialized_output_validates_all_options u so refs ds jf (ser_enum_defs u so t0 H) (inline_all H Hinl) n t0 v)
      as [j [d [Hi [Hu Hv]]]]; try assumption.
    exists j, d. split; [exact Hi|]. split; [exact Hu|]. intros Hd. cbn [model_ser_schema fst snd]. apply Hv; assumption.
  Qed.
  (* classes used several times (given by reference) included *)
  Definition gen_hyps_refs (n : nat) (v : value) : bool :=
    ser_names_ok u t0 && ser_ref_classes_ok u t0 && SerClassProofs.fitsr u refs ser_fuel t0
    && rt_ty u t0 && (no_obj t0 || guniv_b u so) && has_type u n t0 v && canonical u v.

  Theorem serialized_output_validates_all_options_refs_checked n jf v :
    gen_hyps_refs n v = true ->
    exists j d, image u so (S n) t0 v = SROk j /\ unembed j = Some d /\
                (dd d <= jf -> in_domain d = true ->
                 jvalid false (snd (model_ser_schema u so false t0)) jf (fst (model_ser_schema u so false t0)) d = true).
  Proof.
    unfold gen_hyps_refs. intros H. repeat (apply andb_true_iff in H; destruct H as [H ?]).
    match goal with Hx : (no_obj t0 || guniv_b u so)%bool = true |- _ => rename Hx into Hctx end.
    match goal with Hx : ser_ref_classes_ok u t0 = true |- _ => rename Hx into Hcls end.
    assert (Hc : ctxg u so t0).
    { apply orb_true_iff in Hctx. destruct Hctx as [Hx|Hx]; [left; exact Hx|right; apply guniv_b_ok; exact Hx]. }
    destruct (serialized_output_validates_all_options_with_refs u so refs ds (Nat.pred ser_fuel) (ser_enum_defs u so t0 H)
                (ser_class_defs u so t0 H Hcls) n t0 v) as [j [d [Hi [Hu Hv]]]]; try assumption.
    exists j, d. split; [exact Hi|]. split; [exact Hu|]. intros Hdd Hd. cbn [model_ser_schema fst snd]. apply Hv; assumption.
  Qed.
End SCGModel.

(* satisfiable: an order whose lines skip a default, drop None, hold an Undefined union, with a serialized method,
   under exclude_defaults *)
Definition gen_ex_univ : univ := mkU
  [ mkCls KData [ mkF "sku" "sku" TStr true VNone false None no_fser;
                  mkF "qty" "quantity" TInt false (VInt 1) false None (mkFS true SkipNever false false None);
                  mkF "note" "note" (TUnion [TStr; TNone]) false VNone false None (mkFS false SkipNever true false None);
                  mkF "tag" "tag" TStr false VUndefined false None (mkFS false SkipNever false true None) ]
                [] [mkSM "total" "total" TInt (VInt 3) false None] [] false;
    mkCls KData [ mkF "lines" "lines" (TColl KList (TObj 0)) true VNone false None no_fser;
                  mkF "first" "first" (TUnion [TStr; TNone]) false VNone false None no_fser ] [] [] [] false ]
  [].
Definition gen_ex_opts : sopts := mkSO false true false true false false false false false false (fun s => "p_" ++ s).
Definition gen_ex_value : value :=
  VObj 1 [("lines", VList [VObj 0 [("sku", VStr "x"); ("qty", VInt 1); ("note", VNone); ("tag", VUndefined)];
                            VObj 0 [("sku", VStr "y"); ("qty", VInt 2); ("note", VStr "n"); ("tag", VStr "t")]]);
          ("first", VNone)].

Example gen_ex :
  gen_hyps gen_ex_univ gen_ex_opts (TObj 1) 3 gen_ex_value = true
  /\ ser_hyps gen_ex_univ gen_ex_opts (TObj 1) 3 12 gen_ex_value = false
  /\ exists j, image gen_ex_univ gen_ex_opts 4 (TObj 1) gen_ex_value = SROk j
               /\ unembed j = Some (PDict [("p_lines", PList [PDict [("p_sku", PStr "x"); ("p_total", PInt 3)];
                                                               PDict [("p_sku", PStr "y"); ("p_quantity", PInt 2); ("p_note", PStr "n");
                                                                      ("p_tag", PStr "t"); ("p_total", PInt 3)]])]).
Proof. vm_compute. split; [reflexivity|]. split; [reflexivity|]. eexists. split; reflexivity. Qed.

(* the same with the line class used twice, hence given by reference *)
Definition gen_ex_univ2 : univ := mkU
  [ nth 0 (u_classes gen_ex_univ) empty_cls;
    mkCls KData [ mkF "lines" "lines" (TColl KList (TObj 0)) true VNone false None no_fser;
                  mkF "first" "first" (TUnion [TObj 0; TNone]) false VNone false None no_fser ] [] [] [] false ]
  [].
Definition gen_ex_value2 : value :=
  VObj 1 [("lines", VList [VObj 0 [("sku", VStr "x"); ("qty", VInt 1); ("note", VNone); ("tag", VUndefined)]]);
          ("first", VObj 0 [("sku", VStr "y"); ("qty", VInt 2); ("note", VStr "n"); ("tag", VStr "t")])].
Example gen_ex2 :
  refs_of_ser gen_ex_univ2 false (TObj 1) = ["C0"] /\ gen_hyps_refs gen_ex_univ2 gen_ex_opts (TObj 1) 3 gen_ex_value2 = true
  /\ gen_hyps gen_ex_univ2 gen_ex_opts (TObj 1) 3 gen_ex_value2 = false.
Proof. vm_compute. repeat split; reflexivity. Qed.
