(* C06 for classes nested to any depth (given inline, not recursive): containers of classes, classes whose fields are classes,
   unions of classes.  By induction on the class-nesting bound and on the type, on top of the object-free theorem (frag_agree)
   and of the one-class theorem (class_agree_gen). *)
From Coq Require Import List String ZArith Bool Arith Lia.
From AV Require Import Core.Json Core.Errors Core.Text Core.Util Small.Ordering Deser.Model Deser.Spec Deser.Unfold Deser.Loops
  Schema.Json Schema.Unfold Schema.Build Schema.Proofs Schema.ConProofs Schema.ShapeProofs Schema.AgreeProofs Schema.DepReqAgree Schema.ObjAgree.
Import ListNotations.
Open Scope string_scope.

Section Nest.
  Variable u : univ.
  Variable o : dopts.
  Variable refs : string -> bool.
  Variable ds : defs.
  Hypothesis Henum : forall e, refs (ename_ e) = true -> def_lookup (ename_ e) ds = Some (literal_schema (get_enum u e)).
  Hypothesis Hfb : o_fallback o = false.
  Variable jf : nat.
  Notation sp := (spec u o).
  Notation B := (build u o refs).

  (* the fragment: n bounds the nesting of classes; classes are given inline (never referenced), keep declaration order, have no
     dependentRequired nor fall_back_on_default; Annotated and mapping keys sit over object-free types *)
  Fixpoint okt (n : nat) : ty -> bool :=
    fix go (t : ty) : bool :=
      match t with
      | TObj c =>
          match n with
          | O => false
          | S m =>
              let cd := get_cls u c in
              negb (refs (cname c)) && sorted_kept cd && wf_depreq cd
              && forallb (fun fd => no_fb fd && okt m (field_ty fd) && wf_con (field_ty fd)
                                    && con_mergeable u o refs m false (field_ty fd) && keys_ok u (field_ty fd)) (cd_fields cd)
          end
      | TColl _ t' => go t'
      | TCon _ t' => obj_free t'
      | TTuple ts | TUnion ts => forallb go ts
      | TMap kt vt => obj_free kt && go vt
      | _ => true
      end.

  Lemma okt_TColl n k t : okt n (TColl k t) = okt n t.
  Proof. destruct n; reflexivity. Qed.
  Lemma okt_TCon n c t : okt n (TCon c t) = obj_free t.
  Proof. destruct n; reflexivity. Qed.
  Lemma okt_TTuple n ts : okt n (TTuple ts) = forallb (okt n) ts.
  Proof. destruct n; reflexivity. Qed.
  Lemma okt_TUnion n ts : okt n (TUnion ts) = forallb (okt n) ts.
  Proof. destruct n; reflexivity. Qed.
  Lemma okt_TMap n kt vt : okt n (TMap kt vt) = obj_free kt && okt n vt.
  Proof. destruct n; reflexivity. Qed.
  Lemma okt_TObj_O c : okt O (TObj c) = false.
  Proof. reflexivity. Qed.
  Lemma okt_TObj_S m c :
    okt (S m) (TObj c) =
    let cd := get_cls u c in
    negb (refs (cname c)) && sorted_kept cd && wf_depreq cd
    && forallb (fun fd => no_fb fd && okt m (field_ty fd) && wf_con (field_ty fd)
                          && con_mergeable u o refs m false (field_ty fd) && keys_ok u (field_ty fd)) (cd_fields cd).
  Proof. reflexivity. Qed.

  (* within the fragment the specification never runs out of fuel *)
  Lemma okt_no_fuel_step n :
    (forall m, n = S m -> forall t acc d, okt m t = true -> sp m acc t d <> SFuel) ->
    forall t acc d, okt n t = true -> sp n acc t d <> SFuel.
  Proof.
    intros IHn. induction t using ty_ind'; intros acc d Hf.
    - rewrite spec_TNone. destruct d; discriminate.
    - rewrite spec_TBool. destruct d; discriminate.
    - rewrite spec_TInt. destruct d; try discriminate. unfold accept. destruct (all_valid _ _); discriminate.
    - rewrite spec_TFloat. destruct d; try discriminate; unfold accept.
      + destruct (Z.ltb _ _); [destruct (all_valid _ _)|]; discriminate.
      + destruct (all_valid _ _); discriminate.
    - rewrite spec_TStr. destruct d; try discriminate. unfold accept. destruct (all_valid _ _); discriminate.
    - rewrite spec_TAny. unfold accept. destruct (all_valid _ _); discriminate.
    - rewrite spec_TColl. destruct d; try discriminate. rewrite okt_TColl in Hf.
      assert (H : all_ok (map (sp n None t) l) <> None) by (apply all_ok_map_no_fuel; intros x _; now apply IHt).
      destruct (all_ok _) as [[vs|]|]; try congruence; try discriminate. unfold accept. destruct (all_valid _ _); discriminate.
    - rewrite spec_TTuple. destruct d; try discriminate. destruct (negb _); [discriminate|]. rewrite okt_TTuple in Hf.
      assert (Hz : all_ok (zip_spec (sp n None) ts l) <> None).
      { revert l. induction ts as [|t1 tr IHts]; intros l; [destruct l; discriminate|]. destruct l as [|x r]; [discriminate|].
        cbn [zip_spec all_ok]. inversion H as [|? ? H1 Hr]; subst. cbn [forallb] in Hf. apply andb_true_iff in Hf. destruct Hf as [Hf1 Hfr].
        specialize (H1 None x Hf1). specialize (IHts Hr Hfr r).
        destruct (sp n None t1 x); try congruence; destruct (all_ok (zip_spec (sp n None) tr r)) as [[?|]|]; try congruence; discriminate. }
      destruct (all_ok _) as [[vs|]|]; try congruence; try discriminate. unfold accept. destruct (all_valid _ _); discriminate.
    - rewrite spec_TMap. destruct d; try discriminate. rewrite okt_TMap in Hf. apply andb_true_iff in Hf. destruct Hf as [Hk Hv].
      assert (H1 : all_ok (map (fun kv => sp n None t1 (PStr (fst kv))) l) <> None)
        by (apply all_ok_map_no_fuel; intros x _; now apply obj_free_no_fuel).
      assert (H2 : all_ok (map (fun kv => sp n None t2 (snd kv)) l) <> None) by (apply all_ok_map_no_fuel; intros x _; now apply IHt2).
      destruct (all_ok _) as [[ks|]|]; try congruence; destruct (all_ok _) as [[vs|]|]; try congruence; try discriminate.
      unfold accept. destruct (all_valid _ _); discriminate.
    - rewrite spec_TLit. destruct (prim_of d); [destruct (existsb _ _)|]; discriminate.
    - rewrite spec_TEnum. destruct (prim_of d); [destruct (existsb _ _)|]; discriminate.
    - rewrite spec_TCon. rewrite okt_TCon in Hf. apply obj_free_no_fuel. exact Hf.
    - rewrite spec_TUnion. rewrite okt_TUnion in Hf. induction ts as [|t1 tr IHts]; [discriminate|].
      inversion H as [|? ? H1 Hr]; subst. cbn [forallb] in Hf. apply andb_true_iff in Hf. destruct Hf as [Hf1 Hfr].
      cbn [first_spec]. specialize (H1 acc d Hf1). destruct (sp n acc t1 d); try congruence. now apply IHts.
    - destruct n as [|m]; [rewrite okt_TObj_O in Hf; discriminate|]. rewrite okt_TObj_S in Hf. cbv zeta in Hf.
      apply andb_true_iff in Hf. destruct Hf as [Hf Hfields]. apply andb_true_iff in Hf. destruct Hf as [Hf Hdep].
      apply andb_true_iff in Hf. destruct Hf as [Hrefs Hsorted].
      pose proof Hdep as Hdep'.
      rewrite spec_TObj_S. cbv zeta. destruct d; try discriminate.
      assert (Hnf : forall fd, In fd (cd_fields (get_cls u c)) -> forall x, dict_get (o_aliaser o (fd_alias fd)) l = Some x ->
                               sp m None (field_ty fd) x <> SFuel).
      { intros fd Hin x _. rewrite forallb_forall in Hfields. specialize (Hfields fd Hin).
        repeat (apply andb_true_iff in Hfields; destruct Hfields as [Hfields ?]). apply (IHn m eq_refl). assumption. }
      assert (Hnb : forallb no_fb (cd_fields (get_cls u c)) = true).
      { apply forallb_forall. intros fd Hin. rewrite forallb_forall in Hfields. specialize (Hfields fd Hin).
        repeat (apply andb_true_iff in Hfields; destruct Hfields as [Hfields ?]). assumption. }
      destruct (spec_fields_gen u o m (get_cls u c) l (cd_fields (get_cls u c)) Hfb Hnb Hnf) as [Hnone _].
      rewrite Hnone. repeat match goal with |- context [if ?c then _ else _] => destruct c end; discriminate.
  Qed.

  Lemma okt_no_fuel : forall n t acc d, okt n t = true -> sp n acc t d <> SFuel.
  Proof.
    induction n as [|n IH]; apply okt_no_fuel_step.
    - intros m E. discriminate.
    - intros m E. injection E as <-. exact IH.
  Qed.

  Lemma okt_obj_free n : forall t, obj_free t = true -> okt n t = true.
  Proof.
    induction t using ty_ind'; intros Hf; try (destruct n; reflexivity); cbn [obj_free] in Hf.
    - rewrite okt_TColl. auto.
    - rewrite okt_TTuple. apply forallb_forall. intros t Hin. rewrite Forall_forall in H. rewrite forallb_forall in Hf. auto.
    - rewrite okt_TMap. apply andb_true_iff in Hf. destruct Hf as [H1 H2]. rewrite H1. cbn [andb]. auto.
    - rewrite okt_TCon. exact Hf.
    - rewrite okt_TUnion. apply forallb_forall. intros t Hin. rewrite Forall_forall in H. rewrite forallb_forall in Hf. auto.
    - discriminate.
  Qed.

  (* THE STATEMENT on the nested fragment *)
  Lemma nest_agree_step n :
    (forall m, n = S m -> forall t ign d, okt m t = true -> wf_con t = true -> con_mergeable u o refs m ign t = true ->
               keys_ok u t = true -> in_domain d = true -> jvalid false ds jf (B m ign t) d = accepts (sp m None t d)) ->
    forall t ign d, okt n t = true -> wf_con t = true -> con_mergeable u o refs n ign t = true -> keys_ok u t = true ->
                    in_domain d = true -> jvalid false ds jf (B n ign t) d = accepts (sp n None t d).
  Proof.
    intros IHn. induction t using ty_ind'; intros ign d Hf Hw Hm Hk Hd.
    1-6: (apply (frag_agree u o refs ds Henum jf n n); auto).
    - (* collection *)
      rewrite okt_TColl in Hf. cbn [wf_con con_mergeable keys_ok] in *. rewrite build_TColl, spec_TColl. cbv zeta.
      destruct d as [|x|z|f|s|l|kvs|tg];
        try (apply jvalid_type_fail; [apply nullable_coll | reflexivity]).
      + apply jvalid_type_fail; [apply nullable_coll | destruct f; reflexivity].
      + rewrite coll_schema_valid.
        assert (Hl : forall x, In x l -> jvalid false ds jf (B n false t) x = accepts (sp n None t x)).
        { intros x Hx. apply IHt; auto. cbn [in_domain] in Hd. rewrite forallb_forall in Hd. auto. }
        rewrite (forallb_in_ext _ _ _ Hl).
        assert (Hnf : forall x, In x l -> sp n None t x <> SFuel) by (intros; now apply okt_no_fuel).
        rewrite <- (accepts_all_ok (sp n None t) l Hnf).
        destruct (all_ok (map (sp n None t) l)) as [[vs|]|]; reflexivity.
    - (* tuple *)
      rewrite okt_TTuple in Hf. cbn [wf_con con_mergeable keys_ok] in *. rewrite build_TTuple, spec_TTuple. cbv zeta.
      rewrite <- (map_length (B n false) ts) at 1 2.
      destruct d as [|x|z|f|s|l|kvs|tg]; try (apply jvalid_type_fail; [apply nullable_tuple | reflexivity]).
      + apply jvalid_type_fail; [apply nullable_tuple | destruct f; reflexivity].
      + rewrite tuple_schema_valid, map_length.
        destruct (Nat.eqb (List.length l) (List.length ts)) eqn:El; cbn [negb andb]; [|reflexivity].
        rewrite (zip_agree (jvalid false ds jf) (B n false) (sp n None) ts l).
        * destruct (all_ok (zip_spec (sp n None) ts l)) as [[vs|]|]; reflexivity.
        * intros t Ht x Hx. rewrite Forall_forall in H. apply H; auto.
          -- rewrite forallb_forall in Hf. auto.
          -- rewrite forallb_forall in Hw. auto.
          -- rewrite forallb_forall in Hm. auto.
          -- rewrite forallb_forall in Hk. auto.
          -- cbn [in_domain] in Hd. rewrite forallb_forall in Hd. auto.
        * intros t Ht x. apply okt_no_fuel. rewrite forallb_forall in Hf. auto.
    - (* mapping: the keys are object-free *)
      rewrite okt_TMap in Hf. cbn [wf_con con_mergeable keys_ok] in *.
      apply andb_true_iff in Hf. destruct Hf as [Hf1 Hf2]. apply andb_true_iff in Hw. destruct Hw as [Hw1 Hw2].
      apply andb_true_iff in Hm. destruct Hm as [Hm1 Hm2]. apply andb_true_iff in Hk. destruct Hk as [Hk1 Hk2].
      rewrite build_TMap, spec_TMap. cbv zeta.
      set (key := B n true t1). set (value := B n false t2).
      change (match key with JS [KwType _] => [] | _ => [KwPropertyNames key] end) with (names_of key).
      pose proof (build_nn u o refs n t1 true Hf1) as Hnn. fold key in Hnn.
      pose proof (key_type u o refs n t1 Hk1) as Hkt. fold key in Hkt.
      destruct d as [|x|z|f|s|l|kvs|tg].
      1-6,8: (pose proof (nullable_map_schema key value) as Hnull;
              destruct (get_pattern key); cbn [kws_of] in Hnull; (apply jvalid_type_fail; [exact Hnull | try destruct f; reflexivity])).
      rewrite map_schema_valid by assumption.
      assert (HK : forall kv, In kv kvs -> jvalid false ds jf key (PStr (fst kv)) = accepts (sp n None t1 (PStr (fst kv)))).
      { intros kv _. apply (frag_agree u o refs ds Henum jf n n); auto. now apply key_keys_ok. }
      assert (HV : forall kv, In kv kvs -> jvalid false ds jf value (snd kv) = accepts (sp n None t2 (snd kv))).
      { intros kv Hkv. apply IHt2; auto. eapply in_domain_dict; eassumption. }
      rewrite (forallb_in_ext _ _ _ HK), (forallb_in_ext _ _ _ HV).
      assert (N1 : forall kv, In kv kvs -> sp n None t1 (PStr (fst kv)) <> SFuel) by (intros; now apply obj_free_no_fuel).
      assert (N2 : forall kv, In kv kvs -> sp n None t2 (snd kv) <> SFuel) by (intros; now apply okt_no_fuel).
      rewrite <- (accepts_all_ok (fun kv => sp n None t1 (PStr (fst kv))) kvs N1).
      rewrite <- (accepts_all_ok (fun kv => sp n None t2 (snd kv)) kvs N2).
      destruct (all_ok (map (fun kv => sp n None t1 (PStr (fst kv))) kvs)) as [[ks|]|];
        destruct (all_ok (map (fun kv => sp n None t2 (snd kv)) kvs)) as [[vs|]|]; reflexivity.
    - apply (frag_agree u o refs ds Henum jf n n); auto.
    - apply (frag_agree u o refs ds Henum jf n n); auto.
    - (* Annotated: over an object-free type *)
      rewrite okt_TCon in Hf. apply (frag_agree u o refs ds Henum jf n n); auto.
    - (* Union *)
      rewrite okt_TUnion in Hf. cbn [wf_con con_mergeable keys_ok] in *. rewrite spec_TUnion.
      rewrite accepts_first by (intros t Ht; apply okt_no_fuel; rewrite forallb_forall in Hf; auto).
      destruct ts as [|t0 tr].
      + rewrite build_TUnion. cbn [map visited_union existsb forallb flat_map norm_types dedup_types fold_left memt jtype_eqb app].
        rewrite jvalid_only_type. destruct d as [|x|z|f|s|l|l|tg]; try destruct f; reflexivity.
      + rewrite union_type_schema by discriminate.
        apply existsb_in_ext. intros t Ht. rewrite Forall_forall in H. apply H; auto.
        * rewrite forallb_forall in Hf. auto.
        * rewrite forallb_forall in Hw. auto.
        * rewrite forallb_forall in Hm. auto.
        * rewrite forallb_forall in Hk. auto.
    - (* a class, given inline *)
      destruct n as [|m]; [rewrite okt_TObj_O in Hf; discriminate|]. rewrite okt_TObj_S in Hf. cbv zeta in Hf.
      apply andb_true_iff in Hf. destruct Hf as [Hf Hfields]. apply andb_true_iff in Hf. destruct Hf as [Hf Hdep].
      apply andb_true_iff in Hf. destruct Hf as [Hrefs Hsorted]. apply negb_true_iff in Hrefs.
      pose proof Hdep as Hdep'.
      assert (Hall : forall fd, In fd (cd_fields (get_cls u c)) ->
                no_fb fd = true /\ okt m (field_ty fd) = true /\ wf_con (field_ty fd) = true
                /\ con_mergeable u o refs m false (field_ty fd) = true /\ keys_ok u (field_ty fd) = true).
      { intros fd Hin. rewrite forallb_forall in Hfields. specialize (Hfields fd Hin).
        repeat (apply andb_true_iff in Hfields; destruct Hfields as [Hfields ?]). repeat split; assumption. }
      apply (class_agree_gen u o refs ds jf c m m ign d).
      + rewrite Hrefs. reflexivity.
      + apply sorted_kept_ok. exact Hsorted.
      + exact Hdep'.
      + apply forallb_forall. intros fd Hin. apply (Hall fd Hin).
      + exact Hfb.
      + intros fd Hin x _. apply okt_no_fuel. apply (Hall fd Hin).
      + intros fd Hin x _ Hx. destruct (Hall fd Hin) as [_ [H1 [H2 [H3 H4]]]]. apply (IHn m eq_refl); assumption.
      + exact Hd.
  Qed.

  Theorem nest_agree : forall n t ign d,
    okt n t = true -> wf_con t = true -> con_mergeable u o refs n ign t = true -> keys_ok u t = true -> in_domain d = true ->
    jvalid false ds jf (B n ign t) d = accepts (sp n None t d).
  Proof.
    induction n as [|n IH]; apply nest_agree_step.
    - intros m E. discriminate.
    - intros m E. injection E as <-. exact IH.
  Qed.
End Nest.

(* executable hypotheses *)
Definition nest_hyps (u : univ) (o : dopts) (refs : string -> bool) (n : nat) (ign : bool) (t : ty) (d : pyval) : bool :=
  negb (o_fallback o) && okt u o refs n t && wf_con t && con_mergeable u o refs n ign t && keys_ok u t && in_domain d.

Theorem nest_agree_checked u o refs ds :
  (forall e, refs (ename_ e) = true -> def_lookup (ename_ e) ds = Some (literal_schema (get_enum u e))) ->
  forall jf n ign t d, nest_hyps u o refs n ign t d = true ->
  jvalid false ds jf (build u o refs n ign t) d = accepts (spec u o n None t d).
Proof.
  intros Henum jf n ign t d H. unfold nest_hyps in H. repeat (apply andb_true_iff in H; destruct H as [H ?]).
  apply negb_true_iff in H. apply (nest_agree u o refs ds Henum H jf); assumption.
Qed.

(* satisfiable: an order with a customer (a class), a list of lines (classes) and an optional shipping address (class or null) *)
Definition nest_ex_univ : univ := mkU
  [ mkCls KData [ mkF "name" "name" TStr true VNone false None no_fser;
                  mkF "vip" "vip" TBool false (VBool false) false None no_fser ] [] [] [] false;
    mkCls KData [ mkF "sku" "sku" TStr true VNone false None no_fser;
                  mkF "qty" "quantity" TInt false (VInt 1) false
                      (Some (mkC (Some (CI 1)) None None None None None None None None None false None None)) no_fser ] [] [] [] false;
    mkCls KData [ mkF "customer" "customer" (TObj 0) true VNone false None no_fser;
                  mkF "lines" "lines" (TColl KList (TObj 1)) true VNone false None no_fser;
                  mkF "ship_to" "shipTo" (TUnion [TObj 0; TNone]) false VNone false None no_fser ] [] [] [] false ]
  [].
Definition nest_ex_opts : dopts := mkO false false false true (fun s => s).
Definition nest_ex_good : pyval :=
  PDict [("customer", PDict [("name", PStr "a")]); ("lines", PList [PDict [("sku", PStr "x"); ("quantity", PInt 2)]]); ("shipTo", PNone)].
Definition nest_ex_bad : pyval :=
  PDict [("customer", PDict [("name", PStr "a")]); ("lines", PList [PDict [("sku", PStr "x"); ("quantity", PInt 0)]])].

Example nest_ex :
  nest_hyps nest_ex_univ nest_ex_opts (fun _ => false) 2 false (TObj 2) nest_ex_good = true
  /\ nest_hyps nest_ex_univ nest_ex_opts (fun _ => false) 2 false (TObj 2) nest_ex_bad = true
  /\ jvalid false [] 0 (build nest_ex_univ nest_ex_opts (fun _ => false) 2 false (TObj 2)) nest_ex_good = true
  /\ jvalid false [] 0 (build nest_ex_univ nest_ex_opts (fun _ => false) 2 false (TObj 2)) nest_ex_bad = false.
Proof. vm_compute. repeat split. Qed.

(* with dependent_required under an aliaser: giving a discount code requires the customer's e-mail *)
Definition dr_ex_univ : univ := mkU
  [ mkCls KData [ mkF "name" "name" TStr true VNone false None no_fser;
                  mkF "e_mail" "e_mail" (TUnion [TStr; TNone]) false VNone false None no_fser;
                  mkF "discount" "discount" (TUnion [TStr; TNone]) false VNone false None no_fser ]
          [("discount", ["e_mail"; "name"])] [] [] false ]
  [].
Definition dr_ex_opts : dopts := mkO false false false true (fun s => "p_" ++ s).
Definition dr_ex_good : pyval := PDict [("p_name", PStr "a"); ("p_e_mail", PStr "m"); ("p_discount", PStr "d")].
Definition dr_ex_bad : pyval := PDict [("p_name", PStr "a"); ("p_discount", PStr "d")].

Example dr_ex :
  nest_hyps dr_ex_univ dr_ex_opts (fun _ => false) 1 false (TObj 0) dr_ex_good = true
  /\ nest_hyps dr_ex_univ dr_ex_opts (fun _ => false) 1 false (TObj 0) dr_ex_bad = true
  /\ accepts (spec dr_ex_univ dr_ex_opts 2 None (TObj 0) dr_ex_good) = true
  /\ accepts (spec dr_ex_univ dr_ex_opts 2 None (TObj 0) dr_ex_bad) = false
  /\ depreq_schema dr_ex_opts (get_cls dr_ex_univ 0) = [("p_discount", ["p_e_mail"; "p_name"])].
Proof. vm_compute. repeat split. Qed.
