(* C06: the schemas produced by the builder have the shape assumed by the union lemma. *)
From Coq Require Import List String ZArith Bool Arith Lia.
From AV Require Import Core.Json Core.Text Deser.Model Deser.Loops Schema.Json Schema.Build Schema.Unfold Schema.Proofs.
Import ListNotations.

Definition tail_ok (k : kw) : bool := null_vacuous k || match k with KwConst _ | KwEnum _ => true | _ => false end.

(* either a typed schema of the expected shape, or a schema without "type" *)
Definition shape_ok (s : js) : Prop := get_type s <> None -> typed_shape s = true.

Lemma typed_shape_get_type s : typed_shape s = true -> get_type s <> None.
Proof. destruct s as [b|[|k r]]; try discriminate. destruct k; discriminate. Qed.

Lemma merge_kw_tail c kws : forallb tail_ok kws = true -> forallb tail_ok (merge_kw c kws) = true.
Proof.
  intros H. unfold merge_kw.
  destruct (match c with KUnique => has_set_unique kws | _ => false end).
  - rewrite forallb_forall in *. intros k Hk. apply in_map_iff in Hk. destruct Hk as [k0 [<- Hk0]].
    specialize (H k0 Hk0). destruct k0; try exact H; reflexivity.
  - destruct (has_kind c kws).
    + rewrite forallb_forall in *. intros k Hk. apply in_map_iff in Hk. destruct Hk as [k0 [<- Hk0]].
      specialize (H k0 Hk0). destruct k0; try exact H. destruct (same_kind c c0); reflexivity.
    + rewrite forallb_app, H. reflexivity.
Qed.

Lemma merge_kw_head c ts rest : exists rest', merge_kw c (KwType ts :: rest) = KwType ts :: rest' /\
  (forallb tail_ok rest = true -> forallb tail_ok rest' = true).
Proof.
  unfold merge_kw.
  destruct (match c with KUnique => has_set_unique (KwType ts :: rest) | _ => false end).
  - eexists. split; [reflexivity|]. intros H. rewrite forallb_forall in *. intros k Hk. apply in_map_iff in Hk.
    destruct Hk as [k0 [<- Hk0]]. specialize (H k0 Hk0). destruct k0; try exact H; reflexivity.
  - destruct (has_kind c (KwType ts :: rest)).
    + eexists. split; [reflexivity|]. intros H. rewrite forallb_forall in *. intros k Hk. apply in_map_iff in Hk.
      destruct Hk as [k0 [<- Hk0]]. specialize (H k0 Hk0). destruct k0; try exact H. destruct (same_kind c c0); reflexivity.
    + eexists. split; [reflexivity|]. intros H. rewrite forallb_app, H. reflexivity.
Qed.

Lemma apply_con_typed_shape c s : typed_shape s = true -> typed_shape (apply_con c s) = true.
Proof.
  destruct c as [c|]; [|auto]. destruct s as [b|[|k rest]]; try discriminate. destruct k; try discriminate.
  cbn [apply_con typed_shape]. fold tail_ok.
  generalize (all_cons c) as cs. intros cs. revert rest. induction cs as [|x r IH]; intros rest H; [exact H|].
  cbn [fold_left]. destruct (merge_kw_head x ts rest) as [rest' [-> Hr]]. apply IH. fold tail_ok in *. auto.
Qed.

Lemma get_type_merge_kw c kws : get_type (JS (merge_kw c kws)) = get_type (JS kws).
Proof.
  unfold merge_kw. destruct (match c with KUnique => has_set_unique kws | _ => false end).
  - cbn [get_type]. induction kws as [|k r IH]; [reflexivity|]. cbn [map fold_right]. rewrite IH. destruct k; reflexivity.
  - destruct (has_kind c kws).
    + cbn [get_type]. induction kws as [|k r IH]; [reflexivity|]. cbn [map fold_right]. rewrite IH.
      destruct k; try reflexivity. destruct (same_kind c c0); reflexivity.
    + cbn [get_type]. rewrite fold_right_app. reflexivity.
Qed.

Lemma get_type_apply_con c s : get_type (apply_con c s) = get_type s.
Proof.
  destruct c as [c|]; [|reflexivity]. destruct s as [b|kws]; [reflexivity|]. cbn [apply_con].
  generalize (all_cons c) as cs. intros cs. revert kws. induction cs as [|x r IH]; intros kws; [reflexivity|].
  cbn [fold_left]. rewrite IH. apply get_type_merge_kw.
Qed.

Lemma shape_apply_con c s : shape_ok s -> shape_ok (apply_con c s).
Proof. unfold shape_ok. rewrite get_type_apply_con. intros H Hg. apply apply_con_typed_shape. auto. Qed.

Lemma add_null_typed_shape s : typed_shape s = true -> typed_shape (add_null s) = true.
Proof.
  destruct s as [b|[|k rest]]; try discriminate. destruct k; try discriminate. cbn [typed_shape add_null map].
  intros H. assert (Hm : map (fun k => match k with KwType ts0 => if memt JNull ts0 then k else KwType (ts0 ++ [JNull]) | _ => k end) rest = rest).
  { induction rest as [|x r IH]; [reflexivity|]. cbn [forallb] in H. apply andb_true_iff in H. destruct H as [Hx Hr].
    cbn [map]. rewrite IH by exact Hr. destruct x; try reflexivity. discriminate. }
  rewrite Hm. destruct (memt JNull ts); exact H.
Qed.

Lemma shape_visited_union rs : Forall shape_ok rs -> shape_ok (visited_union rs).
Proof.
  intros H. unfold visited_union. destruct rs as [|r1 [|r2 rest]].
  - intros _. reflexivity.
  - now inversion H.
  - set (rs := r1 :: r2 :: rest) in *.
    destruct (existsb is_empty rs); [intros Hg; cbn in Hg; congruence|].
    destruct (forallb _ rs); [intros _; reflexivity|].
    assert (Hany : shape_ok (JS [KwAnyOf rs])) by (intros Hg; cbn in Hg; congruence).
    destruct rest as [|r3 rest']; [|exact Hany].
    destruct (_ && _ && _) eqn:Hc; [|exact Hany].
    apply andb_true_iff in Hc. destruct Hc as [Hc _]. apply andb_true_iff in Hc. destruct Hc as [Hty _].
    subst rs. cbn [forallb] in Hty. rewrite andb_true_r in Hty. apply andb_true_iff in Hty. destruct Hty as [Ht1 Ht2].
    inversion H as [|? ? S1 H']; subst. inversion H' as [|? ? S2 _]; subst.
    intros _. apply add_null_typed_shape. destruct (is_null_schema r1).
    + apply S2. intros Hg. rewrite Hg in Ht2. discriminate.
    + apply S1. intros Hg. rewrite Hg in Ht1. discriminate.
Qed.

Section BuildShape.
  Variable u : univ.
  Variable o : dopts.
  Variable refs : string -> bool.

  Lemma literal_shape vs : shape_ok (literal_schema vs).
  Proof. intros _. unfold literal_schema. destruct vs as [|v [|v' r]]; reflexivity. Qed.

  Theorem build_shape : forall fuel t ign, shape_ok (build u o refs fuel ign t).
  Proof.
    intros fuel. induction t using ty_ind'; intros ign.
    1-5: destruct fuel; intros _; reflexivity.
    - destruct fuel; intros Hg; cbn in Hg; congruence.
    - rewrite build_TColl. cbv zeta. intros _. cbn [typed_shape app].
      destruct (is_empty _); destruct (norm_kind k); reflexivity.
    - rewrite build_TTuple. cbv zeta. intros _. cbn [typed_shape app]. destruct (map _ ts); reflexivity.
    - rewrite build_TMap. cbv zeta. intros _.
      set (key := build u o refs fuel true t1).
      destruct (get_pattern key); cbn [typed_shape app forallb];
        destruct key as [b|[|k0 [|k1 kr]]]; try destruct k0; try (destruct (is_empty _)); reflexivity.
    - destruct fuel; apply literal_shape.
    - rewrite build_TEnum. destruct (refs (ename_ e) && negb ign)%bool; [intros Hg; cbn in Hg; congruence | apply literal_shape].
    - rewrite build_TCon. apply shape_apply_con. apply IHt.
    - rewrite build_TUnion. apply shape_visited_union. rewrite Forall_forall in *. intros s Hs.
      apply in_map_iff in Hs. destruct Hs as [t0 [<- Ht0]]. apply H. exact Ht0.
    - rewrite build_TObj. destruct (refs (cname c) && negb ign)%bool; [intros Hg; cbn in Hg; congruence|].
      destruct fuel; [intros Hg; cbn in Hg; congruence|]. intros _. unfold object_schema. cbn [typed_shape app].
      destruct (map _ (elems_sorted _)); destruct (map _ (filter _ _)); destruct (o_addprops o); destruct (depreq_schema _ _); reflexivity.
  Qed.
End BuildShape.

(* the schema built for Union[t1..tn] accepts exactly the data accepted by the schema of one of the ti: for every universe,
   options, reference set, definitions, nesting depth and datum *)
Theorem union_type_schema u o refs ss ds f fuel ign ts d :
  ts <> [] ->
  jvalid ss ds f (build u o refs fuel ign (TUnion ts)) d
  = existsb (fun t => jvalid ss ds f (build u o refs fuel false t) d) ts.
Proof.
  intros Hne. rewrite build_TUnion. rewrite visited_union_valid.
  - induction ts as [|t r IH]; [reflexivity|]. cbn [map existsb]. f_equal. destruct r; [reflexivity|]. apply IH. discriminate.
  - destruct ts; [congruence|discriminate].
  - intros r Hr Hg. apply in_map_iff in Hr. destruct Hr as [t [<- _]]. now apply build_shape.
Qed.
