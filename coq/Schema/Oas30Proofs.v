(* C18, OpenAPI 3.0: the conversion preserves the valid instances under explicit, executable side conditions
   (nothing the dialect cannot express is dropped; where null moves to "nullable", the sibling keywords accept null;
   a list-valued "type" with several members has no anyOf sibling; no const beside enum). *)
From Coq Require Import List String ZArith Bool Arith Lia.
From AV Require Import Core.Json Core.Text Deser.Model Schema.Json Schema.Unfold Schema.Versions Schema.VersionsProofs.
Import ListNotations.
Open Scope string_scope.

(* ------------------------------------------------------------------ preservation under a condition on every schema node *)
Definition kw_all (F : js -> bool) (k : kw) : bool :=
  match k with
  | KwItems s | KwAddItems s | KwAddProps s | KwPropertyNames s => F s
  | KwPrefixItems l | KwItemsArr l | KwAnyOf l | KwAllOf l | KwOneOf l => forallb F l
  | KwProperties ps | KwPatternProps ps => forallb (fun p => F (snd p)) ps
  | _ => true
  end.

Lemma kw_all_subs F k : kw_all F k = true -> forall x, In x (subs k) -> F x = true.
Proof.
  destruct k; cbn [kw_all subs]; intros H x Hx; try contradiction;
    try (destruct Hx as [<-|[]]; exact H);
    try (rewrite forallb_forall in H; now apply H).
  all: rewrite forallb_forall in H; apply in_map_iff in Hx; destruct Hx as [p [<- Hp]]; now apply H.
Qed.

Lemma def_lookup_in name ds s : def_lookup name ds = Some s -> In s (map snd ds).
Proof.
  induction ds as [|[n x] r IH]; cbn [def_lookup map snd]; [discriminate|].
  destruct (String.eqb n name); [intros [= <-]; now left | intros H; right; now apply IH].
Qed.

Section PreserveCond.
  Variable ss : bool.
  Variable v : version.
  Variable P PL : list kw -> bool.
  (* the top-level rewriting of one schema object, applied to its already converted keywords, does not change what it
     accepts when the condition holds *)
  Hypothesis top_ok : forall ds fuel K d, P K = true -> jvalid ss ds fuel (JS (top_of v K)) d = jvalid ss ds fuel (JS K) d.
  Hypothesis top_leaf : forall K d, P K = true -> PL K = true -> leaf_valid ss (JS (top_of v K)) d = leaf_valid ss (JS K) d.

  (* the condition at every node of a schema, evaluated on the keywords the rewriting sees *)
  Fixpoint okc (s : js) : bool :=
    match s with
    | JBoolS _ => true
    | JS kws => P (map (kw_map (convert v)) kws) && forallb (kw_all okc) kws
    end.
  (* definitions may also be reached through the flat evaluation of "$ref" *)
  Definition okd (s : js) : bool :=
    okc s && match s with JBoolS _ => true | JS kws => PL (map (kw_map (convert v)) kws) end.

  Lemma leaf_valid_convert_c s d : okd s = true -> leaf_valid ss (convert v s) d = leaf_valid ss s d.
  Proof.
    destruct s as [b|kws]; [reflexivity|]. unfold okd. cbn [okc convert]. intros H.
    apply andb_true_iff in H. destruct H as [H HL]. apply andb_true_iff in H. destruct H as [HP _].
    rewrite top_leaf by assumption. apply leaf_valid_map.
  Qed.

  Lemma kw_map_valid_c ds fuel kws k d :
    forallb okd (map snd ds) = true ->
    (forall s', In s' (subs k) -> forall x, jvalid ss (convert_defs v ds) fuel (convert v s') x = jvalid ss ds fuel s' x) ->
    (forall f, fuel = S f -> forall s' x, okc s' = true ->
               jvalid ss (convert_defs v ds) f (convert v s') x = jvalid ss ds f s' x) ->
    kw_valid ss (convert_defs v ds) fuel (map (kw_map (convert v)) kws) (kw_map (convert v) k) d = kw_valid ss ds fuel kws k d.
  Proof.
    intros Hds IH IHf.
    destruct k; cbn [kw_map kw_valid subs] in *; rewrite ?prefix_len_map; try reflexivity.
    - destruct d; try reflexivity. apply forallb_ext_in'. intros x _. apply IH. left. reflexivity.
    - destruct d; try reflexivity. apply zip_valid_map. exact IH.
    - destruct d; try reflexivity. apply props_valid_map. exact IH.
    - destruct d; try reflexivity. apply forallb_ext_in'. intros x _.
      rewrite additional_map. rewrite IH by (left; reflexivity). reflexivity.
    - destruct d; try reflexivity. apply pats_valid_map. exact IH.
    - destruct d; try reflexivity. apply forallb_ext_in'. intros x _. apply IH. left. reflexivity.
    - apply any_valid_map. exact IH.
    - apply all_valid_map. exact IH.
    - f_equal. apply count_valid_map. exact IH.
    - unfold convert_defs. rewrite def_lookup_map. destruct (def_lookup name ds) as [s'|] eqn:E; [|reflexivity].
      cbn [option_map]. apply def_lookup_in in E. rewrite forallb_forall in Hds. specialize (Hds s' E).
      destruct leaf; [now apply leaf_valid_convert_c|]. destruct fuel as [|f]; [reflexivity|].
      apply IHf; [reflexivity|]. unfold okd in Hds. apply andb_true_iff in Hds. tauto.
    - destruct d; try reflexivity. apply zip_valid_map. exact IH.
    - destruct d; try reflexivity. apply forallb_ext_in'. intros x _. apply IH. left. reflexivity.
  Qed.

  Theorem convert_preserves_cond ds : forallb okd (map snd ds) = true -> forall fuel s d, okc s = true ->
    jvalid ss (convert_defs v ds) fuel (convert v s) d = jvalid ss ds fuel s d.
  Proof.
    intros Hds.
    assert (Step : forall fuel,
      (forall f, fuel = S f -> forall s' x, okc s' = true ->
                 jvalid ss (convert_defs v ds) f (convert v s') x = jvalid ss ds f s' x) ->
      forall s d, okc s = true -> jvalid ss (convert_defs v ds) fuel (convert v s) d = jvalid ss ds fuel s d).
    { intros fuel IHf s. induction s as [b|kws IH] using js_ind'; intros d Hok; [cbn [convert]; now rewrite !jvalid_bool|].
      cbn [okc] in Hok. apply andb_true_iff in Hok. destruct Hok as [HP Hall].
      cbn [convert]. rewrite top_ok by exact HP. rewrite !jvalid_JS, nullable_map, forallb_map. f_equal.
      apply forallb_ext_in'. intros k Hk. rewrite Forall_forall in IH. specialize (IH k Hk). rewrite Forall_forall in IH.
      rewrite forallb_forall in Hall. specialize (Hall k Hk).
      apply kw_map_valid_c; [exact Hds | | exact IHf].
      intros s' Hs' x. apply IH; [exact Hs'|]. now apply (kw_all_subs okc k). }
    induction fuel as [|f IHfuel]; apply Step.
    - intros f Hf. discriminate.
    - intros f' Hf. injection Hf as <-. exact IHfuel.
  Qed.
End PreserveCond.

(* ------------------------------------------------------------------ list helpers *)
Lemma forallb_flat_map {A B} (f : B -> bool) (h : A -> list B) l :
  forallb f (flat_map h l) = forallb (fun x => forallb f (h x)) l.
Proof. induction l as [|x r IH]; [reflexivity|]. cbn [flat_map forallb]. now rewrite forallb_app, IH. Qed.

Lemma forallb_filter_true {A} (f p : A -> bool) l : (forall x, In x l -> p x = false -> f x = true) ->
  forallb f (filter p l) = forallb f l.
Proof.
  induction l as [|x r IH]; intros H; [reflexivity|]. cbn [filter forallb].
  rewrite <- IH by (intros y Hy; apply H; now right).
  destruct (p x) eqn:E; [reflexivity|]. rewrite (H x (or_introl eq_refl) E). reflexivity.
Qed.

Lemma filter_id {A} (p : A -> bool) l : forallb p l = true -> filter p l = l.
Proof.
  induction l as [|x r IH]; [reflexivity|]. cbn [forallb filter]. intros H. apply andb_true_iff in H. destruct H as [Hx Hr].
  now rewrite Hx, IH.
Qed.

Lemma existsb_false_forallb {A} (f : A -> bool) l : existsb f l = false -> forallb (fun x => negb (f x)) l = true.
Proof.
  induction l as [|x r IH]; [reflexivity|]. cbn [existsb forallb]. intros H. apply orb_false_iff in H. destruct H as [Hx Hr].
  now rewrite Hx, IH.
Qed.

Lemma map_id_on {A} (g : A -> A) l : (forall x, In x l -> g x = x) -> map g l = l.
Proof. induction l as [|x r IH]; intros H; [reflexivity|]. cbn [map]. rewrite H by now left. f_equal. apply IH. intros y Hy. apply H. now right. Qed.

Lemma flat_map_id_on {A} (h : A -> list A) l : (forall x, In x l -> h x = [x]) -> flat_map h l = l.
Proof. induction l as [|x r IH]; intros H; [reflexivity|]. cbn [flat_map]. rewrite H by now left. cbn [app]. f_equal. apply IH. intros y Hy. apply H. now right. Qed.

Lemma flat_map_nil_on {A B} (h : A -> list B) l : (forall x, In x l -> h x = []) -> flat_map h l = [].
Proof. induction l as [|x r IH]; intros H; [reflexivity|]. cbn [flat_map]. rewrite H by now left. apply IH. intros y Hy. apply H. now right. Qed.

Lemma existsb_false_on {A} (f : A -> bool) l : (forall x, In x l -> f x = false) -> existsb f l = false.
Proof. induction l as [|x r IH]; intros H; [reflexivity|]. cbn [existsb]. rewrite H by now left. apply IH. intros y Hy. apply H. now right. Qed.

(* ------------------------------------------------------------------ the stages only touch keywords no sibling consults *)
Definition neutral (k : kw) : bool :=
  match k with KwType _ | KwConst _ | KwEnum _ | KwAnyOf _ | KwAllOf _ | KwNullable | KwAnnot _ => true | _ => false end.
Definition nn (k : kw) : bool := negb (neutral k).

Lemma nn_map g K : (forall k, neutral k = false -> g k = k) -> (forall k, neutral k = true -> neutral (g k) = true) ->
  filter nn (map g K) = filter nn K.
Proof.
  intros H1 H2. induction K as [|k r IH]; [reflexivity|]. cbn [map filter].
  destruct (neutral k) eqn:E.
  - assert (Ha : nn (g k) = false) by (unfold nn; now rewrite H2).
    assert (Hb : nn k = false) by (unfold nn; now rewrite E). rewrite Ha, Hb. exact IH.
  - rewrite (H1 k E). assert (Hb : nn k = true) by (unfold nn; now rewrite E). rewrite Hb. now rewrite IH.
Qed.

Lemma nn_filter p K : (forall k, p k = false -> neutral k = true) -> filter nn (filter p K) = filter nn K.
Proof.
  intros H. induction K as [|k r IH]; [reflexivity|]. cbn [filter]. destruct (p k) eqn:E; cbn [filter]; rewrite IH; [reflexivity|].
  unfold nn. now rewrite (H k E).
Qed.

Lemma nn_neutral X : forallb neutral X = true -> filter nn X = [].
Proof.
  induction X as [|k r IH]; [reflexivity|]. cbn [forallb filter]. intros H. apply andb_true_iff in H. destruct H as [Hk Hr].
  assert (Hb : nn k = false) by (unfold nn; now rewrite Hk). rewrite Hb. now apply IH.
Qed.

Lemma filter_app' {A} (p : A -> bool) (l1 l2 : list A) : filter p (l1 ++ l2)%list = (filter p l1 ++ filter p l2)%list.
Proof. induction l1 as [|x r IH]; [reflexivity|]. cbn [app filter]. destruct (p x); cbn [app]; now rewrite IH. Qed.

Lemma nn_flat_map h K : (forall k, neutral k = false -> h k = [k]) -> (forall k, neutral k = true -> forallb neutral (h k) = true) ->
  filter nn (flat_map h K) = filter nn K.
Proof.
  intros H1 H2. induction K as [|k r IH]; [reflexivity|]. cbn [flat_map]. rewrite filter_app', IH. cbn [filter].
  destruct (neutral k) eqn:E.
  - assert (Hb : nn k = false) by (unfold nn; now rewrite E). rewrite Hb, (nn_neutral _ (H2 k E)). reflexivity.
  - assert (Hb : nn k = true) by (unfold nn; now rewrite E). rewrite (H1 k E), Hb. cbn [filter]. rewrite Hb. reflexivity.
Qed.

Lemma nn_app K X : forallb neutral X = true -> filter nn (K ++ X)%list = filter nn K.
Proof. intros H. rewrite filter_app', (nn_neutral X H). apply app_nil_r. Qed.

Lemma ctx_of_nn K K' : filter nn K' = filter nn K ->
  prefix_len K' = prefix_len K /\ prop_names K' = prop_names K /\ prop_patterns K' = prop_patterns K /\ has_ref K' = has_ref K.
Proof.
  intros H.
  assert (P1 : forall X, prefix_len (filter nn X) = prefix_len X).
  { intros X. apply prefix_len_filter. intros k. unfold nn. destruct k; cbn; try discriminate; trivial. }
  assert (P2 : forall X, prop_names (filter nn X) = prop_names X).
  { intros X. unfold prop_names. apply flat_map_filter. intros k. unfold nn. destruct k; cbn; try discriminate; reflexivity. }
  assert (P3 : forall X, prop_patterns (filter nn X) = prop_patterns X).
  { intros X. unfold prop_patterns. apply flat_map_filter. intros k. unfold nn. destruct k; cbn; try discriminate; reflexivity. }
  assert (P4 : forall X, has_ref (filter nn X) = has_ref X).
  { intros X. unfold has_ref. apply existsb_filter. intros k. unfold nn. destruct k; cbn; try discriminate; reflexivity. }
  rewrite <- (P1 K'), <- (P2 K'), <- (P3 K'), <- (P4 K'), H. now rewrite P1, P2, P3, P4.
Qed.

(* ------------------------------------------------------------------ tail30: the other keywords are untouched *)
Lemma nn_strip_any K : filter nn (strip_any K) = filter nn K.
Proof.
  apply nn_map; intros k; destruct k; cbn; try discriminate; try reflexivity.
  intros _. destruct (existsb is_null_alt ss); reflexivity.
Qed.

Lemma nn_split_ty K : filter nn (split_ty K) = filter nn K.
Proof.
  apply nn_flat_map; intros k; destruct k; cbn [neutral]; try discriminate; try reflexivity.
  intros _. destruct (Nat.ltb 1 (List.length ts)); [destruct (Nat.ltb 1 (List.length (non_null ts)))|]; reflexivity.
Qed.

Lemma nn_push_allof xs K : filter nn (push_allof xs K) = filter nn K.
Proof.
  unfold push_allof. destruct xs as [|x xs']; [reflexivity|]. destruct (existsb is_allof K).
  - apply nn_map; intros k; destruct k; cbn; try discriminate; reflexivity.
  - apply nn_app. reflexivity.
Qed.

Lemma nn_add_any m K : filter nn (add_any m K) = filter nn K.
Proof.
  unfold add_any. destruct m as [|a m']; [reflexivity|]. destruct (existsb is_anyof K).
  - apply nn_push_allof.
  - apply nn_app. reflexivity.
Qed.

Lemma nn_add_nullable b K : filter nn (add_nullable b K) = filter nn K.
Proof. unfold add_nullable. destruct (b && negb (nullable K)); [apply nn_app|]; reflexivity. Qed.

Lemma nn_examples30 K : filter nn (examples30 K) = filter nn K.
Proof.
  unfold examples30. destruct (existsb (is_annot "example") K).
  - apply nn_filter. intros k. destruct k; cbn; try discriminate; reflexivity.
  - apply nn_map; intros k; destruct k; cbn; try discriminate; try reflexivity.
    intros _. destruct (String.eqb name "examples"); reflexivity.
Qed.

Lemma nn_const30 K : filter nn (const30 K) = filter nn K.
Proof.
  unfold const30. destruct (has_enum K).
  - rewrite nn_push_allof. apply nn_filter. intros k. destruct k; cbn; try discriminate; reflexivity.
  - apply nn_map; intros k; destruct k; cbn; try discriminate; reflexivity.
Qed.

Lemma nn_tail30 K : filter nn (tail30 K) = filter nn K.
Proof. unfold tail30. now rewrite nn_const30, nn_examples30, nn_add_nullable, nn_add_any, nn_split_ty, nn_strip_any. Qed.

(* "nullable" *)
Definition is_nullable (k : kw) : bool := match k with KwNullable => true | _ => false end.

Lemma existsb_flat_map {A B} (f : B -> bool) (h : A -> list B) l :
  existsb f (flat_map h l) = existsb (fun x => existsb f (h x)) l.
Proof. induction l as [|x r IH]; [reflexivity|]. cbn [flat_map existsb]. now rewrite existsb_app, IH. Qed.

Lemma existsb_ext' {A} (f g : A -> bool) l : (forall x, f x = g x) -> existsb f l = existsb g l.
Proof. intros H. induction l as [|x r IH]; [reflexivity|]. cbn [existsb]. now rewrite H, IH. Qed.

Lemma nullable_strip_any K : nullable (strip_any K) = nullable K.
Proof. unfold nullable, strip_any. apply existsb_map_eq. intros k. destruct k; try reflexivity. destruct (existsb is_null_alt ss); reflexivity. Qed.

Lemma nullable_split_ty K : nullable (split_ty K) = nullable K.
Proof.
  unfold nullable, split_ty. rewrite existsb_flat_map. apply existsb_ext'. intros k. destruct k; try reflexivity.
  destruct (Nat.ltb 1 (List.length ts)); [destruct (Nat.ltb 1 (List.length (non_null ts)))|]; reflexivity.
Qed.

Lemma nullable_push_allof xs K : nullable (push_allof xs K) = nullable K.
Proof.
  unfold push_allof. destruct xs as [|x xs']; [reflexivity|]. destruct (existsb is_allof K).
  - unfold nullable. apply existsb_map_eq. intros k. destruct k; reflexivity.
  - unfold nullable. rewrite existsb_app. cbn. now rewrite orb_false_r.
Qed.

Lemma nullable_add_any m K : nullable (add_any m K) = nullable K.
Proof.
  unfold add_any. destruct m as [|a m']; [reflexivity|]. destruct (existsb is_anyof K).
  - apply nullable_push_allof.
  - unfold nullable. rewrite existsb_app. cbn. now rewrite orb_false_r.
Qed.

Lemma nullable_add_nullable b K : nullable (add_nullable b K) = nullable K || b.
Proof.
  unfold add_nullable. destruct b; cbn [andb]; [|now rewrite orb_false_r].
  destruct (nullable K) eqn:E; cbn [negb]; [now rewrite E|].
  unfold nullable in *. rewrite existsb_app, E. reflexivity.
Qed.

Lemma nullable_examples30 K : nullable (examples30 K) = nullable K.
Proof.
  unfold examples30, nullable. destruct (existsb (is_annot "example") K).
  - apply existsb_filter. intros k. destruct k; cbn; try discriminate; reflexivity.
  - apply existsb_map_eq. intros k. destruct k; try reflexivity. cbn [is_annot]. destruct (String.eqb name "examples"); reflexivity.
Qed.

Lemma nullable_const30 K : nullable (const30 K) = nullable K.
Proof.
  unfold const30. destruct (has_enum K).
  - rewrite nullable_push_allof. unfold nullable. apply existsb_filter. intros k. destruct k; cbn; try discriminate; reflexivity.
  - unfold nullable. apply existsb_map_eq. intros k. destruct k; reflexivity.
Qed.

Definition flag30 (K : list kw) : bool := any_null K || ty_null (strip_any K).

Lemma nullable_tail30 K : nullable (tail30 K) = nullable K || flag30 K.
Proof.
  unfold tail30, flag30.
  now rewrite nullable_const30, nullable_examples30, nullable_add_nullable, nullable_add_any, nullable_split_ty, nullable_strip_any.
Qed.

(* ------------------------------------------------------------------ stages that do not depend on the datum *)
Section Val.
  Variable W : kw -> bool.
  Hypothesis W_null : W KwNullable = true.
  Hypothesis W_annot : forall n, W (KwAnnot n) = true.
  Hypothesis W_const : forall p, W (KwEnum [p]) = W (KwConst p).

  Lemma W_examples30 X : forallb W (examples30 X) = forallb W X.
  Proof.
    unfold examples30. destruct (existsb (is_annot "example") X).
    - apply forallb_filter_true. intros k _. destruct k; cbn; try discriminate. intros _. apply W_annot.
    - rewrite forallb_map. apply forallb_ext_in'. intros k _. destruct k; try reflexivity. cbn [is_annot].
      destruct (String.eqb name "examples"); [now rewrite !W_annot | reflexivity].
  Qed.

  Lemma W_const30 X : has_enum X && has_const X = false -> forallb W (const30 X) = forallb W X.
  Proof.
    intros H. unfold const30. destruct (has_enum X); cbn [andb] in H.
    - unfold has_const in H. rewrite flat_map_nil_on.
      + cbn [push_allof]. rewrite filter_id; [reflexivity|]. apply existsb_false_forallb in H.
        erewrite forallb_ext_in'; [exact H|]. intros k _. destruct k; reflexivity.
      + intros k Hk. destruct k; try reflexivity. exfalso.
        assert (Ht : existsb (fun k => match k with KwConst _ => true | _ => false end) X = true)
          by (apply existsb_exists; eexists; split; [exact Hk|reflexivity]).
        congruence.
    - rewrite forallb_map. apply forallb_ext_in'. intros k _. destruct k; try reflexivity. apply W_const.
  Qed.

  Lemma W_add_nullable b X : forallb W (add_nullable b X) = forallb W X.
  Proof.
    unfold add_nullable. destruct (b && negb (nullable X)); [|reflexivity].
    rewrite forallb_app. cbn [forallb]. now rewrite W_null, andb_true_r.
  Qed.
End Val.

(* ------------------------------------------------------------------ null alternatives and list-valued types *)
Lemma is_null_alt_eq a : is_null_alt a = true -> a = JS [KwType [JNull]].
Proof.
  destruct a as [b|kws]; cbn; [discriminate|]. destruct kws as [|k [|k' r]]; try discriminate.
  - destruct k; try discriminate. destruct ts as [|t [|t' r]]; try discriminate; destruct t; try discriminate. reflexivity.
  - destruct k; try discriminate. destruct ts as [|t [|t' r']]; try discriminate; destruct t; discriminate.
Qed.

Lemma jvalid_null_alt ss ds fuel d : jvalid ss ds fuel (JS [KwType [JNull]]) d = is_null d.
Proof. rewrite jvalid_JS. cbn. destruct d as [| | | [] | | | |]; reflexivity. Qed.

Lemma any_valid_strip ss ds fuel l d : is_null d = false ->
  any_valid (jvalid ss ds fuel) (filter (fun a => negb (is_null_alt a)) l) d = any_valid (jvalid ss ds fuel) l d.
Proof.
  intros Hd. induction l as [|a r IH]; [reflexivity|]. cbn [filter any_valid].
  destruct (is_null_alt a) eqn:E; cbn [negb any_valid]; rewrite IH; [|reflexivity].
  apply is_null_alt_eq in E. subst a. now rewrite jvalid_null_alt, Hd.
Qed.

Lemma any_valid_has_null ss ds fuel l : existsb is_null_alt l = true -> any_valid (jvalid ss ds fuel) l PNone = true.
Proof.
  induction l as [|a r IH]; cbn [existsb any_valid]; [discriminate|]. intros H. apply orb_true_iff in H. destruct H as [H|H].
  - apply is_null_alt_eq in H. subst a. now rewrite jvalid_null_alt.
  - rewrite IH by exact H. apply orb_true_r.
Qed.

Lemma memt_non_null t ts : t <> JNull -> memt t (non_null ts) = memt t ts.
Proof.
  intros Ht. unfold memt, non_null. induction ts as [|x r IH]; [reflexivity|]. cbn [filter existsb].
  destruct x; cbn [jtype_eqb negb existsb]; rewrite ?IH; try reflexivity.
  destruct t; try reflexivity. congruence.
Qed.

Lemma type_ok_non_null ts d : is_null d = false -> type_ok (non_null ts) d = type_ok ts d.
Proof.
  intros Hd. destruct d as [| | | f | | | |]; cbn [type_ok]; try discriminate;
    try destruct f; rewrite ?memt_non_null by discriminate; reflexivity.
Qed.

Lemma non_null_id ts : memt JNull ts = false -> non_null ts = ts.
Proof.
  unfold memt, non_null. induction ts as [|x r IH]; [reflexivity|]. cbn [existsb filter]. intros H.
  apply orb_false_iff in H. destruct H as [Hx Hr]. destruct x; cbn in Hx |- *; try discriminate; now rewrite IH.
Qed.

Lemma any_singles ss ds fuel ts d :
  any_valid (jvalid ss ds fuel) (map (fun t => JS [KwType [t]]) ts) d = type_ok ts d || false.
Proof.
  rewrite orb_false_r. induction ts as [|t r IH]; [destruct d as [| | | [] | | | |]; reflexivity|].
  cbn [map any_valid]. rewrite IH, jvalid_JS. cbn [nullable existsb andb orb forallb kw_valid flat_kw].
  rewrite andb_true_r. destruct d as [| | | [] | | | |]; cbn [type_ok memt existsb]; destruct t; cbn [jtype_eqb orb andb]; try reflexivity;
    try (now rewrite ?orb_true_r); try (now destruct (memt JNumber r)); try (now destruct (memt JInteger r)).
  all: unfold memt; destruct (existsb (jtype_eqb JNumber) r), (existsb (jtype_eqb JInteger) r), (q mod 4 =? 0)%Z; reflexivity.
Qed.

(* at most one "type" keyword (a JSON object has one): the list splits around it *)
Definition is_ty (k : kw) : bool := match k with KwType _ => true | _ => false end.

Lemma one_type K : List.length (filter is_ty K) <= 1 ->
  filter is_ty K = [] \/ exists A ts B, K = (A ++ KwType ts :: B)%list /\ filter is_ty A = [] /\ filter is_ty B = [].
Proof.
  induction K as [|k r IH]; [now left|]. cbn [filter]. destruct (is_ty k) eqn:E.
  - cbn [List.length]. intros H. right. destruct k; try discriminate. exists [], ts, r. repeat split.
    destruct (filter is_ty r); [reflexivity|cbn in H; lia].
  - intros H. destruct (IH H) as [H0|[A [ts [B [-> [HA HB]]]]]]; [now left|]. right. exists (k :: A), ts, B. repeat split; [|exact HB].
    cbn [filter]. now rewrite E.
Qed.

Lemma no_type_in A k : filter is_ty A = [] -> In k A -> is_ty k = false.
Proof.
  induction A as [|x r IH]; [contradiction|]. cbn [filter]. destruct (is_ty x) eqn:E; [discriminate|].
  intros H [<-|Hk]; [exact E | now apply IH].
Qed.

Lemma split_ty_notype A : filter is_ty A = [] -> split_ty A = A.
Proof. intros H. apply flat_map_id_on. intros k Hk. pose proof (no_type_in A k H Hk). destruct k; try reflexivity; discriminate. Qed.

Lemma multi_of_notype A : filter is_ty A = [] -> multi_of A = [].
Proof. intros H. apply flat_map_nil_on. intros k Hk. pose proof (no_type_in A k H Hk). destruct k; try reflexivity; discriminate. Qed.

Lemma ty_null_notype A : filter is_ty A = [] -> ty_null A = false.
Proof. intros H. apply existsb_false_on. intros k Hk. pose proof (no_type_in A k H Hk). destruct k; try reflexivity; discriminate. Qed.

Section Types.
  Variables (ss : bool) (ds : defs) (fuel : nat) (K0 : list kw) (d : pyval).
  Let V (k : kw) : bool := kw_valid ss ds fuel K0 k d.

  Lemma V_type ts : V (KwType ts) = type_ok ts d.
  Proof. reflexivity. Qed.

  (* setdefault("allOf", []).append(x): a conjunction *)
  Lemma V_push_allof xs K : forallb V (push_allof xs K) = forallb V K && all_valid_js (jvalid ss ds fuel) xs d.
  Proof.
    unfold push_allof. destruct xs as [|x xs'] eqn:E; [cbn [all_valid_js]; now rewrite andb_true_r|]. rewrite <- E. clear E.
    destruct (existsb is_allof K) eqn:Ha.
    - rewrite forallb_map.
      rewrite (forallb_ext_in' _ (fun k => V k && (negb (is_allof k) || all_valid_js (jvalid ss ds fuel) xs d))).
      + rewrite forallb_and_guard, Ha. reflexivity.
      + intros k _. destruct k; cbn [is_allof negb orb]; rewrite ?andb_true_r; try reflexivity.
        unfold V. cbn [kw_valid]. apply all_valid_app.
    - rewrite forallb_app. cbn [forallb]. now rewrite andb_true_r.
  Qed.

  Lemma consts_valid X :
    all_valid_js (jvalid ss ds fuel) (flat_map (fun k => match k with KwConst p => [JS [KwEnum [p]]] | _ => [] end) X) d
    = forallb V (filter is_const X).
  Proof.
    induction X as [|k r IH]; [reflexivity|]. cbn [flat_map filter]. destruct k; cbn [is_const app]; try exact IH.
    cbn [all_valid_js forallb]. rewrite IH. f_equal. rewrite jvalid_JS. unfold V.
    cbn [nullable existsb andb orb forallb kw_valid flat_kw]. now rewrite andb_true_r, orb_false_r.
  Qed.

  Lemma V_const30 X : forallb V (const30 X) = forallb V X.
  Proof.
    unfold const30. destruct (has_enum X).
    - rewrite V_push_allof, consts_valid. symmetry. apply (forallb_split is_const V X).
    - rewrite forallb_map. apply forallb_ext_in'. intros k _. destruct k; try reflexivity.
      unfold V. cbn [kw_valid flat_kw existsb]. now rewrite orb_false_r.
  Qed.

  Lemma types_stage K3 :
    List.length (filter is_ty K3) <= 1 -> (is_null d = false \/ ty_null K3 = false) ->
    forallb V (add_any (multi_of K3) (split_ty K3)) = forallb V K3.
  Proof.
    intros H1 Hq. destruct (one_type K3 H1) as [H0|[A [ts [B [-> [HA HB]]]]]].
    - now rewrite (multi_of_notype K3 H0), (split_ty_notype K3 H0).
    - unfold multi_of, split_ty in *. rewrite !flat_map_app in *. cbn [flat_map] in *.
      fold (multi_of A) (multi_of B) (split_ty A) (split_ty B) in *.
      rewrite (multi_of_notype A HA), (multi_of_notype B HB), (split_ty_notype A HA), (split_ty_notype B HB) in *.
      cbn [app] in *. rewrite app_nil_r in *.
      assert (Hts : Nat.ltb 1 (List.length ts) = true -> type_ok (non_null ts) d = type_ok ts d).
      { intros Hl. destruct Hq as [Hd|Hn]; [now apply type_ok_non_null|].
        unfold ty_null in Hn. rewrite existsb_app in Hn. cbn [existsb] in Hn. rewrite Hl in Hn. cbn [andb] in Hn.
        apply orb_false_iff in Hn. destruct Hn as [_ Hn]. apply orb_false_iff in Hn. destruct Hn as [Hn _].
        now rewrite (non_null_id ts Hn). }
      destruct (Nat.ltb 1 (List.length ts)) eqn:Hl; cbn [andb] in *; [|reflexivity].
      specialize (Hts eq_refl).
      destruct (Nat.ltb 1 (List.length (non_null ts))) eqn:Hl2.
      + (* several members: the type moves into an anyOf appended at the end *)
        destruct (map (fun t => JS [KwType [t]]) (non_null ts)) as [|a m'] eqn:Em.
        { destruct (non_null ts) as [|t [|t' r]]; cbn in Hl2; discriminate. }
        assert (Hany : any_valid (jvalid ss ds fuel) (a :: m') d = type_ok ts d)
          by (now rewrite <- Em, any_singles, orb_false_r, Hts).
        unfold add_any. cbn [app]. destruct (existsb is_anyof (A ++ B)).
        * (* beside an existing anyOf: in allOf *)
          rewrite V_push_allof. cbn [all_valid_js]. rewrite jvalid_JS. cbn [nullable existsb andb orb forallb kw_valid].
          rewrite Hany, !forallb_app. cbn [forallb]. rewrite V_type.
          destruct (forallb V A), (forallb V B), (type_ok ts d); reflexivity.
        * rewrite !forallb_app. cbn [forallb]. rewrite V_type.
          change (V (KwAnyOf (a :: m'))) with (any_valid (jvalid ss ds fuel) (a :: m') d). rewrite Hany.
          destruct (forallb V A), (forallb V B), (type_ok ts d); reflexivity.
      + cbn [add_any app]. rewrite !forallb_app. cbn [forallb]. now rewrite !V_type, Hts.
  Qed.

  Lemma strip_any_stage K2 : (is_null d = false \/ any_null K2 = false) -> forallb V (strip_any K2) = forallb V K2.
  Proof.
    intros Hq. unfold strip_any. rewrite forallb_map. apply forallb_ext_in'. intros k Hk. destruct k; try reflexivity.
    destruct (existsb is_null_alt ss0) eqn:E; [|reflexivity].
    destruct Hq as [Hd|Hn].
    - unfold V. cbn [kw_valid]. now apply any_valid_strip.
    - exfalso. unfold any_null in Hn. assert (Ht : existsb (fun k => match k with KwAnyOf l => existsb is_null_alt l | _ => false end) K2 = true).
      { apply existsb_exists. eexists. split; [exact Hk|]. exact E. }
      congruence.
  Qed.
End Types.

(* ------------------------------------------------------------------ side condition (c): keywords that accept null *)
Definition is_lnone (p : prim) : bool := match p with LNone => true | _ => false end.
Definition null_fine (k : kw) : bool :=
  match k with
  | KwType ts => memt JNull ts
  | KwConst p => is_lnone p
  | KwEnum ps => existsb is_lnone ps
  | KwAnyOf l => existsb is_null_alt l
  | KwAllOf _ | KwOneOf _ | KwRef _ _ => false
  | _ => true
  end.

Lemma null_fine_valid ss ds fuel K0 k : null_fine k = true -> kw_valid ss ds fuel K0 k PNone = true.
Proof.
  destruct k; cbn [null_fine kw_valid flat_kw]; intros H; try reflexivity; try discriminate; try exact H.
  - destruct p; try discriminate. reflexivity.
  - induction ps as [|p r IH]; cbn [existsb] in *; [discriminate|]. apply orb_true_iff in H. destruct H as [H|H].
    + destruct p; try discriminate. reflexivity.
    + rewrite IH by exact H. apply orb_true_r.
  - destruct c; reflexivity.
  - destruct ss; reflexivity.
  - now apply any_valid_has_null.
Qed.

Definition tail_ok (K2 : list kw) : bool :=
  let K3 := strip_any K2 in
  Nat.leb (List.length (filter is_ty K3)) 1             (* a JSON object has one "type" *)
  && (negb (flag30 K2) || forallb null_fine K2).         (* where null moves to "nullable", the siblings accept null *)

Theorem tail30_ok ss ds fuel K2 d : tail_ok K2 = true ->
  jvalid ss ds fuel (JS (tail30 K2)) d = jvalid ss ds fuel (JS K2) d.
Proof.
  unfold tail_ok. intros H. apply andb_true_iff in H. destruct H as [Ha Hc]. apply Nat.leb_le in Ha.
  rewrite !jvalid_JS, nullable_tail30.
  destruct (ctx_of_nn K2 (tail30 K2) (nn_tail30 K2)) as [C1 [C2 [C3 _]]].
  rewrite (forallb_ext_in' (fun k => kw_valid ss ds fuel (tail30 K2) k d) (fun k => kw_valid ss ds fuel K2 k d))
    by (intros k _; now apply kw_valid_sib).
  set (V := fun k => kw_valid ss ds fuel K2 k d).
  destruct (is_null d) eqn:Hd.
  - destruct (flag30 K2) eqn:Hf.
    + (* null moved to "nullable": the datum null is accepted on both sides *)
      cbn [negb orb] in Hc. rewrite orb_true_r. cbn [andb orb].
      destruct d; try discriminate. symmetry. apply orb_true_iff. right.
      rewrite forallb_forall in Hc |- *. intros k Hk. apply null_fine_valid. now apply Hc.
    + rewrite orb_false_r. f_equal. unfold tail30. fold (flag30 K2). rewrite Hf.
      unfold V. rewrite V_const30.
      rewrite W_examples30 by (intros; reflexivity). rewrite W_add_nullable by reflexivity.
      unfold flag30 in Hf. apply orb_false_iff in Hf. destruct Hf as [Hf1 Hf2].
      rewrite types_stage; [| exact Ha | now right]. apply strip_any_stage. now right.
  - rewrite !andb_false_r. cbn [orb]. unfold tail30. fold (flag30 K2).
    unfold V. rewrite V_const30.
    rewrite W_examples30 by (intros; reflexivity). rewrite W_add_nullable by reflexivity.
    rewrite types_stage; [| exact Ha | now left]. apply strip_any_stage. now left.
Qed.

(* ------------------------------------------------------------------ the whole top-level rewriting *)
Definition keep30 (k : kw) : bool := match k with KwDepReq _ | KwPropertyNames _ | KwAddItems _ => false | _ => true end.

(* side conditions, on the keywords of one schema object *)
Definition P30 (K : list kw) : bool :=
  forallb keep30 (top19 K)                      (* (a) nothing is dropped *)
  && tail_ok (isolate_ref (top19 K)).            (* (b) (c) (d) *)

Lemma top_oas30_ok ss ds fuel K d : P30 K = true -> jvalid ss ds fuel (JS (top_oas30 K)) d = jvalid ss ds fuel (JS K) d.
Proof.
  unfold P30, top_oas30. intros H. apply andb_true_iff in H. destruct H as [Hk Ht].
  unfold drop30. change (fun k => match k with KwDepReq _ | KwPropertyNames _ | KwAddItems _ => false | _ => true end) with keep30.
  rewrite (filter_id keep30 _ Hk). rewrite tail30_ok by exact Ht. rewrite isolate_ref_ok. apply top19_ok.
Qed.

(* flat evaluation (the target of a leaf "$ref"): nothing moves to "nullable" or to an anyOf *)
Definition PL30 (K : list kw) : bool :=
  let K2 := isolate_ref (top19 K) in
  negb (flag30 K2) && match multi_of (strip_any K2) with [] => true | _ => false end
  && negb (has_enum (examples30 (split_ty (strip_any K2))) && has_const (examples30 (split_ty (strip_any K2)))).

Lemma flat_map_nil_inv {A B} (h : A -> list B) l x : flat_map h l = [] -> In x l -> h x = [].
Proof.
  induction l as [|y r IH]; [contradiction|]. cbn [flat_map]. intros H Hx. apply app_eq_nil in H. destruct H as [Hy Hr].
  destruct Hx as [<-|Hx]; [exact Hy | now apply IH].
Qed.

Lemma tail30_leaf ss K2 d : flag30 K2 = false -> multi_of (strip_any K2) = [] ->
  has_enum (examples30 (split_ty (strip_any K2))) && has_const (examples30 (split_ty (strip_any K2))) = false ->
  leaf_valid ss (JS (tail30 K2)) d = leaf_valid ss (JS K2) d.
Proof.
  intros Hf Hmu Hb.
  cbn [leaf_valid]. set (Wl := fun k => match flat_kw ss k d with Some b => b | None => true end).
  unfold tail30. fold (flag30 K2). rewrite Hf, Hmu in *. cbn [add_any]. unfold add_nullable at 1. cbn [andb].
  rewrite W_const30; [| intros p; unfold Wl; cbn [flat_kw existsb]; now rewrite orb_false_r | exact Hb].
  rewrite W_examples30 by (intros; reflexivity).
  unfold flag30 in Hf. apply orb_false_iff in Hf. destruct Hf as [_ Hty].
  transitivity (forallb Wl (strip_any K2)).
  - unfold split_ty. rewrite forallb_flat_map. apply forallb_ext_in'. intros k Hk.
    destruct k; try (cbn [forallb]; now rewrite andb_true_r).
    destruct (Nat.ltb 1 (List.length ts)) eqn:Hl; [|cbn [forallb]; now rewrite andb_true_r].
    pose proof (flat_map_nil_inv _ _ _ Hmu Hk) as Hn. cbn beta iota in Hn. rewrite Hl in Hn. cbn [andb] in Hn.
    assert (Hnull : memt JNull ts = false).
    { unfold ty_null in Hty. destruct (memt JNull ts) eqn:E; [|reflexivity]. exfalso.
      assert (Ht : existsb (fun k => match k with KwType ts => Nat.ltb 1 (List.length ts) && memt JNull ts | _ => false end) (strip_any K2) = true).
      { apply existsb_exists. eexists. split; [exact Hk|]. cbn beta iota. now rewrite Hl, E. }
      congruence. }
    rewrite (non_null_id ts Hnull) in *.
    rewrite Hl in Hn. destruct ts as [|t [|t' r]]; cbn in Hl; discriminate.
  - unfold strip_any. rewrite forallb_map. apply forallb_ext_in'. intros k _. destruct k; try reflexivity.
    destruct (existsb is_null_alt ss0); reflexivity.
Qed.

Lemma top_oas30_leaf ss K d : P30 K = true -> PL30 K = true -> leaf_valid ss (JS (top_oas30 K)) d = leaf_valid ss (JS K) d.
Proof.
  unfold P30, PL30, top_oas30. intros H HL. apply andb_true_iff in H. destruct H as [Hk Ht].
  apply andb_true_iff in HL. destruct HL as [HL Hb]. apply negb_true_iff in Hb.
  apply andb_true_iff in HL. destruct HL as [Hf Hm]. apply negb_true_iff in Hf.
  unfold drop30. change (fun k => match k with KwDepReq _ | KwPropertyNames _ | KwAddItems _ => false | _ => true end) with keep30.
  rewrite (filter_id keep30 _ Hk). rewrite tail30_leaf; [| exact Hf | destruct (multi_of _); [reflexivity|discriminate] | exact Hb].
  rewrite isolate_ref_leaf. apply top19_leaf.
Qed.

(* standard semantics: the OpenAPI 3.0 schema accepts what the 2020-12 schema accepts *)
Definition ok30 (s : js) : bool := okc VOAS30 P30 s.
Definition okd30 (s : js) : bool := okd VOAS30 P30 PL30 s.

Theorem convert_oas30_preserves_standard ss ds fuel s d :
  forallb okd30 (map snd ds) = true -> ok30 s = true ->
  jvalid ss (convert_defs VOAS30 ds) fuel (convert VOAS30 s) d = jvalid ss ds fuel s d.
Proof.
  intros Hds Hs. apply (convert_preserves_cond ss VOAS30 P30 PL30); try assumption.
  - intros. now apply top_oas30_ok.
  - intros. now apply top_oas30_leaf.
Qed.

(* ------------------------------------------------------------------ OpenAPI 3.0's own rule: "$ref" excludes its siblings *)
Lemma Forall_flat_map' {A} (Q : A -> Prop) (h : A -> list A) l : Forall Q l -> (forall x, Q x -> Forall Q (h x)) -> Forall Q (flat_map h l).
Proof. intros H Hh. induction H as [|x r Hx _ IH]; [constructor|]. cbn [flat_map]. apply Forall_app. split; [now apply Hh | exact IH]. Qed.

Lemma Forall_map' {A} (Q : A -> Prop) (g : A -> A) l : Forall Q l -> (forall x, Q x -> Q (g x)) -> Forall Q (map g l).
Proof. intros H Hg. induction H as [|x r Hx _ IH]; [constructor|]. cbn [map]. constructor; [now apply Hg | exact IH]. Qed.

Lemma multi_fixed K : Forall fixed (multi_of K).
Proof.
  unfold multi_of. induction K as [|k r IH]; [constructor|]. cbn [flat_map]. apply Forall_app. split; [|exact IH].
  destruct k; try constructor. destruct (_ && _); [|constructor].
  induction (non_null ts) as [|t r' IHt]; [constructor|]. cbn [map]. constructor; [reflexivity | exact IHt].
Qed.

Lemma push_allof_fixed xs K : Forall fixed xs -> Forall kw_fixed K -> Forall kw_fixed (push_allof xs K).
Proof.
  intros Hx HK. unfold push_allof. destruct xs as [|x xs'] eqn:E; [exact HK|]. rewrite <- E in *. clear E.
  destruct (existsb is_allof K).
  - apply Forall_map'; [exact HK|]. intros k Hk. destruct k; try exact Hk. unfold kw_fixed in *. cbn [subs] in *.
    apply Forall_app. split; assumption.
  - apply Forall_app. split; [exact HK|]. constructor; [|constructor]. exact Hx.
Qed.

Lemma fixed_anyof l : Forall fixed l -> fixed (JS [KwAnyOf l]).
Proof. intros H. unfold fixed. cbn [ref_exclusive map kw_map has_ref existsb orb]. now rewrite (map_fixed l H). Qed.

Lemma tail30_fixed K : Forall kw_fixed K -> Forall kw_fixed (tail30 K).
Proof.
  intros H. unfold tail30.
  assert (H3 : Forall kw_fixed (strip_any K)).
  { unfold strip_any. apply Forall_map'; [exact H|]. intros k Hk. destruct k; try exact Hk.
    destruct (existsb is_null_alt ss); [|exact Hk]. unfold kw_fixed in *. cbn [subs] in *. now apply Forall_filter. }
  assert (H4 : Forall kw_fixed (split_ty (strip_any K))).
  { unfold split_ty. apply Forall_flat_map'; [exact H3|]. intros k Hk. destruct k; try (constructor; [exact Hk|constructor]).
    destruct (Nat.ltb 1 (List.length ts)); [|constructor; [exact Hk|constructor]].
    destruct (Nat.ltb 1 (List.length (non_null ts))); [constructor|]. constructor; [|constructor]. unfold kw_fixed. constructor. }
  assert (H5 : Forall kw_fixed (add_any (multi_of (strip_any K)) (split_ty (strip_any K)))).
  { pose proof (multi_fixed (strip_any K)) as Hm. unfold add_any. destruct (multi_of (strip_any K)) as [|a m'] eqn:E; [exact H4|].
    destruct (existsb is_anyof _).
    - apply push_allof_fixed; [|exact H4]. constructor; [|constructor]. now apply fixed_anyof.
    - apply Forall_app. split; [exact H4|]. constructor; [|constructor]. exact Hm. }
  assert (H6 : forall b, Forall kw_fixed (add_nullable b (add_any (multi_of (strip_any K)) (split_ty (strip_any K))))).
  { intros b. unfold add_nullable. destruct (b && _); [|exact H5]. apply Forall_app. split; [exact H5|]. constructor; [|constructor].
    unfold kw_fixed. constructor. }
  set (X := add_nullable _ _) in *. specialize (H6 (any_null K || ty_null (strip_any K))). fold X in H6.
  assert (H7 : Forall kw_fixed (examples30 X)).
  { unfold examples30. destruct (existsb _ X); [now apply Forall_filter|]. apply Forall_map'; [exact H6|].
    intros k Hk. destruct (is_annot "examples" k); [|exact Hk]. unfold kw_fixed. constructor. }
  unfold const30. destruct (has_enum _).
  - apply push_allof_fixed; [|now apply Forall_filter].
    clear. induction (examples30 X) as [|k r IH]; [constructor|]. cbn [flat_map]. apply Forall_app. split; [|exact IH].
    destruct k; try constructor; [reflexivity|constructor].
  - apply Forall_map'; [exact H7|]. intros k Hk. destruct k; exact Hk.
Qed.

Lemma top_oas30_fixed K : Forall kw_fixed K -> Forall kw_fixed (top_oas30 K).
Proof.
  intros H. unfold top_oas30. apply tail30_fixed, isolate_ref_fixed. unfold drop30. apply Forall_filter.
  unfold top19. destruct (has_prefix_items K); [|exact H].
  apply Forall_map_subs; [intros k; destruct k; reflexivity | exact H].
Qed.

Lemma forallb_filter_self {A} (p : A -> bool) l : forallb p (filter p l) = true.
Proof. induction l as [|x r IH]; [reflexivity|]. cbn [filter]. destruct (p x) eqn:E; [cbn [forallb]; now rewrite E|exact IH]. Qed.

Lemma tail30_allref K : forallb is_ref K = true -> tail30 K = K.
Proof.
  intros H. rewrite forallb_forall in H.
  assert (Hk : forall k, In k K -> exists l n, k = KwRef l n).
  { intros k Hin. specialize (H k Hin). destruct k; try discriminate. eauto. }
  assert (E1 : strip_any K = K).
  { apply map_id_on. intros k Hin. destruct (Hk k Hin) as [l [n ->]]. reflexivity. }
  assert (E2 : any_null K = false).
  { apply existsb_false_on. intros k Hin. destruct (Hk k Hin) as [l [n ->]]. reflexivity. }
  assert (E3 : ty_null K = false).
  { apply existsb_false_on. intros k Hin. destruct (Hk k Hin) as [l [n ->]]. reflexivity. }
  assert (E4 : multi_of K = []).
  { apply flat_map_nil_on. intros k Hin. destruct (Hk k Hin) as [l [n ->]]. reflexivity. }
  assert (E5 : split_ty K = K).
  { apply flat_map_id_on. intros k Hin. destruct (Hk k Hin) as [l [n ->]]. reflexivity. }
  unfold tail30. rewrite E1, E2, E3, E4, E5. cbn [orb add_any]. unfold add_nullable. cbn [andb].
  assert (E6 : examples30 K = K).
  { unfold examples30. rewrite (existsb_false_on (is_annot "example") K)
      by (intros k Hin; destruct (Hk k Hin) as [l [n ->]]; reflexivity).
    apply map_id_on. intros k Hin. destruct (Hk k Hin) as [l [n ->]]. reflexivity. }
  rewrite E6. unfold const30, has_enum.
  rewrite existsb_false_on by (intros k Hin; destruct (Hk k Hin) as [l [n ->]]; reflexivity).
  apply map_id_on. intros k Hin. destruct (Hk k Hin) as [l [n ->]]. reflexivity.
Qed.

Lemma tail30_alone K : ref_alone K -> ref_alone (tail30 K).
Proof.
  intros HA. unfold ref_alone. destruct (ctx_of_nn K (tail30 K) (nn_tail30 K)) as [_ [_ [_ Hr]]]. rewrite Hr. intros H.
  specialize (HA H). assert (Hall : forallb is_ref K = true) by (rewrite <- HA; apply forallb_filter_self).
  rewrite (tail30_allref K Hall). exact HA.
Qed.

Lemma top_oas30_alone K : ref_alone (top_oas30 K).
Proof. unfold top_oas30. apply tail30_alone, isolate_ref_alone. Qed.

Lemma ref_exclusive_convert30 s : ref_exclusive (convert VOAS30 s) = convert VOAS30 s.
Proof.
  induction s as [b|kws IH] using js_ind'; [reflexivity|].
  cbn [convert top_of]. set (K0 := map (kw_map (convert VOAS30)) kws).
  assert (H0 : Forall kw_fixed K0).
  { unfold K0. clear - IH. induction IH as [|k r Hk _ IHr]; [constructor|]. cbn [map]. constructor; [|exact IHr].
    unfold kw_fixed. destruct k; cbn [kw_map subs] in *; try constructor;
      try (inversion Hk; subst; assumption); try constructor;
      try (clear - Hk; induction Hk; cbn [map]; constructor; assumption).
    all: try (clear - Hk; induction ps as [|[n x] ps IHp]; cbn [map snd fst] in *; [constructor|];
              inversion Hk; subst; constructor; [assumption | apply IHp; assumption]). }
  pose proof (top_oas30_fixed K0 H0) as HK. pose proof (top_oas30_alone K0) as HA.
  cbn [ref_exclusive]. rewrite (map_kw_fixed _ HK).
  destruct (has_ref (top_oas30 K0)) eqn:Hr; [|reflexivity].
  f_equal. change (fun k => match k with KwRef _ _ => true | _ => false end) with is_ref. now apply HA.
Qed.

Lemma ref_exclusive_defs30 ds :
  map (fun x => (fst x, ref_exclusive (snd x))) (convert_defs VOAS30 ds) = convert_defs VOAS30 ds.
Proof.
  unfold convert_defs. induction ds as [|[n s] r IH]; [reflexivity|]. cbn [map fst snd]. rewrite ref_exclusive_convert30. f_equal. exact IH.
Qed.

(* OpenAPI 3.0 under its own rules ("nullable", "$ref" excluding its siblings): exactly the instances of the 2020-12
   schema, for every schema and definitions meeting the side conditions at every node, every datum, every fuel *)
Theorem convert_oas30_preserves ss ds fuel s d :
  forallb okd30 (map snd ds) = true -> ok30 s = true ->
  jvalid_v VOAS30 ss (convert_defs VOAS30 ds) fuel (convert VOAS30 s) d = jvalid ss ds fuel s d.
Proof.
  intros Hds Hs. unfold jvalid_v. rewrite ref_exclusive_defs30, ref_exclusive_convert30.
  now apply convert_oas30_preserves_standard.
Qed.

(* after the conversion no "$ref" has a sibling, at any nesting level *)
Theorem oas30_ref_has_no_sibling s : ref_exclusive (convert VOAS30 s) = convert VOAS30 s.
Proof. exact (ref_exclusive_convert30 s). Qed.

(* ------------------------------------------------------------------ the hypotheses are satisfiable; the old conversion *)
(* Optional[int] with a default, Union[int, str] with a constraint, Optional[Literal] and a "$ref" with a sibling *)
Definition oas30_ex : js :=
  JS [KwType [JObject];
      KwProperties [("a", JS [KwAnyOf [JS [KwType [JInteger]]; JS [KwType [JNull]]]; KwAnnot "default"]);
                    ("b", JS [KwType [JInteger; JString]; KwCon (KMinLen 1)]);
                    ("c", JS [KwType [JString; JNull]; KwEnum [LStr "x"; LNone]]);
                    ("d", JS [KwRef false "D"; KwAnnot "description"]);
                    ("e", JS [KwPrefixItems [JS [KwType [JInteger]]]; KwItems (JBoolS false); KwType [JArray]])];
      KwRequired ["a"]; KwAddProps (JBoolS false)].

Example oas30_ex_ok : ok30 oas30_ex = false /\ ok30 (JS [KwProperties [("a", JS [KwAnyOf [JS [KwType [JInteger]]; JS [KwType [JNull]]]; KwAnnot "default"]);
                    ("b", JS [KwType [JInteger; JString]; KwCon (KMinLen 1)]);
                    ("c", JS [KwType [JString; JNull]; KwEnum [LStr "x"; LNone]]);
                    ("d", JS [KwRef false "D"; KwAnnot "description"])]]) = true.
Proof. vm_compute. split; reflexivity. Qed.

(* before the repair (fix: edf635c) a list-valued type was merged into an existing anyOf, and a const beside an enum was
   dropped: the converted schema accepted more *)
Definition old_add_any (multi : list js) (kws : list kw) : list kw :=
  match multi with
  | [] => kws
  | _ => if existsb is_anyof kws
         then map (fun k => match k with KwAnyOf l => KwAnyOf (l ++ multi) | _ => k end) kws
         else (kws ++ [KwAnyOf multi])%list
  end.
Definition old_const30 (kws : list kw) : list kw :=
  if has_enum kws then filter (fun k => negb (is_const k)) kws
  else map (fun k => match k with KwConst p => KwEnum [p] | _ => k end) kws.
Definition old_top_oas30 (kws : list kw) : list kw :=
  let k2 := isolate_ref (drop30 (top19 kws)) in
  let k3 := strip_any k2 in
  old_const30 (examples30 (add_nullable (any_null k2 || ty_null k3) (old_add_any (multi_of k3) (split_ty k3)))).

Theorem oas30_old_conversion_refuted :
  (exists K d, jvalid false [] 3 (JS (old_top_oas30 K)) d = true /\ jvalid false [] 3 (JS K) d = false)
  /\ (exists K d, jvalid false [] 3 (JS (old_top_oas30 K)) d = true /\ jvalid false [] 3 (JS K) d = false
                  /\ has_enum K = true).
Proof.
  split.
  - exists [KwType [JInteger; JString]; KwAnyOf [JS [KwCon (KMin (CI 0))]; JS [KwCon (KMaxLen 2)]]], (PFloat (FQ 6)).
    vm_compute. split; reflexivity.
  - exists [KwConst (LInt 1); KwEnum [LInt 1; LInt 2]], (PInt 2). vm_compute. repeat split; reflexivity.
Qed.
