(* C18: the dialect conversions preserve the set of valid instances. *)
From Coq Require Import List String ZArith Bool Arith Lia.
From AV Require Import Core.Json Core.Text Deser.Model Schema.Json Schema.Unfold Schema.Versions.
Import ListNotations.

(* ------------------------------------------------------------------ induction on schemas *)
Definition subs (k : kw) : list js :=
  match k with
  | KwItems s | KwAddItems s | KwAddProps s | KwPropertyNames s => [s]
  | KwPrefixItems l | KwItemsArr l | KwAnyOf l | KwAllOf l | KwOneOf l => l
  | KwProperties ps | KwPatternProps ps => map snd ps
  | _ => []
  end.

Lemma js_ind' (P : js -> Prop) :
  (forall b, P (JBoolS b)) ->
  (forall kws, Forall (fun k => Forall P (subs k)) kws -> P (JS kws)) ->
  forall s, P s.
Proof.
  intros Hb Hs. fix IH 1. intros [b|kws]; [apply Hb|]. apply Hs.
  induction kws as [|k r IHr]; constructor; [|exact IHr].
  destruct k; cbn [subs]; try (constructor; fail); try (constructor; [apply IH | constructor]).
  - induction ss as [|x xs IHx]; constructor; [apply IH | exact IHx].
  - induction ps as [|[n x] xs IHx]; constructor; [apply IH | exact IHx].
  - induction ps as [|[n x] xs IHx]; constructor; [apply IH | exact IHx].
  - induction ss as [|x xs IHx]; constructor; [apply IH | exact IHx].
  - induction ss as [|x xs IHx]; constructor; [apply IH | exact IHx].
  - induction ss as [|x xs IHx]; constructor; [apply IH | exact IHx].
  - induction ss as [|x xs IHx]; constructor; [apply IH | exact IHx].
Qed.

(* ------------------------------------------------------------------ generic preservation *)
Lemma forallb_ext_in' {A} (f g : A -> bool) l : (forall x, In x l -> f x = g x) -> forallb f l = forallb g l.
Proof.
  intros H. induction l as [|x r IH]; [reflexivity|]. cbn [forallb].
  rewrite H by (left; reflexivity). rewrite IH; [reflexivity|]. intros y Hy. apply H. right. exact Hy.
Qed.

Lemma forallb_map {A B} (f : B -> bool) (g : A -> B) l : forallb f (map g l) = forallb (fun x => f (g x)) l.
Proof. induction l as [|x r IH]; [reflexivity|]. cbn [map forallb]. now rewrite IH. Qed.

Lemma prefix_len_map F kws : prefix_len (map (kw_map F) kws) = prefix_len kws.
Proof.
  unfold prefix_len. generalize 0 as n. induction kws as [|k r IH]; intros n; [reflexivity|].
  cbn [map fold_left]. rewrite IH. f_equal. destruct k; cbn [kw_map]; try reflexivity; now rewrite map_length.
Qed.

Lemma map_fst_map {A} (F : js -> js) (ps : list (A * js)) : map fst (map (fun p => (fst p, F (snd p))) ps) = map fst ps.
Proof. induction ps as [|[n x] r IH]; [reflexivity|]. cbn [map fst]. now rewrite IH. Qed.

Lemma prop_names_map F kws : prop_names (map (kw_map F) kws) = prop_names kws.
Proof.
  unfold prop_names. induction kws as [|k r IH]; [reflexivity|]. cbn [map flat_map]. rewrite IH. f_equal.
  destruct k; cbn [kw_map]; try reflexivity. apply map_fst_map.
Qed.

Lemma prop_patterns_map F kws : prop_patterns (map (kw_map F) kws) = prop_patterns kws.
Proof.
  unfold prop_patterns. induction kws as [|k r IH]; [reflexivity|]. cbn [map flat_map]. rewrite IH. f_equal.
  destruct k; cbn [kw_map]; try reflexivity. apply map_fst_map.
Qed.

Lemma nullable_map F kws : nullable (map (kw_map F) kws) = nullable kws.
Proof.
  unfold nullable. induction kws as [|k r IH]; [reflexivity|]. cbn [map existsb]. rewrite IH. f_equal. destruct k; reflexivity.
Qed.

Lemma additional_map F kws key : additional (map (kw_map F) kws) key = additional kws key.
Proof. unfold additional. now rewrite prop_names_map, prop_patterns_map. Qed.

Lemma def_lookup_map F name ds : def_lookup name (map (fun d => (fst d, F (snd d))) ds) = option_map F (def_lookup name ds).
Proof.
  induction ds as [|[n s] r IH]; [reflexivity|]. cbn [map def_lookup fst snd]. destruct (String.eqb n name); [reflexivity|exact IH].
Qed.

Lemma flat_kw_map ss F k d : flat_kw ss (kw_map F k) d = flat_kw ss k d.
Proof. destruct k; reflexivity. Qed.

Lemma leaf_valid_map ss F kws d : leaf_valid ss (JS (map (kw_map F) kws)) d = leaf_valid ss (JS kws) d.
Proof. cbn [leaf_valid]. rewrite forallb_map. apply forallb_ext_in'. intros k _. now rewrite flat_kw_map. Qed.

(* loops over mapped lists *)
Section LoopMaps.
  Variables (V V' : js -> pyval -> bool) (F : js -> js).

  Lemma zip_valid_map l1 : (forall s, In s l1 -> forall x, V' (F s) x = V s x) ->
    forall l, zip_valid V' (map F l1) l = zip_valid V l1 l.
  Proof.
    induction l1 as [|s r IH]; intros H l; [reflexivity|]. destruct l as [|x lr]; [reflexivity|].
    cbn [map zip_valid]. rewrite H by (left; reflexivity). rewrite IH; [reflexivity|]. intros s' Hs'. apply H. right. exact Hs'.
  Qed.

  Lemma props_valid_map ps kvs : (forall s, In s (map snd ps) -> forall x, V' (F s) x = V s x) ->
    props_valid V' (map (fun p => (fst p, F (snd p))) ps) kvs = props_valid V ps kvs.
  Proof.
    induction ps as [|[n s] r IH]; intros H; [reflexivity|]. cbn [map props_valid fst snd].
    rewrite IH by (intros s' Hs'; apply H; right; exact Hs').
    destruct (dict_get n kvs); [|reflexivity]. rewrite H by (left; reflexivity). reflexivity.
  Qed.

  Lemma pats_valid_map ps kvs : (forall s, In s (map snd ps) -> forall x, V' (F s) x = V s x) ->
    pats_valid V' (map (fun p => (fst p, F (snd p))) ps) kvs = pats_valid V ps kvs.
  Proof.
    induction ps as [|[n s] r IH]; intros H; [reflexivity|]. cbn [map pats_valid fst snd].
    rewrite IH by (intros s' Hs'; apply H; right; exact Hs'). f_equal.
    apply forallb_ext_in'. intros kv _. rewrite H by (left; reflexivity). reflexivity.
  Qed.

  Lemma any_valid_map l d : (forall s, In s l -> forall x, V' (F s) x = V s x) -> any_valid V' (map F l) d = any_valid V l d.
  Proof.
    induction l as [|s r IH]; intros H; [reflexivity|]. cbn [map any_valid]. rewrite H by (left; reflexivity).
    rewrite IH; [reflexivity|]. intros s' Hs'. apply H. right. exact Hs'.
  Qed.

  Lemma all_valid_map l d : (forall s, In s l -> forall x, V' (F s) x = V s x) -> all_valid_js V' (map F l) d = all_valid_js V l d.
  Proof.
    induction l as [|s r IH]; intros H; [reflexivity|]. cbn [map all_valid_js]. rewrite H by (left; reflexivity).
    rewrite IH; [reflexivity|]. intros s' Hs'. apply H. right. exact Hs'.
  Qed.

  Lemma count_valid_map l d : (forall s, In s l -> forall x, V' (F s) x = V s x) -> count_valid V' (map F l) d = count_valid V l d.
  Proof.
    induction l as [|s r IH]; intros H; [reflexivity|]. cbn [map count_valid]. rewrite H by (left; reflexivity).
    rewrite IH; [reflexivity|]. intros s' Hs'. apply H. right. exact Hs'.
  Qed.
End LoopMaps.

Section Preserve.
  Variable ss : bool.
  Variable v : version.
  (* the top-level rewriting of one schema object does not change what it accepts, whatever its (already converted) keywords *)
  Hypothesis top_ok : forall ds fuel kws d, jvalid ss ds fuel (JS (top_of v kws)) d = jvalid ss ds fuel (JS kws) d.
  Hypothesis top_leaf : forall kws d, leaf_valid ss (JS (top_of v kws)) d = leaf_valid ss (JS kws) d.

  Lemma leaf_valid_convert s d : leaf_valid ss (convert v s) d = leaf_valid ss s d.
  Proof. destruct s as [b|kws]; [reflexivity|]. cbn [convert]. now rewrite top_leaf, leaf_valid_map. Qed.

  Lemma kw_map_valid ds fuel kws k d :
    (forall s', In s' (subs k) -> forall x, jvalid ss (convert_defs v ds) fuel (convert v s') x = jvalid ss ds fuel s' x) ->
    (forall f, fuel = S f -> forall s' x, jvalid ss (convert_defs v ds) f (convert v s') x = jvalid ss ds f s' x) ->
    kw_valid ss (convert_defs v ds) fuel (map (kw_map (convert v)) kws) (kw_map (convert v) k) d = kw_valid ss ds fuel kws k d.
  Proof.
    intros IH IHf.
    destruct k; cbn [kw_map kw_valid subs] in *; rewrite ?prefix_len_map; try reflexivity.
    - (* items *) destruct d; try reflexivity. apply forallb_ext_in'. intros x _. apply IH. left. reflexivity.
    - (* prefixItems *) destruct d; try reflexivity. apply zip_valid_map. exact IH.
    - (* properties *) destruct d; try reflexivity. apply props_valid_map. exact IH.
    - (* additionalProperties *) destruct d; try reflexivity. apply forallb_ext_in'. intros x _.
      rewrite additional_map. rewrite IH by (left; reflexivity). reflexivity.
    - (* patternProperties *) destruct d; try reflexivity. apply pats_valid_map. exact IH.
    - (* propertyNames *) destruct d; try reflexivity. apply forallb_ext_in'. intros x _. apply IH. left. reflexivity.
    - (* anyOf *) apply any_valid_map. exact IH.
    - (* allOf *) apply all_valid_map. exact IH.
    - (* oneOf *) f_equal. apply count_valid_map. exact IH.
    - (* $ref *) unfold convert_defs. rewrite def_lookup_map. destruct (def_lookup name ds) as [s'|]; [|reflexivity].
      cbn [option_map]. destruct leaf; [apply leaf_valid_convert|]. destruct fuel as [|f]; [reflexivity|]. now apply IHf.
    - (* array-form items *) destruct d; try reflexivity. apply zip_valid_map. exact IH.
    - (* additionalItems *) destruct d; try reflexivity. apply forallb_ext_in'. intros x _. apply IH. left. reflexivity.
  Qed.

  Theorem convert_preserves ds : forall fuel s d,
    jvalid ss (convert_defs v ds) fuel (convert v s) d = jvalid ss ds fuel s d.
  Proof.
    assert (Step : forall fuel,
      (forall f, fuel = S f -> forall s' x, jvalid ss (convert_defs v ds) f (convert v s') x = jvalid ss ds f s' x) ->
      forall s d, jvalid ss (convert_defs v ds) fuel (convert v s) d = jvalid ss ds fuel s d).
    { intros fuel IHf s. induction s as [b|kws IH] using js_ind'; intros d; [cbn [convert]; now rewrite !jvalid_bool|].
      cbn [convert]. rewrite top_ok, !jvalid_JS, nullable_map, forallb_map. f_equal.
      apply forallb_ext_in'. intros k Hk. rewrite Forall_forall in IH. specialize (IH k Hk). rewrite Forall_forall in IH.
      apply kw_map_valid; [exact IH | exact IHf]. }
    induction fuel as [|f IHfuel]; apply Step.
    - intros f Hf. discriminate.
    - intros f' Hf. injection Hf as <-. exact IHfuel.
  Qed.
End Preserve.

(* ------------------------------------------------------------------ keyword renamings *)
Section Rename.
  Variable g : kw -> kw.
  (* g renames keywords without touching their meaning *)
  Hypothesis g_valid : forall ss ds fuel kws kws' k d,
    prefix_len kws' = prefix_len kws -> prop_names kws' = prop_names kws -> prop_patterns kws' = prop_patterns kws ->
    kw_valid ss ds fuel kws' (g k) d = kw_valid ss ds fuel kws k d.
  Hypothesis g_prefix : forall kws, prefix_len (map g kws) = prefix_len kws.
  Hypothesis g_names : forall kws, prop_names (map g kws) = prop_names kws.
  Hypothesis g_patterns : forall kws, prop_patterns (map g kws) = prop_patterns kws.
  Hypothesis g_nullable : forall kws, nullable (map g kws) = nullable kws.

  Lemma rename_ok ss ds fuel kws d : jvalid ss ds fuel (JS (map g kws)) d = jvalid ss ds fuel (JS kws) d.
  Proof.
    rewrite !jvalid_JS, g_nullable, forallb_map. f_equal. apply forallb_ext_in'. intros k _.
    apply g_valid; [apply g_prefix | apply g_names | apply g_patterns].
  Qed.
End Rename.

Definition g19 (k : kw) : kw := match k with KwItems s => KwAddItems s | KwPrefixItems l => KwItemsArr l | _ => k end.
Definition g7 (k : kw) : kw :=
  match k with
  | KwDepReq l => KwDependencies l
  | KwAnnot n => if String.eqb n "$defs" then KwAnnot "definitions" else k
  | _ => k end.

Lemma kw_valid_sib ss ds fuel kws kws' k d :
  prefix_len kws' = prefix_len kws -> prop_names kws' = prop_names kws -> prop_patterns kws' = prop_patterns kws ->
  kw_valid ss ds fuel kws' k d = kw_valid ss ds fuel kws k d.
Proof.
  intros H1 H2 H3. destruct k; try reflexivity; cbn [kw_valid]; rewrite ?H1; try reflexivity.
  unfold additional. now rewrite H2, H3.
Qed.

Lemma g19_valid ss ds fuel kws kws' k d :
  prefix_len kws' = prefix_len kws -> prop_names kws' = prop_names kws -> prop_patterns kws' = prop_patterns kws ->
  kw_valid ss ds fuel kws' (g19 k) d = kw_valid ss ds fuel kws k d.
Proof.
  intros H1 H2 H3. destruct k; cbn [g19]; try (apply kw_valid_sib; assumption).
  - cbn [kw_valid]. now rewrite H1.
  - reflexivity.
Qed.

Lemma g7_valid ss ds fuel kws kws' k d :
  prefix_len kws' = prefix_len kws -> prop_names kws' = prop_names kws -> prop_patterns kws' = prop_patterns kws ->
  kw_valid ss ds fuel kws' (g7 k) d = kw_valid ss ds fuel kws k d.
Proof.
  intros H1 H2 H3. destruct k; cbn [g7]; try (apply kw_valid_sib; assumption); try reflexivity.
  destruct (String.eqb name "$defs"); reflexivity.
Qed.

Lemma fold_prefix_map (g : kw -> kw) :
  (forall k n, match g k with KwPrefixItems ss | KwItemsArr ss => List.length ss | _ => n end
               = match k with KwPrefixItems ss | KwItemsArr ss => List.length ss | _ => n end) ->
  forall kws, prefix_len (map g kws) = prefix_len kws.
Proof.
  intros H kws. unfold prefix_len. generalize 0 as n. induction kws as [|k r IH]; intros n; [reflexivity|].
  cbn [map fold_left]. rewrite IH. f_equal. apply H.
Qed.

Lemma flat_map_map_eq {A} (g : kw -> kw) (f : kw -> list A) : (forall k, f (g k) = f k) ->
  forall kws, flat_map f (map g kws) = flat_map f kws.
Proof. intros H kws. induction kws as [|k r IH]; [reflexivity|]. cbn [map flat_map]. now rewrite H, IH. Qed.

Lemma existsb_map_eq (g : kw -> kw) (f : kw -> bool) : (forall k, f (g k) = f k) ->
  forall kws, existsb f (map g kws) = existsb f kws.
Proof. intros H kws. induction kws as [|k r IH]; [reflexivity|]. cbn [map existsb]. now rewrite H, IH. Qed.

Lemma map_g19_ok ss ds fuel kws d : jvalid ss ds fuel (JS (map g19 kws)) d = jvalid ss ds fuel (JS kws) d.
Proof.
  apply rename_ok.
  - intros. now apply g19_valid.
  - apply fold_prefix_map. intros k n. destruct k; reflexivity.
  - apply flat_map_map_eq. intros k. destruct k; reflexivity.
  - apply flat_map_map_eq. intros k. destruct k; reflexivity.
  - apply existsb_map_eq. intros k. destruct k; reflexivity.
Qed.

Ltac g7_case := let k := fresh "k" in intros k; intros; destruct k; cbn [g7]; try reflexivity;
                match goal with |- context [String.eqb ?n "$defs"] => destruct (String.eqb n "$defs"); reflexivity end.

Lemma map_g7_ok ss ds fuel kws d : jvalid ss ds fuel (JS (map g7 kws)) d = jvalid ss ds fuel (JS kws) d.
Proof.
  apply rename_ok.
  - intros. now apply g7_valid.
  - apply fold_prefix_map. g7_case.
  - apply flat_map_map_eq. g7_case.
  - apply flat_map_map_eq. g7_case.
  - apply existsb_map_eq. g7_case.
Qed.

Lemma top19_ok ss ds fuel kws d : jvalid ss ds fuel (JS (top19 kws)) d = jvalid ss ds fuel (JS kws) d.
Proof. unfold top19. destruct (has_prefix_items kws); [apply map_g19_ok | reflexivity]. Qed.

Lemma leaf_map_eq ss (g : kw -> kw) : (forall k d, flat_kw ss (g k) d = flat_kw ss k d) ->
  forall kws d, leaf_valid ss (JS (map g kws)) d = leaf_valid ss (JS kws) d.
Proof. intros H kws d. cbn [leaf_valid]. rewrite forallb_map. apply forallb_ext_in'. intros k _. now rewrite H. Qed.

Lemma top19_leaf ss kws d : leaf_valid ss (JS (top19 kws)) d = leaf_valid ss (JS kws) d.
Proof.
  unfold top19. destruct (has_prefix_items kws); [|reflexivity].
  apply (leaf_map_eq ss g19). intros k d'. destruct k; reflexivity.
Qed.

(* draft 2019-09 *)
Theorem convert_2019_preserves ss ds fuel s d :
  jvalid ss (convert_defs V2019 ds) fuel (convert V2019 s) d = jvalid ss ds fuel s d.
Proof. apply convert_preserves; [intros; apply top19_ok | intros; apply top19_leaf]. Qed.

Theorem convert_identity_versions ss ds fuel s d v : v = V2020 \/ v = VOAS31 ->
  jvalid ss (convert_defs v ds) fuel (convert v s) d = jvalid ss ds fuel s d.
Proof. intros [->| ->]; apply convert_preserves; reflexivity. Qed.

(* ------------------------------------------------------------------ isolate_ref *)
Definition is_ref (k : kw) : bool := match k with KwRef _ _ => true | _ => false end.

Lemma forallb_split {A} (p f : A -> bool) l :
  forallb f l = forallb f (filter (fun x => negb (p x)) l) && forallb f (filter p l).
Proof.
  induction l as [|x r IH]; [reflexivity|]. cbn [forallb filter]. rewrite IH.
  destruct (p x); cbn [negb forallb]; destruct (f x); cbn [andb]; try reflexivity; now rewrite ?andb_false_r.
Qed.

Lemma prefix_len_filter p kws : (forall k, p k = false -> match k with KwPrefixItems _ | KwItemsArr _ => False | _ => True end) ->
  prefix_len (filter p kws) = prefix_len kws.
Proof.
  intros H. unfold prefix_len. generalize 0 as n. induction kws as [|k r IH]; intros n; [reflexivity|].
  cbn [filter fold_left]. destruct (p k) eqn:E; cbn [fold_left]; [apply IH|].
  rewrite IH. f_equal. specialize (H k E). destruct k; try reflexivity; contradiction.
Qed.

Lemma flat_map_filter {A} p (f : kw -> list A) kws : (forall k, p k = false -> f k = []) ->
  flat_map f (filter p kws) = flat_map f kws.
Proof.
  intros H. induction kws as [|k r IH]; [reflexivity|]. cbn [filter flat_map].
  destruct (p k) eqn:E; cbn [flat_map]; rewrite IH; [reflexivity|]. now rewrite (H k E).
Qed.

Lemma existsb_filter p (f : kw -> bool) kws : (forall k, p k = false -> f k = false) ->
  existsb f (filter p kws) = existsb f kws.
Proof.
  intros H. induction kws as [|k r IH]; [reflexivity|]. cbn [filter existsb].
  destruct (p k) eqn:E; cbn [existsb]; rewrite IH; [reflexivity|]. now rewrite (H k E).
Qed.

Lemma jvalid_single_ref ss ds fuel l n kws d :
  jvalid ss ds fuel (JS [KwRef l n]) d = kw_valid ss ds fuel kws (KwRef l n) d.
Proof. rewrite jvalid_JS. cbn [nullable existsb andb orb forallb]. now rewrite andb_true_r. Qed.

Lemma refs_allof_valid ss ds fuel kws0 kws d :
  all_valid_js (jvalid ss ds fuel) (flat_map (fun k => match k with KwRef l n => [JS [KwRef l n]] | _ => [] end) kws) d
  = forallb (fun k => kw_valid ss ds fuel kws0 k d) (filter is_ref kws).
Proof.
  induction kws as [|k r IH]; [reflexivity|]. cbn [flat_map filter].
  destruct k; cbn [is_ref app]; try exact IH.
  cbn [all_valid_js forallb]. rewrite IH. f_equal. apply jvalid_single_ref.
Qed.

Lemma all_valid_app V l1 l2 d : all_valid_js V (l1 ++ l2) d = all_valid_js V l1 d && all_valid_js V l2 d.
Proof. induction l1 as [|x r IH]; [reflexivity|]. cbn [app all_valid_js]. now rewrite IH, andb_assoc. Qed.

Lemma forallb_and_guard {A} (f p : A -> bool) (R : bool) l :
  forallb (fun k => f k && (negb (p k) || R)) l = forallb f l && (negb (existsb p l) || R).
Proof.
  induction l as [|x r IH]; [reflexivity|]. cbn [forallb existsb]. rewrite IH.
  destruct (f x), (p x), (forallb f r), (existsb p r), R; reflexivity.
Qed.

Lemma isolate_ref_ok ss ds fuel kws d : jvalid ss ds fuel (JS (isolate_ref kws)) d = jvalid ss ds fuel (JS kws) d.
Proof.
  unfold isolate_ref. destruct (has_ref kws && Nat.ltb 1 (List.length kws)); [|reflexivity].
  set (refs := flat_map (fun k => match k with KwRef l n => [JS [KwRef l n]] | _ => [] end) kws).
  set (nr := fun k => match k with KwRef _ _ => false | _ => true end).
  set (rest := filter nr kws).
  assert (Hp : prefix_len rest = prefix_len kws).
  { apply prefix_len_filter. intros k Hk. destruct k; try exact I; discriminate. }
  assert (Hn : prop_names rest = prop_names kws).
  { apply flat_map_filter. intros k Hk. destruct k; try reflexivity; discriminate. }
  assert (Hq : prop_patterns rest = prop_patterns kws).
  { apply flat_map_filter. intros k Hk. destruct k; try reflexivity; discriminate. }
  assert (Hnull : nullable rest = nullable kws).
  { apply existsb_filter. intros k Hk. destruct k; try reflexivity; discriminate. }
  assert (Hrefs : forall kws0, all_valid_js (jvalid ss ds fuel) refs d = forallb (fun k => kw_valid ss ds fuel kws0 k d) (filter is_ref kws))
    by (intros; apply refs_allof_valid).
  assert (Hsplit : forallb (fun k => kw_valid ss ds fuel kws k d) kws
                   = forallb (fun k => kw_valid ss ds fuel kws k d) rest && forallb (fun k => kw_valid ss ds fuel kws k d) (filter is_ref kws)).
  { rewrite (forallb_split is_ref). f_equal. unfold rest. f_equal.
    clear. induction kws as [|k r IH]; [reflexivity|]. cbn [filter]. destruct k; cbn [is_ref negb nr]; now rewrite IH. }
  destruct (existsb (fun k => match k with KwAllOf _ => true | _ => false end) rest) eqn:Hall.
  - (* appended to the existing allOf *)
    set (g := fun k => match k with KwAllOf l => KwAllOf (l ++ refs) | _ => k end).
    rewrite !jvalid_JS.
    assert (Hp' : prefix_len (map g rest) = prefix_len kws) by (rewrite <- Hp; apply fold_prefix_map; intros k n; destruct k; reflexivity).
    assert (Hn' : prop_names (map g rest) = prop_names kws) by (rewrite <- Hn; apply flat_map_map_eq; intros k; destruct k; reflexivity).
    assert (Hq' : prop_patterns (map g rest) = prop_patterns kws) by (rewrite <- Hq; apply flat_map_map_eq; intros k; destruct k; reflexivity).
    assert (Hnull' : nullable (map g rest) = nullable kws) by (rewrite <- Hnull; apply existsb_map_eq; intros k; destruct k; reflexivity).
    rewrite Hnull'. f_equal. rewrite Hsplit, forallb_map.
    rewrite <- (Hrefs kws).
    set (R := all_valid_js (jvalid ss ds fuel) refs d).
    assert (Hk : forall k, kw_valid ss ds fuel (map g rest) (g k) d
                           = kw_valid ss ds fuel kws k d && (negb (is_allof k) || R)).
    { intros k. destruct k; cbn [g is_allof negb orb]; rewrite ?andb_true_r; try (apply kw_valid_sib; assumption).
      cbn [kw_valid]. apply all_valid_app. }
    rewrite (forallb_ext_in' _ (fun k => kw_valid ss ds fuel kws k d && (negb (is_allof k) || R))) by (intros; apply Hk).
    rewrite forallb_and_guard. fold is_allof in Hall. change (fun k => match k with KwAllOf _ => true | _ => false end) with is_allof in Hall.
    rewrite Hall. reflexivity.
  - rewrite !jvalid_JS.
    assert (Hp' : prefix_len (rest ++ [KwAllOf refs]) = prefix_len kws).
    { rewrite <- Hp. unfold prefix_len. rewrite fold_left_app. reflexivity. }
    assert (Hn' : prop_names (rest ++ [KwAllOf refs]) = prop_names kws).
    { rewrite <- Hn. unfold prop_names. rewrite flat_map_app. cbn [flat_map]. now rewrite app_nil_r. }
    assert (Hq' : prop_patterns (rest ++ [KwAllOf refs]) = prop_patterns kws).
    { rewrite <- Hq. unfold prop_patterns. rewrite flat_map_app. cbn [flat_map]. now rewrite app_nil_r. }
    assert (Hnull' : nullable (rest ++ [KwAllOf refs]) = nullable kws).
    { rewrite <- Hnull. unfold nullable. rewrite existsb_app. cbn [existsb]. now rewrite !orb_false_r. }
    rewrite Hnull'. f_equal. rewrite Hsplit, forallb_app. cbn [forallb kw_valid]. rewrite andb_true_r.
    rewrite <- (Hrefs kws). f_equal.
    apply forallb_ext_in'. intros k _. apply kw_valid_sib; assumption.
Qed.


Lemma top7_eq kws : top7 kws = map g7 (isolate_ref (top19 kws)).
Proof. reflexivity. Qed.

Lemma top7_ok ss ds fuel kws d : jvalid ss ds fuel (JS (top7 kws)) d = jvalid ss ds fuel (JS kws) d.
Proof. rewrite top7_eq, map_g7_ok, isolate_ref_ok. apply top19_ok. Qed.

Lemma leaf_filter_eq ss p kws d : (forall k, p k = false -> flat_kw ss k d = None) ->
  leaf_valid ss (JS (filter p kws)) d = leaf_valid ss (JS kws) d.
Proof.
  intros H. cbn [leaf_valid]. induction kws as [|k r IH]; [reflexivity|]. cbn [filter forallb].
  destruct (p k) eqn:E; cbn [forallb]; rewrite IH; [reflexivity|]. now rewrite (H k E).
Qed.

Lemma isolate_ref_leaf ss kws d : leaf_valid ss (JS (isolate_ref kws)) d = leaf_valid ss (JS kws) d.
Proof.
  unfold isolate_ref. destruct (has_ref kws && Nat.ltb 1 (List.length kws)); [|reflexivity].
  set (nr := fun k => match k with KwRef _ _ => false | _ => true end).
  assert (Hf : leaf_valid ss (JS (filter nr kws)) d = leaf_valid ss (JS kws) d).
  { apply leaf_filter_eq. intros k Hk. destruct k; try discriminate. reflexivity. }
  destruct (existsb _ (filter nr kws)).
  - rewrite <- Hf. apply (leaf_map_eq ss (fun k => match k with KwAllOf l => KwAllOf (l ++ _) | _ => k end)).
    intros k d'. destruct k; reflexivity.
  - rewrite <- Hf. cbn [leaf_valid]. rewrite forallb_app. cbn. now rewrite andb_true_r.
Qed.

Lemma top7_leaf ss kws d : leaf_valid ss (JS (top7 kws)) d = leaf_valid ss (JS kws) d.
Proof.
  rewrite top7_eq. rewrite (leaf_map_eq ss g7) by g7_case.
  rewrite isolate_ref_leaf. apply top19_leaf.
Qed.

(* draft-07, under the standard reading of "$ref" (siblings honoured) *)
Theorem convert_7_preserves_standard ss ds fuel s d :
  jvalid ss (convert_defs V7 ds) fuel (convert V7 s) d = jvalid ss ds fuel s d.
Proof. apply convert_preserves; [intros; apply top7_ok | intros; apply top7_leaf]. Qed.

(* ------------------------------------------------------------------ draft-07 ignores the siblings of "$ref" *)
Definition fixed (x : js) : Prop := ref_exclusive x = x.
Definition kw_fixed (k : kw) : Prop := Forall fixed (subs k).

Lemma map_fixed l : Forall fixed l -> map ref_exclusive l = l.
Proof. induction 1 as [|x r Hx _ IH]; [reflexivity|]. cbn [map]. now rewrite Hx, IH. Qed.

Lemma map_snd_fixed (ps : list (string * js)) : Forall fixed (map snd ps) ->
  map (fun p => (fst p, ref_exclusive (snd p))) ps = ps.
Proof.
  induction ps as [|[n x] r IH]; intros H; [reflexivity|]. inversion H as [|? ? Hx Hr]; subst.
  cbn [map fst snd]. rewrite Hx, IH by exact Hr. reflexivity.
Qed.

Lemma kw_map_fixed k : kw_fixed k -> kw_map ref_exclusive k = k.
Proof.
  unfold kw_fixed. destruct k; cbn [subs kw_map]; intros H; try reflexivity;
    try (inversion H as [|? ? Hx _]; subst; now rewrite Hx);
    try (now rewrite map_fixed); now rewrite map_snd_fixed.
Qed.

Lemma map_kw_fixed kws : Forall kw_fixed kws -> map (kw_map ref_exclusive) kws = kws.
Proof. induction 1 as [|k r Hk _ IH]; [reflexivity|]. cbn [map]. now rewrite kw_map_fixed, IH. Qed.

Lemma fixed_single_ref l n : fixed (JS [KwRef l n]).
Proof. reflexivity. Qed.

Lemma Forall_map_subs (g : kw -> kw) kws : (forall k, subs (g k) = subs k) -> Forall kw_fixed kws -> Forall kw_fixed (map g kws).
Proof.
  intros Hg H. induction H as [|k r Hk _ IH]; constructor; [|exact IH]. unfold kw_fixed. now rewrite Hg.
Qed.

Lemma Forall_filter {A} (P : A -> Prop) p l : Forall P l -> Forall P (filter p l).
Proof. induction 1 as [|x r Hx _ IH]; [constructor|]. cbn [filter]. destruct (p x); [constructor; assumption|exact IH]. Qed.

Lemma refs_fixed kws : Forall fixed (flat_map (fun k => match k with KwRef l n => [JS [KwRef l n]] | _ => [] end) kws).
Proof.
  induction kws as [|k r IH]; [constructor|]. cbn [flat_map]. destruct k; cbn [app]; try exact IH.
  constructor; [apply fixed_single_ref | exact IH].
Qed.

Lemma isolate_ref_fixed kws : Forall kw_fixed kws -> Forall kw_fixed (isolate_ref kws).
Proof.
  intros H. unfold isolate_ref. destruct (has_ref kws && Nat.ltb 1 (List.length kws)); [|exact H].
  set (refs := flat_map _ kws). assert (Hr : Forall fixed refs) by apply refs_fixed.
  set (rest := filter _ kws). assert (Hrest : Forall kw_fixed rest) by (apply Forall_filter; exact H).
  destruct (existsb _ rest).
  - clear - Hr Hrest. induction Hrest as [|k r Hk _ IH]; [constructor|]. cbn [map]. constructor; [|exact IH].
    destruct k; try exact Hk. unfold kw_fixed in *. cbn [subs] in *. apply Forall_app. split; assumption.
  - apply Forall_app. split; [exact Hrest|]. constructor; [|constructor]. exact Hr.
Qed.

Lemma top7_fixed kws : Forall kw_fixed kws -> Forall kw_fixed (top7 kws).
Proof.
  intros H. rewrite top7_eq. apply Forall_map_subs; [g7_case|].
  apply isolate_ref_fixed. unfold top19. destruct (has_prefix_items kws); [|exact H].
  apply Forall_map_subs; [intros k; destruct k; reflexivity | exact H].
Qed.

(* after isolate_ref a "$ref" has no sibling *)
Definition ref_alone (kws : list kw) : Prop := has_ref kws = true -> filter is_ref kws = kws.

Lemma has_ref_map (g : kw -> kw) kws : (forall k, is_ref (g k) = is_ref k) -> has_ref (map g kws) = has_ref kws.
Proof. intros H. unfold has_ref. apply (existsb_map_eq g is_ref H). Qed.

Lemma filter_map_ref (g : kw -> kw) kws : (forall k, is_ref (g k) = is_ref k) ->
  filter is_ref (map g kws) = map g (filter is_ref kws).
Proof. intros H. induction kws as [|k r IH]; [reflexivity|]. cbn [map filter]. rewrite H. destruct (is_ref k); cbn [map]; now rewrite IH. Qed.

Lemma has_ref_filter_false kws : has_ref (filter (fun k => match k with KwRef _ _ => false | _ => true end) kws) = false.
Proof. unfold has_ref. induction kws as [|k r IH]; [reflexivity|]. cbn [filter]. destruct k; cbn [existsb]; try exact IH. Qed.

Lemma isolate_ref_alone kws : ref_alone (isolate_ref kws).
Proof.
  unfold ref_alone, isolate_ref. destruct (has_ref kws) eqn:Hr; cbn [andb].
  - destruct (Nat.ltb 1 (List.length kws)) eqn:Hl.
    + (* the refs are gone *)
      intros H. exfalso. set (rest := filter _ kws) in *.
      assert (Hn : has_ref rest = false) by apply has_ref_filter_false.
      destruct (existsb _ rest).
      * rewrite has_ref_map in H by (intros k; destruct k; reflexivity). congruence.
      * unfold has_ref in H. rewrite existsb_app in H. cbn in H. rewrite orb_false_r in H. unfold has_ref in Hn. congruence.
    + intros _. destruct kws as [|k [|k' r]]; [reflexivity| |cbn in Hl; discriminate].
      unfold has_ref in Hr. cbn in Hr. rewrite orb_false_r in Hr. cbn [filter]. unfold is_ref. now rewrite Hr.
  - intros H. congruence.
Qed.

Lemma top7_alone kws : ref_alone (top7 kws).
Proof.
  rewrite top7_eq. unfold ref_alone. rewrite has_ref_map by g7_case.
  intros H. rewrite filter_map_ref by g7_case. f_equal. now apply isolate_ref_alone.
Qed.

Lemma ref_exclusive_convert7 s : ref_exclusive (convert V7 s) = convert V7 s.
Proof.
  induction s as [b|kws IH] using js_ind'; [reflexivity|].
  cbn [convert top_of]. set (K0 := map (kw_map (convert V7)) kws).
  assert (H0 : Forall kw_fixed K0).
  { unfold K0. clear - IH. induction IH as [|k r Hk _ IHr]; [constructor|]. cbn [map]. constructor; [|exact IHr].
    unfold kw_fixed. destruct k; cbn [kw_map subs] in *; try constructor;
      try (inversion Hk; subst; assumption); try constructor;
      try (clear - Hk; induction Hk; cbn [map]; constructor; assumption).
    all: try (clear - Hk; induction ps as [|[n x] ps IHp]; cbn [map snd fst] in *; [constructor|];
              inversion Hk; subst; constructor; [assumption | apply IHp; assumption]). }
  pose proof (top7_fixed K0 H0) as HK. pose proof (top7_alone K0) as HA.
  cbn [ref_exclusive]. rewrite (map_kw_fixed _ HK).
  destruct (has_ref (top7 K0)) eqn:Hr; [|reflexivity].
  f_equal. change (fun k => match k with KwRef _ _ => true | _ => false end) with is_ref. now apply HA.
Qed.

Lemma ref_exclusive_defs7 ds :
  map (fun x => (fst x, ref_exclusive (snd x))) (convert_defs V7 ds) = convert_defs V7 ds.
Proof.
  unfold convert_defs. induction ds as [|[n s] r IH]; [reflexivity|]. cbn [map fst snd]. rewrite ref_exclusive_convert7. f_equal. exact IH.
Qed.

(* draft-07 under its own rules ("$ref" excludes its siblings): exactly the instances of the 2020-12 schema *)
Theorem convert_7_preserves ss ds fuel s d :
  jvalid_v V7 ss (convert_defs V7 ds) fuel (convert V7 s) d = jvalid ss ds fuel s d.
Proof.
  unfold jvalid_v. rewrite ref_exclusive_defs7, ref_exclusive_convert7. apply convert_7_preserves_standard.
Qed.
