(* dependent_required: the `dependentRequired` keyword of the schema model (Schema/Build.v: depreq_schema - aliased names,
   sorted) accepts an object exactly when the rule of the deserialization specification ("missing property (required by
   ...)": an absent field is required by a present one) rejects nothing. *)
From Coq Require Import List String ZArith Bool Arith Lia.
From AV Require Import Core.Json Core.Text Deser.Model Deser.Spec Schema.Json Schema.Build.
Import ListNotations.
Open Scope string_scope.

Lemma forallb_ins_strs (f : string -> bool) x l :
  forallb f ((fix ins (x : string) (l : list string) : list string :=
                match l with [] => [x] | y :: r' => if str_leb x y then x :: l else y :: ins x r' end) x l)
  = f x && forallb f l.
Proof.
  induction l as [|y r IH]; [reflexivity|]. destruct (str_leb x y); cbn [forallb]; [reflexivity|].
  rewrite IH. destruct (f x), (f y); reflexivity.
Qed.

Lemma forallb_sort_strings (f : string -> bool) l : forallb f (sort_strings l) = forallb f l.
Proof. induction l as [|x r IH]; [reflexivity|]. cbn [sort_strings]. rewrite forallb_ins_strs. cbn [forallb]. now rewrite IH. Qed.

Lemma forallb_ins_entries (f : string * list string -> bool) e acc :
  forallb f ((fix ins (l : list (string * list string)) : list (string * list string) :=
                match l with [] => [e] | y :: r' => if str_leb (fst e) (fst y) then e :: l else y :: ins r' end) acc)
  = f e && forallb f acc.
Proof.
  induction acc as [|y r IH]; [reflexivity|]. destruct (str_leb (fst e) (fst y)); cbn [forallb]; [reflexivity|].
  rewrite IH. destruct (f e), (f y); reflexivity.
Qed.

Lemma forallb_ext {A} (f g : A -> bool) l : (forall x, f x = g x) -> forallb f l = forallb g l.
Proof. intros H. induction l as [|x r IH]; [reflexivity|]. cbn [forallb]. now rewrite H, IH. Qed.

Lemma forallb_map {A B} (f : B -> bool) (g : A -> B) l : forallb f (map g l) = forallb (fun x => f (g x)) l.
Proof. induction l as [|x r IH]; [reflexivity|]. cbn [map forallb]. now rewrite IH. Qed.

Section DR.
  Variable o : dopts.
  Variable cd : cdef.
  Notation A := (alias_of_name o cd).
  Definition falias (fd : fdef) : string := o_aliaser o (fd_alias fd).

  (* every name in a dependency is the name of a field, and field names are distinct *)
  Definition is_field (n : string) : bool := existsb (fun f => String.eqb (fd_name f) n) (cd_fields cd).
  Definition wf_depreq : bool :=
    forallb (fun fr => is_field (fst fr) && forallb is_field (snd fr)) (cd_depreq cd)
    && nodup_strs (map fd_name (cd_fields cd)).

  Lemma depreq_schema_forallb (f : string * list string -> bool) :
    forallb f (depreq_schema o cd)
    = forallb (fun fr => f (A (fst fr), sort_strings (map A (snd fr)))) (cd_depreq cd).
  Proof.
    unfold depreq_schema. induction (cd_depreq cd) as [|fr r IH]; [reflexivity|].
    cbn [map fold_right]. rewrite forallb_ins_entries, IH. reflexivity.
  Qed.

  (* the keyword, on the dependencies as declared *)
  Lemma depreq_ok_decl (kvs : list (string * pyval)) :
    depreq_ok (depreq_schema o cd) (PDict kvs)
    = forallb (fun fr => negb (dict_has (A (fst fr)) kvs) || forallb (fun t => dict_has (A t) kvs) (snd fr)) (cd_depreq cd).
  Proof.
    cbn [depreq_ok]. rewrite depreq_schema_forallb. apply forallb_ext. intros fr. cbn [fst snd].
    rewrite forallb_sort_strings, forallb_map. reflexivity.
  Qed.

  Lemma find_by_name fd : nodup_strs (map fd_name (cd_fields cd)) = true -> In fd (cd_fields cd) ->
    find (fun f => String.eqb (fd_name f) (fd_name fd)) (cd_fields cd) = Some fd.
  Proof.
    induction (cd_fields cd) as [|f r IH]; intros Hn Hin; [contradiction|]. cbn [map nodup_strs] in Hn.
    apply andb_true_iff in Hn. destruct Hn as [Hf Hr]. cbn [find]. destruct Hin as [->|Hin]; [now rewrite String.eqb_refl|].
    destruct (String.eqb (fd_name f) (fd_name fd)) eqn:E; [|now apply IH].
    exfalso. apply String.eqb_eq in E. apply negb_true_iff in Hf.
    assert (Ht : existsb (String.eqb (fd_name f)) (map fd_name r) = true).
    { apply existsb_exists. exists (fd_name fd). split; [now apply in_map | rewrite E; apply String.eqb_refl]. }
    congruence.
  Qed.

  Lemma alias_of_field fd : nodup_strs (map fd_name (cd_fields cd)) = true -> In fd (cd_fields cd) -> A (fd_name fd) = falias fd.
  Proof. intros Hn Hin. unfold alias_of_name. now rewrite (find_by_name fd Hn Hin). Qed.

  Lemma is_field_find n : is_field n = true -> exists fd, In fd (cd_fields cd) /\ fd_name fd = n.
  Proof.
    unfold is_field. intros H. apply existsb_exists in H. destruct H as [fd [Hin E]]. apply String.eqb_eq in E. eauto.
  Qed.

  (* the rule of the specification: no absent field is required by a present one *)
  Definition no_missing_dependency (kvs : list (string * pyval)) : bool :=
    forallb (fun fd => dict_has (falias fd) kvs
                       || negb (existsb (fun r => dict_has r kvs) (requiring o cd (fd_name fd)))) (cd_fields cd).

  Lemma requiring_present (kvs : list (string * pyval)) name :
    existsb (fun r => dict_has r kvs) (requiring o cd name)
    = existsb (fun fr => existsb (String.eqb name) (snd fr)
                         && match find (fun f => String.eqb (fd_name f) (fst fr)) (cd_fields cd) with
                            | Some f => dict_has (falias f) kvs | None => false end) (cd_depreq cd).
  Proof.
    unfold requiring. induction (cd_depreq cd) as [|fr r IH]; [reflexivity|]. cbn [flat_map existsb]. rewrite existsb_app, IH.
    f_equal. destruct (existsb (String.eqb name) (snd fr)); [|reflexivity]. cbn [andb].
    destruct (find _ (cd_fields cd)); cbn [existsb]; [now rewrite orb_false_r|reflexivity].
  Qed.

  Theorem depreq_keyword_is_the_spec_rule (kvs : list (string * pyval)) : wf_depreq = true ->
    depreq_ok (depreq_schema o cd) (PDict kvs) = no_missing_dependency kvs.
  Proof.
    unfold wf_depreq. intros Hwf. apply andb_true_iff in Hwf. destruct Hwf as [Hwf Hn]. rewrite forallb_forall in Hwf.
    rewrite depreq_ok_decl. unfold no_missing_dependency.
    apply Bool.eq_true_iff_eq. rewrite !forallb_forall. split.
    - (* the keyword holds: an absent field has no present requirer *)
      intros H fd Hfd. destruct (dict_has (falias fd) kvs) eqn:Ep; [reflexivity|]. cbn [orb]. apply negb_true_iff.
      rewrite requiring_present. apply Bool.not_true_is_false. intros Hex. apply existsb_exists in Hex. destruct Hex as [fr [Hfr Hc]].
      apply andb_true_iff in Hc. destruct Hc as [Hmem Hsrc]. apply existsb_exists in Hmem. destruct Hmem as [t [Ht Et]].
      apply String.eqb_eq in Et. subst t.
      pose proof (Hwf fr Hfr) as Hw. apply andb_true_iff in Hw. destruct Hw as [Hs _].
      destruct (is_field_find _ Hs) as [sf [Hsf Es]].
      assert (Hfind : find (fun f => String.eqb (fd_name f) (fst fr)) (cd_fields cd) = Some sf)
        by (rewrite <- Es; apply find_by_name; assumption).
      rewrite Hfind in Hsrc.
      specialize (H fr Hfr). assert (HA : A (fst fr) = falias sf) by (rewrite <- Es; apply alias_of_field; assumption).
      rewrite HA, Hsrc in H. cbn [negb orb] in H. rewrite forallb_forall in H. specialize (H _ Ht).
      rewrite (alias_of_field fd Hn Hfd) in H. congruence.
    - (* no absent field has a present requirer: the keyword holds *)
      intros H fr Hfr. destruct (dict_has (A (fst fr)) kvs) eqn:Ep; [|reflexivity]. cbn [negb orb].
      apply forallb_forall. intros t Ht.
      pose proof (Hwf fr Hfr) as Hw. apply andb_true_iff in Hw. destruct Hw as [Hs Hts].
      rewrite forallb_forall in Hts. destruct (is_field_find _ (Hts t Ht)) as [tf [Htf Et]].
      destruct (is_field_find _ Hs) as [sf [Hsf Es]].
      specialize (H tf Htf). rewrite <- Et, (alias_of_field tf Hn Htf).
      destruct (dict_has (falias tf) kvs) eqn:Et'; [reflexivity|]. cbn [orb] in H. apply negb_true_iff in H. exfalso.
      rewrite requiring_present in H.
      assert (Hex : existsb (fun fr0 => existsb (String.eqb (fd_name tf)) (snd fr0)
                                       && match find (fun f => String.eqb (fd_name f) (fst fr0)) (cd_fields cd) with
                                          | Some f => dict_has (falias f) kvs | None => false end) (cd_depreq cd) = true).
      { apply existsb_exists. exists fr. split; [exact Hfr|]. apply andb_true_iff. split.
        - apply existsb_exists. exists t. split; [exact Ht|]. rewrite Et. apply String.eqb_refl.
        - rewrite <- Es, (find_by_name sf Hn Hsf). rewrite <- (alias_of_field sf Hn Hsf), Es. exact Ep. }
      congruence.
  Qed.
End DR.
