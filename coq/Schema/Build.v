(* Model of apischema/json_schema/schema.py (DeserializationSchemaBuilder) and refs.py (reference counting) over the type
   grammar of Deser/Model.v.  No proofs here. *)
From Coq Require Import List String ZArith Bool Arith.
From AV Require Import Core.Json Core.Text Small.Ordering Deser.Model Schema.Json.
Import ListNotations.
Open Scope string_scope.

Definition cname (c : nat) : string := "C" ++ show_nat c.     (* type names of the generated classes / enums *)
Definition ename_ (e : nat) : string := "E" ++ show_nat e.

(* ------------------------------------------------------------------ helpers on schemas *)
Definition is_empty (s : js) : bool := match s with JS [] => true | _ => false end.
Definition kws_of (s : js) : list kw := match s with JS kws => kws | JBoolS _ => [] end.

Definition get_type (s : js) : option (list jtype) :=
  match s with
  | JS kws => fold_right (fun k acc => match k with KwType ts => Some ts | _ => acc end) None kws
  | _ => None
  end.
Definition only_type (s : js) : option (list jtype) := match s with JS [KwType ts] => Some ts | _ => None end.
Definition is_null_schema (s : js) : bool := match s with JS [KwType [JNull]] => true | _ => false end.
Definition has_const_enum (s : js) : bool :=
  existsb (fun k => match k with KwConst _ | KwEnum _ => true | _ => false end) (kws_of s).

Definition dedup_types (ts : list jtype) : list jtype :=
  fold_left (fun acc t => if memt t acc then acc else (acc ++ [t])%list) ts [].

(* json_schema(type=[...]): "integer" is dropped next to "number" *)
Definition norm_types (ts : list jtype) : list jtype :=
  if memt JInteger ts && memt JNumber ts then filter (fun t => negb (jtype_eqb t JInteger)) ts else ts.

Definition add_null (s : js) : js :=
  match s with
  | JS kws => JS (map (fun k => match k with
                                | KwType ts => if memt JNull ts then k else KwType (ts ++ [JNull])%list
                                | _ => k end) kws)
  | _ => s
  end.

(* SchemaBuilder._visited_union *)
Definition visited_union (rs : list js) : js :=
  match rs with
  | [r] => r
  | _ =>
      if existsb is_empty rs then JS []
      else if forallb (fun r => match only_type r with Some _ => true | None => false end) rs
      then JS [KwType (norm_types (dedup_types (flat_map (fun r => match only_type r with Some ts => ts | None => [] end) rs)))]
      else match rs with
           | [a; b] =>
               if forallb (fun r => match get_type r with Some _ => true | None => false end) rs
                  && (is_null_schema a || is_null_schema b)
                  && negb (has_const_enum a || has_const_enum b)
               then add_null (if is_null_schema a then b else a)
               else JS [KwAnyOf rs]
           | _ => JS [KwAnyOf rs]
           end
  end.

(* Constraints.merge_into *)
Definition same_kind (a b : constr) : bool :=
  match a, b with
  | KMin _, KMin _ | KMax _, KMax _ | KExcMin _, KExcMin _ | KExcMax _, KExcMax _ | KMultOf _, KMultOf _
  | KMinLen _, KMinLen _ | KMaxLen _, KMaxLen _ | KPattern _, KPattern _
  | KMinItems _, KMinItems _ | KMaxItems _, KMaxItems _ | KUnique, KUnique
  | KMinProps _, KMinProps _ | KMaxProps _, KMaxProps _ => true
  | _, _ => false
  end.

Definition merge_con (new old : constr) : constr :=
  match new, old with
  | KMin a, KMin b => KMin (cmax a b)
  | KMax a, KMax b => KMax (cmin a b)
  | KExcMin a, KExcMin b => KExcMin (cmax a b)
  | KExcMax a, KExcMax b => KExcMax (cmin a b)
  | KMinLen a, KMinLen b => KMinLen (Nat.max a b)
  | KMaxLen a, KMaxLen b => KMaxLen (Nat.min a b)
  | KMinItems a, KMinItems b => KMinItems (Nat.max a b)
  | KMaxItems a, KMaxItems b => KMaxItems (Nat.min a b)
  | KMinProps a, KMinProps b => KMinProps (Nat.max a b)
  | KMaxProps a, KMaxProps b => KMaxProps (Nat.min a b)
  | _, _ => new
  end.

Definition has_kind (c : constr) (kws : list kw) : bool :=
  existsb (fun k => match k with KwCon c' => same_kind c c' | _ => false end) kws.

Definition has_set_unique (kws : list kw) : bool :=
  existsb (fun k => match k with KwSetUnique => true | _ => false end) kws.

Definition merge_kw (c : constr) (kws : list kw) : list kw :=
  (* an explicit unique=True on a set-typed position: "uniqueItems" is already there, now as a real constraint *)
  if match c with KUnique => has_set_unique kws | _ => false end
  then map (fun k => match k with KwSetUnique => KwCon KUnique | _ => k end) kws else
  if has_kind c kws
  then map (fun k => match k with KwCon c' => if same_kind c c' then KwCon (merge_con c c') else k | _ => k end) kws
  else (kws ++ [KwCon c])%list.

Definition all_cons (c : constraints) : list constr := (cons_num c ++ cons_str c ++ cons_list c ++ cons_dict c)%list.

(* full_schema(base, schema(...)) for a schema carrying constraints only *)
Definition apply_con (c : option constraints) (s : js) : js :=
  match c, s with
  | Some c, JS kws => JS (fold_left (fun acc k => merge_kw k acc) (all_cons c) kws)
  | _, _ => s
  end.

(* Python string order (code points) *)
Fixpoint str_leb (a b : string) : bool :=
  match a, b with
  | EmptyString, _ => true
  | String _ _, EmptyString => false
  | String x r, String y r' =>
      if Nat.ltb (Ascii.nat_of_ascii x) (Ascii.nat_of_ascii y) then true
      else if Nat.ltb (Ascii.nat_of_ascii y) (Ascii.nat_of_ascii x) then false
      else str_leb r r'
  end.

Definition prim_type (p : prim) : jtype :=
  match p with LNone => JNull | LBool _ => JBoolean | LInt _ => JInteger | LStr _ => JString end.

(* SchemaBuilder.literal *)
Definition literal_schema (vs : list prim) : js :=
  let ts := dedup_types (map prim_type vs) in
  match vs with
  | [v] => JS [KwType ts; KwConst v]
  | _ => JS [KwType ts; KwEnum vs]
  end.

Definition get_pattern (s : js) : option string :=
  fold_right (fun k acc => match k with KwCon (KPattern p) => Some p | _ => acc end) None (kws_of s).

Definition is_string_type (s : js) : bool :=
  match get_type s with Some [JString] => true | _ => false end.

Section Build.
  Variable u : univ.
  Variable o : dopts.                (* additional_properties and the aliaser *)
  Variable refs : string -> bool.    (* the names extracted as references *)

  Definition elems_sorted (cd : cdef) : list fdef :=
    match sort_by_order (cd_order cd)
            (map (fun f => {| ename := fd_name f; eord := fs_order (fd_ser f) |}) (cd_fields cd)) with
    | None => cd_fields cd
    | Some sorted => flat_map (fun x => match find (fun f => String.eqb (fd_name f) (ename x)) (cd_fields cd) with
                                        | Some f => [f] | None => [] end) sorted
    end.

  Definition alias_of_name (cd : cdef) (n : string) : string :=
    match find (fun f => String.eqb (fd_name f) n) (cd_fields cd) with
    | Some f => o_aliaser o (fd_alias f)
    | None => n
    end.

  Fixpoint sort_strings (l : list string) : list string :=
    match l with
    | [] => []
    | x :: r => (fix ins (x : string) (l : list string) : list string :=
                   match l with
                   | [] => [x]
                   | y :: r' => if str_leb x y then x :: l else y :: ins x r'
                   end) x (sort_strings r)
    end.

  Definition depreq_schema (cd : cdef) : list (string * list string) :=
    let entries := map (fun fr => (alias_of_name cd (fst fr), sort_strings (map (alias_of_name cd) (snd fr)))) (cd_depreq cd) in
    (* sorted by the key alias *)
    fold_right (fun e acc =>
                  (fix ins (l : list (string * list string)) : list (string * list string) :=
                     match l with
                     | [] => [e]
                     | y :: r' => if str_leb (fst e) (fst y) then e :: l else y :: ins r'
                     end) acc) [] entries.

  (* ign = _ignore_first_ref: the first reference candidate met is expanded instead of referenced *)
  Fixpoint build (fuel : nat) : bool -> ty -> js :=
    fix go (ign : bool) (t : ty) {struct t} : js :=
      match t with
      | TNone => JS [KwType [JNull]]
      | TBool => JS [KwType [JBoolean]]
      | TInt => JS [KwType [JInteger]]
      | TFloat => JS [KwType [JNumber]]
      | TStr => JS [KwType [JString]]
      | TAny => JS []
      | TColl k t' =>
          let items := go false t' in
          JS ([KwType [JArray]] ++ (if is_empty items then [] else [KwItems items])
              ++ match norm_kind k with KSet | KFrozenSet => [KwSetUnique] | _ => [] end)%list
      | TTuple ts =>
          let ss := (fix all (ts : list ty) : list js :=
                       match ts with [] => [] | t1 :: tr => go false t1 :: all tr end) ts in
          JS ([KwType [JArray]] ++ (match ss with [] => [] | _ => [KwPrefixItems ss] end)
              ++ [KwItems (JBoolS false); KwCon (KMinItems (List.length ts)); KwCon (KMaxItems (List.length ts))])%list
      | TMap kt vt =>
          let key := go true kt in
          let value := go false vt in
          let names := match key with JS [KwType _] => [] | _ => [KwPropertyNames key] end in
          match get_pattern key with
          | Some p => JS ([KwType [JObject]; KwPatternProps [(p, value)]] ++ names)%list
          | None => JS ([KwType [JObject]] ++ (if is_empty value then [] else [KwAddProps value]) ++ names)%list
          end
      | TLit vs => literal_schema vs
      | TEnum e =>
          if (refs (ename_ e) && negb ign)%bool then JS [KwRef true (ename_ e)]
          else literal_schema (get_enum u e)
      | TCon c t' => apply_con (Some c) (go ign t')
      | TUnion ts =>
          visited_union ((fix all (ts : list ty) : list js :=
                            match ts with [] => [] | t1 :: tr => go false t1 :: all tr end) ts)
      | TObj c =>
          if (refs (cname c) && negb ign)%bool then JS [KwRef false (cname c)]
          else match fuel with
               | O => JBoolS true
               | S f =>
                   let cd := get_cls u c in
                   let fields := elems_sorted cd in
                   let props := map (fun fd => (o_aliaser o (fd_alias fd),
                                                apply_con (fd_con fd) (build f false (fd_ty fd)))) fields in
                   let required := map (fun fd => o_aliaser o (fd_alias fd)) (filter fd_required fields) in
                   let dr := depreq_schema cd in
                   JS ([KwType [JObject]]
                       ++ (match props with [] => [] | _ => [KwProperties props] end)
                       ++ (match required with [] => [] | _ => [KwRequired required] end)
                       ++ (if o_addprops o then [] else [KwAddProps (JBoolS false)])
                       ++ (match dr with [] => [] | _ => [KwDepReq dr] end))%list
               end
      end.

  (* _refs_schema: one definition per reference, its own name being expanded *)
  Definition defs_for (fuel : nat) (classes enums : list nat) : defs :=
    (map (fun c => (cname c, build fuel true (TObj c))) (filter (fun c => refs (cname c)) classes)
     ++ map (fun e => (ename_ e, build fuel true (TEnum e))) (filter (fun e => refs (ename_ e)) enums))%list.
End Build.

(* Mapping keys must be string-typed schemas; otherwise the builder raises ValueError *)
Fixpoint key_ok (u : univ) (t : ty) : bool :=
  match t with
  | TStr => true
  | TCon _ t' => key_ok u t'
  | TLit vs => match vs with [] => false | _ => forallb (fun p => match p with LStr _ => true | _ => false end) vs end
  | TEnum e => match get_enum u e with [] => false
                                  | vs => forallb (fun p => match p with LStr _ => true | _ => false end) vs end
  | _ => false
  end.

Fixpoint keys_ok (u : univ) (t : ty) : bool :=
  match t with
  | TColl _ t' | TCon _ t' => keys_ok u t'
  | TTuple ts | TUnion ts => forallb (keys_ok u) ts
  | TMap kt vt => key_ok u kt && keys_ok u vt
  | _ => true
  end.

(* ------------------------------------------------------------------ refs.py: counting the occurrences of named types *)
Definition counts := list (string * nat).

Definition count_of (n : string) (cs : counts) : nat :=
  match find (fun c => String.eqb (fst c) n) cs with Some c => snd c | None => 0 end.

Fixpoint incr (n : string) (cs : counts) : counts :=
  match cs with
  | [] => [(n, 1)]
  | (n', k) :: r => if String.eqb n n' then (n', S k) :: r else (n', k) :: incr n r
  end.

(* unnamed: classes decorated with type_name(None): never referenced, always expanded *)
Fixpoint count_refs (u : univ) (unnamed : nat -> bool) (fuel : nat) : ty -> counts -> counts :=
  fix go (t : ty) (cs : counts) {struct t} : counts :=
    match t with
    | TColl _ t' | TCon _ t' => go t' cs
    | TTuple ts | TUnion ts => (fix all (ts : list ty) (cs : counts) : counts :=
                                  match ts with [] => cs | t1 :: tr => all tr (go t1 cs) end) ts cs
    | TMap kt vt => go vt (go kt cs)
    | TEnum e => incr (ename_ e) cs
    | TObj c =>
        let seen := negb (unnamed c) && Nat.ltb 0 (count_of (cname c) cs) in
        let cs' := if unnamed c then cs else incr (cname c) cs in
        if seen then cs'
        else match fuel with
             | O => cs'
             | S f => fold_left (fun acc fd => count_refs u unnamed f (fd_ty fd) acc) (cd_fields (get_cls u c)) cs'
             end
    | _ => cs
    end.

Definition refs_of (u : univ) (unnamed : nat -> bool) (all_refs : bool) (t : ty) : list string :=
  map fst (filter (fun c => all_refs || Nat.ltb 1 (snd c)) (count_refs u unnamed (S (List.length (u_classes u))) t [])).

Definition refs_pred (l : list string) : string -> bool := fun n => existsb (String.eqb n) l.
