(* Model of apischema/json_schema/versions.py: the conversions applied to every (sub)schema for the older dialects.
   No proofs here. *)
From Coq Require Import List String ZArith Bool Arith.
From AV Require Import Core.Json Core.Text Deser.Model Schema.Json.
Import ListNotations.
Open Scope string_scope.

(* apply F to the direct subschemas of a keyword *)
Definition kw_map (F : js -> js) (k : kw) : kw :=
  match k with
  | KwItems s => KwItems (F s)
  | KwAddItems s => KwAddItems (F s)
  | KwAddProps s => KwAddProps (F s)
  | KwPropertyNames s => KwPropertyNames (F s)
  | KwPrefixItems l => KwPrefixItems (map F l)
  | KwItemsArr l => KwItemsArr (map F l)
  | KwAnyOf l => KwAnyOf (map F l)
  | KwAllOf l => KwAllOf (map F l)
  | KwOneOf l => KwOneOf (map F l)
  | KwProperties ps => KwProperties (map (fun p => (fst p, F (snd p))) ps)
  | KwPatternProps ps => KwPatternProps (map (fun p => (fst p, F (snd p))) ps)
  | other => other
  end.

Definition has_prefix_items (kws : list kw) : bool :=
  existsb (fun k => match k with KwPrefixItems _ => true | _ => false end) kws.
Definition has_ref (kws : list kw) : bool :=
  existsb (fun k => match k with KwRef _ _ => true | _ => false end) kws.

(* to_json_schema_2019_09 *)
Definition top19 (kws : list kw) : list kw :=
  if has_prefix_items kws then
    map (fun k => match k with
                  | KwItems s => KwAddItems s
                  | KwPrefixItems l => KwItemsArr l
                  | _ => k end) kws
  else kws.

(* isolate_ref: "$ref" with siblings moves into allOf *)
Definition isolate_ref (kws : list kw) : list kw :=
  if has_ref kws && Nat.ltb 1 (List.length kws) then
    let refs := flat_map (fun k => match k with KwRef l n => [JS [KwRef l n]] | _ => [] end) kws in
    let rest := filter (fun k => match k with KwRef _ _ => false | _ => true end) kws in
    if existsb (fun k => match k with KwAllOf _ => true | _ => false end) rest
    then map (fun k => match k with KwAllOf l => KwAllOf (l ++ refs) | _ => k end) rest
    else (rest ++ [KwAllOf refs])%list
  else kws.

(* to_json_schema_7 *)
Definition top7 (kws : list kw) : list kw :=
  map (fun k => match k with
                | KwDepReq l => KwDependencies l
                | KwAnnot n => if String.eqb n "$defs" then KwAnnot "definitions" else k
                | _ => k end) (isolate_ref (top19 kws)).

Definition is_null_alt (s : js) : bool := match s with JS [KwType [JNull]] => true | _ => false end.

(* to_open_api_3_0 *)
Definition top_oas30 (kws : list kw) : list kw :=
  let k1 := filter (fun k => match k with KwDepReq _ | KwPropertyNames _ | KwAddItems _ => false | _ => true end) (top19 kws) in
  let k2 := isolate_ref k1 in
  (* {"type": "null"} alternative of anyOf -> nullable *)
  let null_alt := existsb (fun k => match k with KwAnyOf l => existsb is_null_alt l | _ => false end) k2 in
  let k3 := map (fun k => match k with
                          | KwAnyOf l => if existsb is_null_alt l then KwAnyOf (filter (fun a => negb (is_null_alt a)) l) else k
                          | _ => k end) k2 in
  (* list-valued "type" *)
  let null_ty := existsb (fun k => match k with KwType ts => Nat.ltb 1 (List.length ts) && memt JNull ts | _ => false end) k3 in
  let multi := flat_map (fun k => match k with
                                  | KwType ts => let ts' := filter (fun t => negb (jtype_eqb t JNull)) ts in
                                                 if Nat.ltb 1 (List.length ts) && Nat.ltb 1 (List.length ts')
                                                 then map (fun t => JS [KwType [t]]) ts' else []
                                  | _ => [] end) k3 in
  let k4 := flat_map (fun k => match k with
                               | KwType ts =>
                                   if Nat.ltb 1 (List.length ts) then
                                     let ts' := filter (fun t => negb (jtype_eqb t JNull)) ts in
                                     if Nat.ltb 1 (List.length ts') then [] else [KwType ts']
                                   else [k]
                               | _ => [k] end) k3 in
  let k5 := match multi with
            | [] => k4
            | _ => if existsb (fun k => match k with KwAnyOf _ => true | _ => false end) k4
                   then map (fun k => match k with KwAnyOf l => KwAnyOf (l ++ multi) | _ => k end) k4
                   else (k4 ++ [KwAnyOf multi])%list
            end in
  let k6 := if (null_alt || null_ty) && negb (nullable k5) then (k5 ++ [KwNullable])%list else k5 in
  (* examples -> example *)
  let k7 := if existsb (fun k => match k with KwAnnot n => String.eqb n "example" | _ => false end) k6
            then filter (fun k => match k with KwAnnot n => negb (String.eqb n "examples") | _ => true end) k6
            else map (fun k => match k with KwAnnot n => if String.eqb n "examples" then KwAnnot "example" else k | _ => k end) k6 in
  (* const -> enum *)
  if existsb (fun k => match k with KwEnum _ => true | _ => false end) k7
  then filter (fun k => match k with KwConst _ => false | _ => true end) k7
  else map (fun k => match k with KwConst p => KwEnum [p] | _ => k end) k7.

Inductive version := V2020 | V2019 | V7 | VOAS30 | VOAS31.

Definition top_of (v : version) : list kw -> list kw :=
  match v with V2020 | VOAS31 => fun k => k | V2019 => top19 | V7 => top7 | VOAS30 => top_oas30 end.

(* the conversion is a recursive (sub_conversion) serialization: children first, then the schema itself *)
Fixpoint convert (v : version) (s : js) : js :=
  match s with
  | JBoolS b => JBoolS b
  | JS kws => JS (top_of v (map (kw_map (convert v)) kws))
  end.

Definition convert_defs (v : version) (ds : defs) : defs := map (fun d => (fst d, convert v (snd d))) ds.

(* draft-07 (and OpenAPI 3.0) ignore the siblings of "$ref" *)
Fixpoint ref_exclusive (s : js) : js :=
  match s with
  | JBoolS b => JBoolS b
  | JS kws =>
      let kws' := map (kw_map ref_exclusive) kws in
      if has_ref kws' then JS (filter (fun k => match k with KwRef _ _ => true | _ => false end) kws') else JS kws'
  end.

(* validation under the rules of a dialect *)
Definition jvalid_v (v : version) (ss : bool) (ds : defs) (fuel : nat) (s : js) (d : pyval) : bool :=
  match v with
  | V7 | VOAS30 => jvalid ss (map (fun x => (fst x, ref_exclusive (snd x))) ds) fuel (ref_exclusive s) d
  | _ => jvalid ss ds fuel s d
  end.
