(* Model of apischema/json_schema/versions.py: the conversions applied to every (sub)schema for the older dialects.
   No proofs here. *)
From Coq Require Import List String ZArith Bool Arith.
From AV Require Import Core.Json Core.Text Deser.Model Schema.Json.
Import ListNotations.
Open Scope string_scope.

(* apply F to the direct subschemas of a keyword *)
Definition kw_map (F : js -> js) (k : kw) : kw :=
  match k with
  | KwItems s => KwItems (F s)
  | KwAddItems s => KwAddItems (F s)
  | KwAddProps s => KwAddProps (F s)
  | KwPropertyNames s => KwPropertyNames (F s)
  | KwPrefixItems l => KwPrefixItems (map F l)
  | KwItemsArr l => KwItemsArr (map F l)
  | KwAnyOf l => KwAnyOf (map F l)
  | KwAllOf l => KwAllOf (map F l)
  | KwOneOf l => KwOneOf (map F l)
  | KwProperties ps => KwProperties (map (fun p => (fst p, F (snd p))) ps)
  | KwPatternProps ps => KwPatternProps (map (fun p => (fst p, F (snd p))) ps)
  | other => other
  end.

Definition has_prefix_items (kws : list kw) : bool :=
  existsb (fun k => match k with KwPrefixItems _ => true | _ => false end) kws.
Definition has_ref (kws : list kw) : bool :=
  existsb (fun k => match k with KwRef _ _ => true | _ => false end) kws.

(* to_json_schema_2019_09 *)
Definition top19 (kws : list kw) : list kw :=
  if has_prefix_items kws then
    map (fun k => match k with
                  | KwItems s => KwAddItems s
                  | KwPrefixItems l => KwItemsArr l
                  | _ => k end) kws
  else kws.

(* isolate_ref: "$ref" with siblings moves into allOf *)
Definition isolate_ref (kws : list kw) : list kw :=
  if has_ref kws && Nat.ltb 1 (List.length kws) then
    let refs := flat_map (fun k => match k with KwRef l n => [JS [KwRef l n]] | _ => [] end) kws in
    let rest := filter (fun k => match k with KwRef _ _ => false | _ => true end) kws in
    if existsb (fun k => match k with KwAllOf _ => true | _ => false end) rest
    then map (fun k => match k with KwAllOf l => KwAllOf (l ++ refs) | _ => k end) rest
    else (rest ++ [KwAllOf refs])%list
  else kws.

(* to_json_schema_7 *)
Definition top7 (kws : list kw) : list kw :=
  map (fun k => match k with
                | KwDepReq l => KwDependencies l
                | KwAnnot n => if String.eqb n "$defs" then KwAnnot "definitions" else k
                | _ => k end) (isolate_ref (top19 kws)).

Definition is_null_alt (s : js) : bool := match s with JS [KwType [JNull]] => true | _ => false end.

(* to_open_api_3_0, stage by stage *)
Definition is_anyof (k : kw) : bool := match k with KwAnyOf _ => true | _ => false end.
Definition non_null (ts : list jtype) : list jtype := filter (fun t => negb (jtype_eqb t JNull)) ts.

(* OPEN_API_3_0_UNSUPPORTED keywords are dropped *)
Definition drop30 (kws : list kw) : list kw :=
  filter (fun k => match k with KwDepReq _ | KwPropertyNames _ | KwAddItems _ => false | _ => true end) kws.
(* {"type": "null"} alternative of anyOf -> nullable *)
Definition any_null (kws : list kw) : bool :=
  existsb (fun k => match k with KwAnyOf l => existsb is_null_alt l | _ => false end) kws.
Definition strip_any (kws : list kw) : list kw :=
  map (fun k => match k with
                | KwAnyOf l => if existsb is_null_alt l then KwAnyOf (filter (fun a => negb (is_null_alt a)) l) else k
                | _ => k end) kws.
(* list-valued "type": null -> nullable, several other members -> anyOf *)
Definition ty_null (kws : list kw) : bool :=
  existsb (fun k => match k with KwType ts => Nat.ltb 1 (List.length ts) && memt JNull ts | _ => false end) kws.
Definition multi_of (kws : list kw) : list js :=
  flat_map (fun k => match k with
                     | KwType ts => if Nat.ltb 1 (List.length ts) && Nat.ltb 1 (List.length (non_null ts))
                                    then map (fun t => JS [KwType [t]]) (non_null ts) else []
                     | _ => [] end) kws.
Definition split_ty (kws : list kw) : list kw :=
  flat_map (fun k => match k with
                     | KwType ts =>
                         if Nat.ltb 1 (List.length ts) then
                           if Nat.ltb 1 (List.length (non_null ts)) then [] else [KwType (non_null ts)]
                         else [k]
                     | _ => [k] end) kws.
(* result.setdefault("allOf", []).append(x) for every x *)
Definition is_allof (k : kw) : bool := match k with KwAllOf _ => true | _ => false end.
Definition push_allof (xs : list js) (kws : list kw) : list kw :=
  match xs with
  | [] => kws
  | _ => if existsb is_allof kws
         then map (fun k => match k with KwAllOf l => KwAllOf (l ++ xs) | _ => k end) kws
         else (kws ++ [KwAllOf xs])%list
  end.
(* several non-null members: an anyOf of single types; beside an existing anyOf it goes in allOf (both must hold) *)
Definition add_any (multi : list js) (kws : list kw) : list kw :=
  match multi with
  | [] => kws
  | _ => if existsb is_anyof kws then push_allof [JS [KwAnyOf multi]] kws else (kws ++ [KwAnyOf multi])%list
  end.
Definition add_nullable (b : bool) (kws : list kw) : list kw :=
  if b && negb (nullable kws) then (kws ++ [KwNullable])%list else kws.
(* examples -> example *)
Definition is_annot (n : string) (k : kw) : bool := match k with KwAnnot m => String.eqb m n | _ => false end.
Definition examples30 (kws : list kw) : list kw :=
  if existsb (is_annot "example") kws
  then filter (fun k => negb (is_annot "examples" k)) kws
  else map (fun k => if is_annot "examples" k then KwAnnot "example" else k) kws.
(* const -> enum *)
Definition has_enum (kws : list kw) : bool := existsb (fun k => match k with KwEnum _ => true | _ => false end) kws.
Definition has_const (kws : list kw) : bool := existsb (fun k => match k with KwConst _ => true | _ => false end) kws.
Definition is_const (k : kw) : bool := match k with KwConst _ => true | _ => false end.
Definition const30 (kws : list kw) : list kw :=
  if has_enum kws
  then push_allof (flat_map (fun k => match k with KwConst p => [JS [KwEnum [p]]] | _ => [] end) kws)
                  (filter (fun k => negb (is_const k)) kws)          (* beside an enum, the constant goes in allOf *)
  else map (fun k => match k with KwConst p => KwEnum [p] | _ => k end) kws.

(* what happens after the unsupported keywords are dropped and "$ref" is isolated *)
Definition tail30 (k2 : list kw) : list kw :=
  let k3 := strip_any k2 in
  const30 (examples30 (add_nullable (any_null k2 || ty_null k3) (add_any (multi_of k3) (split_ty k3)))).

Definition top_oas30 (kws : list kw) : list kw := tail30 (isolate_ref (drop30 (top19 kws))).

Inductive version := V2020 | V2019 | V7 | VOAS30 | VOAS31.

Definition top_of (v : version) : list kw -> list kw :=
  match v with V2020 | VOAS31 => fun k => k | V2019 => top19 | V7 => top7 | VOAS30 => top_oas30 end.

(* the conversion is a recursive (sub_conversion) serialization: children first, then the schema itself *)
Fixpoint convert (v : version) (s : js) : js :=
  match s with
  | JBoolS b => JBoolS b
  | JS kws => JS (top_of v (map (kw_map (convert v)) kws))
  end.

Definition convert_defs (v : version) (ds : defs) : defs := map (fun d => (fst d, convert v (snd d))) ds.

(* draft-07 (and OpenAPI 3.0) ignore the siblings of "$ref" *)
Fixpoint ref_exclusive (s : js) : js :=
  match s with
  | JBoolS b => JBoolS b
  | JS kws =>
      let kws' := map (kw_map ref_exclusive) kws in
      if has_ref kws' then JS (filter (fun k => match k with KwRef _ _ => true | _ => false end) kws') else JS kws'
  end.

(* validation under the rules of a dialect *)
Definition jvalid_v (v : version) (ss : bool) (ds : defs) (fuel : nat) (s : js) (d : pyval) : bool :=
  match v with
  | V7 | VOAS30 => jvalid ss (map (fun x => (fst x, ref_exclusive (snd x))) ds) fuel (ref_exclusive s) d
  | _ => jvalid ss ds fuel s d
  end.
