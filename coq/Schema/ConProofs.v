(* C06: merging constraints into a schema is conjunction. *)
From Coq Require Import List String ZArith Bool Arith Lia.
From AV Require Import Core.Json Core.Text Deser.Model Schema.Json Schema.Build Schema.Unfold Schema.Proofs.
Import ListNotations.

Lemma cmp_data_and d k k1 k2 pi ni : (forall q, k q = k1 q && k2 q) ->
  cmp_data d k pi ni = cmp_data d k1 pi ni && cmp_data d k2 pi ni.
Proof.
  intros H. destruct d as [|x|z|f|s|l|l|tg]; cbn [cmp_data]; try reflexivity; try apply H.
  destruct f as [q| |n]; try apply H; try reflexivity. destruct n; [destruct ni|destruct pi]; reflexivity.
Qed.

Lemma leb_max a b q : Z.leb (cnum_q (cmax a b)) q = Z.leb (cnum_q a) q && Z.leb (cnum_q b) q.
Proof.
  unfold cmax. destruct (Z.ltb_spec (cnum_q a) (cnum_q b));
    destruct (Z.leb_spec (cnum_q a) q), (Z.leb_spec (cnum_q b) q); try reflexivity; lia.
Qed.
Lemma ltb_max a b q : Z.ltb (cnum_q (cmax a b)) q = Z.ltb (cnum_q a) q && Z.ltb (cnum_q b) q.
Proof.
  unfold cmax. destruct (Z.ltb_spec (cnum_q a) (cnum_q b));
    destruct (Z.ltb_spec (cnum_q a) q), (Z.ltb_spec (cnum_q b) q); try reflexivity; lia.
Qed.
Lemma leb_min a b q : Z.leb q (cnum_q (cmin a b)) = Z.leb q (cnum_q a) && Z.leb q (cnum_q b).
Proof.
  unfold cmin. destruct (Z.ltb_spec (cnum_q b) (cnum_q a));
    destruct (Z.leb_spec q (cnum_q a)), (Z.leb_spec q (cnum_q b)); try reflexivity; lia.
Qed.
Lemma ltb_min a b q : Z.ltb q (cnum_q (cmin a b)) = Z.ltb q (cnum_q a) && Z.ltb q (cnum_q b).
Proof.
  unfold cmin. destruct (Z.ltb_spec (cnum_q b) (cnum_q a));
    destruct (Z.ltb_spec q (cnum_q a)), (Z.ltb_spec q (cnum_q b)); try reflexivity; lia.
Qed.

Lemma nat_leb_max a b n : Nat.leb (Nat.max a b) n = Nat.leb a n && Nat.leb b n.
Proof. destruct (Nat.leb_spec (Nat.max a b) n), (Nat.leb_spec a n), (Nat.leb_spec b n); try reflexivity; lia. Qed.
Lemma nat_leb_min a b n : Nat.leb n (Nat.min a b) = Nat.leb n a && Nat.leb n b.
Proof. destruct (Nat.leb_spec n (Nat.min a b)), (Nat.leb_spec n a), (Nat.leb_spec n b); try reflexivity; lia. Qed.

(* kinds whose merge is max / min (or idempotent): every kind but multipleOf and pattern *)
Definition mergeable (c : constr) : bool := match c with KMultOf _ | KPattern _ => false | _ => true end.

Lemma merge_con_valid c c' d : same_kind c c' = true -> mergeable c = true ->
  con_valid (merge_con c c') d = con_valid c d && con_valid c' d.
Proof.
  intros Hs Hm. destruct c, c'; try discriminate; cbn [merge_con con_valid];
    destruct d as [|x|z|f|s|l|l|tg]; try reflexivity; cbn [cvalid data_len].
  all: try (apply cmp_data_and; intros q; first [apply leb_max | apply leb_min | apply ltb_max | apply ltb_min]).
  all: try apply nat_leb_max; try apply nat_leb_min.
  all: try (destruct (all_distinct _); reflexivity).
Qed.

Lemma forallb_guard {A} (f p : A -> bool) (R : bool) l :
  forallb (fun k => f k && (negb (p k) || R)) l = forallb f l && (negb (existsb p l) || R).
Proof.
  induction l as [|x r IH]; [reflexivity|]. cbn [forallb existsb]. rewrite IH.
  destruct (f x), (p x), (forallb f r), (existsb p r), R; reflexivity.
Qed.

Lemma forallb_eq {A} (f g : A -> bool) l : (forall x, f x = g x) -> forallb f l = forallb g l.
Proof. intros H. induction l as [|x r IH]; [reflexivity|]. cbn [forallb]. now rewrite H, IH. Qed.

Lemma forallb_map' {A B} (f : B -> bool) (g : A -> B) l : forallb f (map g l) = forallb (fun x => f (g x)) l.
Proof. induction l as [|x r IH]; [reflexivity|]. cbn [map forallb]. now rewrite IH. Qed.

(* rewriting constraint keywords only does not change what the sibling-dependent keywords see *)
Definition con_only (g : kw -> kw) : Prop :=
  forall k, match k with KwCon _ | KwSetUnique => match g k with KwCon _ | KwSetUnique => True | _ => False end | _ => g k = k end.

Lemma con_only_prefix g kws : con_only g -> prefix_len (map g kws) = prefix_len kws.
Proof.
  intros H. unfold prefix_len. generalize 0 as n. induction kws as [|k r IH]; intros n; [reflexivity|].
  cbn [map fold_left]. rewrite IH. f_equal. specialize (H k). destruct k; try (rewrite H; reflexivity); destruct (g _); try contradiction; reflexivity.
Qed.
Lemma con_only_names g kws : con_only g -> prop_names (map g kws) = prop_names kws.
Proof.
  intros H. unfold prop_names. induction kws as [|k r IH]; [reflexivity|]. cbn [map flat_map]. rewrite IH. f_equal.
  specialize (H k). destruct k; try (rewrite H; reflexivity); destruct (g _); try contradiction; reflexivity.
Qed.
Lemma con_only_patterns g kws : con_only g -> prop_patterns (map g kws) = prop_patterns kws.
Proof.
  intros H. unfold prop_patterns. induction kws as [|k r IH]; [reflexivity|]. cbn [map flat_map]. rewrite IH. f_equal.
  specialize (H k). destruct k; try (rewrite H; reflexivity); destruct (g _); try contradiction; reflexivity.
Qed.
Lemma con_only_nullable g kws : con_only g -> nullable (map g kws) = nullable kws.
Proof.
  intros H. unfold nullable. induction kws as [|k r IH]; [reflexivity|]. cbn [map existsb]. rewrite IH. f_equal.
  specialize (H k). destruct k; try (rewrite H; reflexivity); destruct (g _); try contradiction; reflexivity.
Qed.

Definition same_con (c : constr) (k : kw) : bool := match k with KwCon c' => same_kind c c' | _ => false end.
Definition is_set_unique (k : kw) : bool := match k with KwSetUnique => true | _ => false end.

(* one constraint merged into the keywords: the schema accepts what it accepted and what the constraint accepts *)
Lemma merge_kw_valid ss ds fuel c kws d :
  nullable kws = false ->
  (mergeable c = true \/ has_kind c kws = false) ->
  nullable (merge_kw c kws) = false /\
  forallb (fun k => kw_valid ss ds fuel (merge_kw c kws) k d) (merge_kw c kws)
  = forallb (fun k => kw_valid ss ds fuel kws k d) kws && con_valid c d.
Proof.
  intros Hn Hc. unfold merge_kw.
  destruct (match c with KUnique => has_set_unique kws | _ => false end) eqn:Hu.
  - (* explicit unique on a set position *)
    destruct c; try discriminate.
    set (g := fun k => match k with KwSetUnique => KwCon KUnique | _ => k end).
    assert (Hg : con_only g) by (intros k; destruct k; cbn; auto).
    split; [rewrite con_only_nullable; assumption|].
    rewrite forallb_map'.
    rewrite (forallb_eq _ (fun k => kw_valid ss ds fuel kws k d && (negb (is_set_unique k) || con_valid KUnique d))).
    + rewrite forallb_guard. unfold has_set_unique in Hu. change (fun k => match k with KwSetUnique => true | _ => false end) with is_set_unique in Hu.
      now rewrite Hu.
    + intros k. destruct k; cbn [g is_set_unique negb orb]; rewrite ?andb_true_r;
        try (apply kw_valid_siblings; [apply con_only_prefix | apply con_only_names | apply con_only_patterns]; assumption).
      cbn [kw_valid flat_kw]. destruct ss; [now rewrite andb_diag | reflexivity].
  - destruct (has_kind c kws) eqn:Hk.
    + destruct Hc as [Hm|Hf]; [|discriminate].
      set (g := fun k => match k with KwCon c' => if same_kind c c' then KwCon (merge_con c c') else k | _ => k end).
      assert (Hg : con_only g).
      { intros k; destruct k; cbn; auto. destruct (same_kind c c0); exact I. }
      split; [rewrite con_only_nullable; assumption|].
      rewrite forallb_map'.
      rewrite (forallb_eq _ (fun k => kw_valid ss ds fuel kws k d && (negb (same_con c k) || con_valid c d))).
      * rewrite forallb_guard. unfold has_kind in Hk. change (fun k => match k with KwCon c' => same_kind c c' | _ => false end) with (same_con c) in Hk.
        now rewrite Hk.
      * intros k. destruct k; cbn [g same_con negb orb]; rewrite ?andb_true_r;
          try (apply kw_valid_siblings; [apply con_only_prefix | apply con_only_names | apply con_only_patterns]; assumption).
        destruct (same_kind c c0) eqn:Es; cbn [negb orb]; rewrite ?andb_true_r.
        -- cbn [kw_valid flat_kw]. rewrite merge_con_valid by assumption. apply andb_comm.
        -- apply kw_valid_siblings; [apply con_only_prefix | apply con_only_names | apply con_only_patterns]; assumption.
    + split.
      * unfold nullable. rewrite existsb_app. cbn [existsb]. unfold nullable in Hn. now rewrite Hn.
      * rewrite forallb_app. cbn [forallb kw_valid flat_kw]. rewrite andb_true_r. f_equal.
        apply forallb_eq. intros k. apply kw_valid_siblings.
        -- unfold prefix_len. rewrite fold_left_app. reflexivity.
        -- unfold prop_names. rewrite flat_map_app. cbn. now rewrite app_nil_r.
        -- unfold prop_patterns. rewrite flat_map_app. cbn. now rewrite app_nil_r.
Qed.

(* the constraints can be merged one after the other: multipleOf / pattern never meet one of their kind
   (the implementation raises or computes a lcm there; the generated types never nest two of them) *)
Fixpoint mergeable_into (cs : list constr) (kws : list kw) : bool :=
  match cs with
  | [] => true
  | k :: r => (mergeable k || negb (has_kind k kws)) && mergeable_into r (merge_kw k kws)
  end.

Lemma fold_merge_valid ss ds fuel d : forall cs kws,
  nullable kws = false -> mergeable_into cs kws = true ->
  jvalid ss ds fuel (JS (fold_left (fun acc k => merge_kw k acc) cs kws)) d
  = jvalid ss ds fuel (JS kws) d && forallb (fun k => con_valid k d) cs.
Proof.
  induction cs as [|k r IH]; intros kws Hn Hok.
  - cbn [fold_left forallb]. now rewrite andb_true_r.
  - cbn [mergeable_into] in Hok. apply andb_true_iff in Hok. destruct Hok as [Hk Hr].
    assert (Hc : mergeable k = true \/ has_kind k kws = false).
    { apply orb_true_iff in Hk. destruct Hk as [Hk|Hk]; [left; exact Hk|right; now apply negb_true_iff]. }
    destruct (merge_kw_valid ss ds fuel k kws d Hn Hc) as [Hn' Hv].
    cbn [fold_left forallb]. rewrite IH by assumption.
    rewrite !jvalid_JS, Hn, Hn'. cbn [andb orb]. rewrite Hv. now rewrite andb_assoc.
Qed.

(* full_schema(base, schema(constraints)): the constrained schema accepts exactly what the base schema and every
   constraint accept (each constraint under the standard applicability rule of its keyword) *)
Theorem apply_con_valid ss ds fuel c kws d :
  nullable kws = false -> mergeable_into (all_cons c) kws = true ->
  jvalid ss ds fuel (apply_con (Some c) (JS kws)) d
  = jvalid ss ds fuel (JS kws) d && forallb (fun k => con_valid k d) (all_cons c).
Proof. intros Hn Hok. cbn [apply_con]. now apply fold_merge_valid. Qed.
