(* JSON Schema as a syntax tree (one constructor per keyword the builder can emit, in every dialect), and its standard
   validation semantics.  No proofs here. *)
From Coq Require Import List String ZArith Bool Arith.
From AV Require Import Core.Json Core.Text Deser.Model.
Import ListNotations.
Open Scope string_scope.

Inductive jtype := JNull | JBoolean | JString | JInteger | JNumber | JArray | JObject.

Definition jtype_eqb (a b : jtype) : bool :=
  match a, b with
  | JNull, JNull | JBoolean, JBoolean | JString, JString | JInteger, JInteger | JNumber, JNumber
  | JArray, JArray | JObject, JObject => true
  | _, _ => false
  end.

Inductive js :=
| JBoolS (b : bool)                          (* the schemas true / false *)
| JS (kws : list kw)                         (* an object schema: every keyword must hold *)
with kw :=
| KwType (ts : list jtype)                   (* "type": t  or  "type": [t, ...] *)
| KwConst (p : prim)
| KwEnum (ps : list prim)
| KwCon (c : constr)                         (* minimum ... maxProperties, pattern, uniqueItems *)
| KwSetUnique                                (* "uniqueItems": true emitted for a set-typed position *)
| KwItems (s : js)
| KwPrefixItems (ss : list js)
| KwProperties (ps : list (string * js))
| KwRequired (rs : list string)
| KwAddProps (s : js)
| KwPatternProps (ps : list (string * js))   (* patterns are start-anchored literal prefixes *)
| KwPropertyNames (s : js)
| KwDepReq (l : list (string * list string))
| KwAnyOf (ss : list js)
| KwAllOf (ss : list js)
| KwOneOf (ss : list js)
| KwRef (leaf : bool) (name : string)        (* "$ref": prefix ++ name; leaf = the definition has no subschema *)
(* keywords of the older dialects (json_schema/versions.py) *)
| KwItemsArr (ss : list js)                  (* array-form "items" *)
| KwAddItems (s : js)                        (* "additionalItems" *)
| KwDependencies (l : list (string * list string))
| KwNullable                                 (* OpenAPI 3.0 "nullable": true *)
| KwAnnot (name : string).                   (* a keyword without validation effect: default, title, $defs, ... (value not modelled) *)

Definition defs := list (string * js).

Fixpoint def_lookup (name : string) (ds : defs) : option js :=
  match ds with
  | [] => None
  | (n, s) :: r => if String.eqb n name then Some s else def_lookup name r
  end.

(* ------------------------------------------------------------------ instance equality and types (JSON Schema core) *)
Definition prim_data (p : prim) : pyval :=
  match p with LNone => PNone | LBool b => PBool b | LInt z => PInt z | LStr s => PStr s end.

Definition memt (t : jtype) (ts : list jtype) : bool := existsb (jtype_eqb t) ts.

(* "integer" matches any number with a zero fractional part *)
Definition type_ok (ts : list jtype) (d : pyval) : bool :=
  match d with
  | PNone => memt JNull ts
  | PBool _ => memt JBoolean ts
  | PInt _ => memt JInteger ts || memt JNumber ts
  | PFloat (FQ q) => memt JNumber ts || (memt JInteger ts && Z.eqb (q mod 4) 0)
  | PFloat _ => memt JNumber ts
  | PStr _ => memt JString ts
  | PList _ => memt JArray ts
  | PDict _ => memt JObject ts
  | POther _ => false
  end.

(* a validation keyword only constrains the instances of the type it is about *)
Definition con_valid (c : constr) (d : pyval) : bool :=
  match c with
  | KMin _ | KMax _ | KExcMin _ | KExcMax _ | KMultOf _ =>
      match d with PInt _ | PFloat _ => cvalid c d | _ => true end
  | KMinLen _ | KMaxLen _ | KPattern _ => match d with PStr _ => cvalid c d | _ => true end
  | KMinItems _ | KMaxItems _ => match d with PList _ => cvalid c d | _ => true end
  | KUnique => match d with PList l => all_distinct l | _ => true end
  | KMinProps _ | KMaxProps _ => match d with PDict _ => cvalid c d | _ => true end
  end.

Definition required_ok (rs : list string) (d : pyval) : bool :=
  match d with PDict kvs => forallb (fun r => dict_has r kvs) rs | _ => true end.

Definition depreq_ok (l : list (string * list string)) (d : pyval) : bool :=
  match d with
  | PDict kvs => forallb (fun kd => negb (dict_has (fst kd) kvs) || forallb (fun r => dict_has r kvs) (snd kd)) l
  | _ => true
  end.

Section Valid.
  Variable strict_sets : bool.      (* false: the common domain of C06 (uniqueness of set-typed arrays is not compared) *)
  Variable ds : defs.

  (* keywords without subschema *)
  Definition flat_kw (k : kw) (d : pyval) : option bool :=
    match k with
    | KwType ts => Some (type_ok ts d)
    | KwConst p => Some (json_eq (prim_data p) d)
    | KwEnum ps => Some (existsb (fun p => json_eq (prim_data p) d) ps)
    | KwCon c => Some (con_valid c d)
    | KwSetUnique => Some (if strict_sets then con_valid KUnique d else true)
    | KwRequired rs => Some (required_ok rs d)
    | KwDepReq l | KwDependencies l => Some (depreq_ok l d)
    | _ => None
    end.

  Definition leaf_valid (s : js) (d : pyval) : bool :=
    match s with
    | JBoolS b => b
    | JS kws => forallb (fun k => match flat_kw k d with Some b => b | None => true end) kws
    end.

  (* siblings consulted by items / additionalProperties / nullable *)
  Definition prefix_len (kws : list kw) : nat :=
    fold_left (fun n k => match k with KwPrefixItems ss | KwItemsArr ss => List.length ss | _ => n end) kws 0.
  Definition prop_names (kws : list kw) : list string :=
    flat_map (fun k => match k with KwProperties ps => map fst ps | _ => [] end) kws.
  Definition prop_patterns (kws : list kw) : list string :=
    flat_map (fun k => match k with KwPatternProps ps => map fst ps | _ => [] end) kws.
  Definition nullable (kws : list kw) : bool := existsb (fun k => match k with KwNullable => true | _ => false end) kws.

  Definition additional (kws : list kw) (key : string) : bool :=
    negb (existsb (String.eqb key) (prop_names kws)) && negb (existsb (fun p => prefixb p key) (prop_patterns kws)).

  Definition is_null (d : pyval) : bool := match d with PNone => true | _ => false end.

  Section Loops.
    Variable V : js -> pyval -> bool.
    Fixpoint zip_valid (l1 : list js) (l : list pyval) : bool :=
      match l1, l with
      | s1 :: sr, x :: lr => V s1 x && zip_valid sr lr
      | _, _ => true
      end.
    Fixpoint props_valid (ps : list (string * js)) (kvs : list (string * pyval)) : bool :=
      match ps with
      | [] => true
      | (n, s1) :: pr => match dict_get n kvs with Some x => V s1 x | None => true end && props_valid pr kvs
      end.
    Fixpoint pats_valid (ps : list (string * js)) (kvs : list (string * pyval)) : bool :=
      match ps with
      | [] => true
      | (p, s1) :: pr => forallb (fun kv => negb (prefixb p (fst kv)) || V s1 (snd kv)) kvs && pats_valid pr kvs
      end.
    Fixpoint any_valid (l : list js) (d : pyval) : bool :=
      match l with [] => false | s1 :: sr => V s1 d || any_valid sr d end.
    Fixpoint all_valid_js (l : list js) (d : pyval) : bool :=
      match l with [] => true | s1 :: sr => V s1 d && all_valid_js sr d end.
    Fixpoint count_valid (l : list js) (d : pyval) : nat :=
      match l with [] => 0 | s1 :: sr => (if V s1 d then 1 else 0) + count_valid sr d end.
  End Loops.

  Fixpoint jvalid (fuel : nat) : js -> pyval -> bool :=
    fix go (s : js) (d : pyval) {struct s} : bool :=
      match s with
      | JBoolS b => b
      | JS kws =>
          (* OpenAPI 3.0: "nullable": true lets null through whatever the other keywords say *)
          (nullable kws && is_null d) ||
          forallb (fun k =>
            match k with
            | KwItems s' | KwAddItems s' =>
                match d with PList l => forallb (go s') (skipn (prefix_len kws) l) | _ => true end
            | KwPrefixItems l1 | KwItemsArr l1 => match d with PList l => zip_valid go l1 l | _ => true end
            | KwProperties ps => match d with PDict kvs => props_valid go ps kvs | _ => true end
            | KwPatternProps ps => match d with PDict kvs => pats_valid go ps kvs | _ => true end
            | KwPropertyNames s' =>
                match d with PDict kvs => forallb (fun kv => go s' (PStr (fst kv))) kvs | _ => true end
            | KwAddProps s' =>
                match d with
                | PDict kvs => forallb (fun kv => negb (additional kws (fst kv)) || go s' (snd kv)) kvs
                | _ => true
                end
            | KwAnyOf l => any_valid go l d
            | KwAllOf l => all_valid_js go l d
            | KwOneOf l => Nat.eqb 1 (count_valid go l d)
            | KwRef leaf name =>
                match def_lookup name ds with
                | None => false
                | Some s' => if leaf then leaf_valid s' d
                             else match fuel with O => false | S f => jvalid f s' d end
                end
            | KwNullable => true
            | other => match flat_kw other d with Some b => b | None => true end
            end) kws
      end.

  (* one keyword, given its siblings *)
  Definition kw_valid (fuel : nat) (kws : list kw) (k : kw) (d : pyval) : bool :=
    let V := jvalid fuel in
    match k with
    | KwItems s' | KwAddItems s' =>
        match d with PList l => forallb (V s') (skipn (prefix_len kws) l) | _ => true end
    | KwPrefixItems l1 | KwItemsArr l1 => match d with PList l => zip_valid V l1 l | _ => true end
    | KwProperties ps => match d with PDict kvs => props_valid V ps kvs | _ => true end
    | KwPatternProps ps => match d with PDict kvs => pats_valid V ps kvs | _ => true end
    | KwPropertyNames s' => match d with PDict kvs => forallb (fun kv => V s' (PStr (fst kv))) kvs | _ => true end
    | KwAddProps s' =>
        match d with PDict kvs => forallb (fun kv => negb (additional kws (fst kv)) || V s' (snd kv)) kvs | _ => true end
    | KwAnyOf l => any_valid V l d
    | KwAllOf l => all_valid_js V l d
    | KwOneOf l => Nat.eqb 1 (count_valid V l d)
    | KwRef leaf name =>
        match def_lookup name ds with
        | None => false
        | Some s' => if leaf then leaf_valid s' d
                     else match fuel with O => false | S f => jvalid f s' d end
        end
    | KwNullable => true
    | other => match flat_kw other d with Some b => b | None => true end
    end.
End Valid.

(* data of the common semantic domain of C06: JSON values (no nan / inf, no foreign object) without integer-valued float
   and without integer beyond the float range *)
Fixpoint in_domain (d : pyval) : bool :=
  match d with
  | PFloat (FQ q) => negb (Z.eqb (q mod 4) 0)
  | PFloat _ => false
  | PInt z => Z.ltb (Z.abs z) huge
  | POther _ => false
  | PList l => forallb in_domain l
  | PDict kvs => (fix go (kvs : list (string * pyval)) : bool :=
                    match kvs with [] => true | (_, x) :: r => in_domain x && go r end) kvs
  | _ => true
  end.
