(* Comparison of schemas (implementation output vs model output) and entry points used by the generated case files. *)
From Coq Require Import List String ZArith Bool Arith.
From AV Require Import Core.Json Core.Text Core.Util Small.Ordering Deser.Model Deser.Spec Schema.Json Schema.Build.
Import ListNotations.
Open Scope string_scope.

Definition cnum_eqb (a b : cnum) : bool :=
  match a, b with
  | CI x, CI y => Z.eqb x y
  | CF x, CF y => Z.eqb x y
  | CI x, CF y | CF y, CI x => Z.eqb (4 * x) y      (* 1 and 1.0 are the same JSON number *)
  end.

Definition constr_eqb (a b : constr) : bool :=
  match a, b with
  | KMin x, KMin y | KMax x, KMax y | KExcMin x, KExcMin y | KExcMax x, KExcMax y | KMultOf x, KMultOf y => cnum_eqb x y
  | KMinLen x, KMinLen y | KMaxLen x, KMaxLen y | KMinItems x, KMinItems y | KMaxItems x, KMaxItems y
  | KMinProps x, KMinProps y | KMaxProps x, KMaxProps y => Nat.eqb x y
  | KPattern x, KPattern y => String.eqb x y
  | KUnique, KUnique => true
  | _, _ => false
  end.

Definition types_eqb (a b : list jtype) : bool :=
  forallb (fun t => memt t b) a && forallb (fun t => memt t a) b.

Definition depreq_eqb (a b : list (string * list string)) : bool :=
  list_eqb (fun x y => String.eqb (fst x) (fst y) && strs_eqb (snd x) (snd y)) a b.

(* equality of schemas as JSON documents: keyword order and the order inside "type" are irrelevant; KwSetUnique prints as
   "uniqueItems": true; the leaf flag of a reference is not printed *)
Fixpoint js_eqb (a b : js) {struct a} : bool :=
  match a, b with
  | JBoolS x, JBoolS y => Bool.eqb x y
  | JS ks, JS ks' =>
      Nat.eqb (List.length ks) (List.length ks') &&
      (fix all (ks : list kw) : bool :=
         match ks with
         | [] => true
         | k :: r =>
             existsb (fun k' =>
               match k, k' with
               | KwType x, KwType y => types_eqb x y
               | KwConst x, KwConst y => prim_eqb x y
               | KwEnum x, KwEnum y => list_eqb prim_eqb x y
               | KwCon x, KwCon y => constr_eqb x y
               | KwSetUnique, KwSetUnique | KwSetUnique, KwCon KUnique | KwCon KUnique, KwSetUnique => true
               | KwItems x, KwItems y | KwAddProps x, KwAddProps y | KwAddItems x, KwAddItems y
               | KwPropertyNames x, KwPropertyNames y => js_eqb x y
               | KwPrefixItems xs, KwPrefixItems ys | KwAnyOf xs, KwAnyOf ys | KwAllOf xs, KwAllOf ys
               | KwOneOf xs, KwOneOf ys | KwItemsArr xs, KwItemsArr ys =>
                   (fix go (xs : list js) (ys : list js) : bool :=
                      match xs, ys with
                      | [], [] => true
                      | x :: xr, y :: yr => js_eqb x y && go xr yr
                      | _, _ => false
                      end) xs ys
               | KwProperties xs, KwProperties ys | KwPatternProps xs, KwPatternProps ys =>
                   (fix go (xs : list (string * js)) (ys : list (string * js)) : bool :=
                      match xs, ys with
                      | [], [] => true
                      | (n, x) :: xr, (n', y) :: yr => String.eqb n n' && js_eqb x y && go xr yr
                      | _, _ => false
                      end) xs ys
               | KwRequired x, KwRequired y => strs_eqb x y
               | KwDepReq x, KwDepReq y | KwDependencies x, KwDependencies y => depreq_eqb x y
               | KwRef _ x, KwRef _ y => String.eqb x y
               | KwNullable, KwNullable => true
               | KwAnnot x, KwAnnot y => String.eqb x y
               | _, _ => false
               end) ks' && all r
         end) ks
  | _, _ => false
  end.

Definition defs_eqb (a b : defs) : bool :=
  Nat.eqb (List.length a) (List.length b) &&
  forallb (fun d => match def_lookup (fst d) b with Some s => js_eqb (snd d) s | None => false end) a.

Definition fuel_s : nat := 12.

(* what deserialization_schema(T, additional_properties, aliaser, all_refs, schema=root) returns, as (schema, $defs) *)
Definition model_schema_u (u : univ) (o : dopts) (unnamed : list nat) (all_refs : bool) (root : option constraints) (t : ty) : js * defs :=
  let refs := refs_pred (refs_of u (fun c => existsb (Nat.eqb c) unnamed) all_refs t) in
  (apply_con root (build u o refs fuel_s false t),
   defs_for u o refs fuel_s (seq 0 (List.length (u_classes u))) (seq 0 (List.length (u_enums u)))).

Definition model_schema (u : univ) (o : dopts) := model_schema_u u o [].

Definition schema_case_ok (u : univ) (o : dopts) (all_refs : bool) (root : option constraints) (t : ty)
           (impl : js) (impl_defs : defs) : bool :=
  let '(s, ds) := model_schema u o all_refs root t in
  js_eqb s impl && defs_eqb ds impl_defs.

Definition accepts (r : sres) : bool := match r with SOk _ => true | _ => false end.

(* the statement of C06 on one case: the model's schema (common domain: uniqueness of sets not compared) accepts d
   exactly when the specification of deserialization does *)
Definition agree_case (u : univ) (o : dopts) (all_refs : bool) (root : option constraints) (t : ty) (d : pyval) : bool :=
  let '(s, ds) := model_schema u o all_refs root t in
  Bool.eqb (jvalid false ds fuel_s s d) (accepts (spec u o fuel_s root t d)).

(* deserialization_schema raises ValueError("Mapping types must have string-convertible keys") *)
Fixpoint keys_ok_deep (u : univ) (fuel : nat) : ty -> bool :=
  fix go (t : ty) {struct t} : bool :=
    match t with
    | TColl _ t' | TCon _ t' => go t'
    | TTuple ts | TUnion ts => (fix all (ts : list ty) : bool := match ts with [] => true | t1 :: tr => go t1 && all tr end) ts
    | TMap kt vt => key_ok u kt && go vt
    | TObj c => match fuel with
                | O => true
                | S f => forallb (fun fd => keys_ok_deep u f (fd_ty fd)) (cd_fields (get_cls u c))
                end
    | _ => true
    end.

Definition schema_case (u : univ) (o : dopts) (all_refs : bool) (root : option constraints) (t : ty)
           (impl : option (js * defs)) : bool :=
  match impl with
  | Some (s, ds) => keys_ok_deep u (S (List.length (u_classes u))) t && schema_case_ok u o all_refs root t s ds
  | None => negb (keys_ok_deep u (S (List.length (u_classes u))) t)
  end.

(* C17: with classes decorated by type_name(None) *)
Definition schema_case_u (u : univ) (o : dopts) (unnamed : list nat) (all_refs : bool) (root : option constraints) (t : ty)
           (impl : js * defs) : bool :=
  let '(s, ds) := model_schema_u u o unnamed all_refs root t in
  js_eqb s (fst impl) && defs_eqb ds (snd impl).
