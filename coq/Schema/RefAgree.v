(* C06 for classes given by reference ($ref / $defs), recursive ones included.  The recursion of both the validator (through
   the references) and the specification (through the classes) follows the data: induction on the nesting of objects in the
   datum, then on the type. *)
From Coq Require Import List String ZArith Bool Arith Lia.
From AV Require Import Core.Json Core.Errors Core.Text Core.TextProofs Core.Util Small.Ordering Deser.Model Deser.Spec Deser.Unfold Deser.Loops
  Schema.Json Schema.Unfold Schema.Build Schema.Proofs Schema.ConProofs Schema.ShapeProofs Schema.AgreeProofs Schema.DepReqAgree Schema.ObjAgree.
Import ListNotations.
Open Scope string_scope.

(* nesting of objects in a datum *)
Fixpoint dd (d : pyval) : nat :=
  match d with
  | PDict kvs => S ((fix go (kvs : list (string * pyval)) : nat :=
                       match kvs with [] => 0 | (_, x) :: r => Nat.max (dd x) (go r) end) kvs)
  | PList l => (fix go (l : list pyval) : nat := match l with [] => 0 | x :: r => Nat.max (dd x) (go r) end) l
  | _ => 0
  end.

Lemma dd_list l x : In x l -> dd x <= dd (PList l).
Proof.
  induction l as [|y r IH]; intros H; [contradiction|]. cbn [dd] in *. destruct H as [->|H]; [lia|]. specialize (IH H). lia.
Qed.

Lemma dd_dict kvs x : In x (map snd kvs) -> dd x < dd (PDict kvs).
Proof.
  cbn [dd]. induction kvs as [|[k y] r IH]; intros H; [contradiction|]. cbn [map snd] in H. destruct H as [->|H]; [lia|].
  specialize (IH H). lia.
Qed.

Section Ref.
  Variable u : univ.
  Variable o : dopts.
  Variable refs : string -> bool.
  Variable ds : defs.
  Variable mD : nat.      (* the definitions are built with fuel S mD *)
  Hypothesis Henum : forall e, refs (ename_ e) = true -> def_lookup (ename_ e) ds = Some (literal_schema (get_enum u e)).
  Hypothesis Hfb : o_fallback o = false.
  Notation sp := (spec u o).
  Notation B := (build u o refs).

  Definition cls_conds (okf : ty -> bool) (m : nat) (cd : cdef) : bool :=
    sorted_kept cd && wf_depreq cd
    && forallb (fun fd => no_fb fd && okf (field_ty fd) && wf_con (field_ty fd)
                          && con_mergeable u o refs m false (field_ty fd) && keys_ok u (field_ty fd)) (cd_fields cd).

  (* the fragment: a class is either referenced or given inline (then n bounds the inline nesting) *)
  Fixpoint okr (n : nat) : ty -> bool :=
    fix go (t : ty) : bool :=
      match t with
      | TObj c => refs (cname c) || match n with O => false | S m => cls_conds (okr m) m (get_cls u c) end
      | TColl _ t' => go t'
      | TCon _ t' => obj_free t'
      | TTuple ts | TUnion ts => forallb go ts
      | TMap kt vt => obj_free kt && go vt
      | _ => true
      end.

  Lemma okr_TColl n k t : okr n (TColl k t) = okr n t.
  Proof. destruct n; reflexivity. Qed.
  Lemma okr_TCon n c t : okr n (TCon c t) = obj_free t.
  Proof. destruct n; reflexivity. Qed.
  Lemma okr_TTuple n ts : okr n (TTuple ts) = forallb (okr n) ts.
  Proof. destruct n; reflexivity. Qed.
  Lemma okr_TUnion n ts : okr n (TUnion ts) = forallb (okr n) ts.
  Proof. destruct n; reflexivity. Qed.
  Lemma okr_TMap n kt vt : okr n (TMap kt vt) = obj_free kt && okr n vt.
  Proof. destruct n; reflexivity. Qed.
  Lemma okr_TObj n c :
    okr n (TObj c) = refs (cname c) || match n with O => false | S m => cls_conds (okr m) m (get_cls u c) end.
  Proof. destruct n; reflexivity. Qed.

  (* every referenced class has its definition, built from a class of the fragment *)
  Hypothesis Hdefs : forall c, refs (cname c) = true ->
    def_lookup (cname c) ds = Some (B (S mD) true (TObj c)) /\ cls_conds (okr mD) mD (get_cls u c) = true.

  (* the class conditions, whichever way the class is given *)
  Lemma class_of n c : okr n (TObj c) = true ->
    exists m, cls_conds (okr m) m (get_cls u c) = true /\ (refs (cname c) = true -> m = mD) /\ (refs (cname c) = false -> n = S m).
  Proof.
    rewrite okr_TObj. destruct (refs (cname c)) eqn:Er; cbn [orb].
    - intros _. exists mD. destruct (Hdefs c Er) as [_ Hc]. repeat split; auto. discriminate.
    - destruct n as [|m]; [discriminate|]. intros Hc. exists m. repeat split; auto. discriminate.
  Qed.

  Lemma cls_conds_fields okf m cd : cls_conds okf m cd = true ->
    elems_sorted cd = cd_fields cd /\ wf_depreq cd = true /\ forallb no_fb (cd_fields cd) = true
    /\ forall fd, In fd (cd_fields cd) -> okf (field_ty fd) = true /\ wf_con (field_ty fd) = true
                  /\ con_mergeable u o refs m false (field_ty fd) = true /\ keys_ok u (field_ty fd) = true.
  Proof.
    unfold cls_conds. intros H. apply andb_true_iff in H. destruct H as [H Hf]. apply andb_true_iff in H. destruct H as [Hs Hd].
    split; [apply sorted_kept_ok; exact Hs|]. split; [assumption|].
    split.
    - apply forallb_forall. intros fd Hin. rewrite forallb_forall in Hf. specialize (Hf fd Hin).
      repeat (apply andb_true_iff in Hf; destruct Hf as [Hf ?]). assumption.
    - intros fd Hin. rewrite forallb_forall in Hf. specialize (Hf fd Hin).
      repeat (apply andb_true_iff in Hf; destruct Hf as [Hf ?]). repeat split; assumption.
  Qed.

  (* ---- the specification does not run out of fuel when the fuel exceeds the nesting of objects in the datum *)
  Lemma okr_no_fuel_step k :
    (forall k', k' < k -> forall d, dd d <= k' -> forall sf, k' < sf -> forall n t acc, okr n t = true -> sp sf acc t d <> SFuel) ->
    forall t d, dd d <= k -> forall sf, k < sf -> forall n acc, okr n t = true -> sp sf acc t d <> SFuel.
  Proof.
    intros IHk. induction t using ty_ind'; intros d Hk sf Hsf n acc Hf.
    - rewrite spec_TNone. destruct d; discriminate.
    - rewrite spec_TBool. destruct d; discriminate.
    - rewrite spec_TInt. destruct d; try discriminate. unfold accept. destruct (all_valid _ _); discriminate.
    - rewrite spec_TFloat. destruct d; try discriminate; unfold accept.
      + destruct (Z.ltb _ _); [destruct (all_valid _ _)|]; discriminate.
      + destruct (all_valid _ _); discriminate.
    - rewrite spec_TStr. destruct d; try discriminate. unfold accept. destruct (all_valid _ _); discriminate.
    - rewrite spec_TAny. unfold accept. destruct (all_valid _ _); discriminate.
    - rewrite spec_TColl. destruct d; try discriminate. rewrite okr_TColl in Hf.
      assert (H : all_ok (map (sp sf None t) l) <> None).
      { apply all_ok_map_no_fuel. intros x Hx. eapply IHt; [|exact Hsf|exact Hf]. pose proof (dd_list l x Hx). lia. }
      destruct (all_ok _) as [[vs|]|]; try congruence; try discriminate. unfold accept. destruct (all_valid _ _); discriminate.
    - rewrite spec_TTuple. destruct d; try discriminate. destruct (negb _); [discriminate|]. rewrite okr_TTuple in Hf.
      assert (Hz : forall l', (forall x, In x l' -> dd x <= k) -> all_ok (zip_spec (sp sf None) ts l') <> None).
      { clear Hk. induction ts as [|t1 tr IHts]; intros l' Hl'; [destruct l'; discriminate|]. destruct l' as [|x r]; [discriminate|].
        cbn [zip_spec all_ok]. inversion H as [|? ? H1 Hr]; subst. cbn [forallb] in Hf. apply andb_true_iff in Hf. destruct Hf as [Hf1 Hfr].
        specialize (H1 x (Hl' x (or_introl eq_refl)) sf Hsf n None Hf1). specialize (IHts Hr Hfr r (fun y Hy => Hl' y (or_intror Hy))).
        destruct (sp sf None t1 x); try congruence; destruct (all_ok (zip_spec (sp sf None) tr r)) as [[?|]|]; try congruence; discriminate. }
      specialize (Hz l (fun x Hx => Nat.le_trans _ _ _ (dd_list l x Hx) Hk)).
      destruct (all_ok _) as [[vs|]|]; try congruence; try discriminate. unfold accept. destruct (all_valid _ _); discriminate.
    - rewrite spec_TMap. destruct d; try discriminate. rewrite okr_TMap in Hf. apply andb_true_iff in Hf. destruct Hf as [Hkey Hv].
      assert (H1 : all_ok (map (fun kv => sp sf None t1 (PStr (fst kv))) l) <> None)
        by (apply all_ok_map_no_fuel; intros x _; now apply obj_free_no_fuel).
      assert (H2 : all_ok (map (fun kv => sp sf None t2 (snd kv)) l) <> None).
      { apply all_ok_map_no_fuel. intros kv Hkv. eapply IHt2; [|exact Hsf|exact Hv].
        pose proof (dd_dict l (snd kv) (in_map snd _ _ Hkv)). lia. }
      destruct (all_ok _) as [[ks|]|]; try congruence; destruct (all_ok _) as [[vs|]|]; try congruence; try discriminate.
      unfold accept. destruct (all_valid _ _); discriminate.
    - rewrite spec_TLit. destruct (prim_of d); [destruct (existsb _ _)|]; discriminate.
    - rewrite spec_TEnum. destruct (prim_of d); [destruct (existsb _ _)|]; discriminate.
    - rewrite spec_TCon. rewrite okr_TCon in Hf. apply obj_free_no_fuel. exact Hf.
    - rewrite spec_TUnion. rewrite okr_TUnion in Hf. induction ts as [|t1 tr IHts]; [discriminate|].
      inversion H as [|? ? H1 Hr]; subst. cbn [forallb] in Hf. apply andb_true_iff in Hf. destruct Hf as [Hf1 Hfr].
      cbn [first_spec]. specialize (H1 d Hk sf Hsf n acc Hf1). destruct (sp sf acc t1 d); try congruence. now apply IHts.
    - (* a class *)
      destruct sf as [|sf']; [lia|]. rewrite spec_TObj_S. cbv zeta. destruct d; try discriminate.
      destruct (class_of n c Hf) as [m [Hc _]]. destruct (cls_conds_fields _ _ _ Hc) as [_ [Hdep [Hnb Hall]]].
      assert (Hnf : forall fd, In fd (cd_fields (get_cls u c)) -> forall x, dict_get (o_aliaser o (fd_alias fd)) l = Some x ->
                               sp sf' None (field_ty fd) x <> SFuel).
      { intros fd Hin x Hg. pose proof (dd_dict l x) as Hlt.
        assert (Hx : In x (map snd l)) by (apply in_map_iff; exists (o_aliaser o (fd_alias fd), x); split; [reflexivity|apply dict_get_in; exact Hg]).
        specialize (Hlt Hx). apply (IHk (dd x)) with (n := m); try lia. apply (Hall fd Hin). }
      destruct (spec_fields_gen u o sf' (get_cls u c) l (cd_fields (get_cls u c)) Hfb Hnb Hnf) as [Hnone _].
      rewrite Hnone. repeat match goal with |- context [if ?c then _ else _] => destruct c end; discriminate.
  Qed.

  Lemma okr_no_fuel : forall k d, dd d <= k -> forall sf, k < sf -> forall n t acc, okr n t = true -> sp sf acc t d <> SFuel.
  Proof.
    induction k as [k IH] using (well_founded_induction lt_wf). intros d Hd sf Hsf n t acc Hf.
    eapply okr_no_fuel_step; eauto.
  Qed.

  Lemma zip_agree_in (jv : js -> pyval -> bool) (Bf : ty -> js) (h : ty -> pyval -> sres) ts : forall l,
    (forall t, In t ts -> forall x, In x l -> jv (Bf t) x = accepts (h t x)) ->
    (forall t, In t ts -> forall x, In x l -> h t x <> SFuel) ->
    zip_valid jv (map Bf ts) l = match all_ok (zip_spec h ts l) with Some (Some _) => true | _ => false end.
  Proof.
    induction ts as [|t1 tr IH]; intros l H Hnf; [destruct l; reflexivity|]. destruct l as [|x r]; [reflexivity|].
    cbn [map zip_valid zip_spec all_ok].
    rewrite (H t1 (or_introl eq_refl) x (or_introl eq_refl)).
    assert (IHr : zip_valid jv (map Bf tr) r = match all_ok (zip_spec h tr r) with Some (Some _) => true | _ => false end).
    { apply IH.
      - intros t Ht y Hy. apply H; right; assumption.
      - intros t Ht y Hy. apply Hnf; right; assumption. }
    rewrite IHr.
    assert (H1 := Hnf t1 (or_introl eq_refl) x (or_introl eq_refl)).
    destruct (h t1 x); try congruence; cbn [accepts andb];
      destruct (all_ok (zip_spec h tr r)) as [[vs|]|]; reflexivity.
  Qed.

  Lemma accepts_first_in (h : ty -> sres) ts : (forall t, In t ts -> h t <> SFuel) ->
    accepts (first_spec h ts) = existsb (fun t => accepts (h t)) ts.
  Proof. apply accepts_first. Qed.

  (* ---- THE STATEMENT with references *)
  Definition stmt (k : nat) : Prop :=
    forall t d, dd d <= k -> forall jf sf, k <= jf -> k < sf -> forall n ign,
    okr n t = true -> (ign = false \/ obj_free t = true) -> wf_con t = true -> con_mergeable u o refs n ign t = true ->
    keys_ok u t = true -> in_domain d = true ->
    jvalid false ds jf (B n ign t) d = accepts (sp sf None t d).

  Lemma ref_agree_step k : (forall k', k' < k -> stmt k') -> stmt k.
  Proof.
    intros IHk. unfold stmt. induction t using ty_ind'; intros d Hk jf sf Hjf Hsf n ign Hf Hign Hw Hm Hkeys Hd.
    1-6: (apply (frag_agree u o refs ds Henum jf sf n); auto).
    - (* collection *)
      rewrite okr_TColl in Hf. cbn [wf_con con_mergeable keys_ok] in *. rewrite build_TColl, spec_TColl. cbv zeta.
      destruct d as [|x|z|f|s|l|kvs|tg];
        try (apply jvalid_type_fail; [apply nullable_coll | reflexivity]).
      + apply jvalid_type_fail; [apply nullable_coll | destruct f; reflexivity].
      + rewrite coll_schema_valid.
        assert (Hdl : forall x, In x l -> dd x <= k) by (intros x Hx; pose proof (dd_list l x Hx); lia).
        assert (Hl : forall x, In x l -> jvalid false ds jf (B n false t) x = accepts (sp sf None t x)).
        { intros x Hx. apply IHt; auto. cbn [in_domain] in Hd. rewrite forallb_forall in Hd. auto. }
        rewrite (forallb_in_ext _ _ _ Hl).
        assert (Hnf : forall x, In x l -> sp sf None t x <> SFuel).
        { intros x Hx. eapply (okr_no_fuel k); eauto. }
        rewrite <- (accepts_all_ok (sp sf None t) l Hnf).
        destruct (all_ok (map (sp sf None t) l)) as [[vs|]|]; reflexivity.
    - (* tuple *)
      rewrite okr_TTuple in Hf. cbn [wf_con con_mergeable keys_ok] in *. rewrite build_TTuple, spec_TTuple. cbv zeta.
      rewrite <- (map_length (B n false) ts) at 1 2.
      destruct d as [|x|z|f|s|l|kvs|tg]; try (apply jvalid_type_fail; [apply nullable_tuple | reflexivity]).
      + apply jvalid_type_fail; [apply nullable_tuple | destruct f; reflexivity].
      + rewrite tuple_schema_valid, map_length.
        destruct (Nat.eqb (List.length l) (List.length ts)) eqn:El; cbn [negb andb]; [|reflexivity].
        assert (Hdl : forall x, In x l -> dd x <= k) by (intros x Hx; pose proof (dd_list l x Hx); lia).
        rewrite (zip_agree_in (jvalid false ds jf) (B n false) (sp sf None) ts l).
        * destruct (all_ok (zip_spec (sp sf None) ts l)) as [[vs|]|]; reflexivity.
        * intros t Ht x Hx. rewrite Forall_forall in H. apply H; auto.
          -- rewrite forallb_forall in Hf. auto.
          -- rewrite forallb_forall in Hw. auto.
          -- rewrite forallb_forall in Hm. auto.
          -- rewrite forallb_forall in Hkeys. auto.
          -- cbn [in_domain] in Hd. rewrite forallb_forall in Hd. auto.
        * intros t Ht x Hx. eapply (okr_no_fuel k); eauto. rewrite forallb_forall in Hf. auto.
    - (* mapping: the keys are object-free *)
      rewrite okr_TMap in Hf. cbn [wf_con con_mergeable keys_ok] in *.
      apply andb_true_iff in Hf. destruct Hf as [Hf1 Hf2]. apply andb_true_iff in Hw. destruct Hw as [Hw1 Hw2].
      apply andb_true_iff in Hm. destruct Hm as [Hm1 Hm2]. apply andb_true_iff in Hkeys. destruct Hkeys as [Hk1 Hk2].
      rewrite build_TMap, spec_TMap. cbv zeta.
      set (key := B n true t1). set (value := B n false t2).
      change (match key with JS [KwType _] => [] | _ => [KwPropertyNames key] end) with (names_of key).
      pose proof (build_nn u o refs n t1 true Hf1) as Hnn. fold key in Hnn.
      pose proof (key_type u o refs n t1 Hk1) as Hkt. fold key in Hkt.
      destruct d as [|x|z|f|s|l|kvs|tg].
      1-6,8: (pose proof (nullable_map_schema key value) as Hnull;
              destruct (get_pattern key); cbn [kws_of] in Hnull; (apply jvalid_type_fail; [exact Hnull | try destruct f; reflexivity])).
      rewrite map_schema_valid by assumption.
      assert (Hdv : forall kv, In kv kvs -> dd (snd kv) <= k).
      { intros kv Hkv. pose proof (dd_dict kvs (snd kv) (in_map snd _ _ Hkv)). lia. }
      assert (HK : forall kv, In kv kvs -> jvalid false ds jf key (PStr (fst kv)) = accepts (sp sf None t1 (PStr (fst kv)))).
      { intros kv _. apply (frag_agree u o refs ds Henum jf sf n); auto. now apply key_keys_ok. }
      assert (HV : forall kv, In kv kvs -> jvalid false ds jf value (snd kv) = accepts (sp sf None t2 (snd kv))).
      { intros kv Hkv. apply IHt2; auto. eapply in_domain_dict; eassumption. }
      rewrite (forallb_in_ext _ _ _ HK), (forallb_in_ext _ _ _ HV).
      assert (N1 : forall kv, In kv kvs -> sp sf None t1 (PStr (fst kv)) <> SFuel) by (intros; now apply obj_free_no_fuel).
      assert (N2 : forall kv, In kv kvs -> sp sf None t2 (snd kv) <> SFuel).
      { intros kv Hkv. eapply (okr_no_fuel k); eauto. }
      rewrite <- (accepts_all_ok (fun kv => sp sf None t1 (PStr (fst kv))) kvs N1).
      rewrite <- (accepts_all_ok (fun kv => sp sf None t2 (snd kv)) kvs N2).
      destruct (all_ok (map (fun kv => sp sf None t1 (PStr (fst kv))) kvs)) as [[ks|]|];
        destruct (all_ok (map (fun kv => sp sf None t2 (snd kv)) kvs)) as [[vs|]|]; reflexivity.
    - apply (frag_agree u o refs ds Henum jf sf n); auto.
    - apply (frag_agree u o refs ds Henum jf sf n); auto.
    - (* Annotated: over an object-free type *)
      rewrite okr_TCon in Hf. apply (frag_agree u o refs ds Henum jf sf n); auto.
    - (* Union *)
      rewrite okr_TUnion in Hf. cbn [wf_con con_mergeable keys_ok] in *. rewrite spec_TUnion.
      rewrite accepts_first.
      2:{ intros t Ht. eapply (okr_no_fuel k); eauto. rewrite forallb_forall in Hf. auto. }
      destruct ts as [|t0 tr].
      + rewrite build_TUnion. cbn [map visited_union existsb forallb flat_map norm_types dedup_types fold_left memt jtype_eqb app].
        rewrite jvalid_only_type. destruct d as [|x|z|f|s|l|l|tg]; try destruct f; reflexivity.
      + rewrite union_type_schema by discriminate.
        apply existsb_in_ext. intros t Ht. rewrite Forall_forall in H. apply H; auto.
        * rewrite forallb_forall in Hf. auto.
        * rewrite forallb_forall in Hw. auto.
        * rewrite forallb_forall in Hm. auto.
        * rewrite forallb_forall in Hkeys. auto.
    - (* a class: inline, or through its reference *)
      destruct sf as [|sf']; [lia|].
      destruct (class_of n c Hf) as [m [Hc [Hmref Hminl]]]. destruct (cls_conds_fields _ _ _ Hc) as [Hsorted [Hdep [Hnb Hall]]].
      assert (Hfields : forall jf', k <= S jf' \/ k <= jf' ->
                forall fd, In fd (cd_fields (get_cls u c)) -> forall x, sub_value d x -> in_domain x = true ->
                (dd x <= jf') ->
                jvalid false ds jf' (B m false (field_ty fd)) x = accepts (sp sf' None (field_ty fd) x)).
      { intros jf' _ fd Hin x Hsub Hx Hle. destruct d; try contradiction. cbn [sub_value] in Hsub.
        pose proof (dd_dict _ x Hsub) as Hlt. destruct (Hall fd Hin) as [H1 [H2 [H3 H4]]].
        apply (IHk (dd x)); auto; lia. }
      assert (Hnofuel : forall fd, In fd (cd_fields (get_cls u c)) -> forall x, sub_value d x -> sp sf' None (field_ty fd) x <> SFuel).
      { intros fd Hin x Hsub. destruct d; try contradiction. cbn [sub_value] in Hsub. pose proof (dd_dict _ x Hsub) as Hlt.
        apply (okr_no_fuel (dd x)) with (n := m); try lia. apply (Hall fd Hin). }
      destruct (refs (cname c) && negb ign)%bool eqn:Er.
      + (* through the reference *)
        apply andb_true_iff in Er. destruct Er as [Er Ei]. specialize (Hmref Er). subst m.
        rewrite build_TObj, Er, Ei. cbn [andb]. rewrite jvalid_JS. cbn [nullable existsb orb andb forallb kw_valid].
        destruct (Hdefs c Er) as [Hlook _]. rewrite Hlook, andb_true_r.
        destruct jf as [|jf'].
        * (* no fuel left for the reference: the datum holds no object *)
          assert (Hdd : dd d = 0) by lia. rewrite spec_TObj_S. cbv zeta. destruct d; try reflexivity. cbn [dd] in Hdd. lia.
        * apply (class_agree_gen u o refs ds jf' c mD sf' true d); auto.
          -- rewrite andb_false_r. reflexivity.
          -- intros fd Hin x Hsub Hx. apply (Hfields jf'); auto. destruct d; try contradiction. cbn [sub_value] in Hsub.
             pose proof (dd_dict _ x Hsub). lia.
      + (* inline *)
        assert (Hn : n = S m).
        { apply Hminl. destruct (refs (cname c)) eqn:Er'; [|reflexivity]. cbn [andb] in Er. apply negb_false_iff in Er. subst ign.
          destruct Hign as [Hi|Hi]; discriminate. }
        subst n. apply (class_agree_gen u o refs ds jf c m sf' ign d); auto.
        intros fd Hin x Hsub Hx. apply (Hfields jf); auto. destruct d; try contradiction. cbn [sub_value] in Hsub.
        pose proof (dd_dict _ x Hsub). lia.
  Qed.

  Theorem ref_agree : forall k, stmt k.
  Proof. induction k as [k IH] using (well_founded_induction lt_wf). apply ref_agree_step. exact IH. Qed.

  (* the fuels only need to exceed the nesting of objects in the datum *)
  Corollary ref_agree_any t d jf sf n ign :
    dd d <= jf -> dd d < sf ->
    okr n t = true -> (ign = false \/ obj_free t = true) -> wf_con t = true -> con_mergeable u o refs n ign t = true ->
    keys_ok u t = true -> in_domain d = true ->
    jvalid false ds jf (B n ign t) d = accepts (sp sf None t d).
  Proof. intros H1 H2. apply (ref_agree (dd d) t d (le_n _) jf sf H1 H2). Qed.
End Ref.

(* ------------------------------------------------------------------ with the definitions the builder itself emits *)
Lemma cname_inj a b : cname a = cname b -> a = b.
Proof. unfold cname. intros H. injection H as H. apply show_nat_inj. exact H. Qed.

Lemma ename_inj a b : ename_ a = ename_ b -> a = b.
Proof. unfold ename_. intros H. injection H as H. apply show_nat_inj. exact H. Qed.

Lemma cname_ename c e : String.eqb (cname c) (ename_ e) = false.
Proof. reflexivity. Qed.

Lemma def_lookup_map_found {A} (name : A -> string) (body : A -> js) (l : list A) x :
  (forall y, name y = name x -> y = x) -> In x l ->
  def_lookup (name x) (map (fun y => (name y, body y)) l) = Some (body x).
Proof.
  intros Hinj. induction l as [|y r IH]; [intros []|]. intros Hin. cbn [map def_lookup].
  destruct (String.eqb (name y) (name x)) eqn:E.
  - apply String.eqb_eq in E. rewrite (Hinj y E). reflexivity.
  - destruct Hin as [->|Hin]; [rewrite String.eqb_refl in E; discriminate|]. apply IH. exact Hin.
Qed.

Lemma def_lookup_map_none {A} (name : A -> string) (body : A -> js) (l : list A) n :
  (forall y, String.eqb (name y) n = false) -> def_lookup n (map (fun y => (name y, body y)) l) = None.
Proof. intros H. induction l as [|y r IH]; [reflexivity|]. cbn [map def_lookup]. rewrite H. exact IH. Qed.

Section Model.
  Variable u : univ.
  Variable o : dopts.
  Variable names : list string.     (* the extracted references *)
  Variable classes enums : list nat.
  Variable mD : nat.
  Let refs := refs_pred names.
  Let ds := defs_for u o refs (S mD) classes enums.

  (* every extracted name is the name of a listed class or enum *)
  Definition names_ok : bool :=
    forallb (fun nm => existsb (String.eqb nm) (map cname classes) || existsb (String.eqb nm) (map ename_ enums)) names.

  Definition ref_classes_ok : bool :=
    forallb (fun c => negb (refs (cname c)) || cls_conds u o refs (okr u o refs mD) mD (get_cls u c)) classes.

  Lemma ref_is_listed nm : names_ok = true -> refs nm = true ->
    (exists c, In c classes /\ nm = cname c) \/ (exists e, In e enums /\ nm = ename_ e).
  Proof.
    unfold names_ok, refs, refs_pred. intros Hn Hr. apply existsb_exists in Hr. destruct Hr as [x [Hx E]].
    apply String.eqb_eq in E. subst x. rewrite forallb_forall in Hn. specialize (Hn nm Hx).
    apply orb_true_iff in Hn. destruct Hn as [H|H]; apply existsb_exists in H; destruct H as [y [Hy E]]; apply String.eqb_eq in E; subst y;
      apply in_map_iff in Hy; destruct Hy as [i [<- Hi]]; [left|right]; exists i; auto.
  Qed.

  Lemma model_enum_defs : names_ok = true ->
    forall e, refs (ename_ e) = true -> def_lookup (ename_ e) ds = Some (literal_schema (get_enum u e)).
  Proof.
    intros Hn e Hr. destruct (ref_is_listed _ Hn Hr) as [[c [_ E]]|[e' [He' E]]].
    - pose proof (cname_ename c e) as Hne. rewrite <- E, String.eqb_refl in Hne. discriminate.
    - apply ename_inj in E. subst e'. unfold ds, defs_for. rewrite def_lookup_app.
      rewrite (def_lookup_map_none cname) by (intros c; apply cname_ename).
      rewrite (def_lookup_map_found ename_ (fun e0 => build u o refs (S mD) true (TEnum e0)) _ e).
      + rewrite build_TEnum, andb_false_r. reflexivity.
      + intros y Hy. apply ename_inj. exact Hy.
      + apply filter_In. split; assumption.
  Qed.

  Lemma model_class_defs : names_ok = true -> ref_classes_ok = true ->
    forall c, refs (cname c) = true ->
    def_lookup (cname c) ds = Some (build u o refs (S mD) true (TObj c))
    /\ cls_conds u o refs (okr u o refs mD) mD (get_cls u c) = true.
  Proof.
    intros Hn Hc c Hr. destruct (ref_is_listed _ Hn Hr) as [[c' [Hc' E]]|[e [_ E]]].
    - apply cname_inj in E. subst c'. split.
      + unfold ds, defs_for. rewrite def_lookup_app.
        rewrite (def_lookup_map_found cname (fun c0 => build u o refs (S mD) true (TObj c0)) _ c); [reflexivity| |].
        * intros y Hy. apply cname_inj. exact Hy.
        * apply filter_In. split; assumption.
      + unfold ref_classes_ok in Hc. rewrite forallb_forall in Hc. specialize (Hc c Hc'). rewrite Hr in Hc. exact Hc.
    - pose proof (cname_ename c e) as Hne. rewrite E, String.eqb_refl in Hne. discriminate.
  Qed.

  (* executable hypotheses: fuels jf / sf beyond the nesting of objects in the datum *)
  Definition ref_hyps (n jf sf : nat) (ign : bool) (t : ty) (d : pyval) : bool :=
    negb (o_fallback o) && names_ok && ref_classes_ok && Nat.leb (dd d) jf && Nat.ltb (dd d) sf
    && okr u o refs n t && (negb ign || obj_free t) && wf_con t && con_mergeable u o refs n ign t && keys_ok u t && in_domain d.

  Theorem ref_agree_checked n jf sf ign t d :
    ref_hyps n jf sf ign t d = true ->
    jvalid false ds jf (build u o refs n ign t) d = accepts (spec u o sf None t d).
  Proof.
    unfold ref_hyps. intros H.
    apply andb_true_iff in H. destruct H as [H Hdom]. apply andb_true_iff in H. destruct H as [H Hkeys].
    apply andb_true_iff in H. destruct H as [H Hcm]. apply andb_true_iff in H. destruct H as [H Hwf].
    apply andb_true_iff in H. destruct H as [H Hign]. apply andb_true_iff in H. destruct H as [H Hokr].
    apply andb_true_iff in H. destruct H as [H Hsf]. apply andb_true_iff in H. destruct H as [H Hjf].
    apply andb_true_iff in H. destruct H as [H Hcls]. apply andb_true_iff in H. destruct H as [Hfb Hnames].
    apply negb_true_iff in Hfb. apply Nat.leb_le in Hjf. apply Nat.ltb_lt in Hsf.
    apply (ref_agree_any u o refs ds mD (model_enum_defs Hnames) Hfb (model_class_defs Hnames Hcls) t d jf sf n ign Hjf Hsf Hokr); try assumption.
    apply orb_true_iff in Hign. destruct Hign as [Hi|Hi]; [left; destruct ign; [discriminate|reflexivity]|right; exact Hi].
  Qed.
End Model.

(* satisfiable: a recursive class (a tree node referring to itself through Optional and through a list), given by reference *)
Definition ref_ex_univ : univ := mkU
  [ mkCls KData [ mkF "v" "v" TInt true VNone false None no_fser;
                  mkF "next" "next" (TUnion [TObj 0; TNone]) false VNone false None no_fser;
                  mkF "kids" "children" (TColl KList (TObj 0)) false (VList []) false None no_fser ] [] [] [] false ]
  [].
Definition ref_ex_opts : dopts := mkO false false false true (fun s => s).
Definition ref_ex_names : list string := refs_of ref_ex_univ (fun _ => false) false (TObj 0).
Definition ref_ex_good : pyval :=
  PDict [("v", PInt 1); ("next", PDict [("v", PInt 2); ("next", PNone)]);
         ("children", PList [PDict [("v", PInt 3); ("children", PList [PDict [("v", PInt 4)]])]])].
Definition ref_ex_bad : pyval :=
  PDict [("v", PInt 1); ("children", PList [PDict [("v", PInt 3); ("children", PList [PDict [("v", PStr "no")]])]])].

Example ref_ex :
  ref_ex_names = ["C0"]
  /\ ref_hyps ref_ex_univ ref_ex_opts ref_ex_names [0] [] 11 12 5 5 false (TObj 0) ref_ex_good = true
  /\ ref_hyps ref_ex_univ ref_ex_opts ref_ex_names [0] [] 11 12 5 5 false (TObj 0) ref_ex_bad = true
  /\ jvalid false (defs_for ref_ex_univ ref_ex_opts (refs_pred ref_ex_names) 12 [0] []) 5
            (build ref_ex_univ ref_ex_opts (refs_pred ref_ex_names) 12 false (TObj 0)) ref_ex_good = true
  /\ jvalid false (defs_for ref_ex_univ ref_ex_opts (refs_pred ref_ex_names) 12 [0] []) 5
            (build ref_ex_univ ref_ex_opts (refs_pred ref_ex_names) 12 false (TObj 0)) ref_ex_bad = false.
Proof. vm_compute. repeat split. Qed.
