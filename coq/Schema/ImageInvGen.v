(* The image invariant of Ser/ImageInv.v for classes with every serialization option: skip(...) options, defaults of every
   kind, none_as_undefined, Undefined unions, exclude_none / exclude_defaults, any order(), serialized methods returning
   primitives.  An object then holds a subset of its properties: each emitted key belongs to one element and carries a datum
   satisfying Q, keys are distinct, and every element the schema requires is present. *)
From Coq Require Import List String ZArith Bool Arith Lia.
From AV Require Import Core.Json Core.Errors Core.Text Small.Ordering Deser.Model Deser.Spec Deser.Unfold Deser.Loops
  Ser.Model Ser.Spec Ser.RoundTrip Ser.RoundTripInd Ser.ImageInv Schema.Json Schema.BuildSer Schema.SerRequired.
Import ListNotations.

Definition elem_ty (e : elem) : ty := match e with EField fd => fd_ty fd | EMethod sm => sm_ty sm end.

(* a serialized method returning a primitive of its declared type *)
Definition prim_method (sm : smeth_def) : bool :=
  match sm_ty sm, sm_result sm with
  | TInt, VInt _ | TStr, VStr _ | TBool, VBool _ | TFloat, VFloat _ | TNone, VNone => true
  | _, _ => false
  end.

Lemma sd_antitone l : forall seen seen',
  (forall k, existsb (String.eqb k) seen = true -> existsb (String.eqb k) seen' = true) -> sd seen' l = true -> sd seen l = true.
Proof.
  induction l as [|x r IH]; intros seen seen' Hs H; [reflexivity|]. cbn [sd] in *. apply andb_true_iff in H. destruct H as [Hx Hr].
  apply andb_true_iff. split.
  - apply negb_true_iff in Hx. apply negb_true_iff. destruct (existsb (String.eqb x) seen) eqn:E; [|reflexivity].
    rewrite (Hs x E) in Hx. discriminate.
  - apply (IH (seen ++ [x])%list (seen' ++ [x])%list); [|exact Hr]. intros k Hk. rewrite existsb_app in *.
    apply orb_true_iff in Hk. apply orb_true_iff. destruct Hk as [Hk|Hk]; [left; now apply Hs|right; exact Hk].
Qed.

Lemma sd_weaken seen x l : sd (seen ++ [x]) l = true -> sd seen l = true.
Proof. apply sd_antitone. intros k Hk. rewrite existsb_app, Hk. reflexivity. Qed.

Section InvG.
Variable u : univ.
Variable o : sopts.
Notation img := (image u o).
Notation ht := (has_type u).

(* a dataclass / NamedTuple with any serialization option *)
Definition gcls (cd : cdef) : Prop :=
  is_typed_dict cd = false /\ cd_fields_set cd = false
  /\ (exists es, ordered_elems cd = Some es)
  /\ sd [] (map (elem_alias o) (elems_of cd)) = true
  /\ sd [] (map fd_name (cd_fields cd)) = true
  /\ forallb (fun fd => rt_ty u (fd_ty fd) && match fd_con fd with None => true | Some _ => false end) (cd_fields cd) = true
  /\ forallb prim_method (cd_methods cd) = true
  /\ cd_depreq cd = [].

Definition guniv : Prop := forall c, gcls (get_cls u c).
Definition ctxg (t : ty) : Prop := no_obj t = true \/ guniv.

Variable Q : ty -> pyval -> Prop.
Hypothesis Q_none : Q TNone PNone.
Hypothesis Q_bool : forall b, Q TBool (PBool b).
Hypothesis Q_int : forall z, Q TInt (PInt z).
Hypothesis Q_float : forall f, Q TFloat (PFloat f).
Hypothesis Q_str : forall s, Q TStr (PStr s).
Hypothesis Q_coll : forall k t ds, k = KList \/ k = KVarTuple -> Forall (Q t) ds -> Q (TColl k t) (PList ds).
Hypothesis Q_tuple : forall ts ds, Forall2 Q ts ds -> Q (TTuple ts) (PList ds).
Hypothesis Q_map : forall vt (ds : list (string * pyval)), Forall (fun kd => Q vt (snd kd)) ds -> Q (TMap TStr vt) (PDict ds).
Hypothesis Q_lit : forall vs d p, prim_of d = Some p -> existsb (prim_eqb p) vs = true -> rt_ty u (TLit vs) = true -> Q (TLit vs) d.
Hypothesis Q_enum : forall e d p, prim_of d = Some p -> existsb (prim_eqb p) (get_enum u e) = true -> Q (TEnum e) d.
Hypothesis Q_union : forall ts t d, In t ts -> Q t d -> Q (TUnion ts) d.
(* objects: a subset of the properties, each key once, the required ones present *)
Hypothesis Q_obj : forall c (ds : list (string * pyval)),
  gcls (get_cls u c) ->
  sd [] (map fst ds) = true ->
  (forall k d, In (k, d) ds -> exists e, In e (elems_of (get_cls u c)) /\ k = elem_alias o e /\ Q (elem_ty e) d) ->
  (forall e, In e (elems_of (get_cls u c)) -> elem_required o (get_cls u c) e = true -> dict_has (elem_alias o e) ds = true) ->
  Q (TObj c) (PDict ds).

Notation iq := (ImageInv.iq u o Q).

(* the loop over the elements: omitted ones leave the result alone, the others append their key *)
Definition skipped_method (sm : smeth_def) : bool :=
  ((sm_undefined sm && is_vundef (sm_result sm)) || (so_excl_none o && ty_has_none (sm_ty sm) && is_vnone (sm_result sm)))%bool.

Lemma elems_iq m cd c fs0 : forall es acc,
  Forall (fun e => match e with
                   | EField fd => exists xv, dict_get (fd_name fd) fs0 = Some xv /\
                                             (omitted o cd (VObj c fs0) fd (Some xv) = false -> iq m (fd_ty fd) xv)
                   | EMethod sm => skipped_method sm = false -> iq m (sm_ty sm) (sm_result sm)
                   end) es ->
  sd (map fst acc) (map (elem_alias o) es) = true ->
  exists ys ds,
    img_fields o (img m) cd false (VObj c fs0) es (map lift acc) = inl (map lift (acc ++ ys))
    /\ unembed_items (map lift ys) = Some ds
    /\ map fst ds = map fst ys
    /\ sd (map fst acc) (map fst ys) = true
    /\ (forall k d, In (k, d) ds -> exists e, In e es /\ k = elem_alias o e /\ Q (elem_ty e) d).
Proof.
  induction es as [|e r IH]; intros acc HF Hsd.
  - exists [], []. cbn. rewrite app_nil_r. repeat split; try reflexivity. intros k d [].
  - inversion HF as [|? ? He Hr]; subst. cbn [map sd] in Hsd. apply andb_true_iff in Hsd. destruct Hsd as [Hk Hrest].
    apply negb_true_iff in Hk.
    assert (Hskip : exists ys ds,
               img_fields o (img m) cd false (VObj c fs0) r (map lift acc) = inl (map lift (acc ++ ys))
               /\ unembed_items (map lift ys) = Some ds /\ map fst ds = map fst ys /\ sd (map fst acc) (map fst ys) = true
               /\ (forall k d, In (k, d) ds -> exists e', In e' (e :: r) /\ k = elem_alias o e' /\ Q (elem_ty e') d)).
    { destruct (IH acc Hr (sd_weaken _ _ _ Hrest)) as [ys [ds [H1 [H2 [H3 [H4 H5]]]]]]. exists ys, ds. repeat split; auto.
      intros k d Hin. destruct (H5 k d Hin) as [e' [He' Hq]]. exists e'. split; [now right|exact Hq]. }
    assert (Hemit : forall j d, unembed j = Some d -> Q (elem_ty e) d ->
               exists ys ds,
                 img_fields o (img m) cd false (VObj c fs0) r (result_set (map lift acc) (elem_alias o e) j) = inl (map lift (acc ++ ys))
                 /\ unembed_items (map lift ys) = Some ds /\ map fst ds = map fst ys /\ sd (map fst acc) (map fst ys) = true
                 /\ (forall k d, In (k, d) ds -> exists e', In e' (e :: r) /\ k = elem_alias o e' /\ Q (elem_ty e') d)).
    { intros j d Hu Hq. unfold result_set. rewrite (dict_set_fresh acc (elem_alias o e) j Hk).
      destruct (IH (acc ++ [(elem_alias o e, j)])%list Hr) as [ys [ds [H1 [H2 [H3 [H4 H5]]]]]].
      { rewrite map_app. exact Hrest. }
      exists ((elem_alias o e, j) :: ys), ((elem_alias o e, d) :: ds). rewrite <- app_assoc in H1. repeat split.
      - exact H1.
      - cbn [map unembed_items]. change (lift (elem_alias o e, j)) with (VStr (elem_alias o e), j). cbv iota beta.
        rewrite Hu, H2. reflexivity.
      - cbn [map fst]. now rewrite H3.
      - cbn [map fst sd]. rewrite Hk. cbn [negb andb]. rewrite map_app in H4. exact H4.
      - intros k d0 [[= <- <-]|Hin]; [exists e; split; [now left|split; [reflexivity|exact Hq]]|].
        destruct (H5 k d0 Hin) as [e' [He' Hq']]. exists e'. split; [now right|exact Hq']. }
    destruct e as [fd|sm]; cbn [img_fields andb negb].
    + destruct He as [xv [Hget Hiq]]. cbn [getattr]. rewrite Hget. cbv iota beta.
      destruct (omitted o cd (VObj c fs0) fd (Some xv)) eqn:Eo; [exact Hskip|].
      destruct (Hiq eq_refl) as [j [d [Hi [Hu Hq]]]]. rewrite Hi. exact (Hemit j d Hu Hq).
    + fold (skipped_method sm). destruct (skipped_method sm) eqn:Es; [exact Hskip|].
      destruct (He eq_refl) as [j [d [Hi [Hu Hq]]]]. rewrite Hi. exact (Hemit j d Hu Hq).
Qed.

Lemma invg_step n :
  (forall n', n = S n' -> forall t v, rt_ty u t = true -> ctxg t -> ht n' t v = true -> canonical u v = true -> iq (S n') t v) ->
  forall t v, rt_ty u t = true -> ctxg t -> ht n t v = true -> canonical u v = true -> iq (S n) t v.
Proof.
  intros IHn. induction t using ty_ind'; intros v Hrt Hctx Hht Hcan; try discriminate.
  - rewrite ht_prim in Hht by exact I. destruct v; try discriminate. exists VNone, PNone. repeat split; auto.
  - rewrite ht_prim in Hht by exact I. destruct v; try discriminate. exists (VBool b), (PBool b). repeat split; auto.
  - rewrite ht_prim in Hht by exact I. destruct v; try discriminate. exists (VInt z), (PInt z). repeat split; auto.
  - rewrite ht_prim in Hht by exact I. destruct v; try discriminate. exists (VFloat f), (PFloat f). repeat split; auto.
  - rewrite ht_prim in Hht by exact I. destruct v; try discriminate. exists (VStr s), (PStr s). repeat split; auto.
  - (* collections *)
    rewrite ht_TColl in Hht.
    assert (Hl : exists l, (v = VList l /\ k = KList \/ v = VTuple l /\ k = KVarTuple) /\ forallb (ht n t) l = true).
    { destruct k; try discriminate; destruct v; try discriminate; eexists; split; try exact Hht; auto. }
    destruct Hl as [l [Hv Hall]].
    assert (Ht : rt_ty u t = true) by (destruct k; try discriminate; exact Hrt).
    assert (Hc : ctxg t) by (destruct Hctx as [Hc|Hc]; [left; exact Hc|right; exact Hc]).
    assert (Hcl : forallb (canonical u) l = true) by (destruct Hv as [[-> _]|[-> _]]; exact Hcan).
    assert (HF : Forall (iq (S n) t) l).
    { apply Forall_forall. intros x Hx. rewrite forallb_forall in Hall, Hcl. apply IHt; auto. }
    destruct (all_iq u o Q (S n) t l HF) as [ys [ds [Hys [Hds HQ]]]].
    exists (VList ys), (PList ds). rewrite image_TColl, unembed_VList, Hds.
    assert (Hk : k = KList \/ k = KVarTuple) by (destruct Hv as [[_ ->]|[_ ->]]; auto).
    destruct Hv as [[-> ->]|[-> ->]]; cbn [iter_values]; rewrite Hys; repeat split; try reflexivity; apply Q_coll; auto.
  - (* fixed tuples *)
    rewrite ht_TTuple in Hht. destruct v; try discriminate. cbn [rt_ty] in Hrt.
    assert (HF : Forall (fun t => forall v, ht n t v = true -> canonical u v = true -> iq (S n) t v) ts).
    { rewrite Forall_forall in *. intros t Hin v' Hv' Hc'. rewrite forallb_forall in Hrt. apply H; auto.
      destruct Hctx as [Hc|Hc]; [left|right; exact Hc]. cbn [no_obj] in Hc. rewrite forallb_forall in Hc. auto. }
    assert (HG : Forall (fun x => canonical u x = true) l) by (apply Forall_forall; apply forallb_forall; exact Hcan).
    destruct (zip_iq u o Q (ht n) (fun x => canonical u x = true) (S n) ts l [] HF Hht HG) as [ys [ds [Hz [Hds HQ]]]].
    exists (VList ys), (PList ds). rewrite image_TTuple, unembed_VList, Hz, Hds. repeat split; try reflexivity. apply Q_tuple. exact HQ.
  - (* string-keyed mappings *)
    cbn [rt_ty] in Hrt. destruct t1; try discriminate. rewrite ht_TMap in Hht. destruct v; try discriminate.
    apply andb_true_iff in Hht. destruct Hht as [Hall Hd]. destruct (keys_are_str u n t2 l Hall) as [skvs [-> HFt]].
    assert (Hc2 : ctxg t2).
    { destruct Hctx as [Hc|Hc]; [left|right; exact Hc]. cbn [no_obj] in Hc. apply andb_true_iff in Hc. tauto. }
    assert (HF : Forall (fun kv => iq (S n) t2 (snd kv)) skvs).
    { apply canonical_dict in Hcan. rewrite Forall_forall in *. intros kv Hin. apply IHt2; auto.
      apply (Hcan (lift kv)). apply in_map. exact Hin. }
    change (@nil value) with (map VStr []) in Hd. rewrite keys_distinct_lift in Hd.
    destruct (map_iq u o Q (S n) t2 skvs [] Hd HF) as [ys [ds [Hm [Hun HQ]]]].
    exists (VDict (map lift ys)), (PDict ds). rewrite image_TMap. change (@nil (value * value)) with (map lift []).
    rewrite Hm, unembed_VDict, Hun. repeat split; try reflexivity. apply Q_map. exact HQ.
  - (* literals *)
    pose proof Hrt as Hrt0. cbn [rt_ty] in Hrt. rewrite ht_TLit in Hht. unfold iq. rewrite (image_TLit_prims u o (S n) vs v Hrt).
    destruct v; try discriminate.
    + exists VNone, PNone. repeat split; try reflexivity. eapply Q_lit; [reflexivity|exact Hht|exact Hrt0].
    + exists (VBool b), (PBool b). repeat split; try reflexivity. eapply Q_lit; [reflexivity|exact Hht|exact Hrt0].
    + exists (VInt z), (PInt z). repeat split; try reflexivity. eapply Q_lit; [reflexivity|exact Hht|exact Hrt0].
    + exists (VStr s), (PStr s). repeat split; try reflexivity. eapply Q_lit; [reflexivity|exact Hht|exact Hrt0].
  - (* enums *)
    rewrite ht_TEnum in Hht. destruct v; try discriminate. apply andb_true_iff in Hht. destruct Hht as [He Hp].
    apply Nat.eqb_eq in He. subst eid. unfold iq. rewrite image_TEnum.
    destruct p as [|b|z|s].
    + exists VNone, PNone. repeat split; try reflexivity. eapply Q_enum; [reflexivity|exact Hp].
    + exists (VBool b), (PBool b). repeat split; try reflexivity. eapply Q_enum; [reflexivity|exact Hp].
    + exists (VInt z), (PInt z). repeat split; try reflexivity. eapply Q_enum; [reflexivity|exact Hp].
    + exists (VStr s), (PStr s). repeat split; try reflexivity. eapply Q_enum; [reflexivity|exact Hp].
  - (* unions *)
    cbn [rt_ty] in Hrt. apply andb_true_iff in Hrt. destruct Hrt as [Hrt Hpw]. rewrite ht_TUnion in Hht.
    assert (HF : Forall (fun t => forall v, ht n t v = true -> canonical u v = true -> iq (S n) t v) ts).
    { rewrite Forall_forall in *. intros t Hin v' Hv' Hc'. rewrite forallb_forall in Hrt. apply H; auto.
      destruct Hctx as [Hc|Hc]; [left|right; exact Hc]. cbn [no_obj] in Hc. rewrite forallb_forall in Hc. auto. }
    destruct ts as [|t1 [|t2 tr]].
    + discriminate.
    + inversion HF as [|? ? Hhead _]; subst.
      destruct (Hhead v Hht Hcan) as [j [d [Hi [Hu Hq]]]]. exists j, d. rewrite image_TUnion.
      repeat split; auto. apply (Q_union [t1] t1 d); [left; reflexivity|exact Hq].
    + apply andb_true_iff in Hht. destruct Hht as [Hec Hht].
      destruct (union_iq u o Q n n (fun x => canonical u x = true) v _ HF Hcan Hec Hht) as [j [d [t' [Hi [Hu [Hin Hq]]]]]].
      exists j, d. rewrite image_TUnion.
      assert (Hnone : existsb (fun t' => match expected_class u t' with None => true | Some _ => false end) (t1 :: t2 :: tr) = false).
      { destruct (existsb _ (t1 :: t2 :: tr)) eqn:E; [|reflexivity]. apply existsb_exists in E. destruct E as [t0 [Hin0 E0]].
        rewrite forallb_forall in Hec. specialize (Hec t0 Hin0). destruct (expected_class u t0); discriminate. }
      rewrite Hnone. repeat split; auto. apply (Q_union _ t' d Hin Hq).
  - (* classes *)
    destruct Hctx as [Hc|Hg]; [discriminate|].
    destruct n as [|n']; [rewrite ht_TObj_O in Hht; discriminate|].
    specialize (IHn n' eq_refl). rewrite ht_TObj_S in Hht. cbv zeta in Hht.
    pose proof (Hg c) as Hgc. destruct Hgc as [Htd [Hfs [[es Hes] [Hal [Hnames [Hftys [Hmeths _]]]]]]].
    set (cd := get_cls u c) in *.
    assert (Hel : elems_of cd = es) by (unfold elems_of; rewrite Hes; reflexivity).
    assert (Hv : exists fs, v = VObj c fs /\ forallb (ht_field (ht n') fs) (cd_fields cd) = true).
    { unfold is_typed_dict in Htd. destruct (cd_kind cd); try discriminate; destruct v; try discriminate;
        apply andb_true_iff in Hht; destruct Hht as [Hht _]; apply andb_true_iff in Hht; destruct Hht as [He Hf];
        apply Nat.eqb_eq in He; subst; eexists; split; eauto. }
    destruct Hv as [fs [-> Hfields]].
    destruct (canonical_obj u c fs Hcan) as [Hfst Hcanf]. fold cd in Hfst.
    assert (Hsdfs : sd [] (map fst fs) = true) by (rewrite Hfst; exact Hnames).
    pose proof (dict_get_distinct fs [] Hsdfs) as Hgets.
    (* every element is either omitted or yields a datum satisfying Q *)
    assert (HF : Forall (fun e => match e with
                   | EField fd => exists xv, dict_get (fd_name fd) fs = Some xv /\
                                             (omitted o cd (VObj c fs) fd (Some xv) = false -> iq (S n') (fd_ty fd) xv)
                   | EMethod sm => skipped_method sm = false -> iq (S n') (sm_ty sm) (sm_result sm)
                   end) es).
    { apply Forall_forall. intros e Hin. pose proof (ordered_elems_sub cd es e Hes Hin) as Hsub. apply in_app_or in Hsub.
      destruct e as [fd|sm].
      - assert (Hfd : In fd (cd_fields cd)).
        { destruct Hsub as [Hs|Hs]; apply in_map_iff in Hs; destruct Hs as [x [Hx Hxin]]; [injection Hx as ->; exact Hxin|discriminate]. }
        rewrite forallb_forall in Hfields, Hftys. pose proof (Hfields fd Hfd) as Hhf. pose proof (Hftys fd Hfd) as Hft.
        apply andb_true_iff in Hft. destruct Hft as [Hrt' _].
        unfold ht_field in Hhf. destruct (dict_get (fd_name fd) fs) as [xv|] eqn:Eg; [|discriminate].
        exists xv. split; [reflexivity|]. intros Hom.
        assert (Hxc : canonical u xv = true).
        { clear - Eg Hcanf. induction fs as [|[k x] rr IHf]; [discriminate|]. cbn [dict_get] in Eg. inversion Hcanf; subst.
          destruct (String.eqb (fd_name fd) k); [injection Eg as <-; assumption|now apply IHf]. }
        assert (Hty : ht n' (fd_ty fd) xv = true).
        { unfold omitted in Hom. destruct xv; try exact Hhf.
          - (* None *) destruct (fs_none_undef (fd_ser fd)) eqn:En; [|exact Hhf]. exfalso.
            cbn [is_vnone is_vundef andb orb] in Hom. rewrite !orb_true_r in Hom. cbn [andb orb] in Hom.
            repeat rewrite orb_true_r in Hom. discriminate.
          - (* Undefined *) exfalso. cbn [is_vundef is_vnone andb orb] in Hom. rewrite Hhf in Hom. cbn [orb andb] in Hom.
            repeat rewrite orb_true_r in Hom. discriminate. }
        apply IHn; auto. right. exact Hg.
      - assert (Hsm : In sm (cd_methods cd)).
        { destruct Hsub as [Hs|Hs]; apply in_map_iff in Hs; destruct Hs as [x [Hx Hxin]]; [discriminate|injection Hx as ->; exact Hxin]. }
        rewrite forallb_forall in Hmeths. pose proof (Hmeths sm Hsm) as Hp. unfold prim_method in Hp. intros _.
        destruct (sm_ty sm) eqn:Et; try discriminate; destruct (sm_result sm) eqn:Er; try discriminate; unfold ImageInv.iq.
        + exists VNone, PNone. rewrite (image_prim u o (S n') TNone VNone I). repeat split; auto.
        + exists (VBool b), (PBool b). rewrite (image_prim u o (S n') TBool (VBool b) I). repeat split; auto.
        + exists (VInt z), (PInt z). rewrite (image_prim u o (S n') TInt (VInt z) I). repeat split; auto.
        + exists (VFloat f), (PFloat f). rewrite (image_prim u o (S n') TFloat (VFloat f) I). repeat split; auto.
        + exists (VStr s), (PStr s). rewrite (image_prim u o (S n') TStr (VStr s) I). repeat split; auto. }
    destruct (elems_iq (S n') cd c fs es [] HF) as [ys [ds [Hm [Hun [Hfsts [Hsdy Hall]]]]]]; [rewrite <- Hel; exact Hal|].
    cbn [app map] in Hm.
    exists (VDict (map lift ys)), (PDict ds).
    rewrite image_TObj_S. cbv zeta. fold cd. rewrite Hes, Htd.
    rewrite Hm. cbn [andb app]. rewrite unembed_VDict, Hun. cbn [option_map].
    repeat split; try reflexivity. apply Q_obj.
    + exact (Hg c).
    + rewrite Hfsts. exact Hsdy.
    + fold cd. rewrite Hel. exact Hall.
    + fold cd. rewrite Hel. intros e Hin Hreq.
      assert (Hun0 : (so_excl_unset o && cd_fields_set cd)%bool = false) by (rewrite Hfs; apply andb_false_r).
      destruct (img_fields_keys o (img (S n')) cd (VObj c fs) es [] (map lift ys) Hun0) as [_ [K2 _]].
      * intros fd xv Hfin _ Hget ->. pose proof (ordered_elems_sub cd es _ Hes Hfin) as Hsub. apply in_app_or in Hsub.
        assert (Hfd : In fd (cd_fields cd)).
        { destruct Hsub as [Hs|Hs]; apply in_map_iff in Hs; destruct Hs as [x [Hx Hxin]]; [injection Hx as ->; exact Hxin|discriminate]. }
        rewrite forallb_forall in Hfields. pose proof (Hfields fd Hfd) as Hhf. unfold ht_field in Hhf. cbn [getattr] in Hget.
        rewrite Hget in Hhf. exact Hhf.
      * rewrite Htd. exact Hm.
      * rewrite <- (has_key_unembed _ (map lift ys) ds Hun). now apply K2.
Qed.

Theorem image_invariant_gen : forall n t v,
  rt_ty u t = true -> ctxg t -> ht n t v = true -> canonical u v = true -> iq (S n) t v.
Proof.
  induction n as [|n IH]; apply invg_step.
  - intros n' E. discriminate.
  - intros n' E. injection E as <-. exact IH.
Qed.
End InvG.
