(* C06 for flat classes: a dataclass / NamedTuple / TypedDict whose fields have object-free types.  The schema built for the
   class (inline, not referenced) accepts a datum exactly when the specification of deserialization accepts it. *)
From Coq Require Import List String ZArith Bool Arith Lia.
From AV Require Import Core.Json Core.Errors Core.Text Small.Ordering Deser.Model Deser.Spec Deser.Unfold Deser.Loops
  Core.Util Schema.Json Schema.Unfold Schema.Build Schema.Proofs Schema.ConProofs Schema.ShapeProofs Schema.AgreeProofs Schema.DepReqAgree.
Import ListNotations.
Open Scope string_scope.

Section Obj.
  Variable u : univ.
  Variable o : dopts.
  Variable refs : string -> bool.
  Variable ds : defs.
  Hypothesis Henum : forall e, refs (ename_ e) = true -> def_lookup (ename_ e) ds = Some (literal_schema (get_enum u e)).
  Variable jf : nat.
  Notation sp := (spec u o).
  Notation B := (build u o refs).

  (* the type a field is deserialized as: its annotation under the field-level schema(...) *)
  Definition field_ty (fd : fdef) : ty := match fd_con fd with Some k => TCon k (fd_ty fd) | None => fd_ty fd end.

  Lemma field_schema bf fd : apply_con (fd_con fd) (B bf false (fd_ty fd)) = B bf false (field_ty fd).
  Proof. unfold field_ty. destruct (fd_con fd); [rewrite build_TCon|]; reflexivity. Qed.

  Lemma field_spec f fd x : sp f (fd_con fd) (fd_ty fd) x = sp f None (field_ty fd) x.
  Proof. unfold field_ty. destruct (fd_con fd); [rewrite spec_TCon|]; reflexivity. Qed.

  (* conditions on the class *)
  Definition flat_field (bf : nat) (fd : fdef) : bool :=
    let t := field_ty fd in
    obj_free t && wf_con t && con_mergeable u o refs bf false t && keys_ok u t
    && negb (fd_fallback fd && negb (fd_required fd)).

  Definition flat_cls (bf : nat) (cd : cdef) : Prop :=
    elems_sorted cd = cd_fields cd /\ wf_depreq cd = true /\ forallb (flat_field bf) (cd_fields cd) = true
    /\ nodup_strs (map (fun fd => o_aliaser o (fd_alias fd)) (cd_fields cd)) = true.

  (* ---- the object keywords, evaluated *)
  Definition field_valid (V : js -> pyval -> bool) (bf : nat) (kvs : list (string * pyval)) (fd : fdef) : bool :=
    match dict_get (o_aliaser o (fd_alias fd)) kvs with
    | Some x => V (B bf false (field_ty fd)) x
    | None => negb (fd_required fd)
    end.

  Lemma props_valid_fields (V : js -> pyval -> bool) bf kvs fields :
    props_valid V (map (fun fd => (o_aliaser o (fd_alias fd), apply_con (fd_con fd) (B bf false (fd_ty fd)))) fields) kvs
    && forallb (fun r => dict_has r kvs) (map (fun fd => o_aliaser o (fd_alias fd)) (filter fd_required fields))
    = forallb (field_valid V bf kvs) fields.
  Proof.
    induction fields as [|fd fields IH]; [reflexivity|]. cbn [map props_valid filter forallb]. rewrite field_schema.
    unfold field_valid at 1. unfold dict_has in *.
    destruct (fd_required fd) eqn:Er; cbn [map forallb negb].
    - rewrite <- IH. destruct (dict_get (o_aliaser o (fd_alias fd)) kvs); cbn [andb].
      + destruct (V _ p); cbn [andb]; [|reflexivity]. reflexivity.
      + rewrite andb_false_r. reflexivity.
    - rewrite <- IH. destruct (dict_get (o_aliaser o (fd_alias fd)) kvs); cbn [andb]; [|reflexivity].
      destruct (V _ p); reflexivity.
  Qed.

  Lemma no_additional (aliases : list string) (kvs : list (string * pyval)) :
    forallb (fun kv => existsb (String.eqb (fst kv)) aliases) kvs
    = match filter (fun kv => negb (existsb (String.eqb (fst kv)) aliases)) kvs with [] => true | _ => false end.
  Proof.
    induction kvs as [|kv kvs IH]; [reflexivity|]. cbn [forallb filter].
    destruct (existsb (String.eqb (fst kv)) aliases); cbn [negb andb]; [exact IH|reflexivity].
  Qed.

  Lemma dict_get_in {A} k (l : list (string * A)) x : dict_get k l = Some x -> In (k, x) l.
  Proof.
    induction l as [|[k' x'] l IH]; [discriminate|]. cbn [dict_get]. destruct (String.eqb k k') eqn:E.
    - intros H. injection H as <-. apply String.eqb_eq in E. subst. left. reflexivity.
    - intros H. right. apply IH. exact H.
  Qed.

  Lemma in_domain_get kvs k x : in_domain (PDict kvs) = true -> dict_get k kvs = Some x -> in_domain x = true.
  Proof. intros Hd Hg. apply (in_domain_dict kvs Hd (k, x)). apply dict_get_in. exact Hg. Qed.

  (* the values an object datum holds *)
  Definition sub_value (d x : pyval) : Prop := match d with PDict kvs => In x (map snd kvs) | _ => False end.

  (* ---- the specification side *)
  Definition field_accepts (f : nat) (kvs : list (string * pyval)) (fd : fdef) : bool :=
    match dict_get (o_aliaser o (fd_alias fd)) kvs with
    | Some x => accepts (sp f None (field_ty fd) x)
    | None => negb (fd_required fd)
    end.

  Definition no_fb (fd : fdef) : bool := negb (fd_fallback fd && negb (fd_required fd)).

  (* a field absent from the datum must be optional and not required by a present one *)
  Definition field_accepts_dr (f : nat) (cd : cdef) (kvs : list (string * pyval)) (fd : fdef) : bool :=
    field_accepts f kvs fd
    && (dict_has (o_aliaser o (fd_alias fd)) kvs || negb (existsb (fun r => dict_has r kvs) (requiring o cd (fd_name fd)))).

  Lemma spec_field_dr f cd kvs fd :
    o_fallback o = false -> no_fb fd = true ->
    (forall x, dict_get (o_aliaser o (fd_alias fd)) kvs = Some x -> sp f None (field_ty fd) x <> SFuel) ->
    (match spec_field u o f cd kvs fd with None => true | _ => false end) = false
    /\ (match spec_field u o f cd kvs fd with Some None => true | _ => false end) = negb (field_accepts_dr f cd kvs fd).
  Proof.
    intros Hfb Hfd Hnf. unfold spec_field, field_accepts_dr, field_accepts, dict_has.
    rewrite Hfb, orb_false_r. unfold no_fb in Hfd. apply negb_true_iff in Hfd. rewrite Hfd. cbn [negb]. rewrite orb_true_r.
    destruct (dict_get (o_aliaser o (fd_alias fd)) kvs) as [x|] eqn:Egx.
    - rewrite field_spec. pose proof (Hnf x eq_refl) as Hx.
      destruct (sp f None (field_ty fd) x); cbn [accepts negb andb orb]; try contradiction; split; reflexivity.
    - destruct (fd_required fd); cbn [negb andb orb]; [split; reflexivity|].
      destruct (existsb _ (requiring o cd (fd_name fd))); cbn [negb andb orb]; split; reflexivity.
  Qed.

  Lemma spec_fields_gen f cd kvs fields :
    o_fallback o = false ->
    forallb no_fb fields = true ->
    (forall fd, In fd fields -> forall x, dict_get (o_aliaser o (fd_alias fd)) kvs = Some x -> sp f None (field_ty fd) x <> SFuel) ->
    existsb (fun r : option (option (option (string * value))) => match r with None => true | _ => false end)
            (map (spec_field u o f cd kvs) fields) = false
    /\ existsb (fun r : option (option (option (string * value))) => match r with Some None => true | _ => false end)
               (map (spec_field u o f cd kvs) fields) = negb (forallb (field_accepts_dr f cd kvs) fields).
  Proof.
    intros Hfb. induction fields as [|fd fields IH]; intros Hflat Hnf; [split; reflexivity|].
    cbn [forallb] in Hflat. apply andb_true_iff in Hflat. destruct Hflat as [Hfd Hrest].
    destruct (IH Hrest (fun fd' Hin => Hnf fd' (or_intror Hin))) as [IH1 IH2].
    destruct (spec_field_dr f cd kvs fd Hfb Hfd (Hnf fd (or_introl eq_refl))) as [H1 H2].
    cbn [map existsb forallb]. rewrite IH1, IH2, H1, H2. split; [reflexivity|].
    destruct (field_accepts_dr f cd kvs fd), (forallb (field_accepts_dr f cd kvs) fields); reflexivity.
  Qed.

  Lemma accepts_dr_split f cd kvs fields :
    forallb (field_accepts_dr f cd kvs) fields
    = forallb (field_accepts f kvs) fields
      && forallb (fun fd => dict_has (o_aliaser o (fd_alias fd)) kvs
                            || negb (existsb (fun r => dict_has r kvs) (requiring o cd (fd_name fd)))) fields.
  Proof.
    induction fields as [|fd r IH]; [reflexivity|]. cbn [forallb]. rewrite IH. unfold field_accepts_dr.
    set (a := field_accepts f kvs fd). set (b := forallb (field_accepts f kvs) r).
    set (c0 := (dict_has (o_aliaser o (fd_alias fd)) kvs || negb (existsb (fun r0 => dict_has r0 kvs) (requiring o cd (fd_name fd))))%bool).
    set (d0 := forallb _ r). destruct a, b, c0, d0; reflexivity.
  Qed.

  (* ---- THE STATEMENT for a class given inline, whatever makes its fields agree *)
  Theorem class_agree_gen c bf f ign d :
    (refs (cname c) && negb ign)%bool = false ->
    elems_sorted (get_cls u c) = cd_fields (get_cls u c) -> wf_depreq (get_cls u c) = true ->
    forallb no_fb (cd_fields (get_cls u c)) = true -> o_fallback o = false ->
    (forall fd, In fd (cd_fields (get_cls u c)) -> forall x, sub_value d x -> sp f None (field_ty fd) x <> SFuel) ->
    (forall fd, In fd (cd_fields (get_cls u c)) -> forall x, sub_value d x -> in_domain x = true ->
       jvalid false ds jf (B bf false (field_ty fd)) x = accepts (sp f None (field_ty fd) x)) ->
    in_domain d = true ->
    jvalid false ds jf (B (S bf) ign (TObj c)) d = accepts (sp (S f) None (TObj c) d).
  Proof.
    intros Href Hsorted Hdep Hflat Hfb Hnofuel Hagree Hd.
    rewrite build_TObj, Href. unfold object_schema. cbv zeta. rewrite Hsorted.
    set (cd := get_cls u c) in *. set (dr := depreq_schema o cd).
    set (props := map (fun fd => (o_aliaser o (fd_alias fd), apply_con (fd_con fd) (B bf false (fd_ty fd)))) (cd_fields cd)).
    set (required := map (fun fd => o_aliaser o (fd_alias fd)) (filter fd_required (cd_fields cd))).
    set (kws := ([KwType [JObject]] ++ match props with [] => [] | _ :: _ => [KwProperties props] end
                 ++ match required with [] => [] | _ :: _ => [KwRequired required] end
                 ++ (if o_addprops o then [] else [KwAddProps (JBoolS false)])
                 ++ match dr with [] => [] | _ :: _ => [KwDepReq dr] end)%list).
    rewrite spec_TObj_S. cbv zeta. fold cd.
    assert (Hnull : nullable kws = false).
    { unfold kws, nullable. rewrite !existsb_app. destruct props, required, (o_addprops o), dr; reflexivity. }
    assert (Hnames : prop_names kws = map fst props).
    { unfold kws, prop_names. rewrite !flat_map_app. destruct props as [|p0 pr] eqn:Ep, required, (o_addprops o), dr; cbn; rewrite ?app_nil_r; reflexivity. }
    assert (Hpats : prop_patterns kws = []).
    { unfold kws, prop_patterns. rewrite !flat_map_app. destruct props, required, (o_addprops o), dr; reflexivity. }
    rewrite jvalid_JS, Hnull. cbn [andb orb].
    destruct d as [|x|z|fl|s|l|kvs|tg];
      try (unfold kws; cbn [app forallb kw_valid flat_kw type_ok memt existsb jtype_eqb]; rewrite ?forallb_app; cbn [forallb kw_valid flat_kw type_ok memt existsb jtype_eqb andb]; try destruct fl; reflexivity).
    (* an object *)
    assert (Hnofuel' : forall fd, In fd (cd_fields cd) -> forall x, dict_get (o_aliaser o (fd_alias fd)) kvs = Some x ->
                                  sp f None (field_ty fd) x <> SFuel).
    { intros fd Hin x Hg. apply Hnofuel; [exact Hin|]. cbn [sub_value]. apply in_map_iff.
      exists (o_aliaser o (fd_alias fd), x). split; [reflexivity|apply dict_get_in; exact Hg]. }
    destruct (spec_fields_gen f cd kvs (cd_fields cd) Hfb Hflat Hnofuel') as [Hnone Hrej]. rewrite Hnone, Hrej.
    rewrite accepts_dr_split. change (forallb _ (cd_fields cd)) with (no_missing_dependency o cd kvs) at 2.
    rewrite <- (depreq_keyword_is_the_spec_rule o cd kvs Hdep). fold dr.
    assert (HV : forallb (field_valid (jvalid false ds jf) bf kvs) (cd_fields cd) = forallb (field_accepts f kvs) (cd_fields cd)).
    { apply forallb_in_ext. intros fd Hin. unfold field_valid, field_accepts.
      destruct (dict_get (o_aliaser o (fd_alias fd)) kvs) as [x|] eqn:Eg; [|reflexivity].
      apply Hagree; [exact Hin| |eapply in_domain_get; eassumption].
      cbn [sub_value]. apply in_map_iff. exists (o_aliaser o (fd_alias fd), x). split; [reflexivity|apply dict_get_in; exact Eg]. }
    assert (Hkw : forallb (fun k => kw_valid false ds jf kws k (PDict kvs)) kws
                  = forallb (field_valid (jvalid false ds jf) bf kvs) (cd_fields cd)
                    && (o_addprops o || forallb (fun kv : string * pyval => existsb (String.eqb (fst kv)) (map (fun fd => o_aliaser o (fd_alias fd)) (cd_fields cd))) kvs)
                    && depreq_ok dr (PDict kvs)).
    { rewrite <- props_valid_fields. fold props. fold required.
      assert (Hadd : forall kv : string * pyval, negb (additional kws (fst kv)) = existsb (String.eqb (fst kv)) (map (fun fd => o_aliaser o (fd_alias fd)) (cd_fields cd))).
      { intros kv. unfold additional. rewrite Hnames, Hpats. cbn [existsb negb]. rewrite andb_true_r, negb_involutive.
        unfold props. rewrite map_map. reflexivity. }
      unfold kws at 2. rewrite !forallb_app. cbn [forallb kw_valid flat_kw type_ok memt existsb jtype_eqb orb andb].
      assert (HP : forallb (fun k => kw_valid false ds jf kws k (PDict kvs)) match props with [] => [] | _ :: _ => [KwProperties props] end
                   = props_valid (jvalid false ds jf) props kvs).
      { destruct props; [reflexivity|]. cbn [forallb kw_valid]. rewrite andb_true_r. reflexivity. }
      assert (HR : forallb (fun k => kw_valid false ds jf kws k (PDict kvs)) match required with [] => [] | _ :: _ => [KwRequired required] end
                   = forallb (fun r => dict_has r kvs) required).
      { destruct required; [reflexivity|]. cbn [forallb kw_valid flat_kw required_ok]. rewrite andb_true_r. reflexivity. }
      assert (HD : forallb (fun k => kw_valid false ds jf kws k (PDict kvs)) match dr with [] => [] | _ :: _ => [KwDepReq dr] end
                   = depreq_ok dr (PDict kvs)).
      { destruct dr; [reflexivity|]. cbn [forallb kw_valid flat_kw]. rewrite andb_true_r. reflexivity. }
      rewrite HP, HR, HD. destruct (o_addprops o); cbn [forallb orb app].
      - set (a := props_valid _ _ _). set (b := forallb _ required). set (c0 := depreq_ok _ _). destruct a, b, c0; reflexivity.
      - cbn [kw_valid]. rewrite andb_true_r.
        assert (HA : forallb (fun kv : string * pyval => negb (additional kws (fst kv)) || jvalid false ds jf (JBoolS false) (snd kv)) kvs
                     = forallb (fun kv : string * pyval => existsb (String.eqb (fst kv)) (map (fun fd => o_aliaser o (fd_alias fd)) (cd_fields cd))) kvs).
        { apply forallb_in_ext. intros kv _. rewrite jvalid_bool, orb_false_r. apply Hadd. }
        rewrite HA. set (a := props_valid _ _ _). set (b := forallb _ required). set (c0 := depreq_ok _ _). set (e0 := forallb _ kvs).
        destruct a, b, c0, e0; reflexivity. }
    rewrite Hkw, HV, no_additional. cbn [ocons all_valid forallb negb].
    destruct (forallb (field_accepts f kvs) (cd_fields cd)); cbn [negb andb]; [|reflexivity].
    destruct (depreq_ok dr (PDict kvs)); cbn [negb andb]; rewrite ?andb_false_r; [|reflexivity]. rewrite andb_true_r.
    destruct (o_addprops o); cbn [negb andb orb]; [reflexivity|].
    destruct (filter _ kvs); reflexivity.
  Qed.

  (* flat classes: the fields have object-free types *)
  Theorem flat_class_agree c bf f ign d :
    (refs (cname c) && negb ign)%bool = false ->
    flat_cls bf (get_cls u c) -> o_fallback o = false ->
    in_domain d = true ->
    jvalid false ds jf (B (S bf) ign (TObj c)) d = accepts (sp (S f) None (TObj c) d).
  Proof.
    intros Href [Hsorted [Hdep [Hflat Hnodup]]] Hfb Hd.
    assert (Hall : forall fd, In fd (cd_fields (get_cls u c)) -> flat_field bf fd = true) by (apply forallb_forall; exact Hflat).
    apply class_agree_gen; try assumption.
    - apply forallb_forall. intros fd Hin. specialize (Hall fd Hin). unfold flat_field in Hall.
      repeat (apply andb_true_iff in Hall; destruct Hall as [Hall ?]). assumption.
    - intros fd Hin x _. specialize (Hall fd Hin). unfold flat_field in Hall.
      repeat (apply andb_true_iff in Hall; destruct Hall as [Hall ?]). apply obj_free_no_fuel. exact Hall.
    - intros fd Hin x _ Hx. specialize (Hall fd Hin). unfold flat_field in Hall.
      repeat (apply andb_true_iff in Hall; destruct Hall as [Hall ?]).
      apply (frag_agree u o refs ds Henum jf f bf (field_ty fd) false x); assumption.
  Qed.

  (* ---- executable conditions *)
  Lemma strs_eqb_ok a : forall b, strs_eqb a b = true -> a = b.
  Proof.
    unfold strs_eqb. induction a as [|x a IH]; intros [|y b] H; try discriminate; [reflexivity|].
    cbn [list_eqb] in H. apply andb_true_iff in H. destruct H as [H1 H2]. apply String.eqb_eq in H1. subst.
    rewrite (IH b H2). reflexivity.
  Qed.

  Lemma nodup_strs_notin x l : nodup_strs (x :: l) = true -> ~ In x l /\ nodup_strs l = true.
  Proof.
    cbn [nodup_strs]. intros H. apply andb_true_iff in H. destruct H as [H1 H2]. split; [|exact H2].
    apply negb_true_iff in H1. intros Hin. assert (E : existsb (String.eqb x) l = true).
    { apply existsb_exists. exists x. split; [exact Hin|apply String.eqb_refl]. }
    congruence.
  Qed.

  Lemma same_name_same_field (fields : list fdef) a b :
    nodup_strs (map fd_name fields) = true -> In a fields -> In b fields -> fd_name a = fd_name b -> a = b.
  Proof.
    induction fields as [|f fields IH]; intros Hn Ha Hb E; [contradiction|].
    cbn [map] in Hn. destruct (nodup_strs_notin _ _ Hn) as [Hnot Hrest].
    destruct Ha as [->|Ha], Hb as [->|Hb]; try reflexivity.
    - exfalso. apply Hnot. rewrite E. apply in_map. exact Hb.
    - exfalso. apply Hnot. rewrite <- E. apply in_map. exact Ha.
    - apply IH; assumption.
  Qed.

  Definition sorted_kept (cd : cdef) : bool :=
    strs_eqb (map fd_name (elems_sorted cd)) (map fd_name (cd_fields cd)) && nodup_strs (map fd_name (cd_fields cd)).

  Lemma elems_sorted_in cd fd : In fd (elems_sorted cd) -> In fd (cd_fields cd).
  Proof.
    unfold elems_sorted. destruct (sort_by_order _ _) as [sorted|]; [|auto]. intros H.
    apply in_flat_map in H. destruct H as [x [_ Hx]]. destruct (find _ _) as [f0|] eqn:Ef; [|contradiction].
    destruct Hx as [<-|[]]. apply find_some in Ef. tauto.
  Qed.

  Lemma sorted_kept_ok cd : sorted_kept cd = true -> elems_sorted cd = cd_fields cd.
  Proof.
    unfold sorted_kept. intros H. apply andb_true_iff in H. destruct H as [Hn Hd]. apply strs_eqb_ok in Hn.
    assert (G : forall (R F : list fdef), (forall r, In r R -> In r (cd_fields cd)) -> (forall r, In r F -> In r (cd_fields cd)) ->
                map fd_name R = map fd_name F -> R = F).
    { induction R as [|r R IH]; intros [|f0 F] HR HF E; try discriminate; [reflexivity|].
      cbn [map] in E. injection E as E1 E2.
      rewrite (same_name_same_field (cd_fields cd) r f0 Hd (HR r (or_introl eq_refl)) (HF f0 (or_introl eq_refl)) E1).
      f_equal. apply IH; [intros; apply HR; right; assumption|intros; apply HF; right; assumption|exact E2]. }
    apply G; [apply elems_sorted_in|auto|exact Hn].
  Qed.

  Definition flat_cls_b (bf : nat) (cd : cdef) : bool :=
    sorted_kept cd && wf_depreq cd && forallb (flat_field bf) (cd_fields cd)
    && nodup_strs (map (fun fd => o_aliaser o (fd_alias fd)) (cd_fields cd)).

  Lemma flat_cls_b_ok bf cd : flat_cls_b bf cd = true -> flat_cls bf cd.
  Proof.
    unfold flat_cls_b, flat_cls. intros H. do 3 (apply andb_true_iff in H; destruct H as [H ?]).
    split; [apply sorted_kept_ok; assumption|]. split; [assumption|]. split; assumption.
  Qed.

  Definition flat_hyps (c bf : nat) (ign : bool) (d : pyval) : bool :=
    negb (refs (cname c) && negb ign) && flat_cls_b bf (get_cls u c) && negb (o_fallback o) && in_domain d.

  Theorem flat_class_agree_checked c bf f ign d :
    flat_hyps c bf ign d = true ->
    jvalid false ds jf (B (S bf) ign (TObj c)) d = accepts (sp (S f) None (TObj c) d).
  Proof.
    unfold flat_hyps. intros H. do 3 (apply andb_true_iff in H; destruct H as [H ?]).
    apply flat_class_agree; auto.
    - apply negb_true_iff in H. exact H.
    - apply flat_cls_b_ok. assumption.
    - match goal with Hx : negb (o_fallback o) = true |- _ => apply negb_true_iff in Hx; exact Hx end.
  Qed.
End Obj.

(* the hypotheses are satisfiable: a dataclass with an aliased required field, a constrained optional one, a list of unions *)
Definition flat_ex_univ : univ := mkU
  [ mkCls KData
      [ mkF "id" "id" TInt true VNone false None no_fser;
        mkF "name" "full_name" TStr false (VStr "") false (Some (mkC None None None None None (Some 1) None None None None false None None)) no_fser;
        mkF "tags" "tags" (TColl KList (TUnion [TStr; TInt; TNone])) false (VList []) false None no_fser ]
      [] [] [] false ]
  [].
Definition flat_ex_opts : dopts := mkO false false false true (fun s => s).
Definition flat_ex_good : pyval := PDict [("id", PInt 3); ("full_name", PStr "x"); ("tags", PList [PStr "a"; PInt 1; PNone])].
Definition flat_ex_bad : pyval := PDict [("id", PInt 3); ("full_name", PStr ""); ("zzz", PInt 0)].

Example flat_ex :
  flat_hyps flat_ex_univ flat_ex_opts (fun _ => false) 0 3 false flat_ex_good = true
  /\ flat_hyps flat_ex_univ flat_ex_opts (fun _ => false) 0 3 false flat_ex_bad = true
  /\ jvalid false [] 0 (build flat_ex_univ flat_ex_opts (fun _ => false) 4 false (TObj 0)) flat_ex_good = true
  /\ jvalid false [] 0 (build flat_ex_univ flat_ex_opts (fun _ => false) 4 false (TObj 0)) flat_ex_bad = false.
Proof. vm_compute. repeat split. Qed.
