(* Printer of schemas (diagnostics only). *)
From Coq Require Import List String ZArith Bool Arith.
From AV Require Import Core.Json Core.Text Deser.Model Schema.Json.
Import ListNotations.
Open Scope string_scope.

Definition show_jtype (t : jtype) : string :=
  match t with JNull => "null" | JBoolean => "boolean" | JString => "string" | JInteger => "integer" | JNumber => "number"
          | JArray => "array" | JObject => "object" end.

Definition show_prim (p : prim) : string :=
  match p with LNone => "null" | LBool true => "true" | LBool false => "false" | LInt z => show_Z z | LStr s => "'" ++ s ++ "'" end.

Definition show_con (c : constr) : string :=
  match c with
  | KMin c => "minimum:" ++ show_cnum c | KMax c => "maximum:" ++ show_cnum c
  | KExcMin c => "exclusiveMinimum:" ++ show_cnum c | KExcMax c => "exclusiveMaximum:" ++ show_cnum c
  | KMultOf c => "multipleOf:" ++ show_cnum c
  | KMinLen n => "minLength:" ++ show_nat n | KMaxLen n => "maxLength:" ++ show_nat n | KPattern p => "pattern:^" ++ p
  | KMinItems n => "minItems:" ++ show_nat n | KMaxItems n => "maxItems:" ++ show_nat n | KUnique => "uniqueItems:true"
  | KMinProps n => "minProperties:" ++ show_nat n | KMaxProps n => "maxProperties:" ++ show_nat n
  end.

Definition show_dr (l : list (string * list string)) : string :=
  "{" ++ join ", " (map (fun kd => fst kd ++ ":[" ++ join "," (snd kd) ++ "]") l) ++ "}".

Fixpoint show_js (s : js) : string :=
  match s with
  | JBoolS true => "true"
  | JBoolS false => "false"
  | JS kws =>
      "{" ++ join ", " ((fix all (ks : list kw) : list string :=
         match ks with
         | [] => []
         | k :: r =>
             (match k with
              | KwType ts => "type:[" ++ join "," (map show_jtype ts) ++ "]"
              | KwConst p => "const:" ++ show_prim p
              | KwEnum ps => "enum:[" ++ join "," (map show_prim ps) ++ "]"
              | KwCon c => show_con c
              | KwSetUnique => "uniqueItems:true(set)"
              | KwItems s' => "items:" ++ show_js s'
              | KwAddItems s' => "additionalItems:" ++ show_js s'
              | KwPropertyNames s' => "propertyNames:" ++ show_js s'
              | KwAddProps s' => "additionalProperties:" ++ show_js s'
              | KwPrefixItems ss => "prefixItems:[" ++ join ", " ((fix go (ss : list js) : list string :=
                                       match ss with [] => [] | x :: xr => show_js x :: go xr end) ss) ++ "]"
              | KwItemsArr ss => "items:[" ++ join ", " ((fix go (ss : list js) : list string :=
                                       match ss with [] => [] | x :: xr => show_js x :: go xr end) ss) ++ "]"
              | KwAnyOf ss => "anyOf:[" ++ join ", " ((fix go (ss : list js) : list string :=
                                       match ss with [] => [] | x :: xr => show_js x :: go xr end) ss) ++ "]"
              | KwAllOf ss => "allOf:[" ++ join ", " ((fix go (ss : list js) : list string :=
                                       match ss with [] => [] | x :: xr => show_js x :: go xr end) ss) ++ "]"
              | KwOneOf ss => "oneOf:[" ++ join ", " ((fix go (ss : list js) : list string :=
                                       match ss with [] => [] | x :: xr => show_js x :: go xr end) ss) ++ "]"
              | KwProperties ps => "properties:{" ++ join ", " ((fix go (ps : list (string * js)) : list string :=
                                       match ps with [] => [] | (n, x) :: xr => (n ++ ":" ++ show_js x) :: go xr end) ps) ++ "}"
              | KwPatternProps ps => "patternProperties:{" ++ join ", " ((fix go (ps : list (string * js)) : list string :=
                                       match ps with [] => [] | (n, x) :: xr => ("^" ++ n ++ ":" ++ show_js x) :: go xr end) ps) ++ "}"
              | KwRequired rs => "required:[" ++ join "," rs ++ "]"
              | KwDepReq l => "dependentRequired:" ++ show_dr l
              | KwDependencies l => "dependencies:" ++ show_dr l
              | KwRef _ n => "$ref:" ++ n
              | KwNullable => "nullable:true"
              | KwAnnot n => n ++ ":..."
              end) :: all r
         end) kws) ++ "}"
  end.

Definition show_defs (ds : defs) : string := join "; " (map (fun d => fst d ++ " = " ++ show_js (snd d)) ds).
