(* Text helpers: decimal rendering / parsing, ASCII lower-casing, prefix test.  No proofs. *)
From Coq Require Import List String ZArith Bool Arith Ascii.
From AV Require Import Core.Json.
Import ListNotations.
Open Scope string_scope.

Definition digit_char (n : nat) : ascii := ascii_of_nat (48 + n).

(* decimal digits of a positive number, by fuel on the binary size *)
Fixpoint show_pos_fuel (fuel : nat) (z : Z) (acc : string) : string :=
  match fuel with
  | O => acc
  | S f =>
      let d := Z.to_nat (z mod 10) in
      let acc' := String (digit_char d) acc in
      if Z.ltb z 10 then acc' else show_pos_fuel f (z / 10) acc'
  end.

Definition show_Z (z : Z) : string :=
  if Z.eqb z 0 then "0"
  else if Z.ltb z 0 then "-" ++ show_pos_fuel (S (Z.to_nat (Z.log2 (- z)))) (- z) ""
  else show_pos_fuel (S (Z.to_nat (Z.log2 z))) z "".

Definition show_nat (n : nat) : string := show_Z (Z.of_nat n).

(* repr of the float q/4 for moderate magnitudes *)
Definition show_q (q : Z) : string :=
  let a := Z.abs q in
  let ip := (a / 4)%Z in
  let fp := (a mod 4)%Z in
  (if Z.ltb q 0 then "-" else "") ++ show_Z ip ++ "." ++
  (if Z.eqb fp 0 then "0" else if Z.eqb fp 1 then "25" else if Z.eqb fp 2 then "5" else "75").

Definition show_fl (f : fl) : string :=
  match f with
  | FQ q => show_q q
  | FNan => "nan"
  | FInf neg => if neg then "-inf" else "inf"
  end.

Definition lower_char (c : ascii) : ascii :=
  let n := nat_of_ascii c in
  if (Nat.leb 65 n && Nat.leb n 90)%bool then ascii_of_nat (n + 32) else c.

Fixpoint lower (s : string) : string :=
  match s with EmptyString => EmptyString | String c r => String (lower_char c) (lower r) end.

Definition is_space (c : ascii) : bool :=
  let n := nat_of_ascii c in (Nat.eqb n 32 || (Nat.leb 9 n && Nat.leb n 13))%bool.

Fixpoint lstrip (s : string) : string :=
  match s with String c r => if is_space c then lstrip r else s | EmptyString => s end.

Fixpoint rev_string (s acc : string) : string :=
  match s with EmptyString => acc | String c r => rev_string r (String c acc) end.

Definition strip (s : string) : string := rev_string (lstrip (rev_string (lstrip s) "")) "".

Definition digit_val (c : ascii) : option Z :=
  let n := nat_of_ascii c in
  if (Nat.leb 48 n && Nat.leb n 57)%bool then Some (Z.of_nat (n - 48)) else None.

(* nonempty run of digits, nothing else *)
Fixpoint parse_digits (s : string) (acc : Z) (seen : bool) : option Z :=
  match s with
  | EmptyString => if seen then Some acc else None
  | String c r => match digit_val c with Some d => parse_digits r (10 * acc + d)%Z true | None => None end
  end.

Definition split_sign (s : string) : bool * string :=
  match s with
  | String "-"%char r => (true, r)
  | String "+"%char r => (false, r)
  | _ => (false, s)
  end.

(* int(str) on the modelled grammar: optional blanks, optional sign, digits *)
Definition parse_int (s : string) : option Z :=
  let (neg, body) := split_sign (strip s) in
  match parse_digits body 0%Z false with
  | Some z => Some (if neg then (- z)%Z else z)
  | None => None
  end.

Fixpoint split_dot (s : string) (acc : string) : string * option string :=
  match s with
  | EmptyString => (rev_string acc "", None)
  | String "."%char r => (rev_string acc "", Some r)
  | String c r => split_dot r (String c acc)
  end.

(* float(str) on the modelled grammar: [sign] digits [ "." frac ] with frac in {0, 25, 5, 50, 75, 00 ...}; result in quarters.
   Anything else is None (= ValueError); the harness only generates numeric strings inside this grammar. *)
Definition parse_frac (s : string) : option Z :=
  if String.eqb s "" then Some 0%Z
  else if (String.eqb s "0" || String.eqb s "00")%bool then Some 0%Z
  else if String.eqb s "25" then Some 1%Z
  else if (String.eqb s "5" || String.eqb s "50")%bool then Some 2%Z
  else if String.eqb s "75" then Some 3%Z
  else None.

Definition parse_float (s : string) : option Z :=
  let (neg, body) := split_sign (strip s) in
  let (ip, fp) := split_dot body "" in
  match parse_digits ip 0%Z false, fp with
  | Some z, None => Some (if neg then (- (4 * z))%Z else (4 * z)%Z)
  | Some z, Some f =>
      match parse_frac f with
      | Some q => Some (if neg then (- (4 * z + q))%Z else (4 * z + q)%Z)
      | None => None
      end
  | None, _ => None
  end.

Fixpoint prefixb (p s : string) : bool :=
  match p, s with
  | EmptyString, _ => true
  | String a r, String b r' => Ascii.eqb a b && prefixb r r'
  | _, _ => false
  end.

Fixpoint join (sep : string) (l : list string) : string :=
  match l with
  | [] => ""
  | [x] => x
  | x :: r => x ++ sep ++ join sep r
  end.
