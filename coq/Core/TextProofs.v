(* Decimal rendering is injective: the names C<n> / E<n> of the generated classes and enums identify them. *)
From Coq Require Import List String ZArith Bool Arith Ascii Lia.
From AV Require Import Core.Json Core.Text.
Import ListNotations.
Open Scope string_scope.

Fixpoint read_digits (s : string) (acc : Z) : Z :=
  match s with
  | EmptyString => acc
  | String c r => read_digits r (10 * acc + (Z.of_nat (nat_of_ascii c) - 48))%Z
  end.

Lemma digit_value d : (d < 10)%nat -> (Z.of_nat (nat_of_ascii (digit_char d)) - 48 = Z.of_nat d)%Z.
Proof. intros H. unfold digit_char. rewrite nat_ascii_embedding by lia. lia. Qed.

Open Scope Z_scope.

Lemma show_pos_read fuel : forall z acc, 0 < z -> z < 10 ^ Z.of_nat fuel ->
  exists p, z < p /\ forall a, read_digits (show_pos_fuel fuel z acc) a = read_digits acc (a * p + z).
Proof.
  induction fuel as [|f IH]; intros z acc Hz Hlt.
  - cbn in Hlt. lia.
  - cbn [show_pos_fuel].
    assert (Hd : (Z.to_nat (z mod 10) < 10)%nat).
    { pose proof (Z.mod_pos_bound z 10 ltac:(lia)). lia. }
    destruct (Z.ltb_spec z 10) as [Hs|Hb].
    + exists 10. split; [exact Hs|]. intros a. cbn [read_digits]. rewrite (digit_value _ Hd).
      rewrite Z2Nat.id by (apply Z.mod_pos_bound; lia). rewrite Z.mod_small by lia. f_equal. lia.
    + assert (Hq : 0 < z / 10) by (apply Z.div_str_pos; lia).
      assert (Hql : z / 10 < 10 ^ Z.of_nat f).
      { apply Z.div_lt_upper_bound; [lia|]. replace (10 * 10 ^ Z.of_nat f) with (10 ^ Z.of_nat (S f)); [exact Hlt|].
        rewrite Nat2Z.inj_succ, Z.pow_succ_r by lia. reflexivity. }
      destruct (IH (z / 10) (String (digit_char (Z.to_nat (z mod 10))) acc) Hq Hql) as [p [Hp Hr]].
      exists (10 * p). split.
      * pose proof (Z.div_mod z 10 ltac:(lia)). pose proof (Z.mod_pos_bound z 10 ltac:(lia)). lia.
      * intros a. rewrite Hr. cbn [read_digits]. rewrite (digit_value _ Hd).
        rewrite Z2Nat.id by (apply Z.mod_pos_bound; lia). f_equal.
        pose proof (Z.div_mod z 10 ltac:(lia)). lia.
Qed.

Lemma show_nat_read n : read_digits (show_nat n) 0 = Z.of_nat n.
Proof.
  unfold show_nat, show_Z. destruct (Z.eqb_spec (Z.of_nat n) 0) as [E|E]; [rewrite E; reflexivity|].
  destruct (Z.ltb_spec (Z.of_nat n) 0) as [H|H]; [lia|].
  set (z := Z.of_nat n) in *. assert (Hz : 0 < z) by lia.
  assert (Hlt : z < 10 ^ Z.of_nat (S (Z.to_nat (Z.log2 z)))).
  { rewrite Nat2Z.inj_succ, Z2Nat.id by apply Z.log2_nonneg.
    pose proof (Z.log2_spec z Hz) as [_ Hu]. eapply Z.lt_le_trans; [exact Hu|].
    apply Z.pow_le_mono_l. lia. }
  destruct (show_pos_read _ z "" Hz Hlt) as [p [_ Hr]]. rewrite Hr. cbn [read_digits]. lia.
Qed.

Close Scope Z_scope.

Theorem show_nat_inj a b : show_nat a = show_nat b -> a = b.
Proof.
  intros H. apply Nat2Z.inj. rewrite <- (show_nat_read a), <- (show_nat_read b), H. reflexivity.
Qed.
