(* Small executable helpers shared by the models and the case files. No proofs. *)
From Coq Require Import List String ZArith Bool Arith.
Import ListNotations.

Fixpoint list_eqb {A} (eqb : A -> A -> bool) (l1 l2 : list A) : bool :=
  match l1, l2 with
  | [], [] => true
  | x :: r1, y :: r2 => eqb x y && list_eqb eqb r1 r2
  | _, _ => false
  end.

Definition option_eqb {A} (eqb : A -> A -> bool) (o1 o2 : option A) : bool :=
  match o1, o2 with
  | None, None => true
  | Some x, Some y => eqb x y
  | _, _ => false
  end.

Definition strs_eqb := list_eqb String.eqb.
Definition opt_strs_eqb := option_eqb strs_eqb.

Definition mem_str (s : string) (l : list string) : bool := existsb (String.eqb s) l.
